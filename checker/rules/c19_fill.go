package rules

import (
	"fmt"
	"go/token"
	"go/types"
	"sort"
	"strings"

	"golang.org/x/tools/go/ssa"

	"verif/checker/core"
)

// R-ERR-25 — a slice that is filled through a running position has room for every store.
//
// A *running position* is an integer variable that is only ever initialised with
// constants and incremented by constants (`pos := 0 … s[pos] = v; pos++`) and that
// no loop containing the store tests in an exit condition — in SSA either a cycle
// of phis and `x + c` whose other inputs are constants (a local variable), or a
// cell (a variable captured by a closure) all of whose stores are constants or
// `*cell + c`. Loop indices (`for i := range xs`, `for i := 0; i < n; i++`, also
// with an offset: `s[i+1]`) are tested by their loop and belong to R-ERR-20.
//
// Obligation per store `s[pos] = v` / `s[pos].f = v` through such a position: pos < len(s)
// is shown, by one of
//
//	(P1) the bounds prover at the store (a dominating test `pos < len(s)`, intervals, …);
//	(P2) the position never runs ahead of the index of the loop that advances it: the
//	     position starts at a constant k0 in front of the loop, every path through one
//	     iteration advances it by at most one, the loop's own index u starts at k0 or
//	     above and advances by exactly one per iteration — so pos ≤ u — and u < len(s) is
//	     shown by the prover (in-place compaction: `xs[n] = xs[i]; n++` under a filter);
//	(P3) counting: s is make(T, N) in this function and N is at least k0 + the number of
//	     increments that can have been executed: every loop that advances the position
//	     advances it at most once per iteration and has a known trip count — `for range xs`
//	     / `for i := c; i < n; i++` (≤ len(xs) / n), `for range m` over a map that the loop
//	     does not write (≤ len(m)), a loop over the elements of each element of xs
//	     (Σ len(xs[i])) — and N is the sum of terms that cover them one by one
//	     (`make(T, len(xs))`, `make(T, len(a)+len(b)+1)`, an accumulator `n += len(x)` over the
//	     same xs run to completion).
//
// Anything else is reported: in particular a captured position that several
// functions advance (how often a callback runs is not visible), and a length
// that is a difference of sizes while the filling loops skip by membership
// tests — whether the skipped elements are exactly the subtracted ones is a
// value-level fact (duplicates in a user-written list break it).
//
// Not decided: reads through a running position; positions kept in struct fields;
// `copy(s[pos:], x); pos += len(x)` (variable steps).

func init() {
	Register(&Rule{ID: "R-ERR-25", Props: []string{"C19"}, Floor: 2,
		Doc: "in hand-written, non-interactive csvq code every store s[pos] = v (also s[pos].f = v) whose index is a RUNNING POSITION — an integer variable that is only initialised with constants and advanced by constant increments (a local: a cycle of phis and `x + c`; or a variable captured by closures whose every assignment is a constant or itself + c) and that no loop around the store tests in an exit condition (loop indices are R-ERR-20's) — has pos < len(s) shown: " +
			"(P1) by the bounds prover at the store (dominating `pos < len(s)`, intervals); (P2) the position starts at a constant, advances at most once per iteration of the one loop that advances it and therefore never runs ahead of that loop's own index u, and u < len(s) is shown (in-place compaction under a filter); " +
			"(P3) by counting: s is make(T, N) in the same function and N covers, term by term, the initial constant plus the trip counts of the loops that advance the position (at most once per iteration each): len(xs) for `for range xs`, n for `for i := c; i < n; i++`, len(m) for a range over a map the loop does not write, Σ len(xs[i]) for a loop over the elements of the elements of xs matched with an accumulator `n += len(x)` over the same xs run to completion; summands of N that cover nothing are shown ≥ 0. " +
			"Reported otherwise — a captured position that a callback advances (the number of calls is not visible), a length that is a DIFFERENCE of sizes while the filling loops skip by membership tests (USING (id, id): one distinct column is excluded but the join column is emitted once per mention → index out of range → Fatal Error). " +
			"Growing the slice with append instead needs no proof. Not decided: reads through a running position, positions in struct fields, variable steps (`pos += len(x)`)",
		Controls: []string{"CtlFillPastDifferenceOfSizes", "CtlFillCountedTwice"},
		Run:      ruleErr25})
}

// e25Counter: the running position behind an index value.
type e25Counter struct {
	cell    ssa.Value          // root cell for a captured variable; nil for a register counter
	base    ssa.Value          // idx = base + off
	off     int64              // constant offset of the index over base
	members map[ssa.Value]bool // register: the phis and increments of the cycle
	phis    []*ssa.Phi
	adds    []*ssa.BinOp
	k0      int64 // the largest constant the position is initialised with
	name    string
}

// e25AddConst: v is x + k or k + x with a positive integer constant k.
func e25AddConst(v ssa.Value) (x ssa.Value, k int64, ok bool) {
	b, isB := v.(*ssa.BinOp)
	if !isB || b.Op != token.ADD {
		return nil, 0, false
	}
	if k, ok := core.ConstInt(b.Y); ok && k > 0 {
		return b.X, k, true
	}
	if k, ok := core.ConstInt(b.X); ok && k > 0 {
		return b.Y, k, true
	}
	return nil, 0, false
}

// e25RegCounter: idx = p + off with p in a cycle of phis and `x + const` whose
// only other inputs are integer constants.
func e25RegCounter(idx ssa.Value) *e25Counter {
	base, off := core.LinearIndex(idx)
	p, ok := base.(*ssa.Phi)
	if !ok {
		return nil
	}
	ct := &e25Counter{base: p, off: off, members: map[ssa.Value]bool{}, k0: -1 << 62, name: p.Comment}
	okAll := true
	var walk func(v ssa.Value)
	walk = func(v ssa.Value) {
		if !okAll || ct.members[v] {
			return
		}
		switch x := v.(type) {
		case *ssa.Phi:
			ct.members[x] = true
			ct.phis = append(ct.phis, x)
			if ct.name == "" {
				ct.name = x.Comment
			}
			for _, e := range x.Edges {
				walk(e)
			}
		case *ssa.Const:
			k, isInt := core.ConstInt(x)
			if !isInt {
				okAll = false
				return
			}
			if k > ct.k0 {
				ct.k0 = k
			}
		case *ssa.BinOp:
			y, _, isAdd := e25AddConst(x)
			if !isAdd {
				okAll = false
				return
			}
			ct.members[x] = true
			ct.adds = append(ct.adds, x)
			walk(y)
		default:
			okAll = false
		}
	}
	walk(p)
	if !okAll || len(ct.adds) == 0 || ct.k0 == -1<<62 {
		return nil
	}
	if ct.name == "" {
		ct.name = "position"
	}
	return ct
}

// e25CellCounter: idx = *cell + off where every store to the cell (in its
// function and in the closures that capture it) is a constant or *cell + const.
func e25CellCounter(idx ssa.Value) *e25Counter {
	base, off := core.LinearIndex(idx)
	ld, ok := base.(*ssa.UnOp)
	if !ok || ld.Op != token.MUL {
		return nil
	}
	cell := e19CellRoot(ld.X)
	if cell == nil || !e19IsIntType(ld.Type()) {
		return nil
	}
	vals, complete := core.StoresTo(cell)
	if !complete || len(vals) == 0 {
		return nil
	}
	ct := &e25Counter{cell: cell, base: ld, off: off, k0: -1 << 62, name: e19ExprLabel(ld)}
	for _, v := range vals {
		if k, isK := core.ConstInt(v); isK {
			if k > ct.k0 {
				ct.k0 = k
			}
			continue
		}
		x, _, isAdd := e25AddConst(v)
		if !isAdd {
			return nil
		}
		l2, ok := x.(*ssa.UnOp)
		if !ok || l2.Op != token.MUL || e19CellRoot(l2.X) != cell {
			return nil
		}
		ct.adds = append(ct.adds, v.(*ssa.BinOp))
	}
	if len(ct.adds) == 0 || ct.k0 == -1<<62 {
		return nil
	}
	return ct
}

// e25IsWrite: the element address is stored through (s[i] = v, s[i].f = v, s[i][k] = v for arrays).
func e25IsWrite(addr ssa.Value, d int) bool {
	refs := addr.Referrers()
	if refs == nil || d > 4 {
		return false
	}
	for _, r := range *refs {
		switch x := r.(type) {
		case *ssa.Store:
			if x.Addr == addr {
				return true
			}
		case *ssa.FieldAddr:
			if x.X == addr && e25IsWrite(x, d+1) {
				return true
			}
		case *ssa.IndexAddr:
			if _, isArr := addr.Type().Underlying().(*types.Pointer).Elem().Underlying().(*types.Array); isArr && x.X == addr && e25IsWrite(x, d+1) {
				return true
			}
		}
	}
	return false
}

// e25IsMember: v (modulo constant offsets and integer conversions) is the position.
func (ct *e25Counter) isMember(v ssa.Value, idx ssa.Value) bool {
	for d := 0; d < 4; d++ {
		if cv, ok := v.(*ssa.Convert); ok {
			v = cv.X
			continue
		}
		break
	}
	if v == idx {
		return true
	}
	b, _ := core.LinearIndex(v)
	if b == nil {
		return false
	}
	if ct.cell != nil {
		ld, ok := b.(*ssa.UnOp)
		return ok && ld.Op == token.MUL && e19CellRoot(ld.X) == ct.cell
	}
	return ct.members[b] || ct.members[v]
}

// e25LoopControlled: an exit condition of a loop around `at` compares the position.
func e25LoopControlled(ct *e25Counter, idx ssa.Value, at ssa.Instruction, loops []*core.Loop) bool {
	for _, l := range loops {
		if !l.Blocks[at.Block()] {
			continue
		}
		for _, ed := range l.ExitEdges(true) {
			iff, ok := e19LastInstr(ed[0]).(*ssa.If)
			if !ok {
				continue
			}
			cmp, ok := iff.Cond.(*ssa.BinOp)
			if !ok {
				continue
			}
			switch cmp.Op {
			case token.LSS, token.LEQ, token.GTR, token.GEQ, token.EQL, token.NEQ:
			default:
				continue
			}
			if ct.isMember(cmp.X, idx) || ct.isMember(cmp.Y, idx) {
				return true
			}
		}
	}
	return false
}

// e25Loop: what is known about the trip count of a natural loop.
type e25Loop struct {
	l      *core.Loop
	ind    *ssa.Phi  // induction variable of the header: ind = phi[j0, ind+1]
	j0     int64     // its initial constant
	u      ssa.Value // the value the header tests: u = ind + a, u < bound in the body
	a      int64
	bound  ssa.Value // trips ≤ bound (j0 + a ≥ 0)
	ranged ssa.Value // X when bound is len(X)
	mapped ssa.Value // M for `for … := range M` over a map
}

func e25LoopInfo(l *core.Loop) *e25Loop {
	h := l.Header
	iff, ok := e19LastInstr(h).(*ssa.If)
	if !ok || len(h.Succs) != 2 {
		return nil
	}
	stayTrue := l.Blocks[h.Succs[0]] && !l.Blocks[h.Succs[1]]
	stayFalse := !l.Blocks[h.Succs[0]] && l.Blocks[h.Succs[1]]
	if !stayTrue && !stayFalse {
		return nil
	}
	info := &e25Loop{l: l}
	// range over a map: ok of next(range M)
	if ex, isEx := iff.Cond.(*ssa.Extract); isEx && ex.Index == 0 && stayTrue {
		if nx, isNx := ex.Tuple.(*ssa.Next); isNx && !nx.IsString && nx.Block() == h {
			if rg, isRg := nx.Iter.(*ssa.Range); isRg && !l.Blocks[rg.Block()] {
				if _, isMap := rg.X.Type().Underlying().(*types.Map); isMap {
					info.mapped = rg.X
					return info
				}
			}
		}
		return nil
	}
	cmp, ok := iff.Cond.(*ssa.BinOp)
	if !ok {
		return nil
	}
	op := cmp.Op
	if stayFalse {
		op = e19Neg(op)
	}
	var u, bound ssa.Value
	switch op {
	case token.LSS:
		u, bound = cmp.X, cmp.Y
	case token.GTR:
		u, bound = cmp.Y, cmp.X
	default:
		return nil
	}
	base, a := core.LinearIndex(u)
	p, ok := base.(*ssa.Phi)
	if !ok || p.Block() != h {
		return nil
	}
	_, j0, isConst, step, ok := core.Induction(p)
	if !ok || !isConst || step != 1 || j0+a < 0 {
		return nil
	}
	// the bound does not change while the loop runs: defined outside, or len/cap of a value defined outside
	if bi, isInstr := bound.(ssa.Instruction); isInstr && l.Blocks[bi.Block()] {
		arg := e19LenArg(bound)
		if arg == nil {
			return nil
		}
		if ai, isInstr := arg.(ssa.Instruction); isInstr && l.Blocks[ai.Block()] && !e25OnceAssignedBefore(arg, l) {
			return nil
		}
	}
	info.ind, info.j0, info.u, info.a, info.bound = p, j0, u, a, bound
	info.ranged = e19LenArg(bound)
	return info
}

// e25OnceAssignedBefore: v, read inside loop l, is the load of a local variable that
// lives in a cell only because closures capture it, and that is assigned exactly once,
// in the function of the loop, before the loop is entered (the store dominates the
// header and is outside the loop) — neither the loop nor a closure it may call can
// change it, so `i < len(v)` re-evaluated by a three-clause loop tests the same length
// as `range v` does.
func e25OnceAssignedBefore(v ssa.Value, l *core.Loop) bool {
	ld, ok := v.(*ssa.UnOp)
	if !ok || ld.Op != token.MUL {
		return false
	}
	cell, ok := ld.X.(*ssa.Alloc)
	if !ok || cell.Parent() != l.Header.Parent() {
		return false
	}
	vals, complete := core.StoresTo(cell)
	if !complete || len(vals) != 1 {
		return false
	}
	for _, r := range *cell.Referrers() {
		if st, isSt := r.(*ssa.Store); isSt && st.Addr == ssa.Value(cell) {
			return !l.Blocks[st.Block()] && st.Block().Dominates(l.Header)
		}
	}
	return false // the one store is in a closure
}

// e25Fn: per-function loop structure (memoised for the run of the rule).
type e25Fn struct {
	loops []*core.Loop
	info  map[*core.Loop]*e25Loop
	byHdr map[*ssa.BasicBlock]*core.Loop
}

func e25FnOf(memo map[*ssa.Function]*e25Fn, fn *ssa.Function) *e25Fn {
	if f, ok := memo[fn]; ok {
		return f
	}
	f := &e25Fn{loops: core.NaturalLoops(fn), info: map[*core.Loop]*e25Loop{}, byHdr: map[*ssa.BasicBlock]*core.Loop{}}
	for _, l := range f.loops {
		f.info[l] = e25LoopInfo(l)
		f.byHdr[l.Header] = l
	}
	memo[fn] = f
	return f
}

// e25Rel: the largest amount by which v exceeds the header phi c of loop l within
// one iteration. strict: crossing an inner loop that advances the position fails;
// otherwise the inner loop's own gain is left out (it is accounted per iteration
// of the inner loop).
func e25Rel(ct *e25Counter, f *e25Fn, l *core.Loop, c *ssa.Phi, v ssa.Value, strict bool) (int64, bool) {
	busy := map[ssa.Value]bool{}
	var rel func(v ssa.Value) (int64, bool)
	rel = func(v ssa.Value) (int64, bool) {
		if v == ssa.Value(c) {
			return 0, true
		}
		if busy[v] || !ct.members[v] {
			return 0, false
		}
		busy[v] = true
		defer delete(busy, v)
		switch x := v.(type) {
		case *ssa.BinOp:
			y, k, ok := e25AddConst(x)
			if !ok || !l.Blocks[x.Block()] {
				return 0, false
			}
			r, ok := rel(y)
			return r + k, ok
		case *ssa.Phi:
			if !l.Blocks[x.Block()] {
				return 0, false
			}
			inner := f.byHdr[x.Block()]
			best, have := int64(0), false
			for i, e := range x.Edges {
				pred := x.Block().Preds[i]
				if inner != nil && inner.Blocks[pred] {
					// a back edge of an inner loop
					if e == ssa.Value(x) {
						continue
					}
					if strict {
						return 0, false
					}
					continue
				}
				r, ok := rel(e)
				if !ok {
					return 0, false
				}
				if !have || r > best {
					best, have = r, true
				}
			}
			return best, have
		}
		return 0, false
	}
	return rel(v)
}

// e25HeaderPhi: the member phi in the header of l (exactly one), or nil.
func e25HeaderPhi(ct *e25Counter, l *core.Loop) *ssa.Phi {
	var out *ssa.Phi
	for _, p := range ct.phis {
		if p.Block() == l.Header {
			if out != nil {
				return nil
			}
			out = p
		}
	}
	return out
}

// e25Gain: the most one iteration of l adds to its header phi (strict or not as e25Rel).
func e25Gain(ct *e25Counter, f *e25Fn, l *core.Loop, c *ssa.Phi, strict bool) (int64, bool) {
	g, have := int64(0), false
	for i, e := range c.Edges {
		if !l.Blocks[c.Block().Preds[i]] {
			continue
		}
		r, ok := e25Rel(ct, f, l, c, e, strict)
		if !ok {
			return 0, false
		}
		if !have || r > g {
			g, have = r, true
		}
	}
	return g, have
}

type e25Checker struct {
	c    *Ctx
	pr   *e19Prover
	memo map[*ssa.Function]*e25Fn
}

// carrying loops around `at`, innermost first
func (k *e25Checker) carrying(ct *e25Counter, f *e25Fn, b *ssa.BasicBlock) []*core.Loop {
	var out []*core.Loop
	for _, l := range f.loops {
		if l.Blocks[b] && e25HeaderPhi(ct, l) != nil {
			out = append(out, l)
		}
	}
	sort.SliceStable(out, func(i, j int) bool { return len(out[i].Blocks) < len(out[j].Blocks) })
	return out
}

// p2: the position never runs ahead of the index of the loop that advances it.
func (k *e25Checker) p2(ct *e25Counter, f *e25Fn, ia *ssa.IndexAddr) string {
	cl := k.carrying(ct, f, ia.Block())
	if len(cl) == 0 {
		return ""
	}
	l := cl[0]
	c := e25HeaderPhi(ct, l)
	k0 := int64(-1 << 62)
	for i, e := range c.Edges {
		if l.Blocks[c.Block().Preds[i]] {
			continue
		}
		v, ok := core.ConstInt(e)
		if !ok {
			return ""
		}
		if v > k0 {
			k0 = v
		}
	}
	g, ok := e25Gain(ct, f, l, c, true)
	if !ok || g > 1 || k0 == -1<<62 {
		return ""
	}
	d, ok := e25Rel(ct, f, l, c, ct.base, true)
	if !ok {
		return ""
	}
	d += ct.off
	info := f.info[l]
	if info == nil || info.ind == nil {
		return ""
	}
	// iteration t (from 0): position at its start ≤ k0 + t, ind = j0 + t, u = ind + a
	if k0-info.j0+d-info.a > 0 {
		return ""
	}
	if !k.pr.le(info.u, e19Term{base: ia.X}, true, core.FactsAt(ia.Block()), ia, 0) {
		return ""
	}
	return fmt.Sprintf("the position starts at %d, advances at most once per iteration and so never runs ahead of the loop's own index (%s), which is shown < len of the slice", k0, e25IndexLabel(info))
}

// e25Term: one summand of the number of increments.
type e25Term struct {
	loop   *e25Loop  // single loop: trips ≤ bound / len(map)
	nested ssa.Value // X: Σ len(X[i]) (loop over the elements of each element of X)
	what   string
}

// e25Atoms splits a length expression into its constant part and the other summands.
func e25Atoms(n ssa.Value) (int64, []ssa.Value) {
	var k int64
	var atoms []ssa.Value
	var walk func(v ssa.Value, d int)
	walk = func(v ssa.Value, d int) {
		if c, ok := core.ConstInt(v); ok {
			k += c
			return
		}
		if d < 6 {
			switch x := v.(type) {
			case *ssa.BinOp:
				if x.Op == token.ADD {
					walk(x.X, d+1)
					walk(x.Y, d+1)
					return
				}
			case *ssa.Convert:
				if e19IsIntType(x.X.Type()) && e19IsIntType(x.Type()) {
					walk(x.X, d+1)
					return
				}
			}
		}
		atoms = append(atoms, v)
	}
	walk(n, 0)
	return k, atoms
}

// e25ElemOf: e is X[u] (a load of the element of `ranged` at the index the loop tests).
func e25ElemOf(e ssa.Value, info *e25Loop) bool {
	ld, ok := e.(*ssa.UnOp)
	if !ok || ld.Op != token.MUL {
		return false
	}
	ea, ok := ld.X.(*ssa.IndexAddr)
	return ok && info.ranged != nil && ea.Index == info.u && (core.SameVal(ea.X, info.ranged) || e19SameBase(ea.X, info.ranged))
}

// e25Accumulator: v is n after `n := 0; for … range X { n += len(X[i]) }` run to completion → X.
func (k *e25Checker) accumulator(f *e25Fn, v ssa.Value, at ssa.Instruction) ssa.Value {
	p, ok := v.(*ssa.Phi)
	if !ok {
		return nil
	}
	l := f.byHdr[p.Block()]
	if l == nil || l.Blocks[at.Block()] || len(l.ExitEdges(false)) > 0 {
		return nil
	}
	info := f.info[l]
	if info == nil || info.ind == nil || info.ranged == nil || info.j0+info.a != 0 {
		return nil
	}
	for i, e := range p.Edges {
		if !l.Blocks[p.Block().Preds[i]] {
			if z, ok := core.ConstInt(e); !ok || z != 0 {
				return nil
			}
			continue
		}
		add, ok := e.(*ssa.BinOp)
		if !ok || add.Op != token.ADD {
			return nil
		}
		var ln ssa.Value
		switch {
		case add.X == ssa.Value(p):
			ln = add.Y
		case add.Y == ssa.Value(p):
			ln = add.X
		default:
			return nil
		}
		arg := e19LenArg(ln)
		if arg == nil || !e25ElemOf(arg, info) {
			return nil
		}
	}
	return info.ranged
}

// e25ElemWritten: the function stores into an element slot of X (X[i] = …), so the element lengths may change.
func e25ElemWritten(fn *ssa.Function, x ssa.Value) bool {
	for _, b := range fn.Blocks {
		for _, in := range b.Instrs {
			st, ok := in.(*ssa.Store)
			if !ok {
				continue
			}
			if ea, ok := st.Addr.(*ssa.IndexAddr); ok && (core.SameVal(ea.X, x) || e19SameBase(ea.X, x)) {
				return true
			}
		}
	}
	return false
}

func e25MapWritten(l *core.Loop, m ssa.Value) bool {
	for b := range l.Blocks {
		for _, in := range b.Instrs {
			if mu, ok := in.(*ssa.MapUpdate); ok && core.SameVal(mu.Map, m) {
				return true
			}
			if call, ok := in.(ssa.CallInstruction); ok {
				for _, a := range call.Common().Args {
					if core.SameVal(a, m) {
						return true
					}
				}
			}
		}
	}
	return false
}

// p3: counting. Returns the reason it holds, or "" and the reason it does not.
func (k *e25Checker) p3(ct *e25Counter, f *e25Fn, fn *ssa.Function, ia *ssa.IndexAddr) (string, string) {
	var makes []*ssa.MakeSlice
	for _, o := range core.Origins(e19ThroughLocalStore(ia.X), false) {
		ms, ok := e19ThroughLocalStore(o).(*ssa.MakeSlice)
		if !ok {
			return "", "the slice is not (only) made in this function"
		}
		if ms.Parent() != fn {
			return "", "the slice is made in the enclosing function: its length is not comparable with this function's loops"
		}
		makes = append(makes, ms)
	}
	if len(makes) == 0 {
		return "", "the slice is not made in this function"
	}
	// loops that advance the position
	var cl []*core.Loop
	for _, l := range f.loops {
		if e25HeaderPhi(ct, l) != nil {
			cl = append(cl, l)
			continue
		}
		for _, p := range ct.phis {
			if p.Block() == l.Header {
				return "", "two variables of the position meet in one loop header"
			}
		}
	}
	inCarrying := func(b *ssa.BasicBlock) bool {
		for _, l := range cl {
			if l.Blocks[b] {
				return true
			}
		}
		return false
	}
	top := int64(0)
	for _, a := range ct.adds {
		if !inCarrying(a.Block()) {
			_, s, _ := e25AddConst(a)
			top += s
		}
	}
	var terms []e25Term
	gain := map[*core.Loop]int64{}
	for _, l := range cl {
		c := e25HeaderPhi(ct, l)
		g, ok := e25Gain(ct, f, l, c, false)
		if !ok {
			return "", "the advance per iteration of the loop at " + k.c.P.Pos(l.Header.Instrs[0].Pos()) + " is not a constant"
		}
		gain[l] = g
		if g == 0 {
			continue
		}
		if g > 1 {
			return "", fmt.Sprintf("one iteration advances the position by up to %d", g)
		}
		var outer []*core.Loop
		for _, o := range cl {
			if o != l && o.Blocks[l.Header] {
				outer = append(outer, o)
			}
		}
		info := f.info[l]
		if info == nil {
			return "", "the trip count of a loop that advances the position is not known (no `i < n` / range exit test in its header)"
		}
		switch len(outer) {
		case 0:
			if info.mapped != nil && e25MapWritten(l, info.mapped) {
				return "", "the ranged map may be written while the loop runs"
			}
			what := "len(map)"
			if info.bound != nil {
				what = e25LenLabel(info.bound)
			} else {
				what = "len(" + e19ExprLabel(info.mapped) + ")"
			}
			terms = append(terms, e25Term{loop: info, what: what})
		case 1:
			oi := f.info[outer[0]]
			if oi == nil || oi.ind == nil || oi.ranged == nil || info.ranged == nil || !e25ElemOf(info.ranged, oi) {
				return "", "the inner loop that advances the position does not run over the current element of the outer loop's slice"
			}
			if e25ElemWritten(fn, oi.ranged) {
				return "", "elements of the outer slice are assigned in this function"
			}
			terms = append(terms, e25Term{nested: oi.ranged, what: "Σ len of the elements of " + e19ExprLabel(oi.ranged)})
		default:
			return "", "the position is advanced in a loop nest deeper than two"
		}
	}
	// the index at the store
	ub := ct.k0 + top + ct.off
	if here := k.carrying(ct, f, ia.Block()); len(here) > 0 {
		l := here[0]
		if d, ok := e25Rel(ct, f, l, e25HeaderPhi(ct, l), ct.base, true); ok {
			ub += d - gain[l]
		}
	}
	var whyNot string
	for _, ms := range makes {
		kN, atoms := e25Atoms(ms.Len)
		used := make([]bool, len(atoms))
		for _, t := range terms {
			found := false
			for i, a := range atoms {
				if used[i] {
					continue
				}
				ok := false
				switch {
				case t.nested != nil:
					if x := k.accumulator(f, a, ms); x != nil && (core.SameVal(x, t.nested) || e19SameBase(x, t.nested)) {
						ok = true
					}
				case t.loop.mapped != nil:
					if arg := e19LenArg(a); arg != nil && core.SameVal(arg, t.loop.mapped) {
						ok = true
					}
				default:
					ok = k.pr.matches(t.loop.bound, e19Term{val: a}) || k.pr.le(t.loop.bound, e19Term{val: a}, false, core.FactsAt(ia.Block()), ia, 0)
				}
				if ok {
					used[i], found = true, true
					break
				}
			}
			if !found {
				whyNot = fmt.Sprintf("the length %s has no summand that covers %s", e25LenLabel(ms.Len), t.what)
				break
			}
		}
		if whyNot == "" {
			// summands that cover nothing must not take anything away
			for i, a := range atoms {
				if !used[i] && !(k.pr.lo(a, ms) >= 0) {
					whyNot = fmt.Sprintf("the summand %s of the length is not shown ≥ 0", e25LenLabel(a))
					break
				}
			}
		}
		if whyNot == "" && ub+1 > kN {
			whyNot = fmt.Sprintf("the constant part of the length (%d) does not cover the initial value and the increments outside loops (%d needed)", kN, ub+1)
		}
		if whyNot != "" {
			return "", whyNot
		}
	}
	var ws []string
	for _, t := range terms {
		ws = append(ws, t.what)
	}
	if len(ws) == 0 {
		ws = append(ws, "no loop")
	}
	return fmt.Sprintf("counting: the position advances at most once per iteration of the loop(s) bounded by %s, and the slice is made with a length that covers them term by term", strings.Join(ws, " + ")), ""
}

// e25IndexLabel names the index a loop tests.
func e25IndexLabel(info *e25Loop) string {
	if info.ranged != nil {
		return "ranging over " + e19ExprLabel(info.ranged)
	}
	if p, ok := info.u.(*ssa.Phi); ok && p.Comment != "" {
		return p.Comment + " < " + e25LenLabel(info.bound)
	}
	return "< " + e25LenLabel(info.bound)
}

func e25LenLabel(n ssa.Value) string {
	switch x := n.(type) {
	case *ssa.BinOp:
		return e25LenLabel(x.X) + " " + x.Op.String() + " " + e25LenLabel(x.Y)
	case *ssa.Const:
		return x.Value.String()
	case *ssa.Call:
		if arg := e19LenArg(x); arg != nil {
			return "len(" + e19ExprLabel(arg) + ")"
		}
		if f := x.Common().StaticCallee(); f != nil {
			return f.Name() + "()"
		}
	case *ssa.UnOp:
		if x.Op == token.MUL {
			if c := e19CellRoot(x.X); c != nil {
				if vals, complete := core.StoresTo(c); complete && len(vals) == 1 {
					if _, again := vals[0].(*ssa.UnOp); !again {
						return e19ExprLabel(x) + " = " + e25LenLabel(vals[0])
					}
				}
			}
		}
	}
	return e19ExprLabel(n)
}

// e25HowSized: how the filled slice was allocated (for the diagnostic).
func e25HowSized(s ssa.Value) string {
	var parts []string
	for _, o := range core.Origins(e19ThroughLocalStore(s), false) {
		switch x := e19ThroughLocalStore(o).(type) {
		case *ssa.MakeSlice:
			parts = append(parts, "make(…, "+e25LenLabel(x.Len)+")")
		default:
			parts = append(parts, e19ExprLabel(o))
		}
	}
	sort.Strings(parts)
	return strings.Join(parts, " / ")
}

func ruleErr25(c *Ctx) {
	e := e19NewBounds(c)
	k := &e25Checker{c: c, pr: &e19Prover{c: c, e: e, busy: map[e19BusyKey]bool{}}, memo: map[*ssa.Function]*e25Fn{}}
	seq := e19SeqKey{}
	for _, fn := range e19HandWritten(c, nil, "lib/terminal") {
		for _, b := range fn.Blocks {
			for _, in := range b.Instrs {
				ia, ok := in.(*ssa.IndexAddr)
				if !ok {
					continue
				}
				if _, isSlice := ia.X.Type().Underlying().(*types.Slice); !isSlice {
					continue
				}
				if _, isC := ia.Index.(*ssa.Const); isC {
					continue
				}
				ct := e25RegCounter(ia.Index)
				if ct == nil {
					ct = e25CellCounter(ia.Index)
				}
				if ct == nil || !e25IsWrite(ia, 0) {
					continue
				}
				f := e25FnOf(k.memo, fn)
				if e25LoopControlled(ct, ia.Index, ia, f.loops) {
					continue // a loop index (possibly with an offset): R-ERR-20's clause
				}
				c.Sites++
				c.Touch(fn)
				idxLabel := ct.name
				if ct.off != 0 {
					idxLabel = fmt.Sprintf("%s%+d", ct.name, ct.off)
				}
				key := seq.key(c, e19KeyFn(c, fn), fmt.Sprintf("%s[%s] filled through the running position %s", e19ExprLabel(ia.X), idxLabel, ct.name))
				if k.pr.le(ia.Index, e19Term{base: ia.X}, true, core.FactsAt(ia.Block()), ia, 0) {
					c.Ok(key, c.Pos(ia), "position shown < len of the slice at the store (dominating test / interval)")
					continue
				}
				whyNot := ""
				if ct.cell == nil {
					if why := k.p2(ct, f, ia); why != "" {
						c.Ok(key, c.Pos(ia), why)
						continue
					}
					why, not := k.p3(ct, f, fn, ia)
					if why != "" {
						c.Ok(key, c.Pos(ia), why)
						continue
					}
					whyNot = not
				} else {
					var where []string
					seen := map[string]bool{}
					for _, a := range ct.adds {
						n := c.P.Name(a.Parent())
						if !seen[n] {
							seen[n] = true
							where = append(where, n)
						}
					}
					sort.Strings(where)
					whyNot = "the position is a variable shared with closures and advanced in " + strings.Join(where, ", ") + ": how often each of them runs is not visible, and no test `" + ct.name + " < len(…)` dominates the store"
				}
				sized := e25HowSized(ia.X)
				diff := ""
				if strings.Contains(sized, " - ") {
					diff = " The length is a difference of sizes: it assumes that every subtracted element is distinct and is skipped exactly once by the filling loops (a column named twice in a user-written list breaks that)."
				}
				c.Bad(key, c.Pos(ia), fmt.Sprintf("%s is written at the running position %s (initialised with a constant, advanced by %d increment(s), tested by no loop) but nothing shows the position < len of the slice, sized as %s: %s.%s When more elements are emitted than were allocated the store runs past the end: index out of range → internal Fatal Error. Grow the slice with append, or allocate the number of stores", e19ExprLabel(ia.X), ct.name, len(ct.adds), sized, whyNot, diff))
			}
		}
	}
}
