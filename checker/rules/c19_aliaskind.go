package rules

import (
	"fmt"
	"go/token"
	"go/types"

	"golang.org/x/tools/go/ssa"

	"verif/checker/core"
)

// R-TMPKIND-1 — whether a name is a temporary table is decided on the name as it
// is written, once.
//
// loadObject resolves a table reference in a fixed order (inline table,
// temporary table, file) by the identifier of the statement and records the
// result in the alias map of the scope node: the upper-cased NAME of a
// temporary table or the upper-cased PATH of a file. The two name spaces
// overlap (a temporary table may be declared under the absolute path of a
// file), so a value read back from the alias map does not tell which of the
// two it is. Code that asks TemporaryTableExists(<value from the alias map>)
// re-decides the kind with a different key than the loader used: UPDATE t on
// the file /dir/t.csv then edits the temporary table `/dir/t.csv` with the
// record numbers of the file (index out of range, or the wrong table changed).

func init() {
	Register(&Rule{ID: "R-TMPKIND-1", Props: []string{"C19", "C01"}, Floor: 3,
		Doc:      "every existence test of the temporary-table name space ((*ReferenceScope).TemporaryTableExists, and (ViewMap).Exists on a BlockScope.TemporaryTables field) is asked with a name as written in the statement: its argument does not originate — through Phi, local cells, string concatenation / case mapping, struct fields of a returned record, helper parameters (two levels of static callers) — from a call of (AliasMap).Get or of a function that returns what such a call yields (GetAlias, a record with the resolved path in a field), i.e. from a resolved alias, whose kind (temporary table or file) was fixed when it was loaded and cannot be re-derived from the path",
		Controls: []string{"CtlAliasPathAsTempName"},
		Run:      ruleTmpKind1})
}

func ruleTmpKind1(c *Ctx) {
	exists := c.Fn("lib/query.(*ReferenceScope).TemporaryTableExists")
	aliasGet := c.Fn("lib/query.(AliasMap).Get")
	if exists == nil || aliasGet == nil {
		return
	}
	// yieldsAlias: result #idx of the call IS a value read from the alias map — the
	// callee is (AliasMap).Get or returns, at that index (or in a field of the
	// record at that index), what such a call yields (GetAlias, AliasTarget …).
	// Mere reachability of the alias map in the call graph says nothing about
	// the result (NormalizeTableObject evaluates arbitrary expressions).
	memo := map[string]bool{}
	var yields func(f *ssa.Function, idx, depth int) bool
	var fromAlias func(v ssa.Value, depth int, seen map[ssa.Value]bool) bool
	yields = func(f *ssa.Function, idx, depth int) bool {
		if f == aliasGet {
			return idx == 0
		}
		if f == nil || f.Blocks == nil || depth > 3 || c.P.Name(f) == "" {
			return false
		}
		k := fmt.Sprintf("%p/%d", f, idx)
		if r, ok := memo[k]; ok {
			return r
		}
		memo[k] = false
		r := false
		for _, rv := range core.ReturnedValues(f, idx) {
			if fromAlias(rv, depth+1, map[ssa.Value]bool{}) {
				r = true
				break
			}
		}
		memo[k] = r
		return r
	}
	fromAlias = func(v ssa.Value, depth int, seen map[ssa.Value]bool) bool {
		for _, o := range core.Origins(v, true) {
			if seen[o] {
				continue
			}
			seen[o] = true
			if call, idx, ok := core.ExtractOf(o); ok {
				if yields(call.Common().StaticCallee(), idx, depth) {
					return true
				}
				continue
			}
			// a record assembled in a local cell (named result `target`): what is stored into its fields
			if ld, ok := o.(*ssa.UnOp); ok && ld.Op == token.MUL {
				if cell, ok := ld.X.(*ssa.Alloc); ok && cell.Referrers() != nil {
					for _, ref := range *cell.Referrers() {
						fa, ok := ref.(*ssa.FieldAddr)
						if !ok || fa.Referrers() == nil {
							continue
						}
						for _, r2 := range *fa.Referrers() {
							if st, ok := r2.(*ssa.Store); ok && st.Addr == fa && fromAlias(st.Val, depth, seen) {
								return true
							}
						}
					}
				}
			}
		}
		return false
	}
	reachesAlias := func(call ssa.CallInstruction) bool {
		cc, ok := call.(*ssa.Call)
		if !ok {
			return false
		}
		n := 1
		if t, ok := cc.Type().(*types.Tuple); ok {
			n = t.Len()
		}
		for i := 0; i < n; i++ {
			if yields(cc.Common().StaticCallee(), i, 0) {
				return true
			}
		}
		return false
	}
	// isTest: the call asks whether a temporary table of that name exists; returns the name argument
	isTest := func(call ssa.CallInstruction) (ssa.Value, bool) {
		com := call.Common()
		f := com.StaticCallee()
		if f == nil {
			return nil, false
		}
		if f == exists && len(com.Args) == 2 {
			return com.Args[1], true
		}
		if c.P.Name(f) == "lib/query.(ViewMap).Exists" && len(com.Args) == 2 {
			// receiver loaded from a field named TemporaryTables
			if ld, ok := com.Args[0].(*ssa.UnOp); ok && ld.Op == token.MUL {
				if fa, ok := ld.X.(*ssa.FieldAddr); ok && aliasFieldName(fa) == "TemporaryTables" {
					return com.Args[1], true
				}
			}
		}
		return nil, false
	}
	seq := e19SeqKey{}
	for _, fn := range c.P.SrcFuncs() {
		if fn == exists {
			continue // the test itself forwards its parameter to the per-block maps
		}
		for _, b := range fn.Blocks {
			for _, in := range b.Instrs {
				call, ok := in.(ssa.CallInstruction)
				if !ok {
					continue
				}
				arg, ok := isTest(call)
				if !ok {
					continue
				}
				c.Sites++
				c.Touch(fn)
				key := seq.key(c, e19KeyFn(c, fn), "temporary-table test of "+e19ExprLabel(arg)) // a single-caller helper keeps its caller's key
				if src := aliasSource(c, arg, reachesAlias); src != nil {
					c.Bad(key, c.Pos(in), fmt.Sprintf("the name tested here comes from the alias map (%s at %s): a resolved alias is the upper-cased path of a file OR the name of a temporary table, and a temporary table may be declared under the path of a file — the test re-decides the kind of the table with another key than loadObject used (the name as written), so a statement on the file is applied to the temporary table of the same path (index out of range / wrong table changed). Read the kind from the alias record instead", calleeLabel(src), c.P.InstrPos(src)))
				} else {
					c.Ok(key, c.Pos(in), "the tested name does not come from the alias map")
				}
			}
		}
	}
}

func aliasFieldName(fa *ssa.FieldAddr) string {
	t := fa.X.Type()
	if p, ok := t.Underlying().(*types.Pointer); ok {
		t = p.Elem()
	}
	if st, ok := t.Underlying().(*types.Struct); ok && fa.Field < st.NumFields() {
		return st.Field(fa.Field).Name()
	}
	return ""
}

// aliasSource returns a call reaching the alias map from which v may originate.
func aliasSource(c *Ctx, v ssa.Value, reachesAlias func(ssa.CallInstruction) bool) *ssa.Call {
	seen := map[ssa.Value]bool{}
	var walk func(v ssa.Value, up int) *ssa.Call
	walk = func(v ssa.Value, up int) *ssa.Call {
		for _, o := range core.Origins(v, true) {
			if seen[o] {
				continue
			}
			seen[o] = true
			switch x := o.(type) {
			case *ssa.Call:
				if reachesAlias(x) {
					return x
				}
				// string helpers keep the identity of their argument (ToUpper, Clean, Join …)
				if f := x.Common().StaticCallee(); f != nil && c.P.Name(f) == "" {
					for _, a := range x.Common().Args {
						if r := walk(a, up); r != nil {
							return r
						}
					}
				}
			case *ssa.Extract:
				if call, ok := x.Tuple.(*ssa.Call); ok && reachesAlias(call) {
					return call
				}
			case *ssa.BinOp:
				if r := walk(x.X, up); r != nil {
					return r
				}
				if r := walk(x.Y, up); r != nil {
					return r
				}
			case *ssa.Convert:
				if r := walk(x.X, up); r != nil {
					return r
				}
			case *ssa.Field:
				if r := walk(x.X, up); r != nil {
					return r
				}
			case *ssa.UnOp:
				if x.Op == token.MUL {
					if fa, ok := x.X.(*ssa.FieldAddr); ok {
						// a field of a local record (target.Path): the values stored into the record
						if r := walk(fa.X, up); r != nil {
							return r
						}
						if cell, ok := fa.X.(*ssa.Alloc); ok {
							if vals, _ := core.StoresTo(cell); len(vals) > 0 {
								for _, sv := range vals {
									if r := walk(sv, up); r != nil {
										return r
									}
								}
							}
						}
					}
				}
			case *ssa.Parameter:
				_, idx := e19ParamIndex(x)
				if idx < 0 || up >= 2 || x.Parent().Parent() != nil {
					continue
				}
				for _, ed := range c.P.RealCallers(x.Parent()) {
					site, ok := ed.Site.(*ssa.Call)
					if !ok || site.Common().StaticCallee() != x.Parent() || idx >= len(site.Common().Args) {
						continue
					}
					if r := walk(site.Common().Args[idx], up+1); r != nil {
						return r
					}
				}
			}
		}
		return nil
	}
	return walk(v, 0)
}
