package rules

import (
	"fmt"
	"go/token"
	"go/types"

	"golang.org/x/tools/go/ssa"

	"verif/checker/core"
)

// R-ARITH-1 — integer arithmetic on two user values decides whether the result fits.
//
// C06: "for +, -, * and % float and integer arithmetic agree on integral operands".
// The machine operations + - * on int64 wrap around; `9223372036854775807 + 1` is
// -9223372036854775808 on the integer path and 9.223372036854776e18 on the float
// path. % cannot overflow, / only for MinInt64 / -1 (which Go defines as MinInt64).
//
// Site: an int64 ADD / SUB / MUL in hand-written csvq code
//   * both of whose operands depend on a user-controlled integer (R-ERR-11's taint:
//     (value.Integer).Raw(), strconv.ParseInt …), neither a constant, and each unbounded
//     (interval engine: not finite) where it is used, and
//   * whose result becomes a value of the language: followed forward through Phi,
//     conversions and local cells inside the function it is an argument of
//     value.NewInteger.
// Obligation: the function decides whether the result fits — some branch whose
// condition depends on BOTH operands or on the result (backward data slice inside
// the function: comparisons, arithmetic, conversions, Phi, arguments of calls such
// as math/bits.Add64 or an own overflow predicate, tuple extracts) lies on a path
// to the operation (pre-check: `if 0 < b && MaxInt64-b < a`) or on a path from it
// (post-check: `if (c > a) != (0 < b)`, `if a != 0 && c/a != b`, a comparison of the
// float result with the range). Which outcome the branch chooses (an error, the
// float result) is the product decision and is not prescribed. The switch over the
// operator and the zero test of a divisor depend on at most one operand and are not
// such a branch.

func init() {
	Register(&Rule{ID: "R-ARITH-1", Props: []string{"C06"}, Floor: 3,
		Doc: "integer arithmetic on two user values decides whether the result fits: for every int64 + / - / * of hand-written csvq code whose two operands both depend on a user-controlled integer (R-ERR-11's taint), are not constants and are unbounded where they are used, and whose result reaches value.NewInteger (through Phi, conversions, local cells), " +
			"a branch whose condition depends on both operands or on the result (data slice inside the function, through arithmetic, comparisons, conversions, call arguments and results) lies on a path to the operation or on a path from it — a pre-check or a post-check of the overflow. The operator switch and the divisor's zero test depend on at most one operand and do not count. " +
			"Without it the machine operation wraps around silently: 9223372036854775807 + 1 = -9223372036854775808, while the float path gives 9.223372036854776e18 (C06: float and integer arithmetic agree on integral operands). What the branch does with a result that does not fit (error, float) is not prescribed",
		Controls: []string{"CtlArithWrapAdd", "ctlArithWrapMulSwitchCalc"},
		Run:      ruleArith1})
}

func ruleArith1(c *Ctx) {
	start := len(c.Obs)
	defer func() {
		c.negControls(start, "okArithPreCheckedAdd", "okArithPostCheckedMul", "okArithFloatCompared")
	}()
	e := e19NewBounds(c)
	e.TaintFieldOK = func(f *types.Var) bool { return len(e.FieldStores(f)) <= core.MaxFieldStores }
	seq := e19SeqKey{}
	real := 0
	for _, fn := range e19HandWritten(c, nil) {
		var ifs []*ssa.If
		for _, b := range fn.Blocks {
			if len(b.Instrs) > 0 {
				if iff, ok := b.Instrs[len(b.Instrs)-1].(*ssa.If); ok {
					ifs = append(ifs, iff)
				}
			}
		}
		for _, b := range fn.Blocks {
			for _, in := range b.Instrs {
				x, ok := in.(*ssa.BinOp)
				if !ok || (x.Op != token.ADD && x.Op != token.SUB && x.Op != token.MUL) || !arith1IsInt64(x.Type()) {
					continue
				}
				if _, isC := x.X.(*ssa.Const); isC {
					continue
				}
				if _, isC := x.Y.(*ssa.Const); isC {
					continue
				}
				sink := arith1ReachesNewInteger(c, x)
				if sink == nil {
					continue
				}
				sx, sy := e.Tainted(x.X), e.Tainted(x.Y)
				if sx == nil || sy == nil {
					continue
				}
				if ax, ay := e.Eval(x.X, x, core.KInt), e.Eval(x.Y, x, core.KInt); ax.Bot || ay.Bot || ax.Finite() || ay.Finite() {
					continue
				}
				c.Sites++
				c.Touch(fn)
				if !c.P.IsControl(fn) {
					real++
				}
				key := seq.key(c, e19KeyFn(c, fn), fmt.Sprintf("%s %s %s decides whether the result fits", e19ExprLabel(x.X), x.Op, e19ExprLabel(x.Y)))
				var found *ssa.If
				for _, iff := range ifs {
					// on a path to the operation (a pre-check; a short-circuit `a && b || c` is a chain of
					// branches none of which dominates) or on a path from it (a post-check)
					if !core.Reachable(iff, x, nil) && !core.Reachable(x, iff, nil) {
						continue
					}
						dx, dy, dr := arith1DependsOn(iff.Cond, x.X, x.Y, x)
					if dr || (dx && dy) {
						found = iff
						break
					}
				}
				if found != nil {
					kind := "pre-check"
					if !core.Reachable(found, x, nil) {
						kind = "post-check"
					}
					c.Ok(key, c.Pos(x), fmt.Sprintf("%s: the branch at %s depends on both operands or on the result (the result reaches value.NewInteger at %s)", kind, c.Pos(found), c.Pos(sink)))
					continue
				}
				c.Bad(key, c.Pos(x), fmt.Sprintf("both operands are user-controlled integers of unknown magnitude (%s through %s, %s through %s) and the result becomes a value of the language (value.NewInteger at %s), but no branch before or after the operation depends on both operands or on the result: the machine %s wraps around silently (9223372036854775807 + 1 = -9223372036854775808) while float arithmetic on the same integral operands gives the true magnitude",
					e19ExprLabel(x.X), valueLabel(sx), e19ExprLabel(x.Y), valueLabel(sy), c.Pos(sink), x.Op))
			}
		}
	}
	if real == 0 {
		c.Unknown("anchor:integer arithmetic on two user values", "-", "cannot-analyse: no int64 + / - / * of two user-controlled integers whose result reaches value.NewInteger was found in hand-written csvq code")
	}
}

func arith1IsInt64(t types.Type) bool {
	b, ok := t.Underlying().(*types.Basic)
	return ok && (b.Kind() == types.Int64 || b.Kind() == types.Int)
}

// arith1ReachesNewInteger follows v forward inside its function (Phi, integer
// conversions, local cells) to a call of lib/value.NewInteger that takes it.
func arith1ReachesNewInteger(c *Ctx, start ssa.Value) ssa.Instruction {
	seen := map[ssa.Value]bool{start: true}
	queue := []ssa.Value{start}
	for len(queue) > 0 && len(seen) < 500 {
		v := queue[0]
		queue = queue[1:]
		refs := v.Referrers()
		if refs == nil {
			continue
		}
		push := func(n ssa.Value) {
			if !seen[n] {
				seen[n] = true
				queue = append(queue, n)
			}
		}
		for _, r := range *refs {
			switch y := r.(type) {
			case *ssa.Phi:
				push(y)
			case *ssa.Convert:
				if e19IsIntType(y.Type()) {
					push(y)
				}
			case *ssa.ChangeType:
				push(y)
			case *ssa.Store:
				if y.Val != v {
					continue
				}
				if al, ok := y.Addr.(*ssa.Alloc); ok && al.Referrers() != nil {
					for _, rr := range *al.Referrers() {
						if ld, ok := rr.(*ssa.UnOp); ok && ld.Op == token.MUL {
							push(ld)
						}
					}
				}
			case ssa.CallInstruction:
				if c.P.CalleeName(y) != "lib/value.NewInteger" {
					continue
				}
				for _, a := range y.Common().Args {
					if a == v {
						return y
					}
				}
			}
		}
	}
	return nil
}

// arith1DependsOn: backward data slice of cond inside its function — does it
// reach x, y, or the result r?
func arith1DependsOn(cond ssa.Value, x, y, r ssa.Value) (dx, dy, dr bool) {
	seen := map[ssa.Value]bool{}
	var walk func(v ssa.Value, d int)
	walk = func(v ssa.Value, d int) {
		if v == nil || seen[v] || d > 40 {
			return
		}
		seen[v] = true
		if v == r {
			dr = true
			return // the result depends on both operands; no need to look behind it
		}
		if v == x || core.SameVal(v, x) {
			dx = true
		}
		if v == y || core.SameVal(v, y) {
			dy = true
		}
		switch z := v.(type) {
		case *ssa.BinOp:
			walk(z.X, d+1)
			walk(z.Y, d+1)
		case *ssa.UnOp:
			if z.Op == token.MUL {
				if al, ok := z.X.(*ssa.Alloc); ok {
					if vals, complete := core.StoresTo(al); complete {
						for _, sv := range vals {
							walk(sv, d+1)
						}
					}
				}
				return
			}
			walk(z.X, d+1)
		case *ssa.Convert:
			walk(z.X, d+1)
		case *ssa.ChangeType:
			walk(z.X, d+1)
		case *ssa.Phi:
			for _, ed := range z.Edges {
				walk(ed, d+1)
			}
		case *ssa.Extract:
			walk(z.Tuple, d+1)
		case *ssa.Call:
			for _, a := range z.Common().Args {
				walk(a, d+1)
			}
		}
	}
	walk(cond, 0)
	return
}
