package rules

import (
	"fmt"
	"go/types"
	"strings"

	"golang.org/x/tools/go/ssa"

	"verif/checker/core"
)

// C11, second half: every handler is tracked (R-CLEAN-3), reads do not write
// (R-CLEAN-4), the --out file is cleaned up (R-CLEAN-5).

func init() {
	Register(&Rule{ID: "R-CLEAN-3", Props: []string{"C11"}, Floor: 13,
		Doc:      "every handler is tracked: the Handler constructors of lib/file are referenced (called or passed as values) only by methods of Container; createHandler returns success only after Container.Add succeeded and Add stores the handler in Container.m; Commit/Rollback reach ReleaseResources → CloseAll and ReleaseResourcesWithErrors reaches CloseAllWithErrors, whose loops range over Container.m, close each entry and leave the loop early only with an error (CloseAllWithErrors: never)",
		Controls: []string{"CtlUntrackedHandler"},
		Run:      ruleClean3})
	Register(&Rule{ID: "R-CLEAN-4", Props: []string{"C11"}, Floor: 34,
		Doc:      "reads do not write: Handler.FileForUpdate is called only in Transaction.Commit; every argument bound to a bool parameter named forUpdate is the constant false, a forwarded forUpdate parameter, SelectQuery.IsForUpdate() in Select, or the constant true inside one of the eight data-changing statement functions; Container.CreateHandlerForUpdate is called only under the true edge of a forUpdate test and CreateHandlerForCreate only by CreateTable",
		Controls: []string{"CtlLoadForUpdateInReader", "CtlFileForUpdateOutsideCommit"},
		Run:      ruleClean4})
	Register(&Rule{ID: "R-CLEAN-5", Props: []string{"C11"}, Floor: 3,
		Doc:      "--out: for the go-file Create whose descriptor is handed to Session.SetOutFile, a defer is registered on every path from the successful create before any exit, before SetOutFile and before anything that reaches Processor.Execute; its closure closes that descriptor on every path and removes that path under a test of the file's Size()",
		Controls: []string{"CtlOutFileNoCleanup"},
		Run:      ruleClean5})
}

// ---------------------------------------------------------------------------
// R-CLEAN-3

func ruleClean3(c *Ctx) {
	p := c.P
	// (a) who references the constructors
	ctor := map[*ssa.Function]bool{}
	for _, fn := range handlerCtors(c) {
		if !p.IsControl(fn) {
			ctor[fn] = true
		}
	}
	if w := c.FnOpt("lib/file.newHandlerForCreate"); w != nil {
		ctor[w] = true
	}
	if len(ctor) == 0 {
		c.Unknown("anchor:Handler constructors", "-", "cannot-analyse: no function of lib/file builds a Handler")
	}
	for _, fn := range p.SrcFuncs() {
		cnt := map[string]int{}
		for _, b := range fn.Blocks {
			for _, in := range b.Instrs {
				for _, op := range in.Operands(nil) {
					f, ok := (*op).(*ssa.Function)
					if !ok || !ctor[f] {
						continue
					}
					c.Sites++
					c.Touch(fn)
					top := topLevel(p.Name(fn))
					cnt[f.Name()]++
					key := c.KeyAt(fn, "uses constructor "+f.Name())
					if cnt[f.Name()] > 1 {
						key += " " + ordinal(cnt[f.Name()])
					}
					okCaller := strings.HasPrefix(top, "lib/file.(*Container).") || (ctor[fn] && fn.Name() == "newHandlerForCreate")
					c.Check(okCaller, key, c.Pos(in),
						"used by a Container method (or the ForCreate adapter): the handler is registered by createHandler",
						"a Handler is built outside Container: it is in no container, so neither COMMIT/ROLLBACK nor the forced release on signals and exit closes it — its lock and temp files stay behind")
				}
			}
		}
	}
	// (b) createHandler registers before it reports success
	if fn := c.Fn(fnCreateHdl); fn != nil {
		var adds []ssa.CallInstruction
		for _, k := range core.Calls(fn) {
			if calleeIn(p, k, "lib/file.(*Container).Add") {
				adds = append(adds, k)
			}
		}
		bad := ""
		n := 0
		for _, r := range realReturns(fn) {
			if allNil, _ := errOperandKinds(c, r); !allNil {
				continue
			}
			n++
			ok := false
			for _, a := range adds {
				if succeededAt(a, r) && len(a.Common().Args) == 3 && a.Common().Args[2] == r.Results[0] {
					ok = true
				}
			}
			if !ok {
				bad = "the success return at " + c.Pos(r) + " hands out a handler that Container.Add has not accepted"
			}
		}
		key := c.KeyAt(fn, "success only after Container.Add succeeded")
		if n == 0 {
			c.Unknown(key, c.FnPos(fn), "no success return found")
		} else {
			c.Check(bad == "", key, c.FnPos(fn), "every success return is dominated by the success edge of Add(handler) for the returned handler", bad)
		}
	}
	if fn := c.Fn("lib/file.(*Container).Add"); fn != nil {
		bad := ""
		for _, r := range realReturns(fn) {
			if allNil, _ := errOperandKinds(c, r); !allNil {
				continue
			}
			stored := false
			for _, b := range fn.Blocks {
				for _, in := range b.Instrs {
					if mu, ok := in.(*ssa.MapUpdate); ok && chainEndsWith(mu.Map, "lib/file.Container.m") && len(fn.Params) == 3 && mu.Value == fn.Params[2] && core.Dominates(mu, r) {
						stored = true
					}
				}
			}
			if !stored {
				bad = "the success return at " + c.Pos(r) + " is not dominated by a store of the handler into Container.m"
			}
		}
		c.Check(bad == "", c.KeyAt(fn, "stores the handler in Container.m"), c.FnPos(fn), "every success return is dominated by m[key] = handler", bad)
	}
	// (c) the release chain
	chain := [][2]string{
		{"lib/query.(*Transaction).Commit", "lib/query.(*Transaction).ReleaseResources"},
		{"lib/query.(*Transaction).Rollback", "lib/query.(*Transaction).ReleaseResources"},
		{"lib/query.(*Transaction).ReleaseResources", fnCCloseAll},
		{"lib/query.(*Transaction).ReleaseResourcesWithErrors", fnCCloseAllE},
	}
	for _, ch := range chain {
		from, to := c.Fn(ch[0]), c.Fn(ch[1])
		if from == nil || to == nil {
			continue
		}
		// on every path to a non-error return
		var bad []string
		for _, r := range returnsWithout(from, nil, func(in ssa.Instruction) bool {
			k, ok := in.(ssa.CallInstruction)
			if !ok {
				return false
			}
			if _, isDefer := in.(*ssa.Defer); isDefer {
				return false
			}
			return callReachesNamed(p, k, ch[1])
		}, nil) {
			if _, nonNil := errOperandKinds(c, r); !nonNil {
				bad = append(bad, c.Pos(r))
			}
		}
		short := ch[1][strings.LastIndex(ch[1], ".")+1:]
		c.Check(len(bad) == 0, c.KeyAt(from, "reaches "+short+" before every non-error return"), c.FnPos(from),
			"every path to a return that is not an error passes a call reaching "+short,
			"the return at "+strings.Join(bad, ", ")+" is reachable without "+short+": handlers opened in the transaction keep their lock files after it ended")
	}
	for _, spec := range []struct {
		fn, closer string
		earlyErr   bool
	}{{fnCCloseAll, fnHClose, true}, {fnCCloseAllE, fnHCloseErrs, false}} {
		fn := c.Fn(spec.fn)
		if fn == nil {
			continue
		}
		key := c.KeyAt(fn, "visits every entry of Container.m")
		var next *ssa.Next
		for _, b := range fn.Blocks {
			for _, in := range b.Instrs {
				if nx, ok := in.(*ssa.Next); ok {
					if rg, ok := nx.Iter.(*ssa.Range); ok && chainEndsWith(rg.X, "lib/file.Container.m") {
						next = nx
					}
				}
			}
		}
		if next == nil {
			c.Bad(key, c.FnPos(fn), "no range loop over Container.m: entries are not enumerated")
			continue
		}
		blk := next.Block()
		iff, ok := blk.Instrs[len(blk.Instrs)-1].(*ssa.If)
		okv := extractOfNext(next, 0)
		if !ok || okv == nil || iff.Cond != okv {
			c.Unknown(key, c.Pos(next), "the loop condition of the range over Container.m has an unexpected shape")
			continue
		}
		body := blk.Succs[0]
		bad := ""
		closes := false
		walkCFG(body, 0, nil, func(in ssa.Instruction) bool {
			if in == next {
				return false
			}
			if k, ok := in.(ssa.CallInstruction); ok && callReachesNamed(p, k, spec.closer) {
				closes = true
			}
			if r, ok := in.(*ssa.Return); ok {
				_, nonNil := errOperandKinds(c, r)
				if !spec.earlyErr || !nonNil {
					bad = "the loop is left at " + c.Pos(r) + " before the remaining entries are closed"
				}
			}
			return true
		})
		if !closes {
			bad = "the loop body does not reach " + spec.closer
		}
		c.Check(bad == "", key, c.Pos(next), "range over Container.m; the body closes the entry and never leaves the loop early"+map[bool]string{true: " except with an error", false: ""}[spec.earlyErr], bad)
	}
}

func extractOfNext(n *ssa.Next, idx int) ssa.Value {
	for _, r := range *n.Referrers() {
		if e, ok := r.(*ssa.Extract); ok && e.Index == idx {
			return e
		}
	}
	return nil
}

// ---------------------------------------------------------------------------
// R-CLEAN-4

var dataChangingStatements = map[string]string{
	"lib/query.Insert":            "INSERT",
	"lib/query.Update":            "UPDATE",
	"lib/query.Replace":           "REPLACE",
	"lib/query.Delete":            "DELETE",
	"lib/query.AddColumns":        "ALTER TABLE ADD",
	"lib/query.DropColumns":       "ALTER TABLE DROP",
	"lib/query.RenameColumn":      "ALTER TABLE RENAME",
	"lib/query.SetTableAttribute": "ALTER TABLE SET",
}

// isForUpdateParam: v is the (possibly captured / reassigned-to-false) bool
// parameter named forUpdate of the enclosing function chain.
func isForUpdateValue(v ssa.Value) (ok bool, why string) {
	os := core.Origins(v, false)
	if len(os) == 0 {
		return false, "no origin"
	}
	sawParam := false
	for _, o := range os {
		switch x := o.(type) {
		case *ssa.Parameter:
			if x.Name() != "forUpdate" {
				return false, "parameter " + x.Name()
			}
			sawParam = true
		case *ssa.Const:
			if b, isB := core.ConstBool(x); !isB || b {
				return false, "constant true mixed in"
			}
		default:
			return false, valueLabel(o)
		}
	}
	return sawParam, "constant"
}

func ruleClean4(c *Ctx) {
	p := c.P
	// (a) FileForUpdate
	c.Fn("lib/file.(*Handler).FileForUpdate")
	for _, fn := range p.SrcFuncs() {
		n := 0
		for _, k := range core.Calls(fn) {
			if !calleeIn(p, k, "lib/file.(*Handler).FileForUpdate") {
				continue
			}
			n++
			c.Sites++
			c.Touch(fn)
			c.Check(topLevel(p.Name(fn)) == "lib/query.(*Transaction).Commit", c.KeyAt(fn, "obtains the write descriptor "+ordinal(n)), c.Pos(k),
				"inside Transaction.Commit",
				"FileForUpdate hands out the descriptor COMMIT writes to (temp file / created file); used anywhere else, table files are written outside the commit protocol")
		}
	}
	// (b) forUpdate arguments
	for _, fn := range p.SrcFuncs() {
		cnt := map[string]int{}
		for _, k := range core.Calls(fn) {
			f := core.StaticCallee(k)
			if f == nil {
				continue
			}
			for i, par := range f.Params {
				if par.Name() != "forUpdate" || i >= len(k.Common().Args) {
					continue
				}
				if b, ok := par.Type().Underlying().(*types.Basic); !ok || b.Kind() != types.Bool {
					continue
				}
				arg := k.Common().Args[i]
				c.Sites++
				c.Touch(fn)
				top := topLevel(p.Name(fn))
				cnt[f.Name()]++
				key := c.KeyAt(fn, "forUpdate argument of "+f.Name())
				if cnt[f.Name()] > 1 {
					key += " " + ordinal(cnt[f.Name()])
				}
				if b, isC := core.ConstBool(arg); isC {
					if !b {
						c.Ok(key, c.Pos(k), "constant false: read-only load")
					} else if stmt, ok := dataChangingStatements[top]; ok {
						c.Ok(key, c.Pos(k), "constant true inside the "+stmt+" statement function")
					} else {
						c.Bad(key, c.Pos(k), "forUpdate = true outside the data-changing statement functions: a statement that only reads takes the write lock, creates a .temp file and marks the table for update")
					}
					continue
				}
				if ok, _ := isForUpdateValue(arg); ok {
					c.Ok(key, c.Pos(k), "forwards the caller's forUpdate parameter")
					continue
				}
				if call, ok := arg.(*ssa.Call); ok && calleeIn(p, call, "lib/parser.(SelectQuery).IsForUpdate") && top == "lib/query.Select" {
					c.Ok(key, c.Pos(k), "SELECT … FOR UPDATE, decided by the query itself")
					continue
				}
				c.Bad(key, c.Pos(k), "forUpdate is bound to "+valueLabel(arg)+", which is neither a constant, a forwarded forUpdate parameter nor SelectQuery.IsForUpdate() in Select: whether a read takes write locks can no longer be decided")
			}
		}
	}
	// (c) creators of write handlers
	for _, fn := range p.SrcFuncs() {
		if p.InPkg(fn, "lib/file") {
			continue
		}
		n := 0
		for _, k := range core.Calls(fn) {
			switch {
			case calleeIn(p, k, "lib/file.(*Container).CreateHandlerForUpdate"):
				n++
				c.Sites++
				c.Touch(fn)
				ok := false
				for _, f := range core.FactsAt(k.Block()) {
					if f.Neg {
						continue
					}
					if is, _ := isForUpdateValue(f.Cond); is {
						ok = true
					}
				}
				c.Check(ok, c.KeyAt(fn, "write handler only under forUpdate "+ordinal(n)), c.Pos(k),
					"dominated by the true edge of a test of the forUpdate parameter",
					"CreateHandlerForUpdate (lock file, exclusive flock, temp file) is not guarded by a test of the forUpdate parameter: plain reads create control files of writers")
			case calleeIn(p, k, "lib/file.(*Container).CreateHandlerForCreate"):
				n++
				c.Sites++
				c.Touch(fn)
				c.Check(topLevel(p.Name(fn)) == "lib/query.CreateTable", c.KeyAt(fn, "creates a table file "+ordinal(n)), c.Pos(k),
					"inside CreateTable", "CreateHandlerForCreate creates a table file on disk; only CREATE TABLE may do that")
			}
		}
	}
}

// ---------------------------------------------------------------------------
// R-CLEAN-5

// mentionsSize: the condition is (a bool variable / conjunction built from) a
// comparison of a Size() result.
func mentionsSize(v ssa.Value, depth int) bool {
	if depth > 4 {
		return false
	}
	switch x := v.(type) {
	case *ssa.Call:
		return x.Call.IsInvoke() && x.Call.Method.Name() == "Size"
	case *ssa.BinOp:
		return mentionsSize(x.X, depth+1) || mentionsSize(x.Y, depth+1)
	case *ssa.Phi:
		for _, e := range x.Edges {
			if mentionsSize(e, depth+1) {
				return true
			}
		}
	}
	return false
}

func sameOrigins(a, b ssa.Value) bool {
	oa, ob := core.Origins(a, false), core.Origins(b, false)
	if len(oa) == 0 || len(oa) != len(ob) {
		return false
	}
	set := map[ssa.Value]bool{}
	for _, x := range oa {
		set[x] = true
	}
	for _, x := range ob {
		if !set[x] {
			return false
		}
	}
	return true
}

func ruleClean5(c *Ctx) {
	p := c.P
	n := 0
	for _, fn := range p.SrcFuncs() {
		if p.InPkg(fn, "lib/file") {
			continue
		}
		for _, k := range core.Calls(fn) {
			cr, ok := k.(*ssa.Call)
			if !ok || !calleeIn(p, k, fnGoCreate) || len(cr.Call.Args) != 1 {
				continue
			}
			fp := resultOf(cr, 0)
			// role: the descriptor becomes the session's out file
			var setOut ssa.CallInstruction
			for _, k2 := range core.Calls(fn) {
				if !calleeIn(p, k2, "lib/query.(*Session).SetOutFile") {
					continue
				}
				for _, a := range k2.Common().Args {
					for _, o := range core.Origins(a, false) {
						if o == fp {
							setOut = k2
						}
					}
				}
			}
			if setOut == nil {
				continue
			}
			if !p.IsControl(fn) {
				n++
			}
			c.Sites++
			c.Touch(fn)
			// the cleanup defers of fn for this file
			closesFp := func(clo *ssa.Function) (every bool, any bool) {
				isClose := func(in ssa.Instruction) bool {
					ck, ok := in.(ssa.CallInstruction)
					if !ok || !(calleeIn(p, ck, "(*os.File).Close") || calleeIn(p, ck, fnGoClose)) || len(ck.Common().Args) == 0 {
						return false
					}
					for _, o := range core.Origins(ck.Common().Args[0], false) {
						if o == fp {
							return true
						}
					}
					return false
				}
				for _, ck := range core.Calls(clo) {
					if isClose(ck) {
						any = true
					}
				}
				return any && core.EscapeFromEntry(clo, isClose, nil) == nil, any
			}
			removesEmpty := func(clo *ssa.Function) (bool, string) {
				for _, ck := range core.Calls(clo) {
					if !isRemoveCall(p, ck) || !sameOrigins(ck.Common().Args[0], cr.Call.Args[0]) {
						continue
					}
					for _, f := range core.FactsAt(ck.Block()) {
						if !f.Neg && mentionsSize(f.Cond, 0) {
							return true, ""
						}
					}
					return false, "the removal at " + c.Pos(ck) + " is not guarded by a test of the file's Size(): a non-empty result file would be deleted"
				}
				return false, "the deferred closure does not remove the created path: a run that produces no output leaves an empty file behind"
			}
			var defers []*ssa.Defer
			var closures []*ssa.Function
			for _, b := range fn.Blocks {
				for _, in := range b.Instrs {
					d, ok := in.(*ssa.Defer)
					if !ok {
						continue
					}
					mc, ok := d.Call.Value.(*ssa.MakeClosure)
					if !ok {
						continue
					}
					clo, _ := mc.Fn.(*ssa.Function)
					if clo == nil {
						continue
					}
					if _, any := closesFp(clo); any {
						defers = append(defers, d)
						closures = append(closures, clo)
					}
				}
			}
			isCleanupDefer := func(in ssa.Instruction) bool {
				for _, d := range defers {
					if in == d {
						return true
					}
				}
				return false
			}
			keyReg := c.KeyAt(fn, "clean-up of the --out file deferred right after its creation")
			bad := ""
			walkAfter(cr, failureEdgeOf(cr), func(in ssa.Instruction) bool {
				if isCleanupDefer(in) {
					return false
				}
				switch x := in.(type) {
				case *ssa.Return, *ssa.Panic:
					bad = "the exit at " + c.Pos(in) + " is reachable after the file was created and before a clean-up is deferred: the (empty) file and its descriptor stay behind"
				case ssa.CallInstruction:
					if x == setOut {
						bad = "the descriptor is handed to the session at " + c.Pos(in) + " before a clean-up is deferred"
					} else if callReachesNamed(p, x, "lib/query.(*Processor).Execute") {
						bad = "statements are executed at " + c.Pos(in) + " before a clean-up of the --out file is deferred: an error or a signal during execution leaves the file behind"
					}
				}
				return true
			})
			c.Check(bad == "" && len(defers) > 0, keyReg, c.Pos(cr), "every path from the successful create reaches the defer before any exit, SetOutFile or Execute",
				map[bool]string{true: "no deferred closure closes the created descriptor", false: bad}[len(defers) == 0])
			keyClose := c.KeyAt(fn, "deferred clean-up closes the --out descriptor")
			keyRm := c.KeyAt(fn, "deferred clean-up removes the --out file when it is empty")
			if len(closures) == 0 {
				c.Bad(keyClose, c.Pos(cr), "no deferred closure closes the created descriptor")
				c.Bad(keyRm, c.Pos(cr), "no deferred clean-up")
				continue
			}
			clo := closures[0]
			every, _ := closesFp(clo)
			c.Check(every, keyClose, c.FnPos(clo), "every path through the closure closes the descriptor", "a path through the deferred closure returns without closing the descriptor")
			okRm, why := removesEmpty(clo)
			c.Check(okRm, keyRm, c.FnPos(clo), "os.Remove of the created path under a test of Size()", why)
		}
	}
	if n == 0 {
		c.Unknown("anchor:--out file", "-", "cannot-analyse: no go-file Create whose descriptor is passed to Session.SetOutFile is found outside lib/file")
	}
}

var _ = fmt.Sprintf
