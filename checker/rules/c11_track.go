package rules

import (
	"fmt"
	"go/token"
	"go/types"
	"strings"

	"golang.org/x/tools/go/ssa"

	"verif/checker/core"
)

// C11, second half: every handler is tracked (R-CLEAN-3), reads do not write
// (R-CLEAN-4), the --out file is cleaned up (R-CLEAN-5).

func init() {
	Register(&Rule{ID: "R-CLEAN-3", Props: []string{"C11"}, Floor: 13,
		Doc:      "every handler is tracked: the Handler constructors of lib/file are referenced (called or passed as values) only by methods of Container; createHandler returns success only after Container.Add succeeded and Add stores the handler in Container.m; Commit/Rollback reach ReleaseResources → CloseAll and ReleaseResourcesWithErrors reaches CloseAllWithErrors, whose loops range over Container.m, close each entry and leave the loop early only with an error (CloseAllWithErrors: never)",
		Controls: []string{"CtlUntrackedHandler"},
		Run:      ruleClean3})
	Register(&Rule{ID: "R-CLEAN-4", Props: []string{"C11"}, Floor: 30,
		Doc:      "reads do not write: Handler.FileForUpdate is called only in Transaction.Commit or in functions all of whose call-graph callers are, recursively, such functions, and in Commit no call reaching FileForUpdate can execute after a call reaching Container.Commit (write phase before the first handler is finalised); every argument bound to a bool parameter named forUpdate is the constant false, a forwarded forUpdate parameter, SelectQuery.IsForUpdate() in Select (or a helper all of whose callers are, recursively, Select), or the constant true inside one of the eight data-changing statement functions; Container.CreateHandlerForUpdate is called only under the true edge of a forUpdate test and CreateHandlerForCreate only by CreateTable",
		Controls: []string{"CtlLoadForUpdateInReader", "CtlFileForUpdateOutsideCommit"},
		Run:      ruleClean4})
	Register(&Rule{ID: "R-CLEAN-5", Props: []string{"C11"}, Floor: 3,
		Doc:      "--out: for the go-file Create (direct, or inside a helper that returns its descriptor on every path after the create) whose descriptor is handed to Session.SetOutFile, a defer (closure, or named function receiving descriptor and path) is registered on every path from the successful create before any exit, before SetOutFile and before anything that reaches Processor.Execute; its closure closes that descriptor on every path and removes that path under a test of the file's Size()",
		Controls: []string{"CtlOutFileNoCleanup", "CtlOutFileHelperKeepsEmpty"},
		Run:      ruleClean5})
}

// ---------------------------------------------------------------------------
// R-CLEAN-3

func ruleClean3(c *Ctx) {
	p := c.P
	// (a) who references the constructors
	ctor := map[*ssa.Function]bool{}
	for _, fn := range handlerCtors(c) {
		if !p.IsControl(fn) {
			ctor[fn] = true
		}
	}
	if w := c.FnOpt("lib/file.newHandlerForCreate"); w != nil {
		ctor[w] = true
	}
	if len(ctor) == 0 {
		c.Unknown("anchor:Handler constructors", "-", "cannot-analyse: no function of lib/file builds a Handler")
	}
	for _, fn := range p.SrcFuncs() {
		cnt := map[string]int{}
		for _, b := range fn.Blocks {
			for _, in := range b.Instrs {
				for _, op := range in.Operands(nil) {
					f, ok := (*op).(*ssa.Function)
					if !ok || !ctor[f] {
						continue
					}
					c.Sites++
					c.Touch(fn)
					top := topLevel(p.Name(fn))
					cnt[f.Name()]++
					key := c.KeyAt(fn, "uses constructor "+f.Name())
					if cnt[f.Name()] > 1 {
						key += " " + ordinal(cnt[f.Name()])
					}
					okCaller := strings.HasPrefix(top, "lib/file.(*Container).") || (ctor[fn] && fn.Name() == "newHandlerForCreate")
					c.Check(okCaller, key, c.Pos(in),
						"used by a Container method (or the ForCreate adapter): the handler is registered by createHandler",
						"a Handler is built outside Container: it is in no container, so neither COMMIT/ROLLBACK nor the forced release on signals and exit closes it — its lock and temp files stay behind")
				}
			}
		}
	}
	// (b) createHandler registers before it reports success
	if fn := c.Fn(fnCreateHdl); fn != nil {
		var adds []ssa.CallInstruction
		for _, k := range core.Calls(fn) {
			if calleeIn(p, k, "lib/file.(*Container).Add") {
				adds = append(adds, k)
			}
		}
		bad := ""
		n := 0
		for _, r := range realReturns(fn) {
			if allNil, _ := errOperandKinds(c, r); !allNil {
				continue
			}
			n++
			ok := false
			for _, a := range adds {
				if succeededAt(a, r) && len(a.Common().Args) == 3 && a.Common().Args[2] == r.Results[0] {
					ok = true
				}
			}
			if !ok {
				bad = "the success return at " + c.Pos(r) + " hands out a handler that Container.Add has not accepted"
			}
		}
		key := c.KeyAt(fn, "success only after Container.Add succeeded")
		if n == 0 {
			c.Unknown(key, c.FnPos(fn), "no success return found")
		} else {
			c.Check(bad == "", key, c.FnPos(fn), "every success return is dominated by the success edge of Add(handler) for the returned handler", bad)
		}
	}
	if fn := c.Fn("lib/file.(*Container).Add"); fn != nil {
		bad := ""
		for _, r := range realReturns(fn) {
			if allNil, _ := errOperandKinds(c, r); !allNil {
				continue
			}
			stored := false
			for _, b := range fn.Blocks {
				for _, in := range b.Instrs {
					if mu, ok := in.(*ssa.MapUpdate); ok && chainEndsWith(mu.Map, "lib/file.Container.m") && len(fn.Params) == 3 && mu.Value == fn.Params[2] && core.Dominates(mu, r) {
						stored = true
					}
				}
			}
			if !stored {
				bad = "the success return at " + c.Pos(r) + " is not dominated by a store of the handler into Container.m"
			}
		}
		c.Check(bad == "", c.KeyAt(fn, "stores the handler in Container.m"), c.FnPos(fn), "every success return is dominated by m[key] = handler", bad)
	}
	// (c) the release chain
	chain := [][2]string{
		{"lib/query.(*Transaction).Commit", "lib/query.(*Transaction).ReleaseResources"},
		{"lib/query.(*Transaction).Rollback", "lib/query.(*Transaction).ReleaseResources"},
		{"lib/query.(*Transaction).ReleaseResources", fnCCloseAll},
		{"lib/query.(*Transaction).ReleaseResourcesWithErrors", fnCCloseAllE},
	}
	for _, ch := range chain {
		from, to := c.Fn(ch[0]), c.Fn(ch[1])
		if from == nil || to == nil {
			continue
		}
		// on every path to a non-error return
		var bad []string
		for _, r := range returnsWithout(from, nil, func(in ssa.Instruction) bool {
			k, ok := in.(ssa.CallInstruction)
			if !ok {
				return false
			}
			if _, isDefer := in.(*ssa.Defer); isDefer {
				return false
			}
			return callReachesNamed(p, k, ch[1])
		}, nil) {
			if _, nonNil := errOperandKinds(c, r); !nonNil {
				bad = append(bad, c.Pos(r))
			}
		}
		short := ch[1][strings.LastIndex(ch[1], ".")+1:]
		c.Check(len(bad) == 0, c.KeyAt(from, "reaches "+short+" before every non-error return"), c.FnPos(from),
			"every path to a return that is not an error passes a call reaching "+short,
			"the return at "+strings.Join(bad, ", ")+" is reachable without "+short+": handlers opened in the transaction keep their lock files after it ended")
	}
	for _, spec := range []struct {
		fn, closer string
		earlyErr   bool
	}{{fnCCloseAll, fnHClose, true}, {fnCCloseAllE, fnHCloseErrs, false}} {
		fn := c.Fn(spec.fn)
		if fn == nil {
			continue
		}
		key := c.KeyAt(fn, "visits every entry of Container.m")
		var next *ssa.Next
		for _, b := range fn.Blocks {
			for _, in := range b.Instrs {
				if nx, ok := in.(*ssa.Next); ok {
					if rg, ok := nx.Iter.(*ssa.Range); ok && chainEndsWith(rg.X, "lib/file.Container.m") {
						next = nx
					}
				}
			}
		}
		if next == nil {
			c.Bad(key, c.FnPos(fn), "no range loop over Container.m: entries are not enumerated")
			continue
		}
		blk := next.Block()
		iff, ok := blk.Instrs[len(blk.Instrs)-1].(*ssa.If)
		okv := extractOfNext(next, 0)
		if !ok || okv == nil || iff.Cond != okv {
			c.Unknown(key, c.Pos(next), "the loop condition of the range over Container.m has an unexpected shape")
			continue
		}
		body := blk.Succs[0]
		bad := ""
		closes := false
		walkCFG(body, 0, nil, func(in ssa.Instruction) bool {
			if in == next {
				return false
			}
			if k, ok := in.(ssa.CallInstruction); ok && callReachesNamed(p, k, spec.closer) {
				closes = true
			}
			if r, ok := in.(*ssa.Return); ok {
				_, nonNil := errOperandKinds(c, r)
				if !spec.earlyErr || !nonNil {
					bad = "the loop is left at " + c.Pos(r) + " before the remaining entries are closed"
				}
			}
			return true
		})
		if !closes {
			bad = "the loop body does not reach " + spec.closer
		}
		c.Check(bad == "", key, c.Pos(next), "range over Container.m; the body closes the entry and never leaves the loop early"+map[bool]string{true: " except with an error", false: ""}[spec.earlyErr], bad)
	}
}

func extractOfNext(n *ssa.Next, idx int) ssa.Value {
	for _, r := range *n.Referrers() {
		if e, ok := r.(*ssa.Extract); ok && e.Index == idx {
			return e
		}
	}
	return nil
}

// ---------------------------------------------------------------------------
// R-CLEAN-4

var dataChangingStatements = map[string]string{
	"lib/query.Insert":            "INSERT",
	"lib/query.Update":            "UPDATE",
	"lib/query.Replace":           "REPLACE",
	"lib/query.Delete":            "DELETE",
	"lib/query.AddColumns":        "ALTER TABLE ADD",
	"lib/query.DropColumns":       "ALTER TABLE DROP",
	"lib/query.RenameColumn":      "ALTER TABLE RENAME",
	"lib/query.SetTableAttribute": "ALTER TABLE SET",
}

// isForUpdateParam: v is the (possibly captured / reassigned-to-false) bool
// parameter named forUpdate of the enclosing function chain.
func isForUpdateValue(v ssa.Value) (ok bool, why string) {
	os := core.Origins(v, false)
	if len(os) == 0 {
		return false, "no origin"
	}
	sawParam := false
	for _, o := range os {
		switch x := o.(type) {
		case *ssa.Parameter:
			if x.Name() != "forUpdate" {
				return false, "parameter " + x.Name()
			}
			sawParam = true
		case *ssa.Const:
			if b, isB := core.ConstBool(x); !isB || b {
				return false, "constant true mixed in"
			}
		default:
			return false, valueLabel(o)
		}
	}
	return sawParam, "constant"
}

func ruleClean4(c *Ctx) {
	p := c.P
	// (a) FileForUpdate
	c.Fn("lib/file.(*Handler).FileForUpdate")
	for _, fn := range p.SrcFuncs() {
		n := 0
		for _, k := range core.Calls(fn) {
			if !calleeIn(p, k, "lib/file.(*Handler).FileForUpdate") {
				continue
			}
			n++
			c.Sites++
			c.Touch(fn)
			ok, why := calledOnlyFrom(p, fn, func(top string) bool { return top == "lib/query.(*Transaction).Commit" })
			c.Check(ok, c.KeyAt(fn, "obtains the write descriptor "+ordinal(n)), c.Pos(k),
				"inside Transaction.Commit, or a function every caller of which (recursively) is Transaction.Commit",
				"FileForUpdate hands out the descriptor COMMIT writes to (temp file / created file); here it is obtained outside the commit protocol ("+why+"): table files are written without the encode-all-then-swap order")
		}
	}
	// (a') the write phase of the commit protocol ends before the first handler
	// is finalised: once Container.Commit has made a created file permanent and
	// dropped its handler from the container, a later failing write can no longer
	// be rolled back — the created file would stay behind. Where in Commit's call
	// tree the descriptor is obtained does not matter (clause (a)); when does.
	if commit := c.Fn("lib/query.(*Transaction).Commit"); commit != nil && c.Fn(fnCCommit) != nil {
		key := c.KeyAt(commit, "write descriptors obtained only before the first handler is finalised")
		bad := writeAfterFinalise(c, commit, 0)
		c.Check(bad == "", key, c.FnPos(commit),
			"no call that reaches Handler.FileForUpdate can execute after a call that reaches Container.Commit",
			bad+": when that later write fails, the transaction is rolled back although a handler has already been finalised — a table created by the uncommitted transaction is no longer known to the container / UncommittedViews and stays in the repository")
	}
	// (b) forUpdate arguments
	for _, fn := range p.SrcFuncs() {
		cnt := map[string]int{}
		for _, k := range core.Calls(fn) {
			f := core.StaticCallee(k)
			if f == nil {
				continue
			}
			for i, par := range f.Params {
				if par.Name() != "forUpdate" || i >= len(k.Common().Args) {
					continue
				}
				if b, ok := par.Type().Underlying().(*types.Basic); !ok || b.Kind() != types.Bool {
					continue
				}
				arg := k.Common().Args[i]
				c.Sites++
				c.Touch(fn)
				top := topLevel(p.Name(fn))
				cnt[f.Name()]++
				key := c.KeyAt(fn, "forUpdate argument of "+f.Name())
				if cnt[f.Name()] > 1 {
					key += " " + ordinal(cnt[f.Name()])
				}
				if b, isC := core.ConstBool(arg); isC {
					if !b {
						c.Ok(key, c.Pos(k), "constant false: read-only load")
					} else if stmt, ok := dataChangingStatements[top]; ok {
						c.Ok(key, c.Pos(k), "constant true inside the "+stmt+" statement function")
					} else if ok, _ := calledOnlyFrom(p, fn, func(t string) bool { _, is := dataChangingStatements[t]; return is }); ok {
						c.Ok(key, c.Pos(k), "constant true inside a helper called only by data-changing statement functions")
					} else {
						c.Bad(key, c.Pos(k), "forUpdate = true outside the data-changing statement functions: a statement that only reads takes the write lock, creates a .temp file and marks the table for update")
					}
					continue
				}
				if ok, _ := isForUpdateValue(arg); ok {
					c.Ok(key, c.Pos(k), "forwards the caller's forUpdate parameter")
					continue
				}
				if call, ok := arg.(*ssa.Call); ok && calleeIn(p, call, "lib/parser.(SelectQuery).IsForUpdate") {
					inSelect := top == "lib/query.Select"
					if !inSelect {
						inSelect, _ = calledOnlyFrom(p, fn, func(t string) bool { return t == "lib/query.Select" })
					}
					if inSelect {
						c.Ok(key, c.Pos(k), "SELECT … FOR UPDATE, decided by the query itself (in Select or a helper only Select calls)")
						continue
					}
					// the worker a thin Select delegates to (it may have a second entry point, e.g. the definition of
					// an inline table): still the query's own decision when the receiver of IsForUpdate is the
					// SelectQuery this function was given to execute
					if thinDelegate(c.P.Func("lib/query.Select")) == fn && isOwnQueryParam(call) {
						c.Ok(key, c.Pos(k), "SELECT … FOR UPDATE, decided by the query itself (IsForUpdate of the SelectQuery parameter, in the function Select delegates to)")
						continue
					}
				}
				if own := lock8OwnParam(fn); own != nil && thinDelegate(c.P.Func("lib/query.Select")) == fn && lock9OwnOrText(p, arg, own) {
					c.Ok(key, c.Pos(k), "the caller's forUpdate parameter, made true under SelectQuery.IsForUpdate() of the query this function was given (in the function Select delegates to)")
					continue
				}
				c.Bad(key, c.Pos(k), "forUpdate is bound to "+valueLabel(arg)+", which is neither a constant, a forwarded forUpdate parameter nor SelectQuery.IsForUpdate() in Select: whether a read takes write locks can no longer be decided")
			}
		}
	}
	// (c) creators of write handlers
	for _, fn := range p.SrcFuncs() {
		if p.InPkg(fn, "lib/file") {
			continue
		}
		n := 0
		for _, k := range core.Calls(fn) {
			switch {
			case calleeIn(p, k, "lib/file.(*Container).CreateHandlerForUpdate"):
				n++
				c.Sites++
				c.Touch(fn)
				ok := false
				for _, f := range core.FactsAt(k.Block()) {
					if f.Neg {
						continue
					}
					if is, _ := isForUpdateValue(f.Cond); is {
						ok = true
					}
				}
				c.Check(ok, c.KeyAt(fn, "write handler only under forUpdate "+ordinal(n)), c.Pos(k),
					"dominated by the true edge of a test of the forUpdate parameter",
					"CreateHandlerForUpdate (lock file, exclusive flock, temp file) is not guarded by a test of the forUpdate parameter: plain reads create control files of writers")
			case calleeIn(p, k, "lib/file.(*Container).CreateHandlerForCreate"):
				n++
				c.Sites++
				c.Touch(fn)
				okc, whyc := calledOnlyFrom(p, fn, func(t string) bool { return t == "lib/query.CreateTable" })
				c.Check(okc, c.KeyAt(fn, "creates a table file "+ordinal(n)), c.Pos(k),
					"inside CreateTable (or a helper only CreateTable calls)", "CreateHandlerForCreate creates a table file on disk; only CREATE TABLE may do that ("+whyc+")")
			}
		}
	}
}

// writeAfterFinalise looks, in fn and (for a single call that does both) in its
// static callees, for a call reaching Handler.FileForUpdate that can execute
// after a call reaching Container.Commit. Returns a description or "".
func writeAfterFinalise(c *Ctx, fn *ssa.Function, depth int) string {
	p := c.P
	var fin, wr []ssa.CallInstruction
	for _, f := range funcAndClosures(fn) {
		for _, k := range core.Calls(f) {
			if _, isDefer := k.(*ssa.Defer); isDefer {
				continue
			}
			if callReachesNamed(p, k, fnCCommit) {
				fin = append(fin, k)
			}
			if callReachesNamed(p, k, "lib/file.(*Handler).FileForUpdate") {
				wr = append(wr, k)
			}
		}
	}
	for _, f := range fin {
		for _, w := range wr {
			if f.Parent() != w.Parent() {
				continue
			}
			if f != w {
				if reachAfter(f, w, nil, nil) {
					return fmt.Sprintf("in %s, %s at %s (obtains a write descriptor) can execute after %s at %s has finalised a handler", p.Name(fn), describeCall(p, w), c.Pos(w), describeCall(p, f), c.Pos(f))
				}
				continue
			}
			// one call writes and finalises
			if reachAfter(f, f, nil, nil) {
				return fmt.Sprintf("in %s, %s at %s both writes a file and finalises its handler and is executed repeatedly: the second file is written after the first handler was finalised", p.Name(fn), describeCall(p, f), c.Pos(f))
			}
			if depth < 3 {
				if callee := core.StaticCallee(f); callee != nil && callee.Blocks != nil {
					if bad := writeAfterFinalise(c, callee, depth+1); bad != "" {
						return bad
					}
				}
			}
		}
	}
	return ""
}

// ---------------------------------------------------------------------------
// R-CLEAN-5

// mentionsSize: the condition is (a bool variable / conjunction built from) a
// comparison of a Size() result.
func mentionsSize(v ssa.Value, depth int) bool {
	if depth > 4 {
		return false
	}
	switch x := v.(type) {
	case *ssa.Call:
		return x.Call.IsInvoke() && x.Call.Method.Name() == "Size"
	case *ssa.BinOp:
		return mentionsSize(x.X, depth+1) || mentionsSize(x.Y, depth+1)
	case *ssa.Phi:
		for _, e := range x.Edges {
			if mentionsSize(e, depth+1) {
				return true
			}
		}
	}
	return false
}

func sameOrigins(a, b ssa.Value) bool {
	oa, ob := core.Origins(a, false), core.Origins(b, false)
	if len(oa) == 0 || len(oa) != len(ob) {
		return false
	}
	set := map[ssa.Value]bool{}
	for _, x := range oa {
		set[x] = true
	}
	for _, x := range ob {
		if !set[x] {
			return false
		}
	}
	return true
}

// outFile describes the creation of a file whose descriptor a function holds:
// directly by go-file Create, or through a helper that returns the descriptor
// of a Create it performs (followed up to two levels).
type outFile struct {
	call   ssa.CallInstruction    // the creating call in the holding function
	fp     ssa.Value              // its descriptor there
	isPath func(v ssa.Value) bool // v is the path the file was created at (holder's scope)
	helper *ssa.Function          // non-nil when the Create happens inside a helper
	leak   string                 // the helper can return without handing out the descriptor it created
}

func isOsFilePtr(t types.Type) bool { return types.TypeString(t, nil) == "*os.File" }

func isString(t types.Type) bool {
	b, ok := t.Underlying().(*types.Basic)
	return ok && b.Kind() == types.String
}

func outCreator(c *Ctx, k ssa.CallInstruction, depth int) *outFile {
	p := c.P
	call, ok := k.(*ssa.Call)
	if !ok {
		return nil
	}
	if calleeIn(p, k, fnGoCreate) && len(call.Call.Args) == 1 {
		arg := call.Call.Args[0]
		return &outFile{call: k, fp: resultOf(k, 0), isPath: func(v ssa.Value) bool { return sameOrigins(v, arg) }}
	}
	f := core.StaticCallee(k)
	if f == nil || f.Blocks == nil || depth >= 2 || p.Name(f) == f.String() || p.InPkg(f, "lib/file") {
		return nil
	}
	res := f.Signature.Results()
	if res.Len() < 1 || !isOsFilePtr(res.At(0).Type()) {
		return nil
	}
	var inner []*outFile
	for _, ik := range core.Calls(f) {
		if in := outCreator(c, ik, depth+1); in != nil {
			inner = append(inner, in)
		}
	}
	if len(inner) == 0 {
		return nil
	}
	// every return hands out nil or the descriptor of one of the creates
	fromInner := func(v ssa.Value) *outFile {
		for _, in := range inner {
			if v != nil && originIs(v, in.fp) {
				return in
			}
		}
		return nil
	}
	type succ struct {
		r  *ssa.Return
		in *outFile
	}
	var succs []succ
	for _, r := range realReturns(f) {
		for _, v := range returnOperandDeep(r, 0) {
			if v != nil && core.IsNilConst(v) {
				continue
			}
			in := fromInner(v)
			if in == nil {
				return nil // hands out some other descriptor: not a creator helper
			}
			succs = append(succs, succ{r, in})
		}
	}
	if len(succs) == 0 {
		return nil
	}
	of := &outFile{call: k, fp: resultOf(k, 0), helper: f}
	// between the create and the return nothing may drop the descriptor
	for _, in := range inner {
		if in.leak != "" {
			of.leak = in.leak
		}
		closes := func(x ssa.Instruction) bool {
			ck, ok := x.(ssa.CallInstruction)
			return ok && (calleeIn(p, ck, "(*os.File).Close") || calleeIn(p, ck, fnGoClose)) && len(ck.Common().Args) > 0 && originIs(ck.Common().Args[0], in.fp)
		}
		for _, r := range returnsWithout(f, in.call, closes, failureEdgeOf(in.call)) {
			for _, v := range returnOperandDeep(r, 0) {
				if v == nil || !originIs(v, in.fp) {
					of.leak = "in " + f.Name() + " the return at " + c.Pos(r) + " is reachable after the file was created without handing out (or closing) its descriptor"
				}
			}
		}
	}
	// which results / parameters carry the created path
	pathVals := map[ssa.Value]bool{}
	for j := 1; j < res.Len(); j++ {
		if !isString(res.At(j).Type()) {
			continue
		}
		all := true
		for _, sc := range succs {
			for _, v := range returnOperandDeep(sc.r, j) {
				if v == nil || !sc.in.isPath(v) {
					all = false
				}
			}
		}
		if all {
			if rv := resultOf(k, j); rv != nil {
				pathVals[rv] = true
			}
		}
	}
	var passthrough []ssa.Value
	for i, par := range f.Params {
		if !isString(par.Type()) || i >= len(k.Common().Args) {
			continue
		}
		all := true
		for _, in := range inner {
			if !in.isPath(par) {
				all = false
			}
		}
		if all {
			passthrough = append(passthrough, k.Common().Args[i])
		}
	}
	of.isPath = func(v ssa.Value) bool {
		os := core.Origins(v, false)
		ok := len(os) > 0
		for _, o := range os {
			if !pathVals[o] {
				ok = false
			}
		}
		if ok {
			return true
		}
		for _, a := range passthrough {
			if sameOrigins(v, a) {
				return true
			}
		}
		return false
	}
	return of
}

// outCleanup is a deferred clean-up of an outFile: a closure, or a named
// function / method that receives the descriptor (and the path) as arguments.
type outCleanup struct {
	d      *ssa.Defer
	body   *ssa.Function
	isFp   func(v ssa.Value) bool
	isPath func(v ssa.Value) bool
}

func valueInSet(v ssa.Value, set map[ssa.Value]bool) bool {
	os := core.Origins(v, false)
	if len(os) == 0 {
		return false
	}
	for _, o := range os {
		if !set[o] {
			return false
		}
	}
	return true
}

func outCleanupOf(p *core.Prog, d *ssa.Defer, of *outFile) *outCleanup {
	var cl *outCleanup
	if mc, ok := d.Call.Value.(*ssa.MakeClosure); ok {
		body, _ := mc.Fn.(*ssa.Function)
		if body == nil || body.Blocks == nil {
			return nil
		}
		cl = &outCleanup{d: d, body: body,
			isFp:   func(v ssa.Value) bool { return originIs(v, of.fp) },
			isPath: of.isPath}
	} else if f := d.Call.StaticCallee(); f != nil && f.Blocks != nil {
		fpPar, pathPar := map[ssa.Value]bool{}, map[ssa.Value]bool{}
		for i, a := range d.Call.Args {
			if i >= len(f.Params) {
				break
			}
			if originIs(a, of.fp) {
				fpPar[f.Params[i]] = true
			} else if isString(a.Type()) && of.isPath(a) {
				pathPar[f.Params[i]] = true
			}
		}
		if len(fpPar) == 0 {
			return nil
		}
		cl = &outCleanup{d: d, body: f,
			isFp:   func(v ssa.Value) bool { return valueInSet(v, fpPar) },
			isPath: func(v ssa.Value) bool { return valueInSet(v, pathPar) }}
	} else {
		return nil
	}
	for _, ck := range core.Calls(cl.body) {
		if cl.closes(p, ck) {
			return cl
		}
	}
	return nil
}

func (cl *outCleanup) closes(p *core.Prog, in ssa.Instruction) bool {
	ck, ok := in.(ssa.CallInstruction)
	if !ok || !(calleeIn(p, ck, "(*os.File).Close") || calleeIn(p, ck, fnGoClose)) || len(ck.Common().Args) == 0 {
		return false
	}
	return cl.isFp(ck.Common().Args[0])
}

func ruleClean5(c *Ctx) {
	p := c.P
	n := 0
	for _, fn := range p.SrcFuncs() {
		if p.InPkg(fn, "lib/file") {
			continue
		}
		var setOuts []ssa.CallInstruction
		for _, k2 := range core.Calls(fn) {
			if calleeIn(p, k2, "lib/query.(*Session).SetOutFile") {
				setOuts = append(setOuts, k2)
			}
		}
		if len(setOuts) == 0 {
			continue
		}
		for _, k := range core.Calls(fn) {
			of := outCreator(c, k, 0)
			if of == nil || of.fp == nil {
				continue
			}
			// role: the descriptor becomes the session's out file
			var setOut ssa.CallInstruction
			for _, k2 := range setOuts {
				for _, a := range k2.Common().Args {
					for _, o := range core.Origins(a, false) {
						if o == of.fp {
							setOut = k2
						}
					}
				}
			}
			if setOut == nil {
				continue
			}
			if !p.IsControl(fn) {
				n++
			}
			c.Sites++
			c.Touch(fn)
			if of.helper != nil {
				c.Touch(of.helper)
			}
			var cleanups []*outCleanup
			for _, b := range fn.Blocks {
				for _, in := range b.Instrs {
					if d, ok := in.(*ssa.Defer); ok {
						if cl := outCleanupOf(p, d, of); cl != nil {
							cleanups = append(cleanups, cl)
						}
					}
				}
			}
			isCleanupDefer := func(in ssa.Instruction) bool {
				for _, cl := range cleanups {
					if in == cl.d {
						return true
					}
				}
				return false
			}
			keyReg := c.KeyAt(fn, "clean-up of the --out file deferred right after its creation")
			bad := of.leak
			walkAfter(of.call, failureEdgeOf(of.call), func(in ssa.Instruction) bool {
				if isCleanupDefer(in) {
					return false
				}
				switch x := in.(type) {
				case *ssa.Return, *ssa.Panic:
					bad = "the exit at " + c.Pos(in) + " is reachable after the file was created and before a clean-up is deferred: the (empty) file and its descriptor stay behind"
				case ssa.CallInstruction:
					if x == setOut {
						bad = "the descriptor is handed to the session at " + c.Pos(in) + " before a clean-up is deferred"
					} else if callReachesNamed(p, x, "lib/query.(*Processor).Execute") {
						bad = "statements are executed at " + c.Pos(in) + " before a clean-up of the --out file is deferred: an error or a signal during execution leaves the file behind"
					}
				}
				return true
			})
			c.Check(bad == "" && len(cleanups) > 0, keyReg, c.Pos(of.call), "every path from the successful create reaches the defer before any exit, SetOutFile or Execute",
				map[bool]string{true: "no deferred closure or function closes the created descriptor", false: bad}[len(cleanups) == 0])
			keyClose := c.KeyAt(fn, "deferred clean-up closes the --out descriptor")
			keyRm := c.KeyAt(fn, "deferred clean-up removes the --out file when it is empty")
			if len(cleanups) == 0 {
				c.Bad(keyClose, c.Pos(of.call), "no deferred closure or function closes the created descriptor")
				c.Bad(keyRm, c.Pos(of.call), "no deferred clean-up")
				continue
			}
			cl := cleanups[0]
			every := core.EscapeFromEntry(cl.body, func(in ssa.Instruction) bool { return cl.closes(p, in) }, nil) == nil
			c.Check(every, keyClose, c.FnPos(cl.body), "every path through the deferred clean-up closes the descriptor", "a path through the deferred clean-up returns without closing the descriptor")
			okRm, why := false, "the deferred clean-up does not remove the created path: a run that produces no output leaves an empty file behind"
			for _, ck := range core.Calls(cl.body) {
				if !isRemoveCall(p, ck) || len(ck.Common().Args) == 0 || !cl.isPath(ck.Common().Args[0]) {
					continue
				}
				okRm, why = false, "the removal at "+c.Pos(ck)+" is not guarded by a test of the file's Size(): a non-empty result file would be deleted"
				for _, f := range core.FactsAt(ck.Block()) {
					if !f.Neg && mentionsSize(f.Cond, 0) {
						okRm, why = true, ""
					}
				}
				break
			}
			c.Check(okRm, keyRm, c.FnPos(cl.body), "os.Remove of the created path under a test of Size()", why)
		}
	}
	if n == 0 {
		c.Unknown("anchor:--out file", "-", "cannot-analyse: no go-file Create (direct or through a helper that returns its descriptor) whose descriptor is passed to Session.SetOutFile is found outside lib/file")
	}
}

var _ = fmt.Sprintf

// isOwnQueryParam: the receiver of the call is a parameter of the calling function — directly, or read from the
// cell the parameter was spilled into (a struct parameter whose fields are selected), provided nothing else is
// ever written to that cell.
func isOwnQueryParam(call *ssa.Call) bool {
	args := call.Common().Args
	if len(args) == 0 {
		return false
	}
	os := core.Origins(args[0], false)
	if len(os) == 0 {
		return false
	}
	for _, o := range os {
		if _, ok := o.(*ssa.Parameter); ok {
			continue
		}
		u, ok := o.(*ssa.UnOp)
		if !ok || u.Op != token.MUL {
			return false
		}
		cell, ok := u.X.(*ssa.Alloc)
		if !ok || !cellHoldsOnlyParam(cell) {
			return false
		}
	}
	return true
}

func cellHoldsOnlyParam(cell *ssa.Alloc) bool {
	stored := false
	var readOnly func(v ssa.Value) bool
	readOnly = func(v ssa.Value) bool {
		refs := v.Referrers()
		if refs == nil {
			return false
		}
		for _, r := range *refs {
			switch x := r.(type) {
			case *ssa.UnOp, *ssa.DebugRef:
			case *ssa.FieldAddr:
				if !readOnly(x) {
					return false
				}
			case *ssa.Store:
				if x.Addr != v || v != ssa.Value(cell) {
					return false
				}
				if _, ok := x.Val.(*ssa.Parameter); !ok {
					return false
				}
				stored = true
			default:
				return false
			}
		}
		return true
	}
	return readOnly(cell) && stored
}
