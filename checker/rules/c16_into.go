package rules

import (
	"fmt"
	"go/token"
	"go/types"
	"sort"
	"strings"

	"golang.org/x/tools/go/ssa"

	"verif/checker/core"
)

// R-INTO-1 — a statement that delivers a row into a list of variables assigns EVERY variable of the list on
// every successful outcome.
//
// FETCH … INTO and SELECT … INTO put the values of one row into the variables of an INTO list. When there is no
// row (the cursor stands outside the result, the query selects nothing) the documented outcome is that the
// variables are set to NULL; a successful return that leaves them alone lets the program go on with the values
// of the previous row — stale data. The sites are found by role: the functions of lib/query that hand an element
// of a []parser.Variable to (*ReferenceScope).SubstituteVariableDirectly inside a loop that ranges over that
// list. For each such function and list: every path from the entry to a return whose error result may be nil
// enters such a loop over the list (or calls a helper that has one on that argument), unless the path has
// established that the list is nil, or that an error value is non-nil (error exits are not outcomes of the
// statement).
// Written after the round-7 report "an out-of-range FETCH leaves the INTO variables with their previous values".

func init() {
	Register(&Rule{ID: "R-INTO-1", Props: []string{"C16"}, Floor: 2,
		Doc:      "every successful outcome assigns the whole INTO list: for each function of lib/query that ranges over a []parser.Variable list handing its elements to (*ReferenceScope).SubstituteVariableDirectly (today FetchCursor for FETCH / WHILE … IN and Select for SELECT … INTO), every path from the function's entry to a return whose error result may be nil enters a loop that runs over the whole list (index compared with len(list)) and substitutes its elements — with the fetched value or NULL — or calls a helper doing so on that list, except on paths that have branched on the list being nil or on an error value being non-nil; a successful return without it (`if primaries == nil { return false, nil }`) leaves the values of the previous row in the variables although no row was delivered",
		Controls: []string{"CtlIntoNoRowLeavesVariables"},
		Run:      ruleInto1})
}

type intoLoop struct {
	fn     *ssa.Function
	list   ssa.Value // the []parser.Variable value ranged over
	header *ssa.BasicBlock
	call   ssa.CallInstruction
}

func isVariableSlice(t types.Type) bool {
	sl, ok := t.Underlying().(*types.Slice)
	if !ok {
		return false
	}
	return core.NamedOf(sl.Elem()) == "lib/parser.Variable"
}

// intoLoops: the loops of fn that range over a []parser.Variable and substitute its elements.
func intoLoops(c *Ctx, fn *ssa.Function) []intoLoop {
	var out []intoLoop
	var loops []*core.Loop
	for _, call := range core.Calls(fn) {
		if !strings.HasSuffix(c.P.CalleeName(call), "(*ReferenceScope).SubstituteVariableDirectly") {
			continue
		}
		// the variable argument: an element of a []parser.Variable
		var list ssa.Value
		for _, a := range call.Common().Args {
			v := a
			if u, ok := v.(*ssa.UnOp); ok && u.Op == token.MUL {
				if ia, ok := u.X.(*ssa.IndexAddr); ok && isVariableSlice(ia.X.Type()) {
					list = ia.X
				}
			}
			if ix, ok := v.(*ssa.Index); ok && isVariableSlice(ix.X.Type()) {
				list = ix.X
			}
		}
		if list == nil {
			continue
		}
		if loops == nil {
			loops = core.NaturalLoops(fn)
		}
		in := call.(ssa.Instruction)
		// the enclosing loop whose header compares the index with len(list)
		for _, l := range loops {
			if !l.Blocks[in.Block()] {
				continue
			}
			iff, ok := l.Header.Instrs[len(l.Header.Instrs)-1].(*ssa.If)
			if !ok {
				continue
			}
			bo, ok := iff.Cond.(*ssa.BinOp)
			if !ok || bo.Op != token.LSS {
				continue
			}
			ln, ok := bo.Y.(*ssa.Call)
			if !ok {
				continue
			}
			if bi, ok := ln.Common().Value.(*ssa.Builtin); !ok || bi.Name() != "len" || ln.Common().Args[0] != list {
				continue
			}
			out = append(out, intoLoop{fn, list, l.Header, call})
		}
	}
	return out
}

func ruleInto1(c *Ctx) {
	// helpers: function → parameter indices whose list it substitutes entirely
	helper := map[*ssa.Function]map[int]bool{}
	byFn := map[*ssa.Function][]intoLoop{}
	var fns []*ssa.Function
	for _, fn := range c.P.FuncsIn(true, "lib/query") {
		ls := intoLoops(c, fn)
		if len(ls) == 0 {
			continue
		}
		byFn[fn] = ls
		fns = append(fns, fn)
		for _, l := range ls {
			for i, p := range fn.Params {
				if l.list == ssa.Value(p) {
					if helper[fn] == nil {
						helper[fn] = map[int]bool{}
					}
					helper[fn][i] = true
				}
			}
		}
	}
	// functions without a loop of their own that hand a list they own (a parameter or a local) to a helper
	for _, fn := range c.P.FuncsIn(true, "lib/query") {
		if _, has := byFn[fn]; has {
			continue
		}
		for _, call := range core.Calls(fn) {
			g := call.Common().StaticCallee()
			if g == nil || helper[g] == nil {
				continue
			}
			for i, a := range call.Common().Args {
				if !helper[g][i] {
					continue
				}
				switch a.(type) {
				case *ssa.Parameter, *ssa.Phi:
					if _, has := byFn[fn]; !has {
						fns = append(fns, fn)
					}
					byFn[fn] = append(byFn[fn], intoLoop{fn, a, nil, call})
				}
			}
		}
	}
	sort.Slice(fns, func(i, j int) bool { return c.P.Name(fns[i]) < c.P.Name(fns[j]) })
	if len(fns) == 0 {
		c.Unknown("INTO lists", "-", "cannot-analyse: no function of lib/query ranges over a []parser.Variable handing its elements to (*ReferenceScope).SubstituteVariableDirectly")
		return
	}
	listName := func(v ssa.Value) string {
		switch x := v.(type) {
		case *ssa.Parameter:
			return x.Name()
		case *ssa.Phi:
			if x.Comment != "" {
				return x.Comment
			}
		}
		return "of type []parser.Variable"
	}
	isNilCmp := func(cond ssa.Value, want func(ssa.Value) bool) (nonNilSucc int, ok bool) {
		bo, isBo := cond.(*ssa.BinOp)
		if !isBo || (bo.Op != token.NEQ && bo.Op != token.EQL) {
			return 0, false
		}
		var x ssa.Value
		switch {
		case core.IsNilConst(bo.Y):
			x = bo.X
		case core.IsNilConst(bo.X):
			x = bo.Y
		default:
			return 0, false
		}
		if !want(x) {
			return 0, false
		}
		if bo.Op == token.NEQ {
			return 0, true // true edge: x != nil
		}
		return 1, true
	}
	for _, fn := range fns {
		c.Touch(fn)
		// one obligation per list
		seenList := map[ssa.Value]bool{}
		for _, l := range byFn[fn] {
			if seenList[l.list] {
				continue
			}
			seenList[l.list] = true
			list := l.list
			key := c.KeyAt(fn, fmt.Sprintf("every successful return assigns every variable of the list %s", listName(list)))
			errIdx := core.ErrorResultIndex(fn)
			headers := map[*ssa.BasicBlock]bool{}
			for _, l2 := range byFn[fn] {
				if l2.list == list && l2.header != nil {
					headers[l2.header] = true
				}
			}
			isTarget := func(in ssa.Instruction) bool {
				if headers[in.Block()] && in == in.Block().Instrs[0] {
					return true
				}
				switch x := in.(type) {
				case *ssa.Call:
					if g := x.Common().StaticCallee(); g != nil && helper[g] != nil {
						for i, a := range x.Common().Args {
							if helper[g][i] && a == list {
								return true
							}
						}
					}
				case *ssa.Return:
					// an error exit is not an outcome of the statement
					if errIdx >= 0 {
						allErr := true
						for _, v := range core.ReturnOperand(x, errIdx) {
							if v == nil || core.ClassifyNil(v, x) != core.NonNil {
								allErr = false
							}
						}
						return allErr
					}
				case *ssa.Panic:
					return true
				}
				return false
			}
			prune := func(from, to *ssa.BasicBlock) bool {
				iff, ok := from.Instrs[len(from.Instrs)-1].(*ssa.If)
				if !ok || len(from.Succs) != 2 {
					return false
				}
				// the list is nil on this edge: nothing to assign
				if nn, ok := isNilCmp(iff.Cond, func(v ssa.Value) bool { return v == list }); ok {
					return to == from.Succs[1-nn] && from.Succs[0] != from.Succs[1]
				}
				// an error value is non-nil on this edge: error path
				if nn, ok := isNilCmp(iff.Cond, func(v ssa.Value) bool { return core.IsErrorType(v.Type()) }); ok {
					return to == from.Succs[nn] && from.Succs[0] != from.Succs[1]
				}
				return false
			}
			esc := core.EscapeFromEntry(fn, isTarget, prune)
			if esc == nil {
				c.Ok(key, c.Pos(l.call), "every path to a return that may report success enters a loop over the whole list that substitutes its elements (or the list is nil, or an error is being returned)")
			} else {
				c.Bad(key, c.Pos(esc), fmt.Sprintf("the return at %s can be reached from the entry of %s with a nil error and without entering a loop that assigns the variables of %s (the loop at %s is bypassed): when no row is delivered the statement succeeds and the INTO variables keep the values of the previous row instead of becoming NULL", c.Pos(esc), c.P.Name(fn), listName(list), c.Pos(l.call)))
			}
		}
	}
}
