package rules

// R-PAR-20 (seventh round): the spawn window. Between the first `go` of a function and the
// join that waits for the goroutines, the spawner does nothing but spawn — it does not read
// or write what the goroutines work on. This closes the gap "parent-goroutine accesses between
// spawn and join" of DESIGN §6 (E5 judges region against region, and the parent only after Wait).

import (
	"fmt"
	"go/token"
	"go/types"
	"strings"

	"golang.org/x/tools/go/ssa"

	"verif/checker/core"
)

func init() {
	Register(&Rule{ID: "R-PAR-20", Props: []string{"C13", "C12"}, Floor: 8,
		Doc:      "the spawn window is empty: in every function of csvq that starts goroutines (outside the listed process-lifetime watcher), every instruction on a path from a go statement to the join (a synchronous WaitGroup.Wait or a csvq function that waits on all its paths — the joiners of R-PAR-15) only spawns: another go, a closure creation, WaitGroup.Add (or a csvq wrapper that only reaches Add), integer loop control over values the goroutines do not write, and address computations. A store through a pointer, a store into or load from a variable that a spawned closure captures and writes, a map or slice element access, a send, or any other call in the window is a parent access that runs concurrently with the workers without synchronisation",
		Controls: []string{"ctlWindowReadsSlot", "ctlWindowCallsHelper"},
		Run:      rulePar20})
}

func rulePar20(c *Ctx) {
	start := len(c.Obs)
	defer func() { c.negControls(start, "okWindowSpawnOnly", "okWindowTwoStages") }()
	// joiners as in R-PAR-15
	joiner := map[*ssa.Function]bool{}
	isJoin := func(in ssa.Instruction) bool {
		call, ok := in.(*ssa.Call)
		if !ok {
			return false
		}
		if c.P.CalleeName(call) == "(*sync.WaitGroup).Wait" {
			return true
		}
		if f := call.Common().StaticCallee(); f != nil && joiner[f] {
			return true
		}
		return false
	}
	everyPathJoins := func(fn *ssa.Function) bool {
		if len(fn.Blocks) == 0 {
			return false
		}
		reachedReturn := false
		core.WalkFromEntry(fn, func(in ssa.Instruction) bool {
			if isJoin(in) {
				return false
			}
			if _, ok := in.(*ssa.Return); ok {
				reachedReturn = true
			}
			return true
		})
		return !reachedReturn
	}
	for changed := true; changed; {
		changed = false
		for _, fn := range c.P.SrcFuncs() {
			if !joiner[fn] && everyPathJoins(fn) {
				joiner[fn] = true
				changed = true
			}
		}
	}
	// adders: csvq functions whose only effect is WaitGroup.Add
	isAdder := func(f *ssa.Function) bool {
		if f == nil || f.Blocks == nil {
			return false
		}
		ok := false
		for _, call := range core.Calls(f) {
			if c.P.CalleeName(call) == "(*sync.WaitGroup).Add" {
				ok = true
			} else {
				return false
			}
		}
		if !ok {
			return false
		}
		for _, b := range f.Blocks {
			for _, in := range b.Instrs {
				if _, isStore := in.(*ssa.Store); isStore {
					return false
				}
			}
		}
		return true
	}
	n := 0
	for _, fn := range c.P.SrcFuncs() {
		var gos []*ssa.Go
		for _, b := range fn.Blocks {
			for _, in := range b.Instrs {
				if g, ok := in.(*ssa.Go); ok {
					gos = append(gos, g)
				}
			}
		}
		if len(gos) == 0 {
			continue
		}
		host := fn
		for host.Parent() != nil {
			host = host.Parent()
		}
		key := c.KeyAt(fn, "spawn window")
		if why, ok := par15ProcessLifetime[c.P.Name(host)]; ok {
			if !c.P.IsControl(fn) {
				n++
			}
			c.Ok(key, c.Pos(gos[0]), "listed (R-PAR-15): "+why)
			continue
		}
		if !c.P.IsControl(fn) {
			n++
		}
		c.Touch(fn)
		// cells written by the spawned code: allocs bound into closures started here (or
		// nested in them) that contain a store to the cell
		written := map[ssa.Value]bool{}
		var markWritten func(f *ssa.Function, bindings []ssa.Value, depth int)
		markWritten = func(f *ssa.Function, bindings []ssa.Value, depth int) {
			if f == nil || depth > 3 {
				return
			}
			for i, fv := range f.FreeVars {
				if i >= len(bindings) {
					break
				}
				stored := false
				var scan func(g *ssa.Function, v ssa.Value, d int)
				scan = func(g *ssa.Function, v ssa.Value, d int) {
					if d > 3 {
						return
					}
					for _, r := range *v.Referrers() {
						switch x := r.(type) {
						case *ssa.Store:
							if x.Addr == v {
								stored = true
							}
						case *ssa.MakeClosure:
							if inner, ok := x.Fn.(*ssa.Function); ok {
								for j, bnd := range x.Bindings {
									if bnd == v && j < len(inner.FreeVars) {
										scan(inner, inner.FreeVars[j], d+1)
									}
								}
							}
						}
					}
				}
				scan(f, fv, 0)
				if stored {
					written[bindings[i]] = true
				}
			}
		}
		for _, g := range gos {
			switch v := g.Call.Value.(type) {
			case *ssa.MakeClosure:
				if f, ok := v.Fn.(*ssa.Function); ok {
					markWritten(f, v.Bindings, 0)
				}
			}
			for _, a := range g.Call.Args {
				if mc, ok := a.(*ssa.MakeClosure); ok {
					if f, ok := mc.Fn.(*ssa.Function); ok {
						markWritten(f, mc.Bindings, 0)
					}
				}
			}
		}
		// closures bound to locals and started by `go local(i)`: the closure value is a cell load
		for _, b := range fn.Blocks {
			for _, in := range b.Instrs {
				if mc, ok := in.(*ssa.MakeClosure); ok {
					if f, ok := mc.Fn.(*ssa.Function); ok {
						markWritten(f, mc.Bindings, 0)
					}
				}
			}
		}
		// spawner-side values (cells or plain values) through which the spawned code stores elements / fields
		elemWritten := map[ssa.Value]bool{}
		rootOf := func(a ssa.Value) ssa.Value {
			for i := 0; i < 8; i++ {
				switch x := a.(type) {
				case *ssa.IndexAddr:
					a = x.X
				case *ssa.FieldAddr:
					a = x.X
				case *ssa.UnOp:
					if x.Op != token.MUL {
						return a
					}
					switch x.X.(type) {
					case *ssa.FreeVar, *ssa.Alloc:
						return x.X
					}
					a = x.X
				default:
					return a
				}
			}
			return a
		}
		var markElems func(f *ssa.Function, bound map[ssa.Value]ssa.Value, depth int)
		markElems = func(f *ssa.Function, bound map[ssa.Value]ssa.Value, depth int) {
			if f == nil || depth > 3 {
				return
			}
			for _, b := range f.Blocks {
				for _, in := range b.Instrs {
					switch x := in.(type) {
					case *ssa.Store:
						if _, plain := x.Addr.(*ssa.Alloc); plain {
							continue
						}
						if _, plain := x.Addr.(*ssa.FreeVar); plain {
							continue
						}
						if v, ok := bound[rootOf(x.Addr)]; ok {
							elemWritten[v] = true
						}
					case *ssa.MapUpdate:
						if v, ok := bound[rootOf(x.Map)]; ok {
							elemWritten[v] = true
						}
					case *ssa.MakeClosure:
						if inner, ok := x.Fn.(*ssa.Function); ok {
							nb := map[ssa.Value]ssa.Value{}
							for j, bnd := range x.Bindings {
								if j < len(inner.FreeVars) {
									if v, ok := bound[bnd]; ok {
										nb[inner.FreeVars[j]] = v
									}
								}
							}
							markElems(inner, nb, depth+1)
						}
					}
				}
			}
		}
		spawnedWith := func(f *ssa.Function, bindings, args []ssa.Value) {
			bound := map[ssa.Value]ssa.Value{}
			for i, fv := range f.FreeVars {
				if i < len(bindings) {
					bound[fv] = bindings[i]
				}
			}
			off := len(f.Params) - len(args)
			for j, a := range args {
				if j+off >= 0 && j+off < len(f.Params) {
					key := ssa.Value(a)
					if u, ok := a.(*ssa.UnOp); ok && u.Op == token.MUL {
						if al, ok := u.X.(*ssa.Alloc); ok {
							key = al
						}
					}
					bound[f.Params[j+off]] = key
				}
			}
			markElems(f, bound, 0)
		}
		for _, g := range gos {
			switch v := g.Call.Value.(type) {
			case *ssa.MakeClosure:
				if f, ok := v.Fn.(*ssa.Function); ok {
					spawnedWith(f, v.Bindings, g.Call.Args)
				}
			case *ssa.Function:
				spawnedWith(v, nil, g.Call.Args)
			default:
				if f := g.Call.StaticCallee(); f != nil {
					var bindings []ssa.Value
					if mc, ok := scpResolveCell(g.Call.Value).(*ssa.MakeClosure); ok {
						bindings = mc.Bindings
					}
					spawnedWith(f, bindings, g.Call.Args)
				}
			}
		}
		for _, b := range fn.Blocks {
			for _, in := range b.Instrs {
				if mc, ok := in.(*ssa.MakeClosure); ok {
					if f, ok := mc.Fn.(*ssa.Function); ok {
						spawnedWith(f, mc.Bindings, nil)
					}
				}
			}
		}
		bad := ""
		var at ssa.Instruction
		seen := map[ssa.Instruction]bool{}
		for _, g := range gos {
			core.WalkFrom(g, func(in ssa.Instruction) bool {
				if in == ssa.Instruction(g) {
					return true
				}
				if isJoin(in) {
					return false
				}
				if seen[in] || bad != "" {
					return bad == ""
				}
				seen[in] = true
				switch x := in.(type) {
				case *ssa.Go, *ssa.MakeClosure, *ssa.Phi, *ssa.BinOp, *ssa.If, *ssa.Jump, *ssa.FieldAddr, *ssa.IndexAddr, *ssa.Alloc,
					*ssa.Extract, *ssa.Convert, *ssa.ChangeType, *ssa.DebugRef, *ssa.Return, *ssa.RunDefers, *ssa.MakeInterface, *ssa.ChangeInterface, *ssa.Field:
					// spawning, control, address arithmetic (a Return inside the window is R-PAR-15's matter)
				case *ssa.UnOp:
					if x.Op == token.MUL {
						if written[x.X] {
							bad, at = "reads "+valueLabel(x.X)+", a variable the goroutines started here write, before waiting for them", in
						}
						if ia, ok := x.X.(*ssa.IndexAddr); ok {
							r := rootOf(ia)
							if elemWritten[r] {
								bad, at = "reads an element of "+valueLabel(r)+", whose elements the goroutines started here write, between go and the join", in
							}
						}
					}
				case *ssa.Store:
					switch a := x.Addr.(type) {
					case *ssa.Alloc:
						if written[a] {
							bad, at = "writes "+valueLabel(a)+", a variable the goroutines started here write as well, before waiting for them", in
						}
						// a store into a local that closures only read is judged by R-PAR-1 (captured reads)
						for _, r := range *a.Referrers() {
							if mc, ok := r.(*ssa.MakeClosure); ok {
								_ = mc
								if bad == "" && !isLoopCounterStore(x) {
									bad, at = "writes "+valueLabel(a)+", a variable captured by a closure created in this function, between go and the join", in
								}
							}
						}
					default:
						bad, at = "stores through a pointer ("+valueLabel(x.Addr)+") between go and the join", in
					}
				case *ssa.MapUpdate, *ssa.Lookup, *ssa.Send, *ssa.Range, *ssa.Next, *ssa.Select:
					bad, at = fmt.Sprintf("performs a %T between go and the join", in), in
					bad = strings.Replace(bad, "*ssa.", "", 1)
				case *ssa.Defer:
					// registering a deferred call is not an access; what it calls runs after the join or at exit
				case ssa.CallInstruction:
					name := c.P.CalleeName(x)
					f := core.StaticCallee(x)
					switch {
					case name == "(*sync.WaitGroup).Add":
					case f != nil && isAdder(f):
					case name == "builtin:len" || name == "builtin:cap":
					default:
						what := name
						if f != nil {
							what = c.P.Name(f)
						}
						bad, at = "calls "+what+" between go and the join: whatever it touches is accessed concurrently with the workers", in
					}
				default:
					bad, at = fmt.Sprintf("executes %T between go and the join", in), in
				}
				return bad == ""
			})
			if bad != "" {
				break
			}
		}
		if bad != "" {
			c.Bad(key, c.Pos(at), "the spawner "+bad+" — the goroutines it has started are already running, and nothing orders this access with theirs")
		} else {
			c.OkN(key, c.Pos(gos[0]), fmt.Sprintf("%d go statement(s); the %d instruction(s) between them and the join only spawn (go, closure creation, Add, loop control)", len(gos), len(seen)), len(seen))
		}
	}
	if n < 8 {
		c.Unknown("anchor:functions that start goroutines", "-", fmt.Sprintf("cannot-analyse: expected at least 8 spawning functions, found %d", n))
	}
	_ = types.Typ
}

// isLoopCounterStore: x stores `v + const` or a constant into a local that no spawned
// closure writes (a loop counter kept in a cell because a closure captured it by reference).
func isLoopCounterStore(x *ssa.Store) bool {
	if _, ok := core.ConstInt(x.Val); ok {
		return true
	}
	if b, ok := x.Val.(*ssa.BinOp); ok && (b.Op == token.ADD || b.Op == token.SUB) {
		if _, ok := core.ConstInt(b.Y); ok {
			return true
		}
	}
	return false
}
