package rules

// R-KEY-3, clause added in the eighth round: a float without a fractional part shares the key of
// the integer it is equal to (1.0 = 1 is TRUE, so GROUP BY / DISTINCT / UNION / PARTITION BY must
// not tell them apart). D84.

import (
	"go/token"
	"go/types"

	"golang.org/x/tools/go/ssa"

	"verif/checker/core"
)

var key3RoundFns = map[string]bool{"math.Trunc": true, "math.Floor": true, "math.Ceil": true, "math.Round": true, "math.RoundToEven": true}

// key3IsWholeTest: cond, taken on the given edge, says "x has no fractional part": x == math.Trunc(x)
// (or Floor / Ceil / Round, or float64(int64(x))) on the true edge, x != … on the false edge.
func key3IsWholeTest(c *Ctx, cond ssa.Value, neg bool, x ssa.Value) bool {
	b, ok := cond.(*ssa.BinOp)
	if !ok {
		return false
	}
	if !((b.Op == token.EQL && !neg) || (b.Op == token.NEQ && neg)) {
		return false
	}
	isRounded := func(v ssa.Value) bool {
		switch y := v.(type) {
		case *ssa.Call:
			return key3RoundFns[c.P.CalleeName(y)] && len(y.Call.Args) == 1 && y.Call.Args[0] == x
		case *ssa.Convert:
			if in, ok := y.X.(*ssa.Convert); ok && in.X == x {
				if bt, ok := in.Type().Underlying().(*types.Basic); ok && bt.Info()&types.IsInteger != 0 {
					return true
				}
			}
		}
		return false
	}
	return (b.X == x && isRounded(b.Y)) || (b.Y == x && isRounded(b.X))
}

// key3WholeAt: at instruction `at` the float x is known to have no fractional part.
func key3WholeAt(c *Ctx, x ssa.Value, at ssa.Instruction) bool {
	for _, f := range core.FactsAt(at.Block()) {
		if key3IsWholeTest(c, f.Cond, f.Neg, x) {
			return true
		}
	}
	return false
}

// key3WholeHelper: g is func(float64) (int64, bool) that answers true only for a float without a
// fractional part and then returns int64(f).
func key3WholeHelper(c *Ctx, g *ssa.Function) bool {
	if g == nil || len(g.Blocks) == 0 || len(g.Params) != 1 || g.Signature.Results().Len() != 2 {
		return false
	}
	if bt, ok := g.Params[0].Type().Underlying().(*types.Basic); !ok || bt.Kind() != types.Float64 {
		return false
	}
	x := g.Params[0]
	sawTrue := false
	for _, r := range core.Returns(g) {
		okv := r.Results[1]
		k, isK := okv.(*ssa.Const)
		if isK && k.Value != nil && !constantBool(k) {
			continue // answers false
		}
		// answers true (or something computed): the integer is int64(x) and x is whole here
		cv, isConv := r.Results[0].(*ssa.Convert)
		if !isConv || cv.X != ssa.Value(x) || !key3WholeAt(c, x, r) {
			return false
		}
		sawTrue = true
	}
	return sawTrue
}

func constantBool(k *ssa.Const) bool {
	return k.Value != nil && k.Value.String() == "true"
}

// key3IntegerKeyOfWholeFloat: the call (of serializeInteger) writes the key of a float that is known
// to be whole at this point, and writes the integer that float stands for.
func key3IntegerKeyOfWholeFloat(c *Ctx, call ssa.CallInstruction) bool {
	if call == nil || len(call.Common().Args) < 2 {
		return false
	}
	// the text written: a conversion helper applied to an int64
	var num ssa.Value
	switch t := call.Common().Args[1].(type) {
	case *ssa.Call:
		if len(t.Call.Args) >= 1 {
			num = t.Call.Args[0]
		}
	}
	if num == nil {
		return false
	}
	switch n := num.(type) {
	case *ssa.Extract:
		// result #0 of a whole-number helper whose result #1 is known true here
		hc, ok := n.Tuple.(*ssa.Call)
		if !ok || n.Index != 0 || !key3WholeHelper(c, core.StaticCallee(hc)) {
			return false
		}
		for _, f := range core.FactsAt(call.Block()) {
			if e, ok := f.Cond.(*ssa.Extract); ok && !f.Neg && e.Tuple == n.Tuple && e.Index == 1 {
				return true
			}
		}
	case *ssa.Convert:
		// int64(x) written out where x is known to be whole
		return key3WholeAt(c, n.X, call)
	}
	return false
}
