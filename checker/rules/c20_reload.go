package rules

import (
	"fmt"
	"go/token"
	"go/types"
	"strings"

	"golang.org/x/tools/go/ssa"

	"verif/checker/core"
)

// C20 — a loaded table is stable within a transaction.
// R-CACHE-1: the block of cacheViewFromFile that re-reads the file is reached
// iff ¬isCached ∨ (forUpdate ∧ ¬cachedForUpdate). The three inputs are
// recognised by role and the branch conditions on the way to the reload are
// evaluated abstractly for all 8 assignments.

func init() {
	Register(&Rule{ID: "R-CACHE-1", Props: []string{"C20", "C09"}, Floor: 8,
		Doc:      "truth table of the reload guard of cacheViewFromFile over {isCached = result of the cache lookup, forUpdate = the bool parameter, cachedForUpdate = view.FileInfo.ForUpdate}: for each of the 8 assignments the call that re-reads the file (reaches loadViewFromFile / file.NewReader) is reachable from the entry — branch conditions built from the three inputs evaluated, all other conditions (error exits) taken both ways — exactly when ¬isCached ∨ (forUpdate ∧ ¬cachedForUpdate)",
		Controls: []string{"CtlReloadWheneverForUpdate"},
		Run:      ruleCache1})
}

type fxAtoms struct {
	forUpdate *ssa.Parameter
	isCached  func(ssa.Value) bool
	cachedFU  func(ssa.Value) bool
}

// fxEvalCond evaluates a branch condition under an assignment of the three atoms.
func fxEvalCond(v ssa.Value, at *fxAtoms, asg [3]bool, used *[3]bool) (val, known bool) {
	switch x := v.(type) {
	case *ssa.Const:
		if b, ok := core.ConstBool(x); ok {
			return b, true
		}
	case *ssa.UnOp:
		if x.Op == token.NOT {
			b, k := fxEvalCond(x.X, at, asg, used)
			return !b, k
		}
	case *ssa.BinOp:
		if x.Op == token.EQL || x.Op == token.NEQ {
			a, ka := fxEvalCond(x.X, at, asg, used)
			b, kb := fxEvalCond(x.Y, at, asg, used)
			if ka && kb {
				return (a == b) == (x.Op == token.EQL), true
			}
		}
	}
	switch {
	case at.isCached(v):
		used[0] = true
		return asg[0], true
	case v == ssa.Value(at.forUpdate):
		used[1] = true
		return asg[1], true
	case at.cachedFU(v):
		used[2] = true
		return asg[2], true
	}
	return false, false
}

func ruleCache1(c *Ctx) {
	if fn := c.Fn("lib/query.cacheViewFromFile"); fn != nil {
		fxCheckReloadGuard(c, fn)
	}
	for _, fn := range fxCtlFuncs(c) {
		if strings.HasPrefix(fn.Name(), "CtlReload") || strings.HasPrefix(fn.Name(), "okReload") {
			c.Touch(fn)
			fxCheckReloadGuard(c, fn)
		}
	}
}

func fxCheckReloadGuard(c *Ctx, fn *ssa.Function) {
	keyAll := c.KeyAt(fn, "reload guard")
	// forUpdate: the one bool parameter
	var fu *ssa.Parameter
	nbool := 0
	for _, p := range fn.Params {
		if b, ok := p.Type().Underlying().(*types.Basic); ok && b.Kind() == types.Bool {
			fu = p
			nbool++
		}
	}
	if nbool != 1 {
		c.Unknown(keyAll, c.FnPos(fn), fmt.Sprintf("cannot-analyse: expected exactly one bool parameter (forUpdate), found %d", nbool))
		return
	}
	isLoad := func(f *ssa.Function) bool {
		return f.Name() == "Load" && f.Signature.Recv() != nil && core.NamedOf(f.Signature.Recv().Type()) == "lib/query.ViewMap"
	}
	loaders := c.P.Reachers(isLoad)
	at := &fxAtoms{forUpdate: fu,
		isCached: func(v ssa.Value) bool {
			if b, ok := v.Type().Underlying().(*types.Basic); !ok || b.Kind() != types.Bool {
				return false
			}
			call, _ := fxCallOf(v)
			return call != nil && c.P.CallMayReach(call, loaders)
		},
		cachedFU: func(v ssa.Value) bool {
			fa := fxFieldLoad(v)
			return fa != nil && core.FieldOwner(fa) == "lib/query.FileInfo.ForUpdate"
		},
	}
	// the reload: calls that (re-)read the file
	readers := c.P.ReachersOfNames("lib/query.loadViewFromFile", "lib/file.NewReader")
	reload := core.CallsWhere(fn, func(ci ssa.CallInstruction) bool { return c.P.CallMayReach(ci, readers) })
	if len(reload) == 0 {
		c.Unknown(keyAll, c.FnPos(fn), "cannot-analyse: no call that reaches loadViewFromFile / file.NewReader (the reload) found")
		return
	}
	reloadBlocks := map[*ssa.BasicBlock]bool{}
	for _, r := range reload {
		reloadBlocks[r.Block()] = true
	}
	var used [3]bool
	reach := func(asg [3]bool) bool {
		seen := map[*ssa.BasicBlock]bool{}
		var walk func(b *ssa.BasicBlock) bool
		walk = func(b *ssa.BasicBlock) bool {
			if seen[b] {
				return false
			}
			seen[b] = true
			if reloadBlocks[b] {
				return true
			}
			if iff, ok := b.Instrs[len(b.Instrs)-1].(*ssa.If); ok {
				if v, known := fxEvalCond(iff.Cond, at, asg, &used); known {
					if v {
						return walk(b.Succs[0])
					}
					return walk(b.Succs[1])
				}
			}
			for _, s := range b.Succs {
				if walk(s) {
					return true
				}
			}
			return false
		}
		return walk(fn.Blocks[0])
	}
	type cell struct {
		asg [3]bool
		got bool
	}
	var cells []cell
	for i := 0; i < 8; i++ {
		asg := [3]bool{i&4 != 0, i&2 != 0, i&1 != 0}
		cells = append(cells, cell{asg, reach(asg)})
	}
	if !used[0] || !used[1] {
		c.Unknown(keyAll, c.Pos(reload[0].(ssa.Instruction)), fmt.Sprintf("cannot-analyse: the conditions on the way to the reload do not test the cache-lookup result (found=%v) and the forUpdate parameter (found=%v); the rule cannot relate the guard to its inputs", used[0], used[1]))
		return
	}
	tf := func(b bool) string {
		if b {
			return "T"
		}
		return "F"
	}
	for _, cl := range cells {
		want := !cl.asg[0] || (cl.asg[1] && !cl.asg[2])
		key := c.KeyAt(fn, fmt.Sprintf("reload when isCached=%s forUpdate=%s cachedForUpdate=%s", tf(cl.asg[0]), tf(cl.asg[1]), tf(cl.asg[2])))
		pos := c.Pos(reload[0].(ssa.Instruction))
		if cl.got == want {
			c.OkN(key, pos, fmt.Sprintf("reload reachable = %v, as specified", cl.got), 1)
			continue
		}
		why := fmt.Sprintf("cell (isCached=%s, forUpdate=%s, cachedForUpdate=%s): the reload is reachable = %v, the specification ¬isCached ∨ (forUpdate ∧ ¬cachedForUpdate) says %v — ", tf(cl.asg[0]), tf(cl.asg[1]), tf(cl.asg[2]), cl.got, want)
		if cl.got {
			why += "a table already loaded (and possibly changed) in this transaction is read from disk again: its uncommitted changes are lost and other processes' commits become visible mid-transaction"
		} else {
			why += "the file is not (re)loaded although it must be: the statement works on a missing view or updates a table it holds no update lock for"
		}
		c.Bad(key, pos, why)
	}
}
