package rules

// R-MTX-2 (seventh round): a sync.Mutex is not re-entrant. While a function holds one
// of the transaction-wide mutexes, nothing it calls may lock the same mutex again —
// the goroutine would wait for itself for ever, and no signal handler of csvq can end
// that wait (the deferred rollback needs the same locks).

import (
	"fmt"
	"go/token"
	"go/types"
	"sort"
	"strings"

	"golang.org/x/tools/go/ssa"

	"verif/checker/core"
)

func init() {
	Register(&Rule{ID: "R-MTX-2", Props: []string{"C19", "C11"}, Floor: 10,
		Doc:      "no self-deadlock on the transaction-wide mutexes: for every mutex field of lib/query.Transaction and lib/query.Session (one object per process, so the field identifies the lock) and every function that locks it, no call made between that Lock and its Unlock (to the end of the function when the Unlock is deferred) can reach — in the VTA call graph, through closures handed on — a function that locks the same field again. sync.Mutex is not re-entrant: the statement waits for itself, SIGINT / SIGTERM only cancel the context nobody is looking at, and a kill leaves the lock and temp files behind. The report names the holder, the call and the chain of functions that leads to the second Lock",
		Controls: []string{"ctlRelockThroughCallee"},
		Run:      ruleMtx2})
}

type mtx2Site struct {
	fn    *ssa.Function
	lock  *ssa.Call
	field string // owner.field
	read  bool   // RLock
}

// mtx2Field: the struct field a Lock / Unlock receiver is loaded from.
func mtx2Field(recv ssa.Value) string {
	for i := 0; i < 4; i++ {
		switch x := recv.(type) {
		case *ssa.UnOp:
			if x.Op == token.MUL {
				recv = x.X
				continue
			}
		case *ssa.FieldAddr:
			return core.FieldOwner(x)
		case *ssa.Field:
			if st, ok := x.X.Type().Underlying().(*types.Struct); ok {
				return core.NamedOf(x.X.Type()) + "." + st.Field(x.Field).Name()
			}
		}
		break
	}
	return ""
}

func ruleMtx2(c *Ctx) {
	lockNames := map[string]bool{"(*sync.Mutex).Lock": false, "(*sync.RWMutex).Lock": false, "(*sync.RWMutex).RLock": true}
	unlockNames := map[string]bool{"(*sync.Mutex).Unlock": true, "(*sync.RWMutex).Unlock": true, "(*sync.RWMutex).RUnlock": true}
	inScope := func(field string) bool {
		return strings.HasPrefix(field, "lib/query.Transaction.") || strings.HasPrefix(field, "lib/query.Session.") || strings.HasPrefix(field, core.ControlPkg+".relockTx.")
	}
	var sites []mtx2Site
	lockers := map[string]map[*ssa.Function]bool{} // field → functions that write-lock (or read-lock) it
	for _, fn := range c.P.FuncsIn(true, "lib/query", "lib/action", "lib/cli") {
		for _, call := range core.Calls(fn) {
			cv, ok := call.(*ssa.Call)
			if !ok {
				continue
			}
			rd, isLock := lockNames[c.P.CalleeName(cv)]
			if !isLock || len(cv.Call.Args) == 0 {
				continue
			}
			f := mtx2Field(cv.Call.Args[0])
			if f == "" || !inScope(f) {
				continue
			}
			sites = append(sites, mtx2Site{fn, cv, f, rd})
			if lockers[f] == nil {
				lockers[f] = map[*ssa.Function]bool{}
			}
			lockers[f][fn] = true
		}
	}
	sort.Slice(sites, func(i, j int) bool { return c.Pos(sites[i].lock) < c.Pos(sites[j].lock) })
	cg := c.P.CG()
	// chain from g to a locker of field (BFS over the call graph and closures)
	chainTo := func(g *ssa.Function, field string, self *ssa.Function) []string {
		type node struct {
			f    *ssa.Function
			prev *node
		}
		seen := map[*ssa.Function]bool{g: true}
		queue := []*node{{g, nil}}
		for len(queue) > 0 {
			n := queue[0]
			queue = queue[1:]
			if lockers[field][n.f] {
				var out []string
				for x := n; x != nil; x = x.prev {
					out = append([]string{c.P.Name(x.f)}, out...)
				}
				return out
			}
			var next []*ssa.Function
			if cn := cg.Nodes[n.f]; cn != nil {
				for _, e := range cn.Out {
					next = append(next, e.Callee.Func)
				}
			}
			next = append(next, n.f.AnonFuncs...)
			sort.Slice(next, func(i, j int) bool { return c.P.Name(next[i]) < c.P.Name(next[j]) })
			for _, h := range next {
				if h != nil && !seen[h] {
					seen[h] = true
					queue = append(queue, &node{h, n})
				}
			}
		}
		return nil
	}
	// functions from which a locker of the field is reachable (backward closure over the call graph)
	canReach := map[string]map[*ssa.Function]bool{}
	for field, ls := range lockers {
		set := map[*ssa.Function]bool{}
		var stack []*ssa.Function
		for f := range ls {
			set[f] = true
			stack = append(stack, f)
		}
		for len(stack) > 0 {
			f := stack[len(stack)-1]
			stack = stack[:len(stack)-1]
			var preds []*ssa.Function
			if cn := cg.Nodes[f]; cn != nil {
				for _, e := range cn.In {
					preds = append(preds, e.Caller.Func)
				}
			}
			if f.Parent() != nil {
				preds = append(preds, f.Parent()) // a closure counts as callable from the function that creates it
			}
			for _, g := range preds {
				if g != nil && !set[g] {
					set[g] = true
					stack = append(stack, g)
				}
			}
		}
		canReach[field] = set
	}
	n := 0
	perFn := map[string]int{}
	for _, s := range sites {
		c.Touch(s.fn)
		c.Sites++
		short := s.field[strings.LastIndex(s.field, ".")+1:]
		kbase := c.KeyAt(s.fn, "holds "+short)
		perFn[kbase]++
		key := kbase
		if perFn[kbase] > 1 {
			key = fmt.Sprintf("%s #%d", kbase, perFn[kbase])
		}
		if !c.P.IsControl(s.fn) {
			n++
		}
		// deferred unlock of the same field after the lock?
		deferred := false
		for _, b := range s.fn.Blocks {
			for _, in := range b.Instrs {
				if d, ok := in.(*ssa.Defer); ok && unlockNames[c.P.CalleeName(d)] && len(d.Call.Args) > 0 && mtx2Field(d.Call.Args[0]) == s.field {
					deferred = true
				}
			}
		}
		bad := ""
		var at ssa.Instruction = s.lock
		core.WalkFrom(s.lock, func(in ssa.Instruction) bool {
			if in == ssa.Instruction(s.lock) || bad != "" {
				return bad == ""
			}
			call, ok := in.(ssa.CallInstruction)
			if !ok {
				return true
			}
			if _, isDefer := in.(*ssa.Defer); isDefer {
				return true
			}
			name := c.P.CalleeName(call)
			if unlockNames[name] && len(call.Common().Args) > 0 && mtx2Field(call.Common().Args[0]) == s.field {
				return deferred // an explicit unlock ends the section (unless a deferred one governs)
			}
			if rd, isLock := lockNames[name]; isLock && len(call.Common().Args) > 0 && mtx2Field(call.Common().Args[0]) == s.field {
				if !(rd && s.read) {
					bad, at = "the same function locks "+short+" again while holding it", in
				}
				return true
			}
			var callees []*ssa.Function
			callees = append(callees, c.P.Callees(call)...)
			for _, a := range call.Common().Args {
				if mc, ok := a.(*ssa.MakeClosure); ok {
					if f, ok := mc.Fn.(*ssa.Function); ok {
						callees = append(callees, f)
					}
				}
			}
			sort.Slice(callees, func(i, j int) bool { return c.P.Name(callees[i]) < c.P.Name(callees[j]) })
			for _, g := range callees {
				if g == nil {
					continue
				}
				if !canReach[s.field][g] {
					continue
				}
				if chain := chainTo(g, s.field, s.fn); chain != nil {
					bad, at = "a call made while "+short+" is held reaches a function that locks it again: "+strings.Join(chain, " → "), in
					break
				}
			}
			return true
		})
		if bad != "" {
			c.Bad(key, c.Pos(at), bad+" — sync.Mutex is not re-entrant: the goroutine waits for itself, no handled signal ends the run (the cancellation is never looked at and the deferred rollback needs the same lock), and killing it leaves the lock and temp files of the tables it holds")
		} else {
			c.Ok(key, c.Pos(s.lock), "no call in the critical section reaches a second Lock of "+short)
		}
	}
	if n < 10 {
		c.Unknown("anchor:lock sites of the transaction-wide mutexes", "-", fmt.Sprintf("cannot-analyse: expected at least 10 Lock sites on mutex fields of Transaction / Session, found %d", n))
	}
}
