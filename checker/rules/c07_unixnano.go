package rules

import (
	"fmt"
	"go/types"
	"sort"
	"strings"

	"golang.org/x/tools/go/ssa"

	"verif/checker/core"
)

// R-SRT-8 — no csvq decision rests on a 64-bit projection of a time.Time.
//
// time.Time.UnixNano / UnixMicro / UnixMilli are "undefined if the Unix time
// cannot be represented by an int64": UnixNano wraps modulo 2^64 ns outside
// the years 1678–2262 (a csvq DATETIME reaches from year 0 to 9999, and
// DATETIME(n) further). A sort key, bucket key or median built from such a
// number orders 2300-01-01 before 1900-01-01 and puts two instants 2^64 ns
// apart into one GROUP BY bucket. The instant itself (time.Time.Equal /
// Before / Compare, or Unix() together with Nanosecond()) has no such range.

var srt8Methods = map[string]bool{"UnixNano": true, "UnixMicro": true, "UnixMilli": true}

// srt8Allowed: the functions (with their closures) that may take the number,
// one reason each. Every entry has a mechanical side condition checked below.
var srt8Allowed = map[string]string{
	"lib/query.unixNanoTime": "the UNIX_NANO_TIME built-in hands the number to the user as its documented result; csvq itself decides nothing on it",
	"lib/query.UnixNanoTime": "the UNIX_NANO_TIME built-in (the spelling without the private helper)",
}

// srt8Builtin: the only function that may refer to the private helper.
const (
	srt8Helper  = "lib/query.unixNanoTime"
	srt8Builtin = "lib/query.UnixNanoTime"
)

func init() {
	Register(&Rule{ID: "R-SRT-8", Props: []string{"C07", "C04", "C17"}, Floor: 3,
		Doc: "no ordering, equality or bucketing decision of csvq is made on a 64-bit projection of a time.Time: every use (call, method value, method expression) of time.Time.UnixNano, UnixMicro or UnixMilli — results undefined when the instant does not fit an int64 in that unit; UnixNano wraps outside the years 1678–2262 — in any csvq package, package initialisers included, is one of " +
			"(a) applied to the current time: the receiver is time.Now(), possibly through UTC / Local / In / Round / Truncate (seeds of random generators; the current time is in range), or " +
			"(b) inside a function of the frozen list (with its closures): lib/query.unixNanoTime / lib/query.UnixNanoTime, the UNIX_NANO_TIME built-in, which returns the number to the user — there the number must flow to the function's result only, and the private helper may be referred to by lib/query.UnixNanoTime only. " +
			"Anything else is reported: sort values (NewSortValue), comparison keys (serializeDatetime) and aggregates (Median) have to keep the instant itself (time.Time.Equal / Before) or build the number exactly from Unix() and Nanosecond()",
		Controls: []string{"CtlUnixNanoSortKey", "CtlUnixNanoMethodValue"},
		Run:      ruleSrt8})
}

// srt8Method: the projection method a function object stands for ("" if none);
// bound-method wrappers and thunks carry the object of the method they wrap.
func srt8Method(f *ssa.Function) string {
	if f == nil {
		return ""
	}
	if o := f.Origin(); o != nil {
		f = o
	}
	obj, ok := f.Object().(*types.Func)
	if !ok || obj.Pkg() == nil || obj.Pkg().Path() != "time" || !srt8Methods[obj.Name()] {
		return ""
	}
	sig, ok := obj.Type().(*types.Signature)
	if !ok || sig.Recv() == nil {
		return ""
	}
	rt := sig.Recv().Type()
	if p, ok := rt.(*types.Pointer); ok {
		rt = p.Elem()
	}
	if n, ok := rt.(*types.Named); !ok || n.Obj().Name() != "Time" {
		return ""
	}
	return obj.Name()
}

// srt8IsNow: v is time.Now(), possibly moved to another location or rounded.
func srt8IsNow(p *core.Prog, v ssa.Value) bool {
	for i := 0; i < 8; i++ {
		call, ok := v.(*ssa.Call)
		if !ok {
			return false
		}
		switch p.CalleeName(call) {
		case "time.Now":
			return true
		case "(time.Time).UTC", "(time.Time).Local", "(time.Time).In", "(time.Time).Round", "(time.Time).Truncate":
			if len(call.Call.Args) == 0 {
				return false
			}
			v = call.Call.Args[0]
		default:
			return false
		}
	}
	return false
}

// srt8OnlyReturned: every use of the number (through conversions and φ) is a return.
func srt8OnlyReturned(v ssa.Value, seen map[ssa.Value]bool) bool {
	if seen[v] {
		return true
	}
	seen[v] = true
	refs := v.Referrers()
	if refs == nil {
		return false
	}
	for _, r := range *refs {
		switch x := r.(type) {
		case *ssa.Return, *ssa.DebugRef:
		case *ssa.Convert:
			if !srt8OnlyReturned(x, seen) {
				return false
			}
		case *ssa.ChangeType:
			if !srt8OnlyReturned(x, seen) {
				return false
			}
		case *ssa.Phi:
			if !srt8OnlyReturned(x, seen) {
				return false
			}
		default:
			return false
		}
	}
	return true
}

func srt8Root(fn *ssa.Function) *ssa.Function {
	for fn.Parent() != nil {
		fn = fn.Parent()
	}
	return fn
}

func ruleSrt8(c *Ctx) {
	// the functions looked at: every source function, plus the package initialisers
	fns := append([]*ssa.Function(nil), c.P.SrcFuncs()...)
	var shorts []string
	for s := range c.P.SSAPkgs {
		shorts = append(shorts, s)
	}
	sort.Strings(shorts)
	for _, s := range shorts {
		if ini := c.P.SSAPkgs[s].Func("init"); ini != nil && ini.Blocks != nil {
			fns = append(fns, ini)
		}
	}
	count := map[string]int{}
	uniq := func(key string) string {
		count[key]++
		if count[key] > 1 {
			return fmt.Sprintf("%s #%d", key, count[key])
		}
		return key
	}
	fname := func(fn *ssa.Function) string {
		if n := c.P.Name(fn); n != "" {
			return n
		}
		return fn.String()
	}
	helperRefs := map[string]bool{}
	helper := c.P.Func(srt8Helper)
	for _, fn := range fns {
		ctl := c.P.IsControl(fn)
		root := srt8Root(fn)
		negative := ctl && strings.HasPrefix(root.Name(), "OkUnixNano")
		if ctl && !negative && !strings.HasPrefix(root.Name(), "CtlUnixNano") {
			continue
		}
		for _, b := range fn.Blocks {
			for _, in := range b.Instrs {
				var ops []*ssa.Value
				for _, op := range in.Operands(ops) {
					f, ok := (*op).(*ssa.Function)
					if !ok {
						continue
					}
					if helper != nil && f == helper {
						helperRefs[fname(root)] = true
					}
					m := srt8Method(f)
					if m == "" {
						continue
					}
					c.Sites++
					c.Touch(root)
					call, isCall := in.(ssa.CallInstruction)
					if isCall && call.Common().Value != *op {
						isCall = false
					}
					key := uniq(fmt.Sprintf("%s: time.Time.%s", fname(fn), m))
					why := ""
					switch {
					case isCall && len(call.Common().Args) > 0 && srt8IsNow(c.P, call.Common().Args[0]):
						c.Ok(key, c.Pos(in), "applied to time.Now(): the current time is representable")
						continue
					case !ctl && srt8Allowed[fname(root)] != "":
						cv, isVal := in.(*ssa.Call)
						switch {
						case !isCall:
							// the method handed on as a function value: allowed only where the built-in registers it
							if fname(root) == srt8Builtin {
								c.Ok(key, c.Pos(in), srt8Allowed[fname(root)])
								continue
							}
							why = "listed function, but the method is taken as a function value: where the number goes cannot be seen"
						case !isVal || !srt8OnlyReturned(cv, map[ssa.Value]bool{}):
							why = "listed function (" + srt8Allowed[fname(root)] + "), but the number does not flow to the result only: something is decided or computed on it here"
						default:
							c.Ok(key, c.Pos(in), srt8Allowed[fname(root)]+"; the number flows to the result only")
							continue
						}
					case !isCall:
						why = "time.Time." + m + " is taken as a function value: its result is undefined for instants that do not fit an int64 in that unit, and where it goes cannot be seen"
					default:
						why = "the result of time.Time." + m + " is undefined when the instant does not fit an int64 in that unit (UnixNano: outside the years 1678–2262 it wraps modulo 2^64 ns): a sort key, bucket key or aggregate computed from it orders and equates such datetimes wrongly; keep the time.Time (Equal / Before) or build the number exactly from Unix() and Nanosecond()"
					}
					c.Bad(key, c.Pos(in), why)
					if negative {
						c.Unknown("negative-control:"+key, "-", "the rule reports "+root.Name()+", an accepted idiom: "+why)
					}
				}
			}
		}
	}
	// side condition of the list: the private helper is the built-in's alone
	if helper != nil {
		var others []string
		for _, r := range keysOf(helperRefs) {
			if r != srt8Builtin {
				others = append(others, r)
			}
		}
		c.Check(len(others) == 0, srt8Helper+": referred to by the UNIX_NANO_TIME built-in only", c.FnPos(helper),
			fmt.Sprintf("referred to by %s", strings.Join(keysOf(helperRefs), ", ")),
			"the listed helper is also used by "+strings.Join(others, ", ")+": the number it returns may take part in a decision there")
	}
}
