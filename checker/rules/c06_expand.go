package rules

import (
	"fmt"
	"go/constant"
	"go/types"
	"sort"
	"strings"
	"verif/checker/core"

	"golang.org/x/tools/go/ssa"

	"verif/checker/absint"
)

// R-CMP-5 / R-CMP-6 — Kleene connectives and the documented expansions of
// BETWEEN and IN, as finite tables extracted by abstract interpretation.

func init() {
	Register(&Rule{ID: "R-CMP-5", Props: []string{"C06"}, Floor: 18,
		Doc: "evalLogic and evalUnaryLogic as tables over the three ternaries: a AND b, a OR b and NOT a equal the Kleene tables for all 9 + 9 + 3 combinations (the operator token selects the connective)",
		Run: ruleCmp5})
	Register(&Rule{ID: "R-CMP-6", Props: []string{"C06"}, Floor: 20,
		Doc: "documented expansions: a BETWEEN lo AND hi = (a >= lo) AND (a <= hi) with a, lo and a, hi as operands, NOT BETWEEN its negation, UNKNOWN for a NULL operand — all 3 × 3 × 2 combinations; a IN list = ANY '=', a NOT IN list = ALL '<>'; ANY/ALL dispatch to InRowValueList with their own match type",
		Run: ruleCmp6})
}

func kleeneAnd(a, b string) string {
	r := map[string]int{"FALSE": -1, "UNKNOWN": 0, "TRUE": 1}
	n := []string{"FALSE", "UNKNOWN", "TRUE"}
	if r[a] < r[b] {
		return n[r[a]+1]
	}
	return n[r[b]+1]
}

func kleeneOr(a, b string) string {
	r := map[string]int{"FALSE": -1, "UNKNOWN": 0, "TRUE": 1}
	n := []string{"FALSE", "UNKNOWN", "TRUE"}
	if r[a] > r[b] {
		return n[r[a]+1]
	}
	return n[r[b]+1]
}

func kleeneNot(a string) string {
	return map[string]string{"FALSE": "TRUE", "TRUE": "FALSE", "UNKNOWN": "UNKNOWN"}[a]
}

// exprInterp: an interpreter for an eval* function of lib/query: Evaluate and
// friends are opaque, Ternary() of an opaque value is enumerated over the three
// ternaries, token fields come from tokens.
func exprInterp(c *Ctx, w *absint.World, tokens map[string]int64) *absint.Interp {
	it := newInterp(c, w)
	ternaryModels(c, it.Models)
	tt := ternaryType(c)
	it.EnumConsts = func(t types.Type) []*types.Const {
		if tt != nil && types.Identical(t, tt) {
			return enumConstsOf(t)
		}
		return nil
	}
	private := exprPrivateHelpers(c)
	it.InlinePred = func(f *ssa.Function) bool {
		n := c.P.FnRef(f)
		return n == "lib/parser.(Token).IsEmpty" || strings.HasSuffix(n, ").IsNegated") || private[f]
	}
	it.FieldInit = func(obj, field string, t types.Type) (absint.Val, bool) {
		if field == "Token" {
			for suffix, v := range tokens {
				if strings.HasSuffix(obj, suffix) {
					return absint.Const(constant.MakeInt64(v), t), true
				}
			}
		}
		return absint.Val{}, false
	}
	return it
}

// exprPrivateHelpers: the functions that are called only from one of the analysed evaluation functions (or from
// another such helper): code moved out of evalBetween, evalIn … into a helper of its own is still interpreted.
var exprPrivateMemo = map[*core.Prog]map[*ssa.Function]bool{}

func exprPrivateHelpers(c *Ctx) map[*ssa.Function]bool {
	if m, ok := exprPrivateMemo[c.P]; ok {
		return m
	}
	m := map[*ssa.Function]bool{}
	for _, n := range []string{"evalLogic", "evalUnaryLogic", "evalBetween", "evalIn", "evalAny", "evalAll", "evalIs", "evalComparison"} {
		if f := c.P.Func("lib/query." + n); f != nil {
			for h := range privateHelpersOf(c.P, f, 2) {
				if c.P.InPkg(h, "lib/query") {
					m[h] = true
				}
			}
		}
	}
	exprPrivateMemo[c.P] = m
	return m
}

// errorFree: no `x != nil` decision on an error result was answered "non-nil".
func errorFree(w *absint.World) bool {
	for _, k := range w.Keys() {
		if strings.HasPrefix(k, "b:nil:") && strings.Contains(k, "#") && w.Get(k) == 0 {
			// "nil:<sym>" = 0 means "is not nil": an error (or a present row value)
			if strings.HasSuffix(k, "#1") || strings.HasSuffix(k, "#2") {
				return false
			}
		}
	}
	return true
}

func ruleCmp5(c *Ctx) {
	and, ok1 := parserConst(c, "AND")
	or, ok2 := parserConst(c, "OR")
	not, ok3 := parserConst(c, "NOT")
	if !ok1 || !ok2 || !ok3 {
		c.Unknown("parser tokens", "-", "cannot-analyse: AND/OR/NOT not found")
		return
	}
	if fn := c.Fn("lib/query.evalLogic"); fn != nil {
		for _, op := range []struct {
			name string
			tok  int64
			f    func(a, b string) string
		}{{"AND", and, kleeneAnd}, {"OR", or, kleeneOr}} {
			got := map[string]map[string]bool{}
			_, err := absint.Enumerate(5000, func(w *absint.World) {
				it := exprInterp(c, w, map[string]int64{"expr.Operator": op.tok})
				var args []absint.Val
				for _, p := range fn.Params {
					if p.Name() == "expr" {
						args = append(args, absint.Obj("expr", p.Type()))
					} else {
						args = append(args, absint.Sym(p.Name(), p.Type()))
					}
				}
				r := it.Call(fn, args, nil)
				if it.Err != nil {
					got["error"] = map[string]bool{it.Err.Error(): true}
					return
				}
				// only the worlds without evaluation errors
				res := ""
				if r.K == absint.KTuple && len(r.Elems) == 2 && r.Elems[1].K == absint.KNil {
					res = r.Elems[0].String()
				} else {
					return
				}
				l, rr := "", ""
				for _, k := range w.Keys() {
					if strings.HasPrefix(k, "enum:") && strings.Contains(k, "Ternary(") {
						v := enumConstsOf(ternaryType(c))[w.Get(k)].Name()
						if strings.Contains(k, "expr.LHS") {
							l = v
						} else if strings.Contains(k, "expr.RHS") {
							rr = v
						}
					}
				}
				if rr == "" {
					rr = "*" // short-circuit: RHS never evaluated
				}
				key := l + " " + op.name + " " + rr
				if got[key] == nil {
					got[key] = map[string]bool{}
				}
				got[key][res] = true
			})
			if err != nil {
				c.Unknown("lib/query.evalLogic["+op.name+"]", c.FnPos(fn), err.Error())
				continue
			}
			if e, bad := got["error"]; bad {
				c.Unknown("lib/query.evalLogic["+op.name+"]", c.FnPos(fn), "cannot evaluate: "+strings.Join(keysOf(e), "; "))
				continue
			}
			for _, a := range []string{"FALSE", "UNKNOWN", "TRUE"} {
				for _, b := range []string{"FALSE", "UNKNOWN", "TRUE"} {
					want := "&value.NewTernary(" + ternaryConstString(c, op.f(a, b)) + ")"
					var results []string
					for k, v := range got {
						parts := strings.Split(k, " ")
						if len(parts) == 3 && parts[0] == a && (parts[2] == b || parts[2] == "*") {
							results = append(results, keysOf(v)...)
						}
					}
					results = dedup(results)
					key := fmt.Sprintf("lib/query.evalLogic[%s %s %s]", a, op.name, b)
					c.Check(len(results) == 1 && results[0] == want, key, c.FnPos(fn), "= "+op.f(a, b),
						fmt.Sprintf("%s %s %s evaluates to %v, Kleene logic prescribes %s", a, op.name, b, results, want))
				}
			}
		}
	}
	if fn := c.Fn("lib/query.evalUnaryLogic"); fn != nil {
		got := map[string]map[string]bool{}
		absint.Enumerate(200, func(w *absint.World) {
			it := exprInterp(c, w, map[string]int64{"expr.Operator": not})
			var args []absint.Val
			for _, p := range fn.Params {
				if p.Name() == "expr" {
					args = append(args, absint.Obj("expr", p.Type()))
				} else {
					args = append(args, absint.Sym(p.Name(), p.Type()))
				}
			}
			r := it.Call(fn, args, nil)
			if it.Err != nil || r.K != absint.KTuple || len(r.Elems) != 2 || r.Elems[1].K != absint.KNil {
				return
			}
			for _, k := range w.Keys() {
				if strings.HasPrefix(k, "enum:") && strings.Contains(k, "Ternary(") {
					a := enumConstsOf(ternaryType(c))[w.Get(k)].Name()
					if got[a] == nil {
						got[a] = map[string]bool{}
					}
					got[a][r.Elems[0].String()] = true
				}
			}
		})
		for _, a := range []string{"FALSE", "UNKNOWN", "TRUE"} {
			want := "&value.NewTernary(" + ternaryConstString(c, kleeneNot(a)) + ")"
			res := keysOf(got[a])
			c.Check(len(res) == 1 && res[0] == want, fmt.Sprintf("lib/query.evalUnaryLogic[NOT %s]", a), c.FnPos(fn), "= "+kleeneNot(a),
				fmt.Sprintf("NOT %s evaluates to %v, specified %s", a, res, want))
		}
	}
}

func keysOf(m map[string]bool) []string {
	var out []string
	for k := range m {
		out = append(out, k)
	}
	sort.Strings(out)
	return out
}

func ternaryConstString(c *Ctx, name string) string {
	return ternaryConst(c, name).C.ExactString()
}

func ruleCmp6(c *Ctx) {
	not, _ := parserConst(c, "NOT")
	// ---- BETWEEN (single value form)
	if fn := c.Fn("lib/query.evalBetween"); fn != nil {
		for _, neg := range []int64{0, not} {
			type obs struct{ res map[string]bool }
			got := map[string]map[string]bool{}
			var argErr []string
			_, err := absint.Enumerate(20000, func(w *absint.World) {
				it := exprInterp(c, w, map[string]int64{"expr.Negation": neg})
				ge, le := "", ""
				it.Models["lib/value.GreaterOrEqual"] = func(it *absint.Interp, call ssa.CallInstruction, a []absint.Val) (absint.Val, bool) {
					if !strings.Contains(a[1].String(), "expr.Low") || !strings.Contains(a[0].String(), "expr.LHS") {
						argErr = append(argErr, "GreaterOrEqual("+a[0].String()+", "+a[1].String()+")")
					}
					i := it.W.Choose("GE", 3)
					ge = enumConstsOf(ternaryType(c))[i].Name()
					return absint.Const(enumConstsOf(ternaryType(c))[i].Val(), ternaryType(c)), true
				}
				it.Models["lib/value.LessOrEqual"] = func(it *absint.Interp, call ssa.CallInstruction, a []absint.Val) (absint.Val, bool) {
					if !strings.Contains(a[1].String(), "expr.High") || !strings.Contains(a[0].String(), "expr.LHS") {
						argErr = append(argErr, "LessOrEqual("+a[0].String()+", "+a[1].String()+")")
					}
					i := it.W.Choose("LE", 3)
					le = enumConstsOf(ternaryType(c))[i].Name()
					return absint.Const(enumConstsOf(ternaryType(c))[i].Val(), ternaryType(c)), true
				}
				var args []absint.Val
				for _, p := range fn.Params {
					if p.Name() == "expr" {
						args = append(args, absint.Obj("expr", p.Type()))
					} else {
						args = append(args, absint.Sym(p.Name(), p.Type()))
					}
				}
				r := it.Call(fn, args, nil)
				if it.Err != nil {
					got["error"] = map[string]bool{it.Err.Error(): true}
					return
				}
				if r.K != absint.KTuple || len(r.Elems) != 2 || r.Elems[1].K != absint.KNil {
					return // an evaluation error was returned
				}
				// single-value path only: the row-value path calls CompareRowValues
				usedRow := false
				for _, k := range w.Keys() {
					if strings.Contains(k, "CompareRowValues") || strings.Contains(k, "EvalRowValue") {
						usedRow = true
					}
				}
				if usedRow {
					return
				}
				key := ge + "/" + le
				if ge == "" {
					key = "NULL operand"
				}
				if got[key] == nil {
					got[key] = map[string]bool{}
				}
				got[key][r.Elems[0].String()] = true
			})
			label := map[bool]string{true: "NOT BETWEEN", false: "BETWEEN"}[neg != 0]
			if err != nil {
				c.Unknown("lib/query.evalBetween["+label+"]", c.FnPos(fn), err.Error())
				continue
			}
			if e, bad := got["error"]; bad {
				c.Unknown("lib/query.evalBetween["+label+"]", c.FnPos(fn), "cannot evaluate: "+strings.Join(keysOf(e), "; "))
				continue
			}
			if len(argErr) > 0 {
				c.Bad("lib/query.evalBetween["+label+"]: operands", c.FnPos(fn), "the bounds are compared with the wrong operands: "+strings.Join(dedup(argErr), ", ")+" (documented: a >= low AND a <= high)")
			} else {
				c.Ok("lib/query.evalBetween["+label+"]: operands", c.FnPos(fn), "a >= low and a <= high")
			}
			for _, a := range []string{"FALSE", "UNKNOWN", "TRUE"} {
				for _, b := range []string{"FALSE", "UNKNOWN", "TRUE"} {
					t := kleeneAnd(a, b)
					if neg != 0 {
						t = kleeneNot(t)
					}
					want := "&value.NewTernary(" + ternaryConstString(c, t) + ")"
					var results []string
					for k, v := range got {
						parts := strings.Split(k, "/")
						if len(parts) == 2 && parts[0] == a && (parts[1] == b || parts[1] == "") {
							results = append(results, keysOf(v)...)
						}
					}
					results = dedup(results)
					key := fmt.Sprintf("lib/query.evalBetween[%s: (a>=lo)=%s, (a<=hi)=%s]", label, a, b)
					c.Check(len(results) == 1 && results[0] == want, key, c.FnPos(fn), "= "+t,
						fmt.Sprintf("with (a >= lo) = %s and (a <= hi) = %s, %s evaluates to %v; the documented expansion gives %s", a, b, label, results, want))
				}
			}
			// NULL operand → UNKNOWN
			want := "&value.NewTernary(" + ternaryConstString(c, "UNKNOWN") + ")"
			res := keysOf(got["NULL operand"])
			c.Check(len(res) >= 1 && len(dedup(res)) == 1 && res[0] == want, "lib/query.evalBetween["+label+": NULL operand]", c.FnPos(fn), "= UNKNOWN",
				fmt.Sprintf("a NULL left operand yields %v, documented UNKNOWN", res))
		}
	}
	// ---- IN / NOT IN
	if fn := c.Fn("lib/query.evalIn"); fn != nil {
		for _, neg := range []int64{0, not} {
			called := map[string]bool{}
			absint.Enumerate(2000, func(w *absint.World) {
				it := exprInterp(c, w, map[string]int64{"expr.Negation": neg})
				it.OnCall = func(name string, call ssa.CallInstruction, a []absint.Val) {
					if name == "lib/query.Any" || name == "lib/query.All" {
						op := ""
						for _, x := range a {
							if x.K == absint.KConst && x.C.Kind() == constant.String {
								op = constant.StringVal(x.C)
							}
						}
						called[strings.TrimPrefix(name, "lib/query.")+" "+op] = true
					}
				}
				var args []absint.Val
				for _, p := range fn.Params {
					if p.Name() == "expr" {
						args = append(args, absint.Obj("expr", p.Type()))
					} else {
						args = append(args, absint.Sym(p.Name(), p.Type()))
					}
				}
				it.Call(fn, args, nil)
			})
			label := map[bool]string{true: "NOT IN", false: "IN"}[neg != 0]
			want := map[bool]string{true: "All <>", false: "Any ="}[neg != 0]
			got := keysOf(called)
			c.Check(len(got) == 1 && got[0] == want, "lib/query.evalIn["+label+"]", c.FnPos(fn), "→ "+want,
				fmt.Sprintf("%s is evaluated as %v, documented expansion: %s", label, got, want))
		}
	}
	// ---- ANY / ALL → InRowValueList match type
	anyT, _ := parserConst(c, "ANY")
	allT, _ := parserConst(c, "ALL")
	for _, x := range []struct {
		name string
		tok  int64
	}{{"Any", anyT}, {"All", allT}} {
		fn := c.Fn("lib/query." + x.name)
		if fn == nil {
			continue
		}
		okk := false
		for _, call := range c.P.CallsNamed(fn, "lib/query.InRowValueList") {
			for _, a := range call.Common().Args {
				if k, ok := a.(*ssa.Const); ok && k.Value != nil && k.Value.Kind() == constant.Int && k.Int64() == x.tok {
					okk = true
				}
			}
		}
		c.Check(okk, "lib/query."+x.name+": match type", c.FnPos(fn), "passes its own match type to InRowValueList", x.name+" no longer passes parser."+strings.ToUpper(x.name)+" to InRowValueList")
	}
}
