package rules

// Eighth round (seeds C01-16, C15-15).
//
// R-TXN-13: a restore point is the whole table — header and records are saved together and put
// back together, unconditionally.
// R-TXN-14: the mark "this table has uncommitted changes" is removed only by the end of the
// transaction.

import (
	"fmt"
	"go/token"
	"sort"
	"strings"

	"golang.org/x/tools/go/ssa"

	"verif/checker/core"
)

func init() {
	Register(&Rule{ID: "R-TXN-13", Props: []string{"C01", "C05"}, Floor: 4,
		Doc:      "a restore point is total: every lib/query function that reads a restore-point field of FileInfo (restorePointHeader, restorePointRecordSet) reads both and stores each into the field of the view it was saved from (Header, RecordSet) by a store that every return of the function has passed — no condition decides whether the header comes back; every function that writes a restore-point field writes both, each from the corresponding field of the view, unconditionally. ROLLBACK of a temporary table whose columns were renamed (same number of columns) would otherwise keep the altered header over the restored records",
		Controls: []string{"ctlRestoreHeaderOnlyWhenWidthDiffers", "ctlRestorePointWithoutHeader"},
		Run:      ruleTxn13})
	Register(&Rule{ID: "R-TXN-14", Props: []string{"C01", "C15"}, Floor: 2,
		Doc:      "only the end of the transaction forgets a change: the functions that remove entries from the Updated / Created maps of lib/query.UncommittedViews (builtin delete, or a store of a new map outside the constructor) are called — directly or through unexported helpers all of whose callers qualify — only from (*Transaction).Commit and (*Transaction).Rollback. The maps are keyed by the name of the table alone: a block that forgets the views it declared when it closes also erases the mark of an outer view of the same name, which ROLLBACK then no longer restores and COMMIT gives no restore point",
		Controls: []string{"ctlBlockCloseForgetsMarks"},
		Run:      ruleTxn14})
}

var txn13Pairs = map[string]string{"restorePointHeader": "Header", "restorePointRecordSet": "RecordSet"}

// txn13DerivesFrom: v is computed from a load of a field named `field` (through calls, conversions).
func txn13DerivesFrom(v ssa.Value, field string, depth int) bool {
	if depth > 6 || v == nil {
		return false
	}
	switch x := v.(type) {
	case *ssa.UnOp:
		if x.Op == token.MUL {
			if fa, ok := x.X.(*ssa.FieldAddr); ok && core.FieldName(fa) == field {
				return true
			}
		}
		return txn13DerivesFrom(x.X, field, depth+1)
	case *ssa.Field:
		if core.FieldName(x) == field {
			return true
		}
		return txn13DerivesFrom(x.X, field, depth+1)
	case *ssa.Call:
		for _, a := range x.Call.Args {
			if txn13DerivesFrom(a, field, depth+1) {
				return true
			}
		}
		if x.Call.IsInvoke() {
			return txn13DerivesFrom(x.Call.Value, field, depth+1)
		}
	case *ssa.ChangeType:
		return txn13DerivesFrom(x.X, field, depth+1)
	case *ssa.Convert:
		return txn13DerivesFrom(x.X, field, depth+1)
	case *ssa.Slice:
		return txn13DerivesFrom(x.X, field, depth+1)
	case *ssa.MakeInterface:
		return txn13DerivesFrom(x.X, field, depth+1)
	case *ssa.Phi:
		for _, e := range x.Edges {
			if !txn13DerivesFrom(e, field, depth+1) {
				return false
			}
		}
		return len(x.Edges) > 0
	}
	return false
}

// txn13ReturnsPassed: the returns of the function that `in` dominates.
func txn13ReturnsPassed(in ssa.Instruction) map[*ssa.BasicBlock]bool {
	out := map[*ssa.BasicBlock]bool{}
	for _, r := range core.Returns(in.Parent()) {
		b := r.Block()
		if b == in.Block() || in.Block().Dominates(b) {
			out[b] = true
		}
	}
	return out
}

func ruleTxn13(c *Ctx) {
	start := len(c.Obs)
	real := 0
	for _, fn := range c.P.FuncsIn(true, "lib/query") {
		reads, writes := map[string]bool{}, map[string]bool{}
		for _, b := range fn.Blocks {
			for _, in := range b.Instrs {
				switch x := in.(type) {
				case *ssa.UnOp:
					if fa, ok := x.X.(*ssa.FieldAddr); ok && x.Op == token.MUL {
						if _, is := txn13Pairs[core.FieldName(fa)]; is {
							reads[core.FieldName(fa)] = true
						}
					}
				case *ssa.Store:
					if fa, ok := x.Addr.(*ssa.FieldAddr); ok {
						if _, is := txn13Pairs[core.FieldName(fa)]; is {
							writes[core.FieldName(fa)] = true
						}
					}
				}
			}
		}
		if len(reads) == 0 && len(writes) == 0 {
			continue
		}
		c.Touch(fn)
		var names []string
		for n := range txn13Pairs {
			names = append(names, n)
		}
		sort.Strings(names)
		judge := func(restore bool) {
			// the store of each half and the returns it has been passed by
			stores := map[string]ssa.Instruction{}
			passed := map[string]map[*ssa.BasicBlock]bool{}
			for _, rp := range names {
				src, dst := txn13Pairs[rp], rp
				if restore {
					src, dst = rp, txn13Pairs[rp]
				}
				passed[rp] = map[*ssa.BasicBlock]bool{}
				for _, b := range fn.Blocks {
					for _, in := range b.Instrs {
						st, ok := in.(*ssa.Store)
						if !ok {
							continue
						}
						fa, ok := st.Addr.(*ssa.FieldAddr)
						if !ok || core.FieldName(fa) != dst || !txn13DerivesFrom(st.Val, src, 0) {
							continue
						}
						stores[rp] = st
						for r := range txn13ReturnsPassed(st) {
							passed[rp][r] = true
						}
					}
				}
			}
			for _, rp := range names {
				vf := txn13Pairs[rp]
				src, dst := vf, rp
				what := "saves " + vf + " in the restore point"
				verb := "saved"
				if restore {
					src, dst = rp, vf
					what = "puts " + vf + " back from the restore point"
					verb = "restored"
				}
				key := c.KeyAt(fn, what)
				if !c.P.IsControl(fn) {
					real++
				}
				c.Sites++
				if stores[rp] == nil {
					c.Bad(key, c.FnPos(fn), "the function handles the restore point of a table but never stores "+dst+" from "+src+": half of the table is not "+verb)
					continue
				}
				// a return that the other half has been stored before, but not this one
				missing := 0
				for _, other := range names {
					if other == rp {
						continue
					}
					for r := range passed[other] {
						if !passed[rp][r] {
							missing++
						}
					}
				}
				if missing > 0 || len(passed[rp]) == 0 {
					c.Bad(key, c.Pos(stores[rp]), dst+" is stored from "+src+" only on some of the paths on which the other half of the table is "+verb+": a condition decides whether this half is — header and records of the table can come from different states after ROLLBACK")
				} else {
					c.Ok(key, c.Pos(stores[rp]), fmt.Sprintf("%s is stored from %s on every path on which the other half is %s (%d returns)", dst, src, verb, len(passed[rp])))
				}
			}
		}
		if len(reads) > 0 {
			judge(true)
		}
		if len(writes) > 0 {
			judge(false)
		}
	}
	c.negControls(start, "okRestoreBoth", "okRestorePointBoth")
	if real < 4 {
		c.Unknown("anchor:restore-point functions", "-", fmt.Sprintf("cannot-analyse: expected the saver and the restorer of FileInfo.restorePoint* (4 obligations), got %d", real))
	}
}

func ruleTxn14(c *Ctx) {
	start := len(c.Obs)
	isMarkMap := func(v ssa.Value) bool {
		ld, ok := v.(*ssa.UnOp)
		if !ok || ld.Op != token.MUL {
			return false
		}
		fa, ok := ld.X.(*ssa.FieldAddr)
		if !ok {
			return false
		}
		o := core.FieldOwner(fa)
		return o == "lib/query.UncommittedViews.Updated" || o == "lib/query.UncommittedViews.Created" ||
			o == core.ControlPkg+".ctlMarks.Updated" || o == core.ControlPkg+".ctlMarks.Created"
	}
	// removers
	var removers []*ssa.Function
	for _, fn := range c.P.FuncsIn(true, "lib/query") {
		rem := false
		for _, call := range core.Calls(fn) {
			if b, ok := call.Common().Value.(*ssa.Builtin); ok && b.Name() == "delete" && len(call.Common().Args) == 2 && isMarkMap(call.Common().Args[0]) {
				rem = true
			}
		}
		for _, b := range fn.Blocks {
			for _, in := range b.Instrs {
				st, ok := in.(*ssa.Store)
				if !ok {
					continue
				}
				fa, ok := st.Addr.(*ssa.FieldAddr)
				if !ok {
					continue
				}
				o := core.FieldOwner(fa)
				if o != "lib/query.UncommittedViews.Updated" && o != "lib/query.UncommittedViews.Created" {
					continue
				}
				// a constructor fills a fresh object
				if _, fresh := fa.X.(*ssa.Alloc); fresh {
					continue
				}
				rem = true
			}
		}
		if rem {
			removers = append(removers, fn)
		}
	}
	sort.Slice(removers, func(i, j int) bool { return c.P.Name(removers[i]) < c.P.Name(removers[j]) })
	real := 0
	isEnd := func(f *ssa.Function) bool {
		n := c.P.Name(f)
		return n == "lib/query.(*Transaction).Commit" || n == "lib/query.(*Transaction).Rollback" ||
			n == core.ControlPkg+".okMarksCommit"
	}
	var allowed func(f *ssa.Function, depth int, seen map[*ssa.Function]bool) (bool, string)
	allowed = func(f *ssa.Function, depth int, seen map[*ssa.Function]bool) (bool, string) {
		if isEnd(f) {
			return true, ""
		}
		if depth > 3 || seen[f] {
			return false, c.P.Name(f)
		}
		seen[f] = true
		// an unexported helper (or a closure) all of whose callers qualify
		if f.Parent() != nil {
			return allowed(f.Parent(), depth+1, seen)
		}
		if f.Object() != nil && f.Object().Exported() {
			return false, c.P.Name(f)
		}
		callers := c.P.Callers(f)
		if len(callers) == 0 {
			return false, c.P.Name(f) + " (no known caller)"
		}
		for _, e := range callers {
			if ok, why := allowed(e.Caller.Func, depth+1, seen); !ok {
				return false, why
			}
		}
		return true, ""
	}
	for _, r := range removers {
		c.Touch(r)
		callers := c.P.Callers(r)
		sort.Slice(callers, func(i, j int) bool { return c.Pos(callers[i].Site) < c.Pos(callers[j].Site) })
		perCaller := map[string]int{}
		for _, e := range callers {
			if e.Site == nil {
				continue
			}
			// methods of the same type calling each other are part of the remover
			if e.Caller.Func.Signature.Recv() != nil && r.Signature.Recv() != nil &&
				core.NamedOf(e.Caller.Func.Signature.Recv().Type()) == core.NamedOf(r.Signature.Recv().Type()) {
				continue
			}
			// a control is judged by the controls, a real function by the real callers
			if c.P.IsControl(e.Caller.Func) != c.P.IsControl(r) {
				continue
			}
			c.Sites++
			kbase := c.KeyAt(e.Caller.Func, "calls "+r.Name())
			perCaller[kbase]++
			key := kbase
			if perCaller[kbase] > 1 {
				key = fmt.Sprintf("%s #%d", kbase, perCaller[kbase])
			}
			if !c.P.IsControl(e.Caller.Func) {
				real++
			}
			ok, why := allowed(e.Caller.Func, 0, map[*ssa.Function]bool{})
			c.Check(ok, key, c.Pos(e.Site), "part of COMMIT / ROLLBACK", "the mark of an uncommitted change is removed by "+strings.TrimSpace(why)+", which is not (only) part of (*Transaction).Commit / Rollback: the maps are keyed by the table name alone, so whatever else is registered under that name — an outer view shadowed by this one — is no longer restored by ROLLBACK nor given a restore point by COMMIT")
		}
	}
	c.negControls(start, "okMarksForget")
	if real < 2 {
		c.Unknown("anchor:removers of uncommitted marks", "-", fmt.Sprintf("cannot-analyse: expected the calls of UncommittedViews.Unset / Clean in Commit and Rollback, found %d call sites", real))
	}
}
