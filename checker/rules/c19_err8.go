package rules

import (
	"fmt"
	"go/types"

	"golang.org/x/tools/go/ssa"

	"verif/checker/core"
)

// R-ERR-8 — method call on a possibly-nil interface in the default arm of a
// type switch. A type switch without `case nil` sends a nil interface to
// `default`; invoking a method on the switched value there dereferences nil.

func init() {
	Register(&Rule{ID: "R-ERR-8", Props: []string{"C19"}, Floor: 3,
		Doc:      "in every default arm of a type switch (code reached only through failed comma-ok type assertions of an interface value), a method invoked on the switched value requires nil to be excluded: by a dominating nil test / `case nil`, or because every caller passes a value that is provably non-nil",
		Controls: []string{"ctlDescribe"},
		Run:      ruleErr8})
}

// failedAssertsOn: number of dominating facts "x.(T) failed" and whether any
// assertion on x succeeded on this path.
func typeSwitchFacts(x ssa.Value, at ssa.Instruction) (failed int, succeeded bool) {
	for _, f := range core.FactsAt(at.Block()) {
		ex, ok := f.Cond.(*ssa.Extract)
		if !ok || ex.Index != 1 {
			continue
		}
		ta, ok := ex.Tuple.(*ssa.TypeAssert)
		if !ok || !ta.CommaOk || !(ta.X == x || core.SameCell(ta.X, x)) {
			continue
		}
		if f.Neg {
			failed++
		} else {
			succeeded = true
		}
	}
	return
}

func ruleErr8(c *Ctx) {
	ts := core.NewTypeSets(c.P)
	neverNil := func(v ssa.Value) (string, bool) {
		set := ts.Final(v, nil)
		if set == nil || set.Top {
			return "", false
		}
		if _, hasNil := set.M[core.NilType]; hasNil {
			return "", false
		}
		return "its dynamic types are " + set.String() + " (never the nil interface)", true
	}
	for _, fn := range c.P.FuncsIn(true, "lib/query", "lib/json", "lib/value", "lib/option", "lib/file", "lib/action", "lib/cli") {
		seen := map[string]bool{}
		for _, call := range core.Calls(fn) {
			com := call.Common()
			if !com.IsInvoke() {
				continue
			}
			x := com.Value
			if _, isIface := x.Type().Underlying().(*types.Interface); !isIface {
				continue
			}
			in := call.(ssa.Instruction)
			failed, ok := typeSwitchFacts(x, in)
			if failed < 2 || ok {
				continue // not a default arm of a type switch over x
			}
			key := c.KeyAt(fn, fmt.Sprintf("%s() on %s in a type-switch default", com.Method.Name(), valueLabel(x)))
			if seen[key] {
				continue
			}
			seen[key] = true
			c.Touch(fn)
			if core.NonNilAt(x, in) || nilCaseExcluded(x, in) {
				c.Ok(key, c.Pos(in), "nil is excluded by a dominating test")
				continue
			}
			// callers: every argument bound to x is provably non-nil
			if prm, isParam := paramOf(x); isParam {
				if why, ok := callersPassNonNil(c, fn, prm, neverNil); ok {
					c.Ok(key, c.Pos(in), why)
					continue
				}
			} else if why, ok := neverNil(x); ok {
				c.Ok(key, c.Pos(in), why)
				continue
			} else if why, ok := fieldAlwaysInitialised(c, x); ok {
				c.Ok(key, c.Pos(in), why)
				continue
			}
			// a parameter whose callers cannot be shown to pass nil: report only with positive evidence of a nil
			// origin (a nil constant, or a callee that returns one) at some call site — slice elements, fields and
			// values of unknown origin are taken as initialised, as they are when the switch is written inline
			if prm, isParam := paramOf(x); isParam {
				if ev := nilEvidenceAtCallers(c, fn, prm, 0, map[ssa.Value]bool{}); ev == "" {
					c.Ok(key, c.Pos(in), "no call site passes a value with a nil origin (nil constant or a callee returning one)")
					continue
				}
			}
			detail := ""
			if set := ts.Final(x, nil); set != nil {
				detail = " [dynamic types of the value: " + set.String() + "]"
				if set.Top {
					detail = " [dynamic types unknown: " + set.TopWhy + "]"
				}
			}
			c.Bad(key, c.Pos(in), detail+"the value reaches the default arm also when it is a nil interface (no `case nil`, no nil test, and a caller can pass nil): the method call dereferences nil → internal Fatal Error")
		}
	}
}

// nilCaseExcluded: a dominating `x == nil` test was false on this path.
func nilCaseExcluded(x ssa.Value, at ssa.Instruction) bool {
	for _, f := range core.FactsAt(at.Block()) {
		v, neq, ok := core.NilCmp(f.Cond)
		if ok && (v == x || core.SameCell(v, x)) && neq != f.Neg {
			return true
		}
	}
	return false
}

func paramOf(x ssa.Value) (*ssa.Parameter, bool) {
	for _, o := range core.Origins(x, false) {
		if p, ok := o.(*ssa.Parameter); ok {
			return p, true
		}
		return nil, false
	}
	return nil, false
}

func callersPassNonNil(c *Ctx, fn *ssa.Function, prm *ssa.Parameter, neverNil func(ssa.Value) (string, bool)) (string, bool) {
	idx := -1
	for i, p := range fn.Params {
		if p == prm {
			idx = i
		}
	}
	callers := c.P.RealCallers(fn)
	if idx < 0 || len(callers) == 0 {
		return "", false
	}
	n := 0
	for _, ed := range callers {
		if ed.Site == nil || idx >= len(ed.Site.Common().Args) {
			return "", false
		}
		arg := ed.Site.Common().Args[idx]
		in, ok := ed.Site.(ssa.Instruction)
		if !ok {
			return "", false
		}
		if core.ClassifyNil(arg, in) != core.NonNil {
			if _, ok := neverNil(arg); !ok {
				return "", false
			}
		}
		n++
	}
	return fmt.Sprintf("all %d call sites pass a provably non-nil value", n), true
}

// fieldAlwaysInitialised: x is a load of field F of struct type T, and every
// allocation of a T in the program (composite literal or new) is followed, in
// the same function, by a store of a call result into F — the struct is only
// ever built by constructors that fill the field.
func fieldAlwaysInitialised(c *Ctx, x ssa.Value) (string, bool) {
	var owner types.Type
	var fieldIdx int
	switch f := x.(type) {
	case *ssa.Field:
		owner, fieldIdx = f.X.Type(), f.Field
	case *ssa.UnOp:
		fa, ok := f.X.(*ssa.FieldAddr)
		if !ok {
			return "", false
		}
		owner, fieldIdx = fa.X.Type().Underlying().(*types.Pointer).Elem(), fa.Field
	default:
		return "", false
	}
	named, ok := owner.(*types.Named)
	if !ok {
		return "", false
	}
	allocs := 0
	for _, fn := range c.P.SrcFuncs() {
		for _, b := range fn.Blocks {
			for _, in := range b.Instrs {
				al, ok := in.(*ssa.Alloc)
				if !ok || !types.Identical(al.Type().(*types.Pointer).Elem(), named) {
					continue
				}
				// a cell that merely receives a whole struct value (copy, result of a
				// comma-ok assertion, parameter spill) is not a construction
				whole := false
				stored := false
				for _, r := range *al.Referrers() {
					switch y := r.(type) {
					case *ssa.Store:
						if y.Addr == al {
							whole = true
						}
					case *ssa.FieldAddr:
						if y.Field == fieldIdx {
							for _, rr := range *y.Referrers() {
								if st, ok := rr.(*ssa.Store); ok && st.Addr == y {
									if _, isCall := core.Strip(st.Val).(*ssa.Call); isCall {
										stored = true
									}
								}
							}
						}
					}
				}
				if whole {
					continue
				}
				allocs++
				if !stored {
					return "", false
				}
			}
		}
	}
	if allocs == 0 {
		return "", false
	}
	return fmt.Sprintf("all %d constructions of %s in the program fill this field from a constructor call", allocs, named.Obj().Name()), true
}

// nilEvidence: a description of a nil origin of v (a nil constant, directly or through the results of static
// callees and the arguments of callers), or "".
func nilEvidence(c *Ctx, v ssa.Value, depth int, seen map[ssa.Value]bool) string {
	if depth > 4 {
		return ""
	}
	for _, o := range core.Origins(v, false) {
		if seen[o] {
			continue
		}
		seen[o] = true
		switch x := o.(type) {
		case *ssa.Const:
			if x.Value == nil {
				return "nil constant"
			}
		case *ssa.Call:
			if f := core.StaticCallee(x); f != nil && f.Blocks != nil && f.Signature.Results().Len() == 1 {
				if ev := nilEvidenceOfResult(c, f, 0, depth, seen); ev != "" {
					return ev
				}
			}
		case *ssa.Extract:
			if call, ok := x.Tuple.(*ssa.Call); ok {
				if f := core.StaticCallee(call); f != nil && f.Blocks != nil {
					if ev := nilEvidenceOfResult(c, f, x.Index, depth, seen); ev != "" {
						return ev
					}
				}
			}
		case *ssa.Parameter:
			if ev := nilEvidenceAtCallers(c, x.Parent(), x, depth+1, seen); ev != "" {
				return ev
			}
		}
	}
	return ""
}

func nilEvidenceAtCallers(c *Ctx, fn *ssa.Function, prm *ssa.Parameter, depth int, seen map[ssa.Value]bool) string {
	idx := -1
	for i, p := range fn.Params {
		if p == prm {
			idx = i
		}
	}
	if idx < 0 || depth > 4 {
		return ""
	}
	for _, ed := range c.P.RealCallers(fn) {
		if ed.Site == nil || idx >= len(ed.Site.Common().Args) {
			continue
		}
		arg := ed.Site.Common().Args[idx]
		if in, ok := ed.Site.(ssa.Instruction); ok && core.ClassifyNil(arg, in) == core.NonNil {
			continue
		}
		if ev := nilEvidence(c, arg, depth, seen); ev != "" {
			return "call at " + c.P.InstrPos(ed.Site) + ": " + ev
		}
	}
	return ""
}

// nilEvidenceOfResult: some return of f yields a value with a nil origin as result #idx while its error result
// (if any) is not certainly non-nil — a nil next to an error is not used by a caller that tests the error.
func nilEvidenceOfResult(c *Ctx, f *ssa.Function, idx int, depth int, seen map[ssa.Value]bool) string {
	ei := core.ErrorResultIndex(f)
	for _, r := range core.Returns(f) {
		if idx >= len(r.Results) {
			continue
		}
		if ei >= 0 && ei < len(r.Results) && ei != idx && core.ClassifyNil(r.Results[ei], r) == core.NonNil {
			continue
		}
		if ev := nilEvidence(c, r.Results[idx], depth+1, seen); ev != "" {
			return c.P.Name(f) + " returns " + ev
		}
	}
	return ""
}
