package rules

import (
	"fmt"
	"go/constant"
	"go/token"
	"go/types"

	"golang.org/x/tools/go/ssa"

	"verif/checker/core"
)

// R-ERR-8 — method call on a possibly-nil interface in the default arm of a
// type switch. A type switch without `case nil` sends a nil interface to
// `default`; invoking a method on the switched value there dereferences nil.

func init() {
	Register(&Rule{ID: "R-ERR-8", Props: []string{"C19"}, Floor: 3,
		Doc:      "in every default arm of a type switch (code reached only through failed comma-ok type assertions of an interface value), a method invoked on the switched value requires nil to be excluded: by a dominating nil test / `case nil`, or because every caller passes a value that is provably non-nil; an element of a slice (switched once through a bound variable or re-indexed in every arm) is reported when a value with a nil origin is put into that slice here or by a caller",
		Controls: []string{"ctlDescribe", "ctlElemBound", "ctlElemInline"},
		Run:      ruleErr8})
}

// elemLoad: v is a load `*(&s[i])` of an element of a slice / array; returns the address.
func elemLoad(v ssa.Value) *ssa.IndexAddr {
	u, ok := v.(*ssa.UnOp)
	if !ok || u.Op != token.MUL {
		return nil
	}
	ia, _ := u.X.(*ssa.IndexAddr)
	return ia
}

// elemLoadOf: x is, through local variables and conversions, one element load.
func elemLoadOf(x ssa.Value) *ssa.IndexAddr {
	os := core.Origins(x, false)
	if len(os) != 1 {
		return nil
	}
	return elemLoad(os[0])
}

// sameSwitched: a and b denote the same switched value: the same SSA value, two
// loads of the same cell / field, or two loads of the same element — `s[i]`
// spelled twice with the same container and the same index value, while the
// function stores into no element of that container (a type switch written
// `switch s[i].(type) { … default: s[i].M() }` re-loads the element in every
// arm; `switch v := s[i].(type)` loads it once).
func sameSwitched(a, b ssa.Value) bool {
	if a == b || core.SameCell(a, b) {
		return true
	}
	ia, ib := elemLoad(a), elemLoad(b)
	if ia == nil || ib == nil {
		return false
	}
	if !(ia.X == ib.X || core.SameCell(ia.X, ib.X)) {
		return false
	}
	if ia.Index != ib.Index {
		ca, okA := ia.Index.(*ssa.Const)
		cb, okB := ib.Index.(*ssa.Const)
		if !okA || !okB || ca.Value == nil || cb.Value == nil || ca.Value.ExactString() != cb.Value.ExactString() {
			return false
		}
	}
	return !storesIntoElements(ia)
}

// storesIntoElements: the function of ia stores through some element address of
// the same container.
func storesIntoElements(ia *ssa.IndexAddr) bool {
	for _, b := range ia.Parent().Blocks {
		for _, in := range b.Instrs {
			st, ok := in.(*ssa.Store)
			if !ok {
				continue
			}
			if other, ok := st.Addr.(*ssa.IndexAddr); ok && (other.X == ia.X || core.SameCell(other.X, ia.X)) {
				return true
			}
		}
	}
	return false
}

// switchedLabel names the switched value in obligation keys; an element is named
// after its container so that both spellings of the switch get the same key.
func switchedLabel(x ssa.Value) string {
	if ia := elemLoadOf(x); ia != nil {
		return "element of " + valueLabel(ia.X)
	}
	return valueLabel(x)
}

// typeSwitchFacts: number of dominating facts "x.(T) failed" and whether any
// assertion on x succeeded on this path.
func typeSwitchFacts(x ssa.Value, at ssa.Instruction) (failed int, succeeded bool) {
	for _, f := range core.FactsAt(at.Block()) {
		ex, ok := f.Cond.(*ssa.Extract)
		if !ok || ex.Index != 1 {
			continue
		}
		ta, ok := ex.Tuple.(*ssa.TypeAssert)
		if !ok || !ta.CommaOk || !sameSwitched(ta.X, x) {
			continue
		}
		if f.Neg {
			failed++
		} else {
			succeeded = true
		}
	}
	return
}

func ruleErr8(c *Ctx) {
	ts := core.NewTypeSets(c.P)
	neverNil := func(v ssa.Value) (string, bool) {
		set := ts.Final(v, nil)
		if set == nil || set.Top {
			return "", false
		}
		if _, hasNil := set.M[core.NilType]; hasNil {
			return "", false
		}
		return "its dynamic types are " + set.String() + " (never the nil interface)", true
	}
	for _, fn := range c.P.FuncsIn(true, "lib/query", "lib/json", "lib/value", "lib/option", "lib/file", "lib/action", "lib/cli") {
		seen := map[string]bool{}
		for _, call := range core.Calls(fn) {
			com := call.Common()
			if !com.IsInvoke() {
				continue
			}
			x := com.Value
			if _, isIface := x.Type().Underlying().(*types.Interface); !isIface {
				continue
			}
			in := call.(ssa.Instruction)
			failed, ok := typeSwitchFacts(x, in)
			if failed < 2 || ok {
				continue // not a default arm of a type switch over x
			}
			key := c.KeyAt(fn, fmt.Sprintf("%s() on %s in a type-switch default", com.Method.Name(), switchedLabel(x)))
			if seen[key] {
				continue
			}
			seen[key] = true
			c.Touch(fn)
			if core.NonNilAt(x, in) || nilCaseExcluded(x, in) {
				c.Ok(key, c.Pos(in), "nil is excluded by a dominating test")
				continue
			}
			// callers: every argument bound to x is provably non-nil
			if prm, isParam := paramOf(x); isParam {
				if why, ok := callersPassNonNil(c, fn, prm, neverNil); ok {
					c.Ok(key, c.Pos(in), why)
					continue
				}
			} else if why, ok := neverNil(x); ok {
				c.Ok(key, c.Pos(in), why)
				continue
			} else if why, ok := fieldAlwaysInitialised(c, x); ok {
				c.Ok(key, c.Pos(in), why)
				continue
			} else if ia := elemLoadOf(x); ia != nil {
				// an element of a slice: the same policy as for a parameter — report only with positive evidence
				// that some element put into the slice (here, or by a caller that passes the slice) has a nil origin
				ev, known := nilEvidenceInSlice(c, ia.X, 0, map[ssa.Value]bool{})
				if ev == "" {
					c.Ok(key, c.Pos(in), fmt.Sprintf("no value with a nil origin (nil constant or a callee returning one) is put into the slice: %d element sources examined here and at the call sites", known))
					continue
				}
				c.Bad(key, c.Pos(in), "an element of the slice can be a nil interface ("+ev+") and reaches the default arm (no `case nil`, no nil test): the method call dereferences nil → internal Fatal Error")
				continue
			}
			// a parameter whose callers cannot be shown to pass nil: report only with positive evidence of a nil
			// origin (a nil constant, or a callee that returns one) at some call site — slice elements, fields and
			// values of unknown origin are taken as initialised, as they are when the switch is written inline
			if prm, isParam := paramOf(x); isParam {
				if ev := nilEvidenceAtCallers(c, fn, prm, 0, map[ssa.Value]bool{}); ev == "" {
					c.Ok(key, c.Pos(in), "no call site passes a value with a nil origin (nil constant or a callee returning one)")
					continue
				}
			}
			detail := ""
			if set := ts.Final(x, nil); set != nil {
				detail = " [dynamic types of the value: " + set.String() + "]"
				if set.Top {
					detail = " [dynamic types unknown: " + set.TopWhy + "]"
				}
			}
			c.Bad(key, c.Pos(in), detail+"the value reaches the default arm also when it is a nil interface (no `case nil`, no nil test, and a caller can pass nil): the method call dereferences nil → internal Fatal Error")
		}
	}
}

// nilCaseExcluded: a dominating `x == nil` test was false on this path.
func nilCaseExcluded(x ssa.Value, at ssa.Instruction) bool {
	for _, f := range core.FactsAt(at.Block()) {
		v, neq, ok := core.NilCmp(f.Cond)
		if ok && sameSwitched(v, x) && neq != f.Neg {
			return true
		}
	}
	return false
}

func paramOf(x ssa.Value) (*ssa.Parameter, bool) {
	for _, o := range core.Origins(x, false) {
		if p, ok := o.(*ssa.Parameter); ok {
			return p, true
		}
		return nil, false
	}
	return nil, false
}

func callersPassNonNil(c *Ctx, fn *ssa.Function, prm *ssa.Parameter, neverNil func(ssa.Value) (string, bool)) (string, bool) {
	idx := -1
	for i, p := range fn.Params {
		if p == prm {
			idx = i
		}
	}
	callers := c.P.RealCallers(fn)
	if idx < 0 || len(callers) == 0 {
		return "", false
	}
	n := 0
	for _, ed := range callers {
		if ed.Site == nil || idx >= len(ed.Site.Common().Args) {
			return "", false
		}
		arg := ed.Site.Common().Args[idx]
		in, ok := ed.Site.(ssa.Instruction)
		if !ok {
			return "", false
		}
		if core.ClassifyNil(arg, in) != core.NonNil {
			if _, ok := neverNil(arg); !ok {
				return "", false
			}
		}
		n++
	}
	return fmt.Sprintf("all %d call sites pass a provably non-nil value", n), true
}

// fieldAlwaysInitialised: x is a load of field F of struct type T, and every
// allocation of a T in the program (composite literal or new) is followed, in
// the same function, by a store of a call result into F — the struct is only
// ever built by constructors that fill the field.
func fieldAlwaysInitialised(c *Ctx, x ssa.Value) (string, bool) {
	var owner types.Type
	var fieldIdx int
	switch f := x.(type) {
	case *ssa.Field:
		owner, fieldIdx = f.X.Type(), f.Field
	case *ssa.UnOp:
		fa, ok := f.X.(*ssa.FieldAddr)
		if !ok {
			return "", false
		}
		owner, fieldIdx = fa.X.Type().Underlying().(*types.Pointer).Elem(), fa.Field
	default:
		return "", false
	}
	named, ok := owner.(*types.Named)
	if !ok {
		return "", false
	}
	allocs := 0
	// a function of the repository is never judged by what a control constructs
	ownIsControl := false
	if xi, ok := x.(ssa.Instruction); ok && xi.Parent() != nil {
		ownIsControl = c.P.IsControl(xi.Parent())
	}
	for _, fn := range c.P.SrcFuncs() {
		if c.P.IsControl(fn) && !ownIsControl {
			continue
		}
		for _, b := range fn.Blocks {
			for _, in := range b.Instrs {
				al, ok := in.(*ssa.Alloc)
				if !ok || !types.Identical(al.Type().(*types.Pointer).Elem(), named) {
					continue
				}
				// a cell that merely receives a whole struct value (copy, result of a
				// comma-ok assertion, parameter spill) is not a construction
				whole := false
				stored := false
				for _, r := range *al.Referrers() {
					switch y := r.(type) {
					case *ssa.Store:
						if y.Addr == al {
							whole = true
						}
					case *ssa.FieldAddr:
						if y.Field == fieldIdx {
							for _, rr := range *y.Referrers() {
								if st, ok := rr.(*ssa.Store); ok && st.Addr == y {
									sv := core.Strip(st.Val)
									if ex, isEx := sv.(*ssa.Extract); isEx {
										// one result of a call with several results (v, err := f())
										sv = ex.Tuple
									}
									if _, isCall := sv.(*ssa.Call); isCall {
										stored = true
									}
								}
							}
						}
					}
				}
				if whole {
					continue
				}
				allocs++
				if !stored {
					return "", false
				}
			}
		}
	}
	if allocs == 0 {
		return "", false
	}
	return fmt.Sprintf("all %d constructions of %s in the program fill this field from a constructor call", allocs, named.Obj().Name()), true
}

// nilEvidence: a description of a nil origin of v (a nil constant, directly or through the results of static
// callees and the arguments of callers), or "".
func nilEvidence(c *Ctx, v ssa.Value, depth int, seen map[ssa.Value]bool) string {
	if depth > 4 {
		return ""
	}
	for _, o := range core.Origins(v, false) {
		if seen[o] {
			continue
		}
		seen[o] = true
		switch x := o.(type) {
		case *ssa.Const:
			// the nil interface only: the zero constant of a struct type also has no Value, and a typed nil
			// pointer converted to the interface is not a nil interface
			if _, isIface := x.Type().Underlying().(*types.Interface); isIface && x.Value == nil {
				return "nil constant"
			}
		case *ssa.Call:
			if f := core.StaticCallee(x); f != nil && f.Blocks != nil && f.Signature.Results().Len() == 1 {
				if ev := nilEvidenceOfResult(c, f, 0, depth, seen); ev != "" {
					return ev
				}
			}
		case *ssa.Extract:
			if call, ok := x.Tuple.(*ssa.Call); ok {
				if f := core.StaticCallee(call); f != nil && f.Blocks != nil {
					if ev := nilEvidenceOfResult(c, f, x.Index, depth, seen); ev != "" {
						return ev
					}
				}
			}
		case *ssa.Parameter:
			if ev := nilEvidenceAtCallers(c, x.Parent(), x, depth+1, seen); ev != "" {
				return ev
			}
		}
	}
	return ""
}

// nilEvidenceInSlice: a description of a nil origin among the values put into slice s — by element stores,
// composite literals and append in the function that builds it, followed through re-slicing, append chains and
// parameters (to the slice each caller passes) — or "". Slices of other origin (fields, call results) and
// elements never stored are taken as initialised. n counts the element sources examined.
func nilEvidenceInSlice(c *Ctx, s ssa.Value, depth int, seen map[ssa.Value]bool) (ev string, n int) {
	if depth > 4 {
		return "", 0
	}
	for _, o := range core.Origins(s, true) {
		if seen[o] {
			continue
		}
		seen[o] = true
		switch x := o.(type) {
		case *ssa.Parameter:
			fn := x.Parent()
			idx := -1
			for i, p := range fn.Params {
				if p == x {
					idx = i
				}
			}
			for _, ed := range c.P.RealCallers(fn) {
				if idx < 0 || ed.Site == nil || idx >= len(ed.Site.Common().Args) {
					continue
				}
				e, k := nilEvidenceInSlice(c, ed.Site.Common().Args[idx], depth+1, seen)
				n += k
				if e != "" {
					return "call at " + c.P.InstrPos(ed.Site) + ": " + e, n
				}
			}
		case *ssa.Alloc, *ssa.MakeSlice:
			elems, _ := localSliceElems(o)
			for _, el := range elems {
				n++
				if e := nilEvidence(c, el, depth, seen); e != "" {
					return "element stored in " + c.P.Name(o.(ssa.Instruction).Parent()) + ": " + e, n
				}
			}
		case *ssa.Call:
			if b, ok := x.Common().Value.(*ssa.Builtin); ok && b.Name() == "append" {
				for _, a := range x.Common().Args {
					if _, isSlice := a.Type().Underlying().(*types.Slice); !isSlice {
						continue // append([]byte, string...)
					}
					e, k := nilEvidenceInSlice(c, a, depth, seen)
					n += k
					if e != "" {
						return e, n
					}
				}
			}
		}
	}
	return "", n
}

func nilEvidenceAtCallers(c *Ctx, fn *ssa.Function, prm *ssa.Parameter, depth int, seen map[ssa.Value]bool) string {
	idx := -1
	for i, p := range fn.Params {
		if p == prm {
			idx = i
		}
	}
	if idx < 0 || depth > 4 {
		return ""
	}
	for _, ed := range c.P.RealCallers(fn) {
		if ed.Site == nil || idx >= len(ed.Site.Common().Args) {
			continue
		}
		arg := ed.Site.Common().Args[idx]
		if in, ok := ed.Site.(ssa.Instruction); ok && core.ClassifyNil(arg, in) == core.NonNil {
			continue
		}
		if ev := nilEvidence(c, arg, depth, seen); ev != "" {
			return "call at " + c.P.InstrPos(ed.Site) + ": " + ev
		}
	}
	return ""
}

// nilEvidenceOfResult: some return of f yields a value with a nil origin as result #idx while the result that
// tells the caller whether the value is usable — a trailing error, or the bool of a comma-ok pair — does not
// certainly say "unusable": a nil next to a non-nil error (incl. a sentinel) or next to `false` is not used by a
// caller that tests it. `return val, err` after a switch that assigns both is judged arm by arm (the two φs of
// the merge block are paired edge by edge), not as the product of all values with all errors.
func nilEvidenceOfResult(c *Ctx, f *ssa.Function, idx int, depth int, seen map[ssa.Value]bool) string {
	gi := core.ErrorResultIndex(f)
	res := f.Signature.Results()
	if gi < 0 && res.Len() == 2 {
		if b, ok := res.At(1).Type().Underlying().(*types.Basic); ok && b.Kind() == types.Bool {
			gi = 1
		}
	}
	for _, r := range core.Returns(f) {
		if idx >= len(r.Results) {
			continue
		}
		var guard ssa.Value
		if gi >= 0 && gi < len(r.Results) && gi != idx {
			guard = r.Results[gi]
		}
		if guard == nil && gi >= 0 && gi != idx && gi < len(r.Results) {
			continue // zero value of a result cell: cannot pair; taken as a failure return
		}
		if core.ClassifyNil(r.Results[idx], r) == core.NonNil {
			continue // `if p == nil { return nil, err }; return p, nil`: the nil origin of p does not reach this return
		}
		for _, pr := range pairCells(c, r.Results[idx], guard, r) {
			if pr.guard != nil && saysUnusable(c, pr.guard, r) {
				continue
			}
			if ev := nilEvidence(c, pr.val, depth+1, seen); ev != "" {
				return c.P.Name(f) + " returns " + ev
			}
		}
	}
	return ""
}

type valGuard struct{ val, guard ssa.Value }

// pairEdges splits (val, guard) into the pairs that can occur together: when both are φs of the same block the
// i-th edges belong together (recursively); a φ next to a non-φ is paired with that one value.
func pairEdges(val, guard ssa.Value, depth int) []valGuard {
	vp, vok := val.(*ssa.Phi)
	if !vok || depth > 6 {
		return []valGuard{{val, guard}}
	}
	gp, gok := guard.(*ssa.Phi)
	var out []valGuard
	for i, e := range vp.Edges {
		g := guard
		if gok {
			if gp.Block() != vp.Block() {
				return []valGuard{{val, guard}}
			}
			g = gp.Edges[i]
		} else if gi, isInstr := guard.(ssa.Instruction); isInstr && guard != nil && gi.Block() == vp.Block() {
			return []valGuard{{val, guard}} // computed after the merge: no per-edge information
		}
		out = append(out, pairEdges(e, g, depth+1)...)
	}
	return out
}

// pairCells is pairEdges for a function whose locals stay in cells (go/ssa does not lift them when the function
// defers): result = load of a local cell. Each store to the value cell is a candidate only if the return can be
// reached from it without another store to that cell and — when the guard is a cell too — without a store that
// makes the guard say "unusable" (`default: ok = false`).
func pairCells(c *Ctx, val, guard ssa.Value, ret *ssa.Return) []valGuard {
	cellOf := func(v ssa.Value) *ssa.Alloc {
		if u, ok := v.(*ssa.UnOp); ok && u.Op == token.MUL {
			if a, ok := u.X.(*ssa.Alloc); ok {
				if _, complete := core.StoresTo(a); complete {
					return a
				}
			}
		}
		return nil
	}
	vc := cellOf(val)
	if vc == nil || vc.Parent() != ret.Parent() {
		return pairEdges(val, guard, 0)
	}
	var gc *ssa.Alloc
	if guard != nil {
		gc = cellOf(guard)
	}
	var out []valGuard
	for _, ref := range *vc.Referrers() {
		st, ok := ref.(*ssa.Store)
		if !ok || st.Addr != ssa.Value(vc) {
			continue
		}
		stop := func(in ssa.Instruction) bool {
			o, ok := in.(*ssa.Store)
			if !ok || o == st {
				return false
			}
			if o.Addr == ssa.Value(vc) {
				return true
			}
			return gc != nil && o.Addr == ssa.Value(gc) && saysUnusable(c, o.Val, o)
		}
		if !core.Reachable(st, ret, stop) {
			continue
		}
		g := guard
		if gc != nil {
			// `return a, b` of a deferring function stores both result cells in one block: pair those two values;
			// otherwise the guard was judged by the reachability test above
			g = nil
			for _, in := range st.Block().Instrs {
				if o, ok := in.(*ssa.Store); ok && o.Addr == ssa.Value(gc) {
					g = o.Val
				}
			}
		}
		out = append(out, pairEdges(st.Val, g, 0)...)
	}
	return out
}

// saysUnusable: the guard result certainly tells the caller not to use the value (non-nil error / false).
func saysUnusable(c *Ctx, g ssa.Value, at ssa.Instruction) bool {
	if core.IsErrorType(g.Type()) {
		return curErrKind(c, g, at) == core.NonNil
	}
	if k, ok := g.(*ssa.Const); ok && k.Value != nil && k.Value.Kind() == constant.Bool {
		return !constant.BoolVal(k.Value)
	}
	return false
}
