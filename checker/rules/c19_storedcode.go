package rules

import (
	"fmt"
	"go/token"
	"go/types"
	"sort"
	"strings"

	"golang.org/x/tools/go/ssa"

	"verif/checker/core"
)

// R-NEST-1 — stored code is run behind a nesting guard.
//
// The interpreter is recursive over the syntax tree: ExecuteStatement runs the
// sub-statements of the statement it was given, Evaluate the operands of the
// expression it was given. That recursion is bounded by the input (every call
// descends into a sub-tree). It is not bounded where the code that is run next
// is *not* a sub-tree of the code being run but is taken from a run-time
// object that outlives the statement which declared it: the body and the
// default-value expressions of a user-defined function, the statements of a
// prepared statement, the query of a cursor. Such code can name the object it
// is stored in (a function that calls itself, a prepared statement that
// EXECUTEs itself) and the recursion ends only when the Go stack (1 GB) or the
// memory is exhausted — `fatal error: stack overflow` / `out of memory`, which
// no recover() catches. R-ERR-18 decides the same for code produced at run
// time (SOURCE, EXECUTE of a string).

func init() {
	Register(&Rule{ID: "R-NEST-1", Props: []string{"C19"}, Floor: 4,
		Doc: "every call in lib/query that hands the interpreter stored code — an argument of a syntax-tree type ([]parser.Statement, parser.Statement, parser.QueryExpression, parser.Expression or a lib/parser node with sub-trees, incl. slice / map elements) loaded from a field of a struct declared in lib/query (UserDefinedFunction.Statements / .Defaults, PreparedStatement.Statements, Cursor.query), directly or through the parameter of an unexported helper — and that lies on a call-graph cycle (the callee reaches the calling function again) is dominated by a comparison of an integer field (the nesting depth; also through a *int field) that the same function also changes (store or atomic.Add). " +
			"Cycles are looked for in the VTA call graph without the call sites that are guarded; a site whose every unguarded cycle passes through another stored-code / run-time-code site that itself needs the guard (OPEN of a cursor: its query re-enters only through a user-defined function) is discharged by that site. Code taken from a lib/parser node (a sub-tree of the statement being run) is structural recursion and not in scope. " +
			"Without the guard a user-defined function that calls itself, a parameter default that calls its function, or a prepared statement that EXECUTEs itself recurses until the Go stack or the memory is exhausted — fatal, not recoverable, exit status 2 with a goroutine dump",
		Controls: []string{"CtlRunsStoredBodyUnguarded", "CtlRunsStoredDefaultThroughHelper"},
		Run:      ruleNest1})
}

// e25Code: the syntax-tree types of lib/parser.
type e25Code struct {
	c     *Ctx
	ifcs  []*types.Interface
	memo  map[types.Type]bool
	field map[*types.Var]string // stored-code fields → "query.Type.Field"
}

func newE23Code(c *Ctx) *e25Code {
	k := &e25Code{c: c, memo: map[types.Type]bool{}, field: map[*types.Var]string{}}
	for _, n := range []string{"Statement", "QueryExpression", "Expression"} {
		if t := c.P.Type("lib/parser", n); t != nil {
			if i, ok := t.Underlying().(*types.Interface); ok {
				k.ifcs = append(k.ifcs, i)
			}
		}
	}
	return k
}

func e25InParser(t types.Type) bool {
	n, ok := t.(*types.Named)
	return ok && n.Obj().Pkg() != nil && core.Short(n.Obj().Pkg().Path()) == "lib/parser"
}

// composite: t can hold a syntax tree with sub-trees (an interface of the tree,
// a node struct with tree-typed fields, or a slice / map / pointer of those).
// Leaves (Identifier, Variable, Token, literals) cannot re-enter the interpreter.
func (k *e25Code) composite(t types.Type) bool {
	if v, ok := k.memo[t]; ok {
		return v
	}
	k.memo[t] = false // cycles: a node that only contains itself is not composite by that alone
	r := false
	switch u := t.(type) {
	case *types.Slice:
		r = k.composite(u.Elem())
	case *types.Array:
		r = k.composite(u.Elem())
	case *types.Map:
		r = k.composite(u.Elem())
	case *types.Pointer:
		r = k.composite(u.Elem())
	case *types.Named:
		if !e25InParser(u) {
			break
		}
		switch s := u.Underlying().(type) {
		case *types.Interface:
			for _, i := range k.ifcs {
				if types.Identical(s, i) {
					r = true
				}
			}
		case *types.Struct:
			impl := false
			for _, i := range k.ifcs {
				if types.Implements(u, i) || types.Implements(types.NewPointer(u), i) {
					impl = true
				}
			}
			if !impl {
				break
			}
			for j := 0; j < s.NumFields() && !r; j++ {
				ft := s.Field(j).Type()
				if s.Field(j).Embedded() {
					continue // BaseExpr
				}
				if k.isTree(ft) {
					r = true
				}
			}
		}
	}
	k.memo[t] = r
	return r
}

// isTree: a (container of a) syntax-tree interface or of a composite node.
func (k *e25Code) isTree(t types.Type) bool {
	switch u := t.(type) {
	case *types.Slice:
		return k.isTree(u.Elem())
	case *types.Array:
		return k.isTree(u.Elem())
	case *types.Map:
		return k.isTree(u.Elem())
	case *types.Pointer:
		return k.isTree(u.Elem())
	case *types.Named:
		if !e25InParser(u) {
			return false
		}
		if s, ok := u.Underlying().(*types.Interface); ok {
			for _, i := range k.ifcs {
				if types.Identical(s, i) {
					return true
				}
			}
			return false
		}
		return k.composite(u)
	}
	return false
}

// collectFields: the fields of struct types declared in lib/query (and the control package) that store syntax trees.
func (k *e25Code) collectFields() {
	for short, pk := range k.c.P.ByPath {
		if short != "lib/query" && !strings.HasSuffix(short, core.ControlPkg) {
			continue
		}
		if pk.Types == nil {
			continue
		}
		sc := pk.Types.Scope()
		for _, name := range sc.Names() {
			tn, ok := sc.Lookup(name).(*types.TypeName)
			if !ok {
				continue
			}
			st, ok := tn.Type().Underlying().(*types.Struct)
			if !ok {
				continue
			}
			for j := 0; j < st.NumFields(); j++ {
				f := st.Field(j)
				if k.composite(f.Type()) {
					k.field[f] = e19ShortFn(short) + "." + name + "." + f.Name()
				}
			}
		}
	}
}

func e25FieldVar(v ssa.Value) *types.Var {
	var x ssa.Value
	idx := -1
	switch f := v.(type) {
	case *ssa.FieldAddr:
		x, idx = f.X, f.Field
	case *ssa.Field:
		x, idx = f.X, f.Field
	default:
		return nil
	}
	t := x.Type()
	if p, ok := t.Underlying().(*types.Pointer); ok {
		t = p.Elem()
	}
	st, ok := t.Underlying().(*types.Struct)
	if !ok || idx >= st.NumFields() {
		return nil
	}
	return st.Field(idx)
}

// e25Origin: where an argument's syntax tree comes from.
type e25Origin struct {
	stored  map[string]bool        // "query.UserDefinedFunction.Statements"
	bases   map[string][]ssa.Value // the struct values the field was loaded from
	runtime map[*ssa.Function]bool // run-time producers (R-ERR-18)
}

func (k *e25Code) origins(v ssa.Value, sources map[*ssa.Function]bool) e25Origin {
	// no parameter is followed: a helper that forwards the code to the interpreter is the callee of the
	// site, and the cycle search goes through it; the interpreter's own runners (execute, Evaluate) are
	// not helpers of whoever hands them code
	out := e25Origin{stored: map[string]bool{}, bases: map[string][]ssa.Value{}, runtime: map[*ssa.Function]bool{}}
	seen := map[ssa.Value]bool{}
	var walk func(v ssa.Value, up int)
	walk = func(v ssa.Value, up int) {
		if v == nil || seen[v] {
			return
		}
		seen[v] = true
		for _, o := range core.Origins(v, true) {
			if o != v && seen[o] {
				continue
			}
			seen[o] = true
			switch x := o.(type) {
			case *ssa.UnOp:
				if x.Op != token.MUL {
					continue
				}
				switch a := x.X.(type) {
				case *ssa.FieldAddr:
					if n, ok := k.field[e25FieldVar(a)]; ok {
						out.stored[n] = true
						out.bases[n] = append(out.bases[n], a.X)
					}
				case *ssa.IndexAddr:
					walk(a.X, up) // element of a stored slice
				}
			case *ssa.Field:
				if n, ok := k.field[e25FieldVar(x)]; ok {
					out.stored[n] = true
					out.bases[n] = append(out.bases[n], x.X)
				}
			case *ssa.Lookup:
				walk(x.X, up) // element of a stored map
			case *ssa.Index:
				walk(x.X, up)
			case *ssa.Extract:
				switch t := x.Tuple.(type) {
				case *ssa.Lookup:
					walk(t.X, up)
				case *ssa.Next:
					if r, ok := t.Iter.(*ssa.Range); ok {
						walk(r.X, up)
					}
				case *ssa.TypeAssert:
					walk(t.X, up)
				case *ssa.Call:
					if f := t.Common().StaticCallee(); f != nil && (sources[f] || (k.c.P.IsControl(f) && f.Name() == "ctlParseAtRunTime")) {
						out.runtime[f] = true
					}
				}
			case *ssa.Call:
				if f := x.Common().StaticCallee(); f != nil && sources[f] {
					out.runtime[f] = true
				}
			}
		}
	}
	walk(v, 0)
	return out
}

// e19NestingGuard: a comparison that dominates `at` of an integer loaded from a
// struct field (or through a *int field) which the same function also changes.
// `owners` restricts the struct (nil: any struct declared in csvq).
func e19NestingGuard(c *Ctx, fn *ssa.Function, at ssa.Instruction, owners []string) string {
	intField := func(v ssa.Value) (*ssa.FieldAddr, bool) {
		ld, ok := v.(*ssa.UnOp)
		if !ok || ld.Op != token.MUL || !e19IsIntType(ld.Type()) {
			return nil, false
		}
		if fa, ok := ld.X.(*ssa.FieldAddr); ok {
			return fa, false
		}
		// *p with p loaded from a field of type *int
		if pl, ok := ld.X.(*ssa.UnOp); ok && pl.Op == token.MUL {
			if fa, ok := pl.X.(*ssa.FieldAddr); ok {
				return fa, true
			}
		}
		return nil, false
	}
	for _, f := range core.FactsAt(at.Block()) {
		b, ok := f.Cond.(*ssa.BinOp)
		if !ok {
			continue
		}
		for _, side := range []ssa.Value{b.X, b.Y} {
			if cv, ok := side.(*ssa.Convert); ok {
				side = cv.X
			}
			fa, viaPtr := intField(side)
			if fa == nil {
				continue
			}
			owner := core.FieldOwner(fa)
			if owner == "" {
				continue
			}
			if owners != nil && !containsAny(owner, owners...) {
				continue
			}
			if owners == nil && !strings.HasPrefix(owner, "lib/") {
				continue
			}
			for _, b2 := range fn.Blocks {
				for _, in2 := range b2.Instrs {
					switch x := in2.(type) {
					case *ssa.Store:
						sfa, ok := x.Addr.(*ssa.FieldAddr)
						if !viaPtr && ok && sfa.Field == fa.Field && core.FieldOwner(sfa) == owner {
							return owner
						}
						if viaPtr {
							if pl, ok := x.Addr.(*ssa.UnOp); ok && pl.Op == token.MUL {
								if sfa, ok := pl.X.(*ssa.FieldAddr); ok && sfa.Field == fa.Field && core.FieldOwner(sfa) == owner {
									return owner
								}
							}
						}
					case *ssa.Call:
						if !strings.HasPrefix(c.P.CalleeName(x), "sync/atomic.Add") || len(x.Common().Args) == 0 {
							continue
						}
						a0 := x.Common().Args[0]
						if sfa, ok := a0.(*ssa.FieldAddr); ok && !viaPtr && sfa.Field == fa.Field && core.FieldOwner(sfa) == owner {
							return owner
						}
						if pl, ok := a0.(*ssa.UnOp); ok && viaPtr && pl.Op == token.MUL {
							if sfa, ok := pl.X.(*ssa.FieldAddr); ok && sfa.Field == fa.Field && core.FieldOwner(sfa) == owner {
								return owner
							}
						}
					}
				}
			}
		}
	}
	return ""
}

// Frozen exception of R-NEST-1: a single site whose termination is not a depth
// guard, with a mechanical side condition that is re-checked on every run.
type e25Exception struct {
	key, reason string
	side        func(c *Ctx, s *e25Site, fld string) (bool, string)
}

var e25Exceptions = []e25Exception{
	{"code stored in query.ReplaceValues.Values run by Evaluate",
		"a replace value is evaluated under the replace values of the statement that contains the EXECUTE / OPEN (the parent link of its list), so a placeholder in a USING clause never sees the list it is a member of, and the chain of parents is finite",
		e25ParentContextSide},
}

// e25CtxValueKey: v is (the asserted result of) ctx.Value(key); returns the key constant.
func e25CtxValueKey(v ssa.Value) *ssa.Const {
	var key *ssa.Const
	for _, o := range core.Origins(v, false) {
		var vc *ssa.Call
		switch x := o.(type) {
		case *ssa.Extract:
			if ta, ok := x.Tuple.(*ssa.TypeAssert); ok {
				vc, _ = ta.X.(*ssa.Call)
			}
		case *ssa.Call:
			vc = x
		}
		if vc == nil || !vc.Common().IsInvoke() || vc.Common().Method.Name() != "Value" || len(vc.Common().Args) != 1 {
			return nil
		}
		k, ok := core.Strip(vc.Common().Args[0]).(*ssa.Const)
		if !ok || k.Value == nil || (key != nil && key.Value.ExactString() != k.Value.ExactString()) {
			return nil
		}
		key = k
	}
	return key
}

// e25ParentContextSide: the side condition of the replace-value exception.
//
//	(A) the context handed to the evaluator is context.WithValue(_, K, list.link), link being a field of the
//	    list's own type (the parent link);
//	(B) the list itself was found as ctx.Value(K) — K is the key under which the stored code would look for it;
//	(C) every store to the link field takes ctx.Value(K) of the enclosing context (or nil).
//
// (A) and (B) are looked for where the code is handed over and, when the context / the list is a parameter
// there (the evaluation was moved into a helper or a method of the list), at every static caller (2 levels).
func e25ParentContextSide(c *Ctx, s *e25Site, fld string) (bool, string) {
	var ctxArg ssa.Value
	for _, a := range s.call.Common().Args {
		if types.TypeString(a.Type(), nil) == "context.Context" {
			ctxArg = a
		}
	}
	if ctxArg == nil || len(s.bases[fld]) == 0 {
		return false, "the call has no context argument"
	}
	var link *types.Var
	var keyA, keyB *ssa.Const
	var check func(fn *ssa.Function, ctxV, listV ssa.Value, needA, needB bool, depth int) (bool, string)
	check = func(fn *ssa.Function, ctxV, listV ssa.Value, needA, needB bool, depth int) (bool, string) {
		if needA {
			if wc, ok := ctxV.(*ssa.Call); ok && c.P.CalleeName(wc) == "context.WithValue" {
				wa := wc.Common().Args
				k, ok := core.Strip(wa[1]).(*ssa.Const)
				if !ok || k.Value == nil {
					return false, "the context handed to the evaluator is rebound under a key that is not a constant"
				}
				ld, ok := core.Strip(wa[2]).(*ssa.UnOp)
				if !ok || ld.Op != token.MUL {
					return false, "the value bound for the evaluation is not the parent link of the list (" + valueLabel(wa[2]) + ")"
				}
				fa, ok := ld.X.(*ssa.FieldAddr)
				if !ok || !(fa.X == listV || core.SameVal(fa.X, listV)) || !types.Identical(ld.Type(), listV.Type()) {
					return false, "the value bound for the evaluation is not the parent link of the list the code was taken from"
				}
				if v := e25FieldVar(fa); link != nil && link != v {
					return false, "different parent links are used"
				} else {
					link = v
				}
				if keyA != nil && keyA.Value.ExactString() != k.Value.ExactString() {
					return false, "the context is rebound under different keys"
				}
				keyA = k
				needA = false
			} else if _, isParam := ctxV.(*ssa.Parameter); !isParam {
				return false, "the replace value is evaluated in a context that is not rebuilt with the parent link of its list (" + valueLabel(ctxV) + ")"
			}
		}
		if needB {
			if k := e25CtxValueKey(listV); k != nil {
				if keyB != nil && keyB.Value.ExactString() != k.Value.ExactString() {
					return false, "the list is found under different keys"
				}
				keyB = k
				needB = false
			} else if _, isParam := listV.(*ssa.Parameter); !isParam {
				return false, "the list is not taken from the context (ctx.Value(key))"
			}
		}
		if !needA && !needB {
			return true, ""
		}
		if needA && !needB {
			// the list was found in this very context and the context goes on unchanged
			for _, o := range core.Origins(listV, false) {
				vc, _ := o.(*ssa.Call)
				if ex, ok := o.(*ssa.Extract); ok {
					if ta, ok := ex.Tuple.(*ssa.TypeAssert); ok {
						vc, _ = ta.X.(*ssa.Call)
					}
				}
				if vc != nil && vc.Common().IsInvoke() && vc.Common().Value == ctxV {
					return false, "the replace value is evaluated in the context in which its own list is bound (" + valueLabel(ctxV) + " is handed on unchanged)"
				}
			}
		}
		// what is still open hangs on parameters: go to the callers
		if depth >= 2 || fn.Parent() != nil {
			return false, "the context / the list reaches " + c.P.Name(fn) + " through more than two levels of parameters"
		}
		edges := c.P.RealCallers(fn)
		if len(edges) == 0 {
			return false, c.P.Name(fn) + " has no caller"
		}
		for _, ed := range edges {
			site, ok := ed.Site.(*ssa.Call)
			if !ok || site.Common().StaticCallee() != fn {
				return false, "dynamic call of " + c.P.Name(fn) + " in " + c.P.Name(ed.Caller.Func)
			}
			sub := func(v ssa.Value) ssa.Value {
				if p, idx := e19ParamIndex(v); p != nil && idx < len(site.Common().Args) {
					return site.Common().Args[idx]
				}
				return v
			}
			cv, lv := ctxV, listV
			if needA {
				cv = sub(ctxV)
			}
			if _, isParam := listV.(*ssa.Parameter); isParam {
				lv = sub(listV)
			}
			if ok, why := check(ed.Caller.Func, cv, lv, needA, needB, depth+1); !ok {
				return false, why + " (caller " + c.P.Name(ed.Caller.Func) + ")"
			}
		}
		return true, ""
	}
	for _, b := range s.bases[fld] {
		if ok, why := check(s.fn, ctxArg, b, true, true, 0); !ok {
			return false, why
		}
	}
	if keyA == nil || keyB == nil || keyA.Value.ExactString() != keyB.Value.ExactString() || !types.Identical(keyA.Type(), keyB.Type()) {
		return false, "the context handed to the evaluator rebinds another key than the one the list was found under"
	}
	// (C)
	stores := 0
	for _, f := range c.P.FuncsIn(false, "lib/query") {
		for _, b := range f.Blocks {
			for _, in := range b.Instrs {
				st, ok := in.(*ssa.Store)
				if !ok {
					continue
				}
				sfa, ok := st.Addr.(*ssa.FieldAddr)
				if !ok || e25FieldVar(sfa) != link {
					continue
				}
				stores++
				for _, o := range core.Origins(st.Val, false) {
					if core.IsNilConst(o) {
						continue
					}
					k := e25CtxValueKey(o)
					if k == nil {
						return false, "the parent link " + link.Name() + " is set in " + c.P.Name(f) + " to something else than the enclosing context's list"
					}
					if k.Value.ExactString() != keyA.Value.ExactString() {
						return false, "the parent link " + link.Name() + " is set in " + c.P.Name(f) + " from another context key"
					}
				}
			}
		}
	}
	if stores == 0 {
		return false, "the parent link " + link.Name() + " is never set"
	}
	return true, fmt.Sprintf("the evaluator gets context.WithValue(ctx, key, list.%s) with the key the list was found under; the %d store(s) to %s take the enclosing context's list (ctx.Value(key))", link.Name(), stores, link.Name())
}

type e25Site struct {
	bases   map[string][]ssa.Value
	fn      *ssa.Function
	call    ssa.CallInstruction
	callees []*ssa.Function
	stored  []string
	runtime bool
	guard   string
}

func e25Root(fn *ssa.Function) *ssa.Function {
	for fn.Parent() != nil {
		fn = fn.Parent()
	}
	return fn
}

func ruleNest1(c *Ctx) {
	if c.Fn("lib/parser.Parse") == nil || c.Fn("lib/query.(*Processor).ExecuteStatement") == nil {
		return
	}
	k := newE23Code(c)
	if len(k.ifcs) != 3 {
		c.Unknown("anchor:lib/parser.{Statement,QueryExpression,Expression}", "-", "cannot-analyse: the syntax-tree interfaces of lib/parser do not resolve")
		return
	}
	k.collectFields()
	sources := e19RuntimeStatementSources(c)

	// 1. the sites: calls with a tree-typed argument taken from a stored-code field or a run-time producer
	var sites []*e25Site
	for _, fn := range c.P.FuncsIn(true, "lib/query") {
		if c.P.IsControl(fn) && !containsAny(fn.Name(), "Stored", "Sourced") {
			continue
		}
		for _, ci := range core.Calls(fn) {
			if _, isGo := ci.(*ssa.Go); isGo {
				continue
			}
			var callees []*ssa.Function
			for _, g := range c.P.Callees(ci) {
				if g != nil && g.Blocks != nil && c.P.Name(g) != g.String() {
					callees = append(callees, g)
				}
			}
			if len(callees) == 0 {
				continue
			}
			s := &e25Site{fn: fn, call: ci, callees: callees}
			stored := map[string]bool{}
			s.bases = map[string][]ssa.Value{}
			for _, a := range ci.Common().Args {
				if !k.isTree(a.Type()) {
					continue
				}
				o := k.origins(a, sources)
				for n := range o.stored {
					stored[n] = true
					s.bases[n] = append(s.bases[n], o.bases[n]...)
				}
				if len(o.runtime) > 0 {
					s.runtime = true
				}
			}
			if len(stored) == 0 && !s.runtime {
				continue
			}
			for n := range stored {
				s.stored = append(s.stored, n)
			}
			sort.Strings(s.stored)
			s.guard = e19NestingGuard(c, fn, ci, nil)
			sites = append(sites, s)
		}
	}
	siteOf := map[ssa.CallInstruction]*e25Site{}
	for _, s := range sites {
		siteOf[s.call] = s
	}

	// 2. cycles: from the callees back to the hosting function, not through `avoid` sites
	cg := c.P.CG()
	// a call that is dominated by a nesting guard of its own function cuts every cycle through it
	guardMemo := map[*ssa.BasicBlock]bool{}
	guardedEdge := func(site ssa.CallInstruction) bool {
		if site == nil || site.Parent() == nil || site.Block() == nil {
			return false
		}
		b := site.Block()
		if v, ok := guardMemo[b]; ok {
			return v
		}
		v := e19NestingGuard(c, site.Parent(), site, nil) != ""
		guardMemo[b] = v
		return v
	}
	// A helper that calls a function-typed parameter of its own (lookupCursor(name, fn)) is entered with the
	// call site as context: inside it, a call of that parameter goes only to the functions the caller passed
	// (the call graph merges all callers: OPEN's closure would seem reachable from CURSOR … COUNT).
	callsOwnParam := map[*ssa.Function]bool{}
	for _, f := range c.P.SrcFuncs() {
		for _, ci := range core.Calls(f) {
			if ci.Common().IsInvoke() {
				continue
			}
			if p, _ := e19ParamIndex(ci.Common().Value); p != nil && p.Parent() == f {
				callsOwnParam[f] = true
			}
		}
	}
	passedFuncs := func(arg ssa.Value) map[*ssa.Function]bool {
		out := map[*ssa.Function]bool{}
		for _, o := range core.Origins(arg, false) {
			switch x := o.(type) {
			case *ssa.MakeClosure:
				if f, ok := x.Fn.(*ssa.Function); ok {
					out[f] = true
					continue
				}
				return nil
			case *ssa.Function:
				out[x] = true
			default:
				return nil // not known here: every callee of the call graph stays possible
			}
		}
		return out
	}
	type e25State struct {
		f   *ssa.Function
		via ssa.CallInstruction
	}
	onCycle := func(s *e25Site, avoid func(*e25Site) bool) bool {
		host := map[*ssa.Function]bool{}
		for f := s.fn; f != nil; f = f.Parent() {
			host[f] = true
		}
		seen := map[e25State]bool{}
		var stack []e25State
		push := func(f *ssa.Function, via ssa.CallInstruction) {
			if f == nil {
				return
			}
			if !callsOwnParam[f] || via == nil || via.Common().StaticCallee() != f {
				via = nil
			}
			st := e25State{f, via}
			if !seen[st] {
				seen[st] = true
				stack = append(stack, st)
			}
		}
		for _, g := range s.callees {
			push(g, s.call)
		}
		for len(stack) > 0 {
			st := stack[len(stack)-1]
			stack = stack[:len(stack)-1]
			f := st.f
			if host[f] {
				return true
			}
			if n := cg.Nodes[f]; n != nil {
				for _, e := range n.Out {
					if o, ok := siteOf[e.Site]; ok && o != s && avoid(o) {
						continue
					}
					if guardedEdge(e.Site) {
						continue
					}
					if st.via != nil && e.Site != nil && !e.Site.Common().IsInvoke() {
						if p, idx := e19ParamIndex(e.Site.Common().Value); p != nil && p.Parent() == f && idx < len(st.via.Common().Args) {
							if allowed := passedFuncs(st.via.Common().Args[idx]); allowed != nil && !allowed[e.Callee.Func] {
								continue
							}
						}
					}
					push(e.Callee.Func, e.Site)
				}
			}
			for _, af := range f.AnonFuncs {
				push(af, nil)
			}
		}
		return false
	}
	guarded := func(o *e25Site) bool { return o.guard != "" }
	anyOther := func(o *e25Site) bool { return true }

	// self-responsible sites: on a cycle that passes through no other site
	resp := map[*e25Site]bool{}
	for _, s := range sites {
		if s.guard == "" && (c.P.IsControl(s.fn) || s.runtime || onCycle(s, anyOther)) {
			resp[s] = true
		}
	}
	coveredBy := func(o *e25Site) bool { return o.guard != "" || resp[o] }

	type ob struct {
		key, pos, why string
		bad           bool
	}
	var obs []ob
	for _, s := range sites {
		if len(s.stored) == 0 {
			continue // run-time producers are R-ERR-18's obligations
		}
		c.Sites++
		c.Touch(s.fn)
		callee := s.callees[0]
		runner := e19ShortFn(c.P.Name(callee))
		if i := strings.Index(runner, "."); i >= 0 && strings.HasPrefix(runner, "query.") {
			runner = runner[i+1:]
		}
		for _, fld := range s.stored {
			key := "code stored in " + fld + " run by " + runner
			if c.P.IsControl(s.fn) {
				key = c.KeyAt(s.fn, key)
			}
			var exc *e25Exception
			for i := range e25Exceptions {
				if e25Exceptions[i].key == key {
					exc = &e25Exceptions[i]
				}
			}
			switch {
			case exc != nil && s.guard == "":
				if ok, why := exc.side(c, s, fld); ok {
					obs = append(obs, ob{key, c.Pos(s.call), "frozen exception: " + exc.reason + " — side condition checked: " + why, false})
				} else {
					obs = append(obs, ob{key, c.Pos(s.call), fmt.Sprintf("in %s: the code stored in %s is handed to %s without a nesting-depth guard; the frozen exception (%s) does not hold: %s — `PREPARE s FROM 'SELECT ?'; PREPARE t FROM 'EXECUTE s USING ?'; EXECUTE t USING 1;` ends in `fatal error: stack overflow`", c.P.Name(s.fn), fld, c.P.Name(callee), exc.reason, why), true})
				}
			case s.guard != "":
				obs = append(obs, ob{key, c.Pos(s.call), "in " + c.P.Name(s.fn) + ": dominated by a test of the nesting counter " + s.guard + ", which this function maintains", false})
			case resp[s]:
				obs = append(obs, ob{key, c.Pos(s.call), fmt.Sprintf("in %s: the code stored in %s is handed to %s without a nesting-depth guard, and %s reaches %s again (call-graph cycle through no other stored-code site): stored code that names its own container — a user-defined function that calls itself, a parameter default that calls its function, a prepared statement that EXECUTEs itself — recurses until the Go stack or the memory is exhausted; `fatal error: stack overflow` / `out of memory` cannot be recovered, the process dies with exit status 2 and held locks/temp files stay", c.P.Name(s.fn), fld, c.P.Name(callee), c.P.Name(callee), c.P.Name(e25Root(s.fn))), true})
			case !onCycle(s, guarded):
				obs = append(obs, ob{key, c.Pos(s.call), "in " + c.P.Name(s.fn) + ": not on an unguarded call-graph cycle (the callee does not reach this function again)", false})
			case onCycle(s, coveredBy):
				obs = append(obs, ob{key, c.Pos(s.call), fmt.Sprintf("in %s: the code stored in %s is handed to %s without a nesting-depth guard, and the call lies on a call-graph cycle on which no site carries a guard", c.P.Name(s.fn), fld, c.P.Name(callee)), true})
			default:
				obs = append(obs, ob{key, c.Pos(s.call), "in " + c.P.Name(s.fn) + ": every call-graph cycle through this call passes through another stored-code / run-time-code site that carries the obligation (or a guard) itself", false})
			}
		}
	}
	sort.SliceStable(obs, func(i, j int) bool {
		if obs[i].key != obs[j].key {
			return obs[i].key < obs[j].key
		}
		return obs[i].pos < obs[j].pos
	})
	// one obligation per key: violated if any site with that key is
	for i := 0; i < len(obs); {
		j := i
		bad := -1
		for j < len(obs) && obs[j].key == obs[i].key {
			if obs[j].bad && bad < 0 {
				bad = j
			}
			j++
		}
		if bad >= 0 {
			c.Bad(obs[bad].key, obs[bad].pos, obs[bad].why)
		} else {
			c.Ok(obs[i].key, obs[i].pos, obs[i].why)
		}
		i = j
	}
}
