package rules

import (
	"fmt"
	"go/token"
	"go/types"
	"sort"
	"strings"

	"golang.org/x/tools/go/ssa"

	"verif/checker/core"
)

// R-SRT-12: a sub-view over a range of rows carries every row-indexed field with the same range.
//
// A "row structure" is a struct type with a slice field RecordSet (lib/query.View; stand-ins in the control
// package). Its row-indexed fields are discovered, not listed:
//   (a) the field is indexed with the very index value that also indexes RecordSet of the same structure in
//       the same function (view.sortValuesInEachCell[index] next to view.RecordSet[index]);
//   (b) the field is allocated with the row count of the same object (make(T, len(v.RecordSet)) or
//       make(T, v.RecordLen()) where the method returns len(recv.RecordSet));
//   (c) the field is indexed with a load of a "position field" — a struct field some function uses to index a
//       RecordSet (ReferenceRecord.recordIndex).
// A sub-view constructor is a store  dst.RecordSet = src.RecordSet[lo:hi]  with dst another object than src.
// For it, every row-indexed field F of dst that is given a value taken from src.F must be src.F[lo:hi'] with
// the same lo (hi' = hi or absent), or — only when lo is absent / 0 — src.F itself. Leaving F unset or nil,
// or building it anew, is fine. Code that runs on the sub-view addresses F with indices local to the range.

func init() {
	Register(&Rule{ID: "R-SRT-12", Props: []string{"C04", "C07", "C17"}, Floor: 3,
		Doc:      "a view made over a range of another view's rows (dst.RecordSet = src.RecordSet[lo:hi], dst ≠ src: the per-goroutine view of evaluateSequentialRoutine and any other such constructor) carries each row-indexed field of the source — discovered as the slice fields indexed together with RecordSet, allocated with the row count, or indexed by a record-position field such as ReferenceRecord.recordIndex — either not at all (nil / unset / built anew) or sliced from the same lower bound; handed over whole, local index i of routine n addresses the entry of row i of routine 0 (a per-group cache then yields another group's rows, a per-row sort key another row's key)",
		Controls: []string{"CtlSubViewWholeKeys", "CtlSubViewCopyThenCut"},
		Run:      ruleSrt12})
}

// rowStructOf: the struct (through one pointer) when it has a slice field RecordSet; label names it.
func rowStructOf(t types.Type) (*types.Struct, string) {
	if p, ok := t.Underlying().(*types.Pointer); ok {
		t = p.Elem()
	}
	st, ok := t.Underlying().(*types.Struct)
	if !ok {
		return nil, ""
	}
	for i := 0; i < st.NumFields(); i++ {
		if st.Field(i).Name() == "RecordSet" {
			if _, ok := st.Field(i).Type().Underlying().(*types.Slice); ok {
				label := core.NamedOf(t)
				if label == "" {
					label = t.String()
				}
				return st, label
			}
		}
	}
	return nil, ""
}

// rowFieldLoad: v is (an alias of) a load of obj.<field> of a row structure → (obj, struct label, field).
func rowFieldLoad(v ssa.Value) (obj ssa.Value, label, field string, ok bool) {
	for _, o := range core.Origins(v, false) {
		u, isU := o.(*ssa.UnOp)
		if !isU || u.Op != token.MUL {
			return nil, "", "", false
		}
		fa, isFA := u.X.(*ssa.FieldAddr)
		if !isFA {
			return nil, "", "", false
		}
		st, l := rowStructOf(fa.X.Type())
		if st == nil {
			return nil, "", "", false
		}
		f := core.FieldName(fa)
		if obj != nil && (l != label || f != field) {
			return nil, "", "", false
		}
		obj, label, field = fa.X, l, f
	}
	return obj, label, field, obj != nil
}

// sameObject: a and b denote the same object (same value, or loads of cells holding one and the same value).
func sameObject(a, b ssa.Value) bool {
	if a == b {
		return true
	}
	oa, ob := core.Origins(a, false), core.Origins(b, false)
	if len(oa) != 1 || len(ob) != 1 {
		return false
	}
	return oa[0] == ob[0]
}

// rowCountOf: v is len(obj.RecordSet) or obj.M() with M returning len(recv.RecordSet) → obj.
func rowCountOf(v ssa.Value, depth int) (ssa.Value, bool) {
	call, ok := v.(*ssa.Call)
	if !ok {
		return nil, false
	}
	if b, ok := call.Call.Value.(*ssa.Builtin); ok {
		if b.Name() != "len" || len(call.Call.Args) != 1 {
			return nil, false
		}
		obj, _, f, ok := rowFieldLoad(call.Call.Args[0])
		if ok && f == "RecordSet" {
			return obj, true
		}
		return nil, false
	}
	g := call.Call.StaticCallee()
	if g == nil || g.Blocks == nil || depth > 2 || len(g.Params) == 0 || len(call.Call.Args) == 0 {
		return nil, false
	}
	rets := core.Returns(g)
	if len(rets) == 0 {
		return nil, false
	}
	for _, r := range rets {
		if len(r.Results) != 1 {
			return nil, false
		}
		o, ok := rowCountOf(r.Results[0], depth+1)
		if !ok || !sameObject(o, g.Params[0]) {
			return nil, false
		}
	}
	return call.Call.Args[0], true
}

// rowIndexedFields discovers, per row structure label, the row-indexed fields with the reason they are.
func rowIndexedFields(c *Ctx) map[string]map[string]string {
	out := map[string]map[string]string{}
	note := func(label, field, why string) {
		if field == "RecordSet" {
			return
		}
		if out[label] == nil {
			out[label] = map[string]string{}
		}
		if old, ok := out[label][field]; !ok || why < old {
			out[label][field] = why
		}
	}
	fns := c.P.FuncsIn(true, "lib/query")
	// position fields: struct fields whose load indexes a RecordSet
	posField := map[string]bool{}
	type idxUse struct {
		ia           *ssa.IndexAddr
		obj          ssa.Value
		label, field string
	}
	uses := map[*ssa.Function][]idxUse{}
	for _, fn := range fns {
		for _, b := range fn.Blocks {
			for _, in := range b.Instrs {
				ia, ok := in.(*ssa.IndexAddr)
				if !ok {
					continue
				}
				obj, label, field, ok := rowFieldLoad(ia.X)
				if !ok {
					continue
				}
				if _, isSl := ia.X.Type().Underlying().(*types.Slice); !isSl {
					continue
				}
				uses[fn] = append(uses[fn], idxUse{ia, obj, label, field})
				if field == "RecordSet" {
					if u, ok := ia.Index.(*ssa.UnOp); ok && u.Op == token.MUL {
						if fa, ok := u.X.(*ssa.FieldAddr); ok {
							if o := core.FieldOwner(fa); o != "" {
								posField[o] = true
							}
						}
					}
				}
			}
		}
	}
	for _, fn := range fns {
		us := uses[fn]
		for _, a := range us {
			if a.field == "RecordSet" {
				continue
			}
			// (a) co-indexed with RecordSet of the same structure
			for _, r := range us {
				if r.field == "RecordSet" && r.label == a.label && r.ia.Index == a.ia.Index {
					note(a.label, a.field, "indexed together with RecordSet in "+c.P.Name(fn))
				}
			}
			// (c) indexed by a record-position field
			if u, ok := a.ia.Index.(*ssa.UnOp); ok && u.Op == token.MUL {
				if fa, ok := u.X.(*ssa.FieldAddr); ok && posField[core.FieldOwner(fa)] {
					note(a.label, a.field, "indexed by "+core.FieldOwner(fa)+" in "+c.P.Name(fn))
				}
			}
		}
		// (b) allocated with the row count of the same object
		for _, b := range fn.Blocks {
			for _, in := range b.Instrs {
				st, ok := in.(*ssa.Store)
				if !ok {
					continue
				}
				fa, ok := st.Addr.(*ssa.FieldAddr)
				if !ok {
					continue
				}
				rs, label := rowStructOf(fa.X.Type())
				if rs == nil {
					continue
				}
				for _, o := range core.Origins(st.Val, false) {
					mk, ok := o.(*ssa.MakeSlice)
					if !ok {
						continue
					}
					if obj, ok := rowCountOf(mk.Len, 0); ok && sameObject(obj, fa.X) {
						note(label, core.FieldName(fa), "allocated with the row count in "+c.P.Name(fn))
					}
				}
			}
		}
	}
	return out
}

func sameBound(a, b ssa.Value) bool {
	if a == nil || b == nil {
		return isZeroOrNil(a) && isZeroOrNil(b)
	}
	if a == b {
		return true
	}
	ca, oka := core.ConstInt(a)
	cb, okb := core.ConstInt(b)
	return oka && okb && ca == cb
}

func boundLabel(v ssa.Value) string {
	if v == nil {
		return ""
	}
	if k, ok := core.ConstInt(v); ok {
		return fmt.Sprint(k)
	}
	if e, ok := v.(*ssa.Extract); ok {
		if call, ok := e.Tuple.(*ssa.Call); ok {
			if g := call.Call.StaticCallee(); g != nil {
				return fmt.Sprintf("result #%d of %s", e.Index, g.Name())
			}
		}
		return fmt.Sprintf("result #%d of a call", e.Index)
	}
	if p, ok := v.(*ssa.Parameter); ok {
		return p.Name()
	}
	return v.Name()
}

func ruleSrt12(c *Ctx) {
	rowFields := rowIndexedFields(c)
	if len(rowFields["lib/query.View"]) == 0 {
		c.Unknown("row-indexed fields of View", "-", "cannot-analyse: no slice field of lib/query.View is indexed together with RecordSet, allocated with the row count or indexed by a record-position field")
		return
	}
	nReal := 0
	for _, fn := range c.P.FuncsIn(true, "lib/query") {
		for _, b := range fn.Blocks {
			for _, in := range b.Instrs {
				st, ok := in.(*ssa.Store)
				if !ok {
					continue
				}
				dfa, ok := st.Addr.(*ssa.FieldAddr)
				if !ok || core.FieldName(dfa) != "RecordSet" {
					continue
				}
				_, label := rowStructOf(dfa.X.Type())
				if label == "" {
					continue
				}
				sl, ok := st.Val.(*ssa.Slice)
				if !ok {
					continue
				}
				src, slabel, sfield, ok := rowFieldLoad(sl.X)
				if !ok || sfield != "RecordSet" || slabel != label || sameObject(src, dfa.X) {
					continue
				}
				dst := dfa.X
				if !c.P.IsControl(fn) {
					nReal++
				}
				c.Touch(fn)
				// the whole structure copied from src first (sub := *src)?
				copied := false
				for _, bb := range fn.Blocks {
					for _, i2 := range bb.Instrs {
						if s2, ok := i2.(*ssa.Store); ok && sameObject(s2.Addr, dst) {
							if u, ok := s2.Val.(*ssa.UnOp); ok && u.Op == token.MUL && sameObject(u.X, src) {
								copied = true
							}
						}
					}
				}
				var names []string
				for f := range rowFields[label] {
					names = append(names, f)
				}
				sort.Strings(names)
				rng := "[" + boundLabel(sl.Low) + ":" + boundLabel(sl.High) + "]"
				for _, f := range names {
					key := c.KeyAt(fn, "sub-view over RecordSet[lo:hi] keeps "+f+" aligned")
					var bad []string
					stored := 0
					for _, bb := range fn.Blocks {
						for _, i2 := range bb.Instrs {
							s2, ok := i2.(*ssa.Store)
							if !ok {
								continue
							}
							fa, ok := s2.Addr.(*ssa.FieldAddr)
							if !ok || core.FieldName(fa) != f || !sameObject(fa.X, dst) {
								continue
							}
							stored++
							for _, o := range core.Origins(s2.Val, false) {
								if core.IsNilConst(o) {
									continue
								}
								if s, ok := o.(*ssa.Slice); ok {
									if so, _, sf, ok := rowFieldLoad(s.X); ok && sf == f && sameObject(so, src) {
										if !sameBound(s.Low, sl.Low) {
											bad = append(bad, fmt.Sprintf("%s is sliced from %q at %s while the rows start at %q", f, boundLabel(s.Low), c.Pos(s2), boundLabel(sl.Low)))
										} else if s.High != nil && !sameBound(s.High, sl.High) {
											bad = append(bad, fmt.Sprintf("%s is cut at %q at %s while the rows end at %q", f, boundLabel(s.High), c.Pos(s2), boundLabel(sl.High)))
										}
									}
									continue
								}
								if so, _, sf, ok := rowFieldLoad(o); ok && sf == f && sameObject(so, src) && !isZeroOrNil(sl.Low) {
									bad = append(bad, fmt.Sprintf("%s of the source is handed over whole at %s", f, c.Pos(s2)))
								}
							}
						}
					}
					if stored == 0 && copied && !isZeroOrNil(sl.Low) {
						bad = append(bad, fmt.Sprintf("%s comes with the copy of the whole source structure and is not re-sliced", f))
					}
					sort.Strings(bad)
					okWhy := "not handed to the sub-view (unset / nil / built anew)"
					if stored > 0 {
						okWhy = "given to the sub-view with the bounds of the rows " + rng
					}
					c.Check(len(bad) == 0, key, c.Pos(st), okWhy+" — row-indexed: "+rowFields[label][f],
						strings.Join(bad, "; ")+": the sub-view covers RecordSet"+rng+" and its code uses indices local to that range, so entry i of the field belongs to row i of the source, not to row lo+i of the sub-view ("+rowFields[label][f]+")")
				}
			}
		}
	}
	if nReal == 0 {
		c.Unknown("sub-view constructors", "-", "cannot-analyse: no function of lib/query builds a view over a range of another view's RecordSet")
	}
}
