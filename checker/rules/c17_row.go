package rules

// R-ROW-1 — what is evaluated for a row is evaluated ON that row (seed C17-19).
//
// A scope made by ReferenceScope.CreateScopeForSequentialEvaluation points at no record
// (recordIndex -1); the function that owns it moves it from record to record by storing into
// `S.Records[0].recordIndex` and evaluates per-row expressions with it. Analyze does so for the
// extra arguments of a user defined aggregate: for every record of a window frame the scope is
// put on that record, the arguments are evaluated, the function is executed and the result is
// appended to that record. Evaluating once per frame with the scope on `frame.Records[0]` and
// appending the one result to every record of the frame gives every row of a whole-partition frame
// the value that belongs to the first row.
//
// Decided for every function (closures included) of lib/query that makes a sequential scope S and
// hands it directly to Evaluate at a call site c:
//
//   (a) positioned: c cannot be reached from the creation of S without passing a store into
//       `S.Records[0].recordIndex` (otherwise the expression is evaluated on record -1);
//   (b) the right record: the result of c is followed forwards through the function (tuple
//       extraction, phis, conversions, local cells, local slices / arrays / maps it is stored into,
//       results of calls that receive it or such a container, append) to the stores into an element
//       `X[j]` of a record set (a value of type lib/query.RecordSet). For every such store, every
//       positioning store P that reaches c without another one in between must have stored j — the
//       same SSA value, or a structurally equal load — and c must not be reachable from the definition
//       of j (the head of the loop over the records) without passing P: the value a record receives
//       was computed with the scope on that record, in that iteration. When the result reaches the
//       store only through a local container (the slice of evaluated arguments), the store itself
//       must not be reachable from the definition of j without passing P either: an iteration that
//       skips the positioning (`if first { position; evaluate }`) stores what an earlier record left
//       in the container.
//
// Values that leave the function otherwise (keys, maps of updates, closures) are not sinks: (b) is
// then empty and only (a) is decided. A helper that receives such a scope through a parameter
// (statically called, the argument being the created scope or such a parameter again) and stores
// into the recordIndex of that parameter is the function that owns the iteration: its evaluations
// are decided in the same way, the "creation" being its entry; where one of them can be reached
// from the entry without a positioning store the position is the caller's, and (a) is violated only
// if a calling site can itself be reached from the creation of the scope without one. Scopes that
// position themselves (NextRecord), scopes for analytics (window scans evaluate OTHER rows on
// purpose) and helpers that only evaluate are not followed: misses, never alarms.

import (
	"fmt"
	"go/token"
	"sort"

	"golang.org/x/tools/go/ssa"

	"verif/checker/core"
)

func init() {
	Register(&Rule{ID: "R-ROW-1", Props: []string{"C17"}, Floor: 3,
		Doc:      "in every function of lib/query that makes a scope with CreateScopeForSequentialEvaluation (record index -1 until the function moves it), or receives one through a parameter from a static caller and stores into that parameter's Records[0].recordIndex (the extracted per-frame helper), and hands it directly to Evaluate: (a) the call cannot be reached from the creation of the scope without a store into `S.Records[0].recordIndex`; (b) when the result of the call flows (through tuple extraction, phis, conversions, local cells and containers, results of calls that receive it, append) into a store to an element `X[j]` of a lib/query.RecordSet, every positioning store that reaches the call without another one in between stored that same j (same SSA value or structurally equal load) and the call (and, when the result arrives only through a local container such as the slice of evaluated arguments, the store as well) is not reachable from the definition of j without passing that store — the value appended to a record was evaluated with the scope on that record in that iteration (Analyze: the extra arguments of a user defined aggregate are evaluated for every record of a frame, not once per frame on frame.Records[0])",
		Controls: []string{"CtlSeqRowFirstOfFrame", "CtlSeqRowNeverPositioned", "CtlSeqRowPositionedAfter", "CtlSeqRowOnlyFirstRecord", "CtlSeqRowHelperOncePerFrameDo"},
		Run:      ruleRow1})
}

const rowCtor = "CreateScopeForSequentialEvaluation"

// rowResolve strips wrappers and reads through local cells that have one visible store.
func rowResolve(v ssa.Value) ssa.Value {
	for i := 0; i < 6; i++ {
		v = core.Strip(v)
		u, ok := v.(*ssa.UnOp)
		if !ok || u.Op != token.MUL {
			return v
		}
		switch u.X.(type) {
		case *ssa.Alloc, *ssa.FreeVar:
		default:
			return v
		}
		vals, complete := core.StoresTo(u.X)
		if !complete || len(vals) != 1 {
			return v
		}
		v = vals[0]
	}
	return v
}

// rowSameVal: the same SSA value, equal constants, or structurally equal loads / addresses.
func rowSameVal(a, b ssa.Value, depth int) bool {
	a, b = core.Strip(a), core.Strip(b)
	if a == b {
		return true
	}
	if depth > 5 {
		return false
	}
	if ka, ok := core.ConstInt(a); ok {
		kb, ok2 := core.ConstInt(b)
		return ok2 && ka == kb
	}
	switch x := a.(type) {
	case *ssa.UnOp:
		y, ok := b.(*ssa.UnOp)
		return ok && x.Op == token.MUL && y.Op == token.MUL && rowSameVal(x.X, y.X, depth+1)
	case *ssa.IndexAddr:
		y, ok := b.(*ssa.IndexAddr)
		return ok && rowSameVal(x.X, y.X, depth+1) && rowSameVal(x.Index, y.Index, depth+1)
	case *ssa.FieldAddr:
		y, ok := b.(*ssa.FieldAddr)
		return ok && x.Field == y.Field && rowSameVal(x.X, y.X, depth+1)
	case *ssa.Field:
		y, ok := b.(*ssa.Field)
		return ok && x.Field == y.Field && rowSameVal(x.X, y.X, depth+1)
	}
	return false
}

// rowIsCtor: a static call of (*ReferenceScope).CreateScopeForSequentialEvaluation (or of the control type's method of that name).
func rowIsCtor(c *Ctx, ctor *ssa.Function, v ssa.Value) bool {
	call, ok := v.(*ssa.Call)
	if !ok {
		return false
	}
	callee := core.StaticCallee(call)
	if callee == nil {
		return false
	}
	return callee == ctor || (c.P.IsControl(callee) && callee.Name() == rowCtor)
}

func rowIsEval(c *Ctx, eval *ssa.Function, call *ssa.Call) bool {
	callee := core.StaticCallee(call)
	if callee == nil {
		return false
	}
	return callee == eval || (c.P.IsControl(callee) && callee.Name() == "ctlSeqRowEvaluate")
}

// rowPositionStore: `S.Records[0].recordIndex = v` → S (unresolved).
func rowPositionStore(st *ssa.Store) (scope ssa.Value, ok bool) {
	fa, isFA := st.Addr.(*ssa.FieldAddr)
	if !isFA || core.FieldName(fa) != "recordIndex" {
		return nil, false
	}
	ia, isIA := fa.X.(*ssa.IndexAddr)
	if !isIA {
		return nil, false
	}
	if k, isK := core.ConstInt(ia.Index); !isK || k != 0 {
		return nil, false
	}
	ld, isLd := ia.X.(*ssa.UnOp)
	if !isLd || ld.Op != token.MUL {
		return nil, false
	}
	rf, isRF := ld.X.(*ssa.FieldAddr)
	if !isRF || core.FieldName(rf) != "Records" {
		return nil, false
	}
	return rf.X, true
}

func rowIsRecordSet(v ssa.Value) bool {
	n := core.NamedOf(v.Type())
	return n == "lib/query.RecordSet" || n == core.ControlPkg+".ctlSeqRowRecordSet"
}

type rowSink struct {
	st  *ssa.Store
	idx ssa.Value
}

// rowSinks follows the result of an evaluation forwards to the stores into elements of a record set.
func rowSinks(from ssa.Value, throughMemory bool) []rowSink {
	seen := map[ssa.Value]bool{}
	var work []ssa.Value
	push := func(v ssa.Value) {
		if v != nil && !seen[v] {
			seen[v] = true
			work = append(work, v)
		}
	}
	var sinks []rowSink
	sinkSeen := map[*ssa.Store]bool{}
	isErr := func(v ssa.Value) bool { return v.Type().String() == "error" }
	push(from)
	for len(work) > 0 {
		v := work[len(work)-1]
		work = work[:len(work)-1]
		refs := v.Referrers()
		if refs == nil {
			continue
		}
		for _, r := range *refs {
			switch x := r.(type) {
			case *ssa.Extract:
				if !isErr(x) {
					push(x)
				}
			case *ssa.Phi, *ssa.MakeInterface, *ssa.ChangeInterface, *ssa.ChangeType, *ssa.Convert,
				*ssa.TypeAssert, *ssa.Slice, *ssa.Field, *ssa.Index, *ssa.Lookup, *ssa.BinOp:
				push(x.(ssa.Value))
			case *ssa.UnOp:
				push(x)
			case *ssa.IndexAddr:
				if x.X == v {
					push(x)
				}
			case *ssa.FieldAddr:
				if x.X == v {
					push(x)
				}
			case *ssa.MapUpdate:
				if x.Value == v && throughMemory {
					push(x.Map)
				}
			case *ssa.Store:
				if x.Val != v {
					continue
				}
				if ia, ok := x.Addr.(*ssa.IndexAddr); ok && rowIsRecordSet(ia.X) {
					if !sinkSeen[x] {
						sinkSeen[x] = true
						sinks = append(sinks, rowSink{x, ia.Index})
					}
					continue
				}
				if !throughMemory {
					continue
				}
				// the local container (or cell) the value is put into carries it
				base := x.Addr
				for {
					if ia, ok := base.(*ssa.IndexAddr); ok {
						base = ia.X
						continue
					}
					if fa, ok := base.(*ssa.FieldAddr); ok {
						base = fa.X
						continue
					}
					break
				}
				push(base)
			case *ssa.Call:
				used := false
				for _, a := range x.Call.Args {
					if a == v {
						used = true
					}
				}
				if x.Call.IsInvoke() && x.Call.Value == v {
					used = true
				}
				if used && !isErr(x) {
					push(x)
				}
			}
		}
	}
	sort.Slice(sinks, func(i, j int) bool {
		a, b := sinks[i].st, sinks[j].st
		if a.Block().Index != b.Block().Index {
			return a.Block().Index < b.Block().Index
		}
		return core.InstrIndex(a) < core.InstrIndex(b)
	})
	return sinks
}

// rowReach: `to` can be reached from just after `from` (from the entry when from is nil) without passing a stop.
func rowReach(fn *ssa.Function, from ssa.Instruction, to ssa.Instruction, stop func(ssa.Instruction) bool) bool {
	if from != nil {
		return core.Reachable(from, to, stop)
	}
	found := false
	core.WalkFromEntry(fn, func(in ssa.Instruction) bool {
		if in == to {
			found = true
			return false
		}
		return !stop(in)
	})
	return found
}

func ruleRow1(c *Ctx) {
	start := len(c.Obs)
	eval := c.Fn("lib/query.Evaluate")
	ctor := c.Fn("lib/query.(*ReferenceScope)." + rowCtor)
	if eval == nil || ctor == nil {
		return
	}
	funcs := c.P.FuncsIn(true, "lib/query")
	// a parameter through which a helper receives a sequential scope AND moves it (it contains a
	// positioning store on that parameter): the helper is then the function that owns the iteration
	seqParam := map[*ssa.Parameter]bool{}
	callers := map[*ssa.Parameter][]*ssa.Call{}
	isRoot := func(v ssa.Value) bool {
		if p, ok := v.(*ssa.Parameter); ok {
			return seqParam[p]
		}
		return rowIsCtor(c, ctor, v)
	}
	movedParams := map[*ssa.Function]map[*ssa.Parameter]bool{}
	for _, fn := range funcs {
		for _, b := range fn.Blocks {
			for _, in := range b.Instrs {
				if st, ok := in.(*ssa.Store); ok {
					if sc, ok := rowPositionStore(st); ok {
						if p, ok := rowResolve(sc).(*ssa.Parameter); ok {
							if movedParams[fn] == nil {
								movedParams[fn] = map[*ssa.Parameter]bool{}
							}
							movedParams[fn][p] = true
						}
					}
				}
			}
		}
	}
	for changed := true; changed; {
		changed = false
		for _, fn := range funcs {
			for _, b := range fn.Blocks {
				for _, in := range b.Instrs {
					call, ok := in.(*ssa.Call)
					if !ok {
						continue
					}
					g := core.StaticCallee(call)
					if g == nil || movedParams[g] == nil {
						continue
					}
					for i, a := range call.Call.Args {
						if i >= len(g.Params) || !movedParams[g][g.Params[i]] || seqParam[g.Params[i]] {
							continue
						}
						if isRoot(rowResolve(a)) {
							seqParam[g.Params[i]] = true
							changed = true
						}
					}
				}
			}
		}
	}
	for _, fn := range funcs {
		for _, b := range fn.Blocks {
			for _, in := range b.Instrs {
				call, ok := in.(*ssa.Call)
				if !ok {
					continue
				}
				g := core.StaticCallee(call)
				if g == nil {
					continue
				}
				for i, a := range call.Call.Args {
					if i < len(g.Params) && seqParam[g.Params[i]] && isRoot(rowResolve(a)) {
						callers[g.Params[i]] = append(callers[g.Params[i]], call)
					}
				}
			}
		}
	}
	posOf := func(fn *ssa.Function, scope ssa.Value) []*ssa.Store {
		var out []*ssa.Store
		for _, b := range fn.Blocks {
			for _, in := range b.Instrs {
				if st, ok := in.(*ssa.Store); ok {
					if sc, ok := rowPositionStore(st); ok && rowResolve(sc) == scope {
						out = append(out, st)
					}
				}
			}
		}
		return out
	}
	stopAt := func(ps []*ssa.Store) func(ssa.Instruction) bool {
		return func(in ssa.Instruction) bool {
			st, ok := in.(*ssa.Store)
			if !ok {
				return false
			}
			for _, p := range ps {
				if p == st {
					return true
				}
			}
			return false
		}
	}
	real := 0
	for _, fn := range funcs {
		// the evaluations of this function on a sequential scope, and the positioning stores, by scope
		type site struct {
			call  *ssa.Call
			scope ssa.Value
		}
		var sites []site
		pos := map[ssa.Value][]*ssa.Store{}
		for _, b := range fn.Blocks {
			for _, in := range b.Instrs {
				if x, ok := in.(*ssa.Call); ok && rowIsEval(c, eval, x) {
					for _, a := range x.Call.Args {
						if s := rowResolve(a); isRoot(s) {
							sites = append(sites, site{x, s})
							if _, done := pos[s]; !done {
								pos[s] = posOf(fn, s)
							}
							break
						}
					}
				}
			}
		}
		if len(sites) == 0 {
			continue
		}
		c.Touch(fn)
		for k, s := range sites {
			c.Sites++
			if !c.P.IsControl(fn) {
				real++
			}
			key := c.KeyAt(fn, fmt.Sprintf("evaluation #%d on a sequential scope", k+1))
			at := c.Pos(s.call)
			ps := pos[s.scope]
			isPos := stopAt(ps)
			// (a) no path from the creation of the scope to the call without a positioning store
			var from ssa.Instruction
			if mk, ok := s.scope.(*ssa.Call); ok && mk.Parent() == fn {
				from = mk
			}
			if rowReach(fn, from, s.call, isPos) {
				unpositioned := true
				if prm, ok := s.scope.(*ssa.Parameter); ok {
					// a helper that received the scope: on this path the position is the caller's
					unpositioned = false
					for _, cs := range callers[prm] {
						f := cs.Parent()
						for _, a := range cs.Call.Args {
							if mk, ok := rowResolve(a).(*ssa.Call); ok && rowIsCtor(c, ctor, mk) && mk.Parent() == f {
								if core.Reachable(mk, cs, stopAt(posOf(f, mk))) {
									unpositioned = true
									at = c.Pos(cs)
								}
							}
						}
					}
				}
				if unpositioned {
					c.Bad(key, at, "Evaluate is handed a scope made by "+rowCtor+" on a path on which nothing was stored into its Records[0].recordIndex since its creation: the expression is evaluated on record -1, not on the row it is evaluated for")
					continue
				}
			}
			var reaching []*ssa.Store
			for _, p := range ps {
				if core.Reachable(p, s.call, isPos) {
					reaching = append(reaching, p)
				}
			}
			// (b) the record that receives the value is the positioned one
			sinks := rowSinks(s.call, true)
			direct := map[*ssa.Store]bool{}
			for _, sk := range rowSinks(s.call, false) {
				direct[sk.st] = true
			}
			bad := ""
			for _, sk := range sinks {
				for _, p := range reaching {
					if !rowSameVal(p.Val, sk.idx, 0) {
						bad = fmt.Sprintf("the value evaluated with the scope positioned at %s is stored into the record set at %s under another index than the one the scope was put on: a record receives a value computed for a different row (every record of a frame gets the value of the record the scope happened to stand on)", c.Pos(p), c.Pos(sk.st))
						break
					}
					if d, ok := core.Strip(sk.idx).(ssa.Instruction); ok && d.Parent() == fn {
						if core.Reachable(d, s.call, func(in ssa.Instruction) bool { return in == ssa.Instruction(p) }) {
							bad = fmt.Sprintf("the index of the record stored at %s is redefined (next record) on a path to the evaluation that does not pass the positioning store at %s: the value is computed with the scope still on the previous record", c.Pos(sk.st), c.Pos(p))
							break
						}
						// the result reaches the store only through a container that outlives the iteration:
						// an iteration that does not move the scope stores what an earlier record left there
						if !direct[sk.st] && len(reaching) == 1 && core.Reachable(d, sk.st, func(in ssa.Instruction) bool { return in == ssa.Instruction(p) }) {
							bad = fmt.Sprintf("the result reaches the store at %s only through a local container, and that store can be reached from the definition of its record index without passing the positioning store at %s: a record receives what was evaluated for an earlier record", c.Pos(sk.st), c.Pos(p))
							break
						}
					}
				}
				if bad != "" {
					break
				}
			}
			if bad != "" {
				c.Bad(key, at, bad)
				continue
			}
			c.OkN(key, at, fmt.Sprintf("every path from the creation of the scope passes one of %d positioning store(s); %d store(s) of the result into a record set, each under the positioned index", len(ps), len(sinks)), len(ps)+len(sinks))
		}
	}
	c.negControls(start, "okSeqRowPerRecord", "okSeqRowKeysOnly", "okSeqRowCapturedScope", "okSeqRowHelperMovesFrame")
	if real < 3 {
		c.Unknown("anchor:sequential evaluations", "-", fmt.Sprintf("cannot-analyse: expected at least 3 direct Evaluate calls on a scope made by %s in lib/query, found %d", rowCtor, real))
	}
}
