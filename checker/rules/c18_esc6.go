package rules

import (
	"fmt"
	"strings"

	"golang.org/x/tools/go/ssa"

	"verif/checker/core"
)

// R-ESC-6 — a quoted literal is un-escaped exactly once between the source text
// and the token.
//
// Scanner.scanString copies the text between the quotes into s.literal; each of
// its callers (string literal, quoted identifier, back-quoted environment
// variable) turns that text into the token literal. The printers of these three
// token kinds escape the literal (R-ESC-2 / R-ESC-3), so the round trip holds
// only if the scanner applies the inverse exactly once on every branch. The rule
// counts, for every call of scanString, the un-escape applications on the value
// flow from the buffer to the literal: one if scanString itself (or a helper it
// reaches) translates escape letters while reading, plus one for every call of an
// un-escaper (option.UnescapeString / UnescapeIdentifier or any lib/option /
// lib/parser string function that holds or reaches an escape-letter → control
// character table) the buffer text passes through afterwards. The sum must be 1
// on every branch.

func init() {
	Register(&Rule{ID: "R-ESC-6", Props: []string{"C18"}, Floor: 3,
		Doc:      "for every call of (*Scanner).scanString in lib/parser, the text read into s.literal is un-escaped exactly once before it becomes the token literal: [1 if scanString or a function it reaches translates escape letters to control characters while reading] + [number of un-escaper calls — functions of lib/option / lib/parser that hold or reach an escape-letter → control-character dispatch, e.g. option.UnescapeString / UnescapeIdentifier — that the first s.literal.String() after the call passes through before its first other use] = 1; 0 (raw text becomes the literal) and 2 (double un-escape) are violations, so all callers agree",
		Controls: []string{"CtlScanDoubleUnescape"},
		Run:      ruleEsc6})
}

// fxTranslatesEscapes: fn contains a rune dispatch at least three arms of which
// turn an escape letter into a control character (written to a buffer or returned).
func fxTranslatesEscapes(c *Ctx, fn *ssa.Function) bool {
	if fn == nil || fn.Blocks == nil {
		return false
	}
	for _, d := range core.Dispatches(fn) {
		if !fxIsRune(d.Key.Type()) {
			continue
		}
		n := 0
		for _, a := range d.Arms {
			if a.Default {
				continue
			}
			letter := false
			for _, k := range a.Keys {
				if r, ok := core.ConstRune(k); ok && r >= 'a' && r <= 'z' {
					letter = true
				}
			}
			if !letter {
				continue
			}
			for _, in := range d.RegionInstrs(a) {
				switch x := in.(type) {
				case *ssa.Return:
					for _, rv := range x.Results {
						if r, ok := core.ConstRune(rv); ok && r < 0x20 && fxIsRune(rv.Type()) {
							n++
						}
					}
				case *ssa.Call:
					if strings.Contains(c.P.CalleeName(x), ").Write") && len(x.Common().Args) == 2 {
						if r, ok := core.ConstRune(x.Common().Args[1]); ok && r < 0x20 {
							n++
						}
					}
				}
			}
		}
		if n >= 3 {
			return true
		}
	}
	return false
}

// fxReachesTranslator: fn or a lib/option / lib/parser / control function it calls
// statically (depth levels) translates escapes.
func fxReachesTranslator(c *Ctx, fn *ssa.Function, depth int, seen map[*ssa.Function]bool) bool {
	if fn == nil || fn.Blocks == nil || seen[fn] {
		return false
	}
	seen[fn] = true
	if fxTranslatesEscapes(c, fn) {
		return true
	}
	if depth == 0 {
		return false
	}
	for _, ci := range core.Calls(fn) {
		f := core.StaticCallee(ci)
		if f != nil && c.P.InPkg(f, "lib/option", "lib/parser", core.ControlPkg) && fxReachesTranslator(c, f, depth-1, seen) {
			return true
		}
	}
	return false
}

func fxIsLiteralBufferString(c *Ctx, call *ssa.Call) bool {
	if c.P.CalleeName(call) != "(*bytes.Buffer).String" {
		return false
	}
	fa, ok := call.Common().Args[0].(*ssa.FieldAddr)
	return ok && core.FieldName(fa) == "literal"
}

func ruleEsc6(c *Ctx) {
	read := c.Fn("lib/parser.(*Scanner).scanString")
	if read != nil {
		fxCheckUnescapeOnce(c, read, c.P.FuncsIn(false, "lib/parser"))
	}
	// controls: a miniature scanner in the control package
	var cread *ssa.Function
	var cfns []*ssa.Function
	for _, fn := range fxCtlFuncs(c) {
		if fn.Name() == "ctlScanString" {
			cread = fn
		}
		if strings.HasPrefix(fn.Name(), "CtlScan") || strings.HasPrefix(fn.Name(), "okScan") {
			cfns = append(cfns, fn)
		}
	}
	if cread != nil {
		fxCheckUnescapeOnce(c, cread, cfns)
	}
}

func fxCheckUnescapeOnce(c *Ctx, read *ssa.Function, callers []*ssa.Function) {
	c.Touch(read)
	inScan := 0
	if fxReachesTranslator(c, read, 2, map[*ssa.Function]bool{}) {
		inScan = 1
	}
	isUnescaper := func(f *ssa.Function) bool {
		if f == nil || !c.P.InPkg(f, "lib/option", "lib/parser", core.ControlPkg) || !fxIsStringResult(f) {
			return false
		}
		return fxReachesTranslator(c, f, 2, map[*ssa.Function]bool{})
	}
	// a scan method rewrites the buffer: the text after it no longer belongs to this call
	rewrites := func(in ssa.Instruction) bool {
		call, ok := in.(*ssa.Call)
		if !ok {
			return false
		}
		f := core.StaticCallee(call)
		return f != nil && f.Signature.Recv() != nil && f != read && c.P.InPkg(f, "lib/parser", core.ControlPkg) && strings.HasPrefix(f.Name(), "scan")
	}
	total := 0
	for _, fn := range callers {
		n := 0
		for _, ci := range core.Calls(fn) {
			if core.StaticCallee(ci) != read {
				continue
			}
			n++
			total++
			c.Touch(fn)
			key := c.KeyAt(fn, fmt.Sprintf("literal of %s call #%d un-escaped exactly once", read.Name(), n))
			pos := c.Pos(ci.(ssa.Instruction))
			// the first reads of the buffer after the call
			var texts []*ssa.Call
			core.WalkFrom(ci.(ssa.Instruction), func(in ssa.Instruction) bool {
				if call, ok := in.(*ssa.Call); ok && fxIsLiteralBufferString(c, call) {
					texts = append(texts, call)
					return false
				}
				if cc, isCall := in.(ssa.CallInstruction); isCall && core.StaticCallee(cc) == read {
					return false
				}
				return !rewrites(in)
			})
			if len(texts) == 0 {
				c.Unknown(key, pos, "cannot-analyse: the text read by "+read.Name()+" is never taken out of the literal buffer after this call")
				continue
			}
			bad := ""
			for _, t := range texts {
				for _, cnt := range fxUnescapeChains(t, isUnescaper, 0) {
					sum := inScan + cnt
					if sum != 1 {
						how := fmt.Sprintf("%d time(s) while reading and %d time(s) afterwards", inScan, cnt)
						if sum == 0 {
							bad = "the raw text between the quotes becomes the token literal without being un-escaped (" + how + "): doubled quotes and backslash escapes stay in the value, the printer escapes them again"
						} else {
							bad = fmt.Sprintf("the text is un-escaped %d times (%s): a literal containing a backslash is changed by the second pass, so a printed query does not re-parse to the same literal", sum, how)
						}
					}
				}
			}
			if bad != "" {
				c.Bad(key, pos, bad)
			} else {
				c.Ok(key, pos, fmt.Sprintf("un-escape applications on the way to the literal: %d while reading, %d afterwards", inScan, 1-inScan))
			}
		}
	}
	if total == 0 {
		c.Unknown(c.KeyAt(read, "callers"), c.FnPos(read), "cannot-analyse: no caller of "+read.Name()+" found")
	}
}

// fxUnescapeChains follows a string value forward: every use as the argument of
// an un-escaper continues with that call's result (count + 1); any other use ends
// a chain. Returns the count of each chain.
func fxUnescapeChains(v ssa.Value, isUnescaper func(*ssa.Function) bool, depth int) []int {
	if depth > 4 || v.Referrers() == nil {
		return []int{0}
	}
	var out []int
	for _, r := range *v.Referrers() {
		if _, isDbg := r.(*ssa.DebugRef); isDbg {
			continue
		}
		if call, ok := r.(*ssa.Call); ok {
			if f := core.StaticCallee(call); f != nil && isUnescaper(f) && len(call.Common().Args) > 0 && call.Common().Args[0] == v {
				for _, n := range fxUnescapeChains(call, isUnescaper, depth+1) {
					out = append(out, n+1)
				}
				continue
			}
		}
		out = append(out, 0)
	}
	if len(out) == 0 {
		out = []int{0}
	}
	return out
}
