package rules

import (
	"fmt"
	"go/token"
	"go/types"
	"sort"
	"strings"

	"golang.org/x/tools/go/ssa"

	"verif/checker/core"
)

// Engine E5 — goroutine sharing (lockset-lite), DESIGN Appendix B.5.
//
// A *family* is a function of lib/query together with the concurrent regions it
// starts: operands of its `go` statements, and closures it passes to a
// "runner" (a function that hands its func parameter to a `go` operand which
// calls it: (*GoroutineTaskManager).Run, EvaluateSequentially). Every memory
// access of a region that goes through a shared root (captured variable,
// shared parameter, global) is reduced to an access path; two accesses
// conflict when they may run in different goroutines, name the same location,
// one is a write, they are not separated by the task index (partitioned) and
// hold no common mutex.

type parAccess struct {
	path   string // steps separated by '.', index steps "[#]" (task-partitioned: an injective image of the task index), "[~]" (a many-to-one image of it), "[*]", "{}" for map elements
	write  bool
	kind   string // "store", "append", "mapupdate", "delete", "copy", "load", "lookup"
	locks  []string
	in     ssa.Instruction
	fn     *ssa.Function
	region *parRegion
	single bool // executed only by the instance whose task index equals a constant
	depth  int  // 0 = region body (incl. its closures), >0 = inside a callee
}

type parRegion struct {
	fn     *ssa.Function
	multi  bool   // several instances run concurrently
	how    string // "go" or "callback of <runner>"
	spawn  ssa.Instruction
	parent *ssa.Function
	// naming of shared roots
	env  map[ssa.Value]string
	task map[ssa.Value]bool
	acc  []parAccess
}

type parFamily struct {
	parent  *ssa.Function
	regions []*parRegion
}

type parEngine struct {
	p        *core.Prog
	runners  map[*ssa.Function]int // runner function → index of its callback parameter
	families []*parFamily
}

var parCache = map[*core.Prog]*parEngine{}

func parAnalysis(p *core.Prog) *parEngine {
	if e, ok := parCache[p]; ok {
		return e
	}
	e := &parEngine{p: p, runners: map[*ssa.Function]int{}}
	e.findRunners()
	e.findFamilies()
	for _, f := range e.families {
		for _, r := range f.regions {
			e.collect(r, r.fn, r.env, r.task, nil, nil, 0, map[*ssa.Function]bool{})
		}
	}
	parCache[p] = e
	return e
}

func inQueryOrControl(p *core.Prog, fn *ssa.Function) bool {
	return p.InPkg(fn, "lib/query") || p.IsControl(fn)
}

// findRunners: F has a func-typed parameter p and a `go G(…p…)` where G calls
// the corresponding parameter.
func (e *parEngine) findRunners() {
	for _, fn := range e.p.SrcFuncs() {
		if !inQueryOrControl(e.p, fn) {
			continue
		}
		for _, b := range fn.Blocks {
			for _, in := range b.Instrs {
				g, ok := in.(*ssa.Go)
				if !ok {
					continue
				}
				callee := g.Common().StaticCallee()
				if callee == nil || callee.Blocks == nil {
					continue
				}
				// the function values the goroutine calls, traced back to the spawner: a
				// parameter of the spawner handed over as an argument, captured by the
				// started closure, or put into a field of a struct the goroutine is given
				// (as an argument, as the receiver of the started method, or captured)
				for _, call := range core.Calls(callee) {
					com := call.Common()
					if com.IsInvoke() || com.StaticCallee() != nil {
						continue
					}
					if _, isFunc := com.Value.Type().Underlying().(*types.Signature); !isFunc {
						continue
					}
					for _, sv := range parSpawnerValues(g, callee, com.Value, 0) {
						for _, o := range core.Origins(sv, false) {
							prm, ok := o.(*ssa.Parameter)
							if !ok || prm.Parent() != fn {
								continue
							}
							if _, isFunc := prm.Type().Underlying().(*types.Signature); !isFunc {
								continue
							}
							for pi, fp := range fn.Params {
								if fp == prm {
									e.runners[fn] = pi
								}
							}
						}
					}
				}
			}
		}
	}
	// transitive: F passes its func parameter to a runner
	for changed := true; changed; {
		changed = false
		for _, fn := range e.p.SrcFuncs() {
			if !inQueryOrControl(e.p, fn) {
				continue
			}
			if _, ok := e.runners[fn]; ok {
				continue
			}
			for _, call := range core.Calls(fn) {
				callee := call.Common().StaticCallee()
				ri, ok := e.runners[callee]
				if !ok || ri >= len(call.Common().Args) && !hasRecv(callee) {
					continue
				}
				arg := runnerArg(call, callee, ri)
				if prm, ok := arg.(*ssa.Parameter); ok {
					for pi, fp := range fn.Params {
						if fp == prm {
							e.runners[fn] = pi
							changed = true
						}
					}
				}
			}
		}
	}
}

func hasRecv(f *ssa.Function) bool { return f != nil && f.Signature.Recv() != nil }

// runnerArg returns the argument bound to parameter index pi of callee.
func runnerArg(call ssa.CallInstruction, callee *ssa.Function, pi int) ssa.Value {
	args := call.Common().Args
	if pi < len(args) {
		return args[pi]
	}
	return nil
}

func inLoop(in ssa.Instruction) bool {
	b := in.Block()
	seen := map[*ssa.BasicBlock]bool{}
	st := append([]*ssa.BasicBlock(nil), b.Succs...)
	for len(st) > 0 {
		x := st[len(st)-1]
		st = st[:len(st)-1]
		if x == b {
			return true
		}
		if seen[x] {
			continue
		}
		seen[x] = true
		st = append(st, x.Succs...)
	}
	return false
}

func isIntType(t types.Type) bool {
	b, ok := t.Underlying().(*types.Basic)
	return ok && b.Info()&types.IsInteger != 0
}

func isSharedKind(t types.Type) bool {
	switch t.Underlying().(type) {
	case *types.Pointer, *types.Slice, *types.Map:
		return true
	}
	return false
}

func (e *parEngine) findFamilies() {
	for _, fn := range e.p.SrcFuncs() {
		if !inQueryOrControl(e.p, fn) {
			continue
		}
		fam := &parFamily{parent: fn}
		for _, b := range fn.Blocks {
			for _, in := range b.Instrs {
				switch x := in.(type) {
				case *ssa.Go:
					callee := x.Common().StaticCallee()
					if callee == nil || callee.Blocks == nil {
						continue
					}
					r := &parRegion{fn: callee, multi: inLoop(x), how: "go", spawn: x, parent: fn, env: map[ssa.Value]string{}, task: map[ssa.Value]bool{}}
					e.nameRegion(r, x.Common())
					fam.regions = append(fam.regions, r)
				case *ssa.Call:
					callee := x.Common().StaticCallee()
					ri, ok := e.runners[callee]
					if !ok {
						continue
					}
					arg := runnerArg(x, callee, ri)
					if arg == nil {
						continue
					}
					for _, o := range core.Origins(arg, false) {
						mc, ok := o.(*ssa.MakeClosure)
						if !ok {
							continue
						}
						cf := mc.Fn.(*ssa.Function)
						r := &parRegion{fn: cf, multi: true, how: "callback of " + e.p.FnRef(callee), spawn: x, parent: fn, env: map[ssa.Value]string{}, task: map[ssa.Value]bool{}}
						for _, fv := range cf.FreeVars {
							r.env[fv] = fv.Name()
						}
						for _, prm := range cf.Params {
							if isIntType(prm.Type()) {
								r.task[prm] = true
							}
							// other parameters are per-goroutine objects handed in by the runner
						}
						fam.regions = append(fam.regions, r)
					}
				}
			}
		}
		if len(fam.regions) > 0 {
			e.families = append(e.families, fam)
		}
	}
	sort.Slice(e.families, func(i, j int) bool { return e.p.Name(e.families[i].parent) < e.p.Name(e.families[j].parent) })
}

// nameRegion names the shared roots of a `go` operand: free variables by
// their variable name; parameters by their own name unless the argument
// varies per spawn (integer → task index).
func (e *parEngine) nameRegion(r *parRegion, com *ssa.CallCommon) {
	for _, fv := range r.fn.FreeVars {
		r.env[fv] = fv.Name()
	}
	for i, prm := range r.fn.Params {
		if i >= len(com.Args) {
			break
		}
		if isIntType(prm.Type()) {
			if _, isConst := com.Args[i].(*ssa.Const); !isConst {
				r.task[prm] = true
				continue
			}
		}
		if isSharedKind(prm.Type()) {
			r.env[prm] = prm.Name()
		}
	}
}

// ---------------------------------------------------------------------------
// access collection

type parScope struct {
	e       *parEngine
	fn      *ssa.Function
	env     map[ssa.Value]string
	task    map[ssa.Value]bool
	dep     map[ssa.Value]int // memo for task dependence: 1 yes, 2 no, 3 in progress
	inj     map[ssa.Value]injForm
	many    map[ssa.Value]bool // integer parameters / captured variables that received a many-to-one image of the task index
	injBusy map[ssa.Value]bool
}

func (s *parScope) depends(v ssa.Value) bool {
	if s.task[v] {
		return true
	}
	switch s.dep[v] {
	case 1:
		return true
	case 2, 3:
		return false
	}
	s.dep[v] = 3
	r := false
	switch x := v.(type) {
	case *ssa.Phi:
		for _, ed := range x.Edges {
			if s.depends(ed) {
				r = true
			}
		}
	case *ssa.BinOp:
		r = s.depends(x.X) || s.depends(x.Y)
	case *ssa.UnOp:
		r = s.depends(x.X)
	case *ssa.Convert:
		r = s.depends(x.X)
	case *ssa.ChangeType:
		r = s.depends(x.X)
	case *ssa.Extract:
		r = s.depends(x.Tuple)
	case *ssa.Call:
		for _, a := range x.Common().Args {
			if s.depends(a) {
				r = true
			}
		}
	case *ssa.Index:
		r = s.depends(x.Index) || s.depends(x.X)
	case *ssa.IndexAddr:
		r = s.depends(x.Index) || s.depends(x.X)
	case *ssa.Field:
		r = s.depends(x.X)
	case *ssa.FieldAddr:
		r = s.depends(x.X)
	case *ssa.Slice:
		r = s.depends(x.X) || (x.Low != nil && s.depends(x.Low))
	case *ssa.Next:
		r = s.depends(x.Iter)
	case *ssa.Range:
		r = s.depends(x.X)
	case *ssa.Lookup:
		r = s.depends(x.X) || s.depends(x.Index)
	case *ssa.Alloc:
		// a local cell: dependent if any value stored into it is
		if vals, _ := core.StoresTo(x); len(vals) > 0 {
			for _, sv := range vals {
				if s.depends(sv) {
					r = true
				}
			}
		}
	}
	if r {
		s.dep[v] = 1
	} else {
		s.dep[v] = 2
	}
	return r
}

func (s *parScope) idxStep(i ssa.Value) string {
	if s.depends(i) {
		// dependence on the task index separates two tasks only if the index
		// expression cannot map two task indices to one slot (par_inj.go)
		if s.injective(i) {
			return "[#]"
		}
		return "[~]"
	}
	if k, ok := core.ConstInt(i); ok {
		return fmt.Sprintf("[%d]", k)
	}
	return "[*]"
}

// valName names a value that refers to shared memory ("" = own / unknown).
func (s *parScope) valName(v ssa.Value) string {
	return s.valNameD(v, 0)
}

func (s *parScope) valNameD(v ssa.Value, d int) string {
	if d > 12 {
		return ""
	}
	if n, ok := s.env[v]; ok {
		if _, isFV := v.(*ssa.FreeVar); !isFV {
			return n
		}
	}
	switch x := v.(type) {
	case *ssa.UnOp:
		if x.Op == token.MUL {
			if n, ok := s.env[x.X]; ok && strings.HasPrefix(n, "=") {
				return n[1:]
			}
			if al, ok := x.X.(*ssa.Alloc); ok {
				if _, named := s.env[al]; !named {
					return s.cellHolds(al, d+1)
				}
			}
			return s.locNameD(x.X, d+1)
		}
	case *ssa.Field:
		if b := s.valNameD(x.X, d+1); b != "" {
			return b + "." + core.FieldName(x)
		}
	case *ssa.Phi:
		for _, ed := range x.Edges {
			if n := s.valNameD(ed, d+1); n != "" {
				return n
			}
		}
	case *ssa.Slice:
		if n := s.valNameD(x.X, d+1); n != "" {
			return n
		}
		return s.locNameD(x.X, d+1)
	case *ssa.ChangeType:
		return s.valNameD(x.X, d+1)
	case *ssa.Convert:
		return s.valNameD(x.X, d+1)
	case *ssa.MakeInterface:
		return s.valNameD(x.X, d+1)
	case *ssa.ChangeInterface:
		return s.valNameD(x.X, d+1)
	case *ssa.TypeAssert:
		return s.valNameD(x.X, d+1)
	case *ssa.Lookup:
		if b := s.valNameD(x.X, d+1); b != "" {
			return b + "{}"
		}
	case *ssa.Extract:
		if lk, ok := x.Tuple.(*ssa.Lookup); ok && x.Index == 0 {
			return s.valNameD(lk, d+1)
		}
	case *ssa.Index:
		if b := s.valNameD(x.X, d+1); b != "" {
			return b + s.idxStep(x.Index)
		}
	}
	return ""
}

// cellHolds: a private local cell whose every stored value is the same shared
// value (a parameter spilled because a closure captures it).
func (s *parScope) cellHolds(al *ssa.Alloc, d int) string {
	vals, complete := core.StoresTo(al)
	if !complete || len(vals) == 0 {
		return ""
	}
	name := ""
	for _, v := range vals {
		n := s.valNameD(v, d+1)
		if n == "" || (name != "" && n != name) {
			return ""
		}
		name = n
	}
	return name
}

// locName names a shared memory location given its address.
func (s *parScope) locName(a ssa.Value) string { return s.locNameD(a, 0) }

func (s *parScope) locNameD(a ssa.Value, d int) string {
	if d > 12 {
		return ""
	}
	switch x := a.(type) {
	case *ssa.FreeVar:
		if n := s.env[x]; !strings.HasPrefix(n, "=") {
			return n
		}
		return ""
	case *ssa.Global:
		if x.Pkg != nil && strings.HasPrefix(x.Pkg.Pkg.Path(), core.ModPath) {
			return "global:" + x.Name()
		}
		return ""
	case *ssa.Alloc:
		if n, ok := s.env[x]; ok && !strings.HasPrefix(n, "=") {
			return n
		}
		return ""
	case *ssa.FieldAddr:
		b := s.valNameD(x.X, d+1)
		if b == "" {
			b = s.locNameD(x.X, d+1)
		}
		if b != "" {
			return b + "." + core.FieldName(x)
		}
	case *ssa.IndexAddr:
		b := s.valNameD(x.X, d+1)
		if b == "" {
			b = s.locNameD(x.X, d+1)
		}
		if b != "" {
			return b + s.idxStep(x.Index)
		}
	case *ssa.Phi:
		for _, ed := range x.Edges {
			if n := s.locNameD(ed, d+1); n != "" {
				return n
			}
		}
	}
	return ""
}

// singleInstance: the instruction is dominated by `task == const`.
func (s *parScope) singleInstance(in ssa.Instruction) bool {
	for _, f := range core.FactsAt(in.Block()) {
		b, ok := f.Cond.(*ssa.BinOp)
		if !ok {
			continue
		}
		if (b.Op == token.EQL && !f.Neg) || (b.Op == token.NEQ && f.Neg) {
			_, cx := b.X.(*ssa.Const)
			_, cy := b.Y.(*ssa.Const)
			if (cy && s.task[b.X]) || (cx && s.task[b.Y]) {
				return true
			}
		}
	}
	return false
}

type lockEvent struct {
	in     ssa.Instruction
	name   string
	unlock bool
}

func (s *parScope) lockEvents() []lockEvent {
	var out []lockEvent
	for _, b := range s.fn.Blocks {
		for _, in := range b.Instrs {
			call, ok := in.(*ssa.Call)
			if !ok {
				continue
			}
			n := s.e.p.CalleeName(call)
			var unlock bool
			switch n {
			case "(*sync.Mutex).Lock", "(*sync.RWMutex).Lock", "(*sync.RWMutex).RLock":
			case "(*sync.Mutex).Unlock", "(*sync.RWMutex).Unlock", "(*sync.RWMutex).RUnlock":
				unlock = true
			default:
				continue
			}
			recv := call.Common().Args[0]
			name := s.valName(recv)
			if name == "" {
				name = s.locName(recv)
			}
			if name == "" {
				continue
			}
			out = append(out, lockEvent{in, name, unlock})
		}
	}
	return out
}

func heldAt(events []lockEvent, at ssa.Instruction) []string {
	var out []string
	for _, l := range events {
		if l.unlock || !core.Dominates(l.in, at) {
			continue
		}
		released := false
		for _, u := range events {
			if !u.unlock || u.name != l.name {
				continue
			}
			again := func(in ssa.Instruction) bool { return in == l.in }
			if core.Reachable(l.in, u.in, again) && (u.in == at || core.Reachable(u.in, at, again)) {
				released = true
			}
		}
		if !released {
			out = append(out, l.name)
		}
	}
	return out
}

func isSyncSafe(name string) bool {
	return strings.HasPrefix(name, "(*sync.") || strings.HasPrefix(name, "sync.") || strings.HasPrefix(name, "sync/atomic.") ||
		strings.HasPrefix(name, "(*sync/atomic.") || strings.HasPrefix(name, "(sync.")
}

// collect gathers the shared accesses of fn (a region body or a callee that
// received shared values) into r.acc.
func (e *parEngine) collect(r *parRegion, fn *ssa.Function, env map[ssa.Value]string, task map[ssa.Value]bool, many map[ssa.Value]bool, held []string, depth int, stack map[*ssa.Function]bool) {
	if fn == nil || fn.Blocks == nil || stack[fn] || depth > 3 {
		return
	}
	stack[fn] = true
	defer delete(stack, fn)
	s := &parScope{e: e, fn: fn, env: env, task: task, many: many, dep: map[ssa.Value]int{}}
	events := s.lockEvents()
	locksAt := func(in ssa.Instruction) []string {
		l := append([]string(nil), held...)
		l = append(l, heldAt(events, in)...)
		return l
	}
	add := func(path string, write bool, kind string, in ssa.Instruction) {
		if path == "" {
			return
		}
		r.acc = append(r.acc, parAccess{path: path, write: write, kind: kind, locks: locksAt(in), in: in, fn: fn, region: r, single: s.singleInstance(in), depth: depth})
	}
	for _, b := range fn.Blocks {
		for _, in := range b.Instrs {
			switch x := in.(type) {
			case *ssa.Store:
				kind := "store"
				if c, ok := x.Val.(*ssa.Call); ok {
					if bi, ok := c.Common().Value.(*ssa.Builtin); ok && bi.Name() == "append" {
						// append to the very slice being overwritten
						if s.valName(c.Common().Args[0]) == s.locName(x.Addr) && s.locName(x.Addr) != "" {
							kind = "append"
						}
					}
				}
				add(s.locName(x.Addr), true, kind, in)
			case *ssa.UnOp:
				if x.Op == token.MUL {
					add(s.locName(x.X), false, "load", in)
				}
			case *ssa.MapUpdate:
				if n := s.valName(x.Map); n != "" {
					add(n+"{}", true, "mapupdate", in)
				}
			case *ssa.Lookup:
				if _, isMap := x.X.Type().Underlying().(*types.Map); isMap {
					if n := s.valName(x.X); n != "" {
						add(n+"{}", false, "lookup", in)
					}
				}
			case *ssa.Range:
				if _, isMap := x.X.Type().Underlying().(*types.Map); isMap {
					if n := s.valName(x.X); n != "" {
						add(n+"{}", false, "range", in)
					}
				}
			case ssa.CallInstruction:
				if _, isGo := in.(*ssa.Go); isGo {
					continue
				}
				com := x.Common()
				if bi, ok := com.Value.(*ssa.Builtin); ok {
					switch bi.Name() {
					case "delete":
						if n := s.valName(com.Args[0]); n != "" {
							add(n+"{}", true, "delete", in)
						}
					case "copy":
						if n := s.valName(com.Args[0]); n != "" {
							add(n+"[*]", true, "copy", in)
						}
					}
					continue
				}
				name := e.p.CalleeName(x)
				if isSyncSafe(name) {
					continue
				}
				// resolve the callee: static, or a local closure
				var callee *ssa.Function
				var bindings []ssa.Value
				if f := com.StaticCallee(); f != nil {
					callee = f
					if mc, ok := com.Value.(*ssa.MakeClosure); ok {
						bindings = mc.Bindings
					}
				} else if !com.IsInvoke() {
					for _, o := range core.Origins(com.Value, false) {
						if mc, ok := o.(*ssa.MakeClosure); ok {
							callee = mc.Fn.(*ssa.Function)
							bindings = mc.Bindings
						}
					}
				}
				if callee == nil || callee.Blocks == nil {
					continue
				}
				if !strings.HasPrefix(e.p.FnRef(callee), "lib/") {
					continue
				}
				// map shared arguments
				cenv := map[ssa.Value]string{}
				ctask := map[ssa.Value]bool{}
				cmany := map[ssa.Value]bool{}
				sharedArg := false
				for i, a := range com.Args {
					if i >= len(callee.Params) {
						break
					}
					if s.depends(a) {
						// values derived from the task index (its record range, its
						// partition, a frame of it …) stay task-dependent in the callee
						ctask[callee.Params[i]] = true
						if isIntType(a.Type()) {
							if !s.injective(a) {
								cmany[callee.Params[i]] = true
							}
							continue
						}
					}
					n := s.valName(a)
					if n == "" {
						n = s.locName(a)
					}
					if n != "" && isSharedKind(a.Type()) {
						cenv[callee.Params[i]] = n
						sharedArg = true
					}
				}
				for i, bv := range bindings {
					if i >= len(callee.FreeVars) {
						break
					}
					// a binding is the address of a variable of fn
					n := s.locName(bv)
					if n == "" {
						if al, ok := bv.(*ssa.Alloc); ok {
							if h := s.cellHolds(al, 0); h != "" {
								n = "=" + h
							}
						} else if h, ok := s.env[bv]; ok && strings.HasPrefix(h, "=") {
							n = h
						}
					}
					if n != "" {
						cenv[callee.FreeVars[i]] = n
						sharedArg = true
					} else if s.depends(bv) {
						ctask[callee.FreeVars[i]] = true
						if al, ok := bv.(*ssa.Alloc); ok && al.Parent() == fn {
							// the captured per-task cell holds a many-to-one image of the task index
							if vals, _ := core.StoresTo(al); len(vals) > 0 && isIntType(vals[0].Type()) && s.mergeForms(vals, 0).kind == injMany {
								cmany[callee.FreeVars[i]] = true
							}
						} else if s.many[bv] {
							cmany[callee.FreeVars[i]] = true
						}
					}
				}
				if !sharedArg {
					continue
				}
				h := locksAt(in)
				if _, isDefer := in.(*ssa.Defer); isDefer {
					h = held
				}
				e.collect(r, callee, cenv, ctask, cmany, h, depth+1, stack)
			}
		}
	}
}

// ---------------------------------------------------------------------------
// conflicts

func pathSteps(p string) []string {
	var out []string
	cur := ""
	flush := func() {
		if cur != "" {
			out = append(out, cur)
			cur = ""
		}
	}
	for i := 0; i < len(p); i++ {
		switch p[i] {
		case '.':
			flush()
		case '[', '{':
			flush()
			j := i
			for j < len(p) && p[j] != ']' && p[j] != '}' {
				j++
			}
			out = append(out, p[i:j+1])
			i = j
		default:
			cur += string(p[i])
		}
	}
	flush()
	return out
}

// overlap: may the two paths denote the same memory in two different
// goroutines? sameTaskSpace: both accesses belong to instances of the same
// multi-instance region (task-indexed steps separate them).
func overlap(a, b string, sameTaskSpace bool) bool {
	sa, sb := pathSteps(a), pathSteps(b)
	if len(sa) != len(sb) {
		return false
	}
	for i := range sa {
		x, y := sa[i], sb[i]
		if x == y {
			if x == "[#]" && sameTaskSpace {
				return false
			}
			continue
		}
		xi, yi := strings.HasPrefix(x, "["), strings.HasPrefix(y, "[")
		if xi && yi {
			// [#] vs [*], [*] vs [3] may coincide; two different constants cannot.
			// [~] (derived from the task index by a many-to-one operation) may coincide with anything.
			if x != "[#]" && x != "[*]" && x != "[~]" && y != "[#]" && y != "[*]" && y != "[~]" {
				return false
			}
			continue
		}
		return false
	}
	return true
}

func commonLock(a, b []string) bool {
	for _, x := range a {
		for _, y := range b {
			if x == y {
				return true
			}
		}
	}
	return false
}

func partitioned(path string) bool { return strings.Contains(path, "[#]") }

type parConflict struct {
	w, a parAccess
}

// conflicts of one family.
func (f *parFamily) conflicts() []parConflict {
	var out []parConflict
	for _, r1 := range f.regions {
		for _, w := range r1.acc {
			if !w.write {
				continue
			}
			for _, r2 := range f.regions {
				same := r1 == r2
				if same && !r1.multi {
					continue
				}
				if !same && !f.concurrent(r1, r2) {
					continue
				}
				for _, a := range r2.acc {
					if !overlap(w.path, a.path, same) {
						continue
					}
					if commonLock(w.locks, a.locks) {
						continue
					}
					if same && w.single && a.single {
						continue // both run only in the one instance selected by `task == const`
					}
					out = append(out, parConflict{w, a})
					break
				}
			}
		}
	}
	return out
}

// concurrent: two different regions of one parent run at the same time only if
// both are `go` operands and one spawn can be reached from the other without
// crossing a join (a call of a Wait method). Runner callbacks are joined by the
// runner before it returns.
func (f *parFamily) concurrent(r1, r2 *parRegion) bool {
	if r1.how != "go" || r2.how != "go" {
		return false
	}
	isWait := func(in ssa.Instruction) bool {
		c, ok := in.(*ssa.Call)
		if !ok {
			return false
		}
		if c.Common().IsInvoke() {
			return c.Common().Method.Name() == "Wait"
		}
		if sc := c.Common().StaticCallee(); sc != nil {
			return sc.Name() == "Wait"
		}
		return false
	}
	return core.Reachable(r1.spawn, r2.spawn, isWait) || core.Reachable(r2.spawn, r1.spawn, isWait)
}

// ---------------------------------------------------------------------------
// values of a started function seen from its spawner

// parSpawnerValues maps a value v of the function started by g (callee: the
// static operand of the go statement, a function, a method or a closure) to
// the values of the spawner it stands for: an argument for a parameter (the
// receiver is argument 0), the captured cell's contents for a free variable,
// and, for the load of a field of a struct that is itself such a value, what
// the spawner stored into that field of the struct it built.
func parSpawnerValues(g *ssa.Go, callee *ssa.Function, v ssa.Value, depth int) []ssa.Value {
	if depth > 4 {
		return nil
	}
	com := g.Common()
	switch x := v.(type) {
	case *ssa.Parameter:
		for i, p := range callee.Params {
			if p == x && i < len(com.Args) {
				return []ssa.Value{com.Args[i]}
			}
		}
	case *ssa.FreeVar:
		// the address of the captured variable
		if mc, ok := com.Value.(*ssa.MakeClosure); ok {
			for i, fv := range callee.FreeVars {
				if fv == x && i < len(mc.Bindings) {
					return []ssa.Value{mc.Bindings[i]}
				}
			}
		}
	case *ssa.ChangeType:
		return parSpawnerValues(g, callee, x.X, depth+1)
	case *ssa.Field:
		var out []ssa.Value
		for _, al := range parSpawnerStructs(g, callee, x.X, depth+1) {
			out = append(out, parFieldStores(al, x.Field)...)
		}
		return out
	case *ssa.UnOp:
		if x.Op != token.MUL {
			return nil
		}
		switch a := x.X.(type) {
		case *ssa.FreeVar:
			var out []ssa.Value
			for _, cell := range parSpawnerValues(g, callee, a, depth+1) {
				if vals, complete := core.StoresTo(cell); complete {
					out = append(out, vals...)
				} else {
					out = append(out, parWholeLoad(cell)...)
				}
			}
			return out
		case *ssa.FieldAddr:
			var out []ssa.Value
			for _, al := range parSpawnerStructs(g, callee, a.X, depth+1) {
				out = append(out, parFieldStores(al, a.Field)...)
			}
			return out
		}
	}
	return nil
}

// parWholeLoad: a load of the whole cell in the cell's own function (stands for "the struct in this cell").
func parWholeLoad(cell ssa.Value) []ssa.Value {
	al, ok := cell.(*ssa.Alloc)
	if !ok || al.Referrers() == nil {
		return nil
	}
	for _, r := range *al.Referrers() {
		if u, ok := r.(*ssa.UnOp); ok && u.Op == token.MUL {
			return []ssa.Value{u}
		}
	}
	return nil
}

// parSpawnerStructs: the struct cells of the spawner that v — a struct, or a
// pointer to one, in the started function — stands for.
func parSpawnerStructs(g *ssa.Go, callee *ssa.Function, v ssa.Value, depth int) []*ssa.Alloc {
	if depth > 4 {
		return nil
	}
	var out []*ssa.Alloc
	add := func(sv ssa.Value) {
		for _, o := range core.Origins(sv, false) {
			switch y := o.(type) {
			case *ssa.Alloc:
				out = append(out, y)
			case *ssa.UnOp:
				if al, ok := y.X.(*ssa.Alloc); ok && y.Op == token.MUL {
					out = append(out, al)
				}
			}
		}
	}
	if al, ok := v.(*ssa.Alloc); ok && al.Parent() == callee {
		// a local copy (a by-value receiver or parameter whose address is taken): what was stored into it whole
		if al.Referrers() != nil {
			for _, r := range *al.Referrers() {
				if st, ok := r.(*ssa.Store); ok && st.Addr == al {
					out = append(out, parSpawnerStructs(g, callee, st.Val, depth+1)...)
				}
			}
		}
		return out
	}
	if fv, ok := v.(*ssa.FreeVar); ok {
		// the captured variable is the struct itself
		for _, cell := range parSpawnerValues(g, callee, fv, depth+1) {
			add(cell)
		}
		return out
	}
	for _, sv := range parSpawnerValues(g, callee, v, depth+1) {
		add(sv)
	}
	return out
}

// parFieldStores: the values the owner of the struct cell al stores into its field #field.
func parFieldStores(al *ssa.Alloc, field int) []ssa.Value {
	var out []ssa.Value
	if al.Referrers() == nil {
		return nil
	}
	for _, r := range *al.Referrers() {
		fa, ok := r.(*ssa.FieldAddr)
		if !ok || fa.Field != field || fa.Referrers() == nil {
			continue
		}
		for _, rr := range *fa.Referrers() {
			if st, ok := rr.(*ssa.Store); ok && st.Addr == fa {
				out = append(out, st.Val)
			}
		}
	}
	return out
}
