package rules

import (
	"fmt"
	"go/types"

	"golang.org/x/tools/go/ssa"

	"verif/checker/core"
)

// R-LOCK-7 — a data-changing statement opens (locks) its target before it reads
// any table on behalf of the statement (C09: no lost update; C05: the statement
// changes exactly what it says, computed from the state it locked).
//
// Neither site is wrong alone; only their order is: a source query, WITH query
// or sub-query that is evaluated before the update-load reads the target through
// the unlocked shared path; the later update-load re-reads the file, and rows
// computed from the stale read overwrite what another process committed in
// between.

const lock7Prim = "lib/query.loadView"

func init() {
	Register(&Rule{ID: "R-LOCK-7", Props: []string{"C09", "C05"}, Floor: 20,
		Doc:      "lock before read in data-changing statements: in every lib/query function that calls a table-loading function (one that reaches lib/query.loadView and has a bool parameter forUpdate) with the constant true for forUpdate — Insert, Update, Replace, Delete, AddColumns, DropColumns, RenameColumn, SetTableAttribute today — every other call that can load a table (reaches lib/query.loadView without going through the statement interpreter: Select, LoadInlineTable, InsertFromQuery, Where, Evaluate of sub-queries …) is preceded by such an update-load on every path from the function entry (must-precede); a call that only locks — its callee reaches lib/file.(*Container).CreateHandlerForUpdate with forUpdate = true and cannot reach loadView — is an update-load too. WITH clauses are not exempt: LoadInlineTable evaluates the inline queries eagerly (InlineTableMap.Set calls Select)",
		Controls: []string{"CtlLock7SelectBeforeUpdateLoad"},
		Run:      ruleLock7})
}

// lock7ForUpdateParam returns the index of a bool parameter named forUpdate, or -1.
func lock7ForUpdateParam(k *ssa.Function) int {
	for i, pa := range k.Params {
		if pa.Name() != "forUpdate" {
			continue
		}
		if b, ok := pa.Type().Underlying().(*types.Basic); ok && b.Kind() == types.Bool {
			return i
		}
	}
	return -1
}

// lock7LockPrim is the lock primitive of an update-load: the handler that holds
// the .lock file of a table until the transaction ends.
const lock7LockPrim = "lib/file.(*Container).CreateHandlerForUpdate"

// lock7Entry is a data-changing entry function: a function without a forUpdate
// parameter of its own that calls a table loader with forUpdate = true.
type lock7Entry struct {
	fn *ssa.Function
	// mixed: update-loads through a loader that reaches loadView, i.e. that can
	// also evaluate queries (sub-queries of the FROM clause, table function arguments)
	mixed []*ssa.Call
	// pure: update-loads that only lock and read the named files: the callee reaches
	// the lock primitive with forUpdate = true and cannot reach loadView
	pure []*ssa.Call
}

func (e *lock7Entry) isUp(in ssa.Instruction) bool {
	for _, u := range e.mixed {
		if u == in {
			return true
		}
	}
	return e.isPure(in)
}

func (e *lock7Entry) isPure(in ssa.Instruction) bool {
	for _, u := range e.pure {
		if u == in {
			return true
		}
	}
	return false
}

// lock7LocksForUpdate: k (which has no forUpdate parameter and cannot reach
// loadView) opens files for update — it is the lock primitive, or one of the
// calls of k or of its closures is a pure update-load.
func lock7LocksForUpdate(p *core.Prog, k *ssa.Function, readers, lockers map[*ssa.Function]bool, seen map[*ssa.Function]bool) bool {
	if p.Name(k) == lock7LockPrim {
		return true
	}
	if seen[k] {
		return false
	}
	seen[k] = true
	fns := []*ssa.Function{k}
	for i := 0; i < len(fns); i++ {
		fns = append(fns, fns[i].AnonFuncs...)
	}
	for _, f := range fns {
		for _, call := range core.Calls(f) {
			if cc, ok := call.(*ssa.Call); ok && lock7PureUpdateLoad(p, cc, readers, lockers, seen) {
				return true
			}
		}
	}
	return false
}

// lock7PureUpdateLoad: cc opens files for update and evaluates nothing.
func lock7PureUpdateLoad(p *core.Prog, cc *ssa.Call, readers, lockers map[*ssa.Function]bool, seen map[*ssa.Function]bool) bool {
	k := core.StaticCallee(cc)
	if k == nil || readers[k] || !lockers[k] {
		return false
	}
	if j := lock7ForUpdateParam(k); j >= 0 {
		if j >= len(cc.Call.Args) {
			return false
		}
		b, isConst := core.ConstBool(cc.Call.Args[j])
		return isConst && b
	}
	return lock7LocksForUpdate(p, k, readers, lockers, seen)
}

// lock7Entries finds the data-changing entry functions of lib/query (and the
// controls whose name contains tag).
func lock7Entries(c *Ctx, tag string) (entries []*lock7Entry, readers map[*ssa.Function]bool) {
	p := c.P
	readers = p.CanReach([]string{lock7Prim}, txnBarrier)
	lockers := p.CanReach([]string{lock7LockPrim}, txnBarrier)
	fns := p.FuncsIn(false, "lib/query")
	fns = append(fns, txnCtl(c, tag)...)
	for _, fn := range fns {
		if fn.Parent() != nil || lock7ForUpdateParam(fn) >= 0 {
			continue // closures are seen through their parent; loaders that pass forUpdate on are not entry functions
		}
		e := &lock7Entry{fn: fn}
		// update-loads: loader(…, forUpdate = true, …)
		for _, call := range core.Calls(fn) {
			cc, ok := call.(*ssa.Call)
			if !ok {
				continue
			}
			k := core.StaticCallee(cc)
			if k == nil {
				continue
			}
			if !readers[k] {
				if lock7PureUpdateLoad(p, cc, readers, lockers, map[*ssa.Function]bool{}) {
					e.pure = append(e.pure, cc)
				}
				continue
			}
			j := lock7ForUpdateParam(k)
			if j < 0 || j >= len(cc.Call.Args) {
				continue
			}
			if b, isConst := core.ConstBool(cc.Call.Args[j]); isConst && b {
				e.mixed = append(e.mixed, cc)
			}
		}
		if len(e.mixed) == 0 {
			continue
		}
		entries = append(entries, e)
	}
	return entries, readers
}

func ruleLock7(c *Ctx) {
	p := c.P
	if c.Fn(lock7Prim) == nil {
		return
	}
	all, readers := lock7Entries(c, "Lock7")
	entries := 0
	for _, e := range all {
		fn := e.fn
		if !p.IsControl(fn) {
			entries++
		}
		c.Touch(fn)
		first := ssa.Instruction(e.mixed[0])
		note := ""
		if len(e.pure) > 0 {
			note = fmt.Sprintf(" and %d call(s) that only lock (reach %s with forUpdate = true, evaluate nothing)", len(e.pure), lock7LockPrim)
		}
		c.Ok(c.KeyAt(fn, "update-load of the target"), c.Pos(first), fmt.Sprintf("data-changing entry function: %d call(s) load tables with forUpdate = true%s", len(e.mixed), note))
		ord := map[string]int{}
		for _, call := range core.Calls(fn) {
			cc, ok := call.(*ssa.Call)
			if !ok || e.isUp(cc) || !txnCallIn(p, cc, readers) {
				continue
			}
			c.Sites++
			key := txnOrd(ord, c.KeyAt(fn, txnCallLabel(p, cc)+" after the update-load of the target"))
			if core.ReachesFromEntry(fn, cc, e.isUp, nil) {
				c.Bad(key, c.Pos(cc), fmt.Sprintf("this call can load and read tables for the statement, and a path reaches it before the target has been opened for update (update-load at %s): it reads the target through the unlocked shared path; the update-load then re-reads the file and the statement writes rows computed from the stale read over whatever another process committed in between (lost update)", c.Pos(first)))
			} else {
				c.Ok(key, c.Pos(cc), "every path to it has passed the update-load of the target")
			}
		}
	}
	if entries == 0 {
		c.Unknown("data-changing entry functions", "-", "cannot-analyse: no lib/query function calls a table loader with forUpdate = true any more")
	}
}
