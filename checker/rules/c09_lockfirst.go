package rules

import (
	"fmt"
	"go/types"

	"golang.org/x/tools/go/ssa"

	"verif/checker/core"
)

// R-LOCK-7 — a data-changing statement opens (locks) its target before it reads
// any table on behalf of the statement (C09: no lost update; C05: the statement
// changes exactly what it says, computed from the state it locked).
//
// Neither site is wrong alone; only their order is: a source query, WITH query
// or sub-query that is evaluated before the update-load reads the target through
// the unlocked shared path; the later update-load re-reads the file, and rows
// computed from the stale read overwrite what another process committed in
// between.

const lock7Prim = "lib/query.loadView"

func init() {
	Register(&Rule{ID: "R-LOCK-7", Props: []string{"C09", "C05"}, Floor: 20,
		Doc:      "lock before read in data-changing statements: in every lib/query function that calls a table-loading function (one that reaches lib/query.loadView and has a bool parameter forUpdate) with the constant true for forUpdate — Insert, Update, Replace, Delete, AddColumns, DropColumns, RenameColumn, SetTableAttribute today — every other call that can load a table (reaches lib/query.loadView without going through the statement interpreter: Select, LoadInlineTable, InsertFromQuery, Where, Evaluate of sub-queries …) is preceded by such an update-load on every path from the function entry (must-precede). WITH clauses are not exempt: LoadInlineTable evaluates the inline queries eagerly (InlineTableMap.Set calls Select)",
		Controls: []string{"CtlLock7SelectBeforeUpdateLoad"},
		Run:      ruleLock7})
}

// lock7ForUpdateParam returns the index of a bool parameter named forUpdate, or -1.
func lock7ForUpdateParam(k *ssa.Function) int {
	for i, pa := range k.Params {
		if pa.Name() != "forUpdate" {
			continue
		}
		if b, ok := pa.Type().Underlying().(*types.Basic); ok && b.Kind() == types.Bool {
			return i
		}
	}
	return -1
}

func ruleLock7(c *Ctx) {
	p := c.P
	if c.Fn(lock7Prim) == nil {
		return
	}
	readers := p.CanReach([]string{lock7Prim}, txnBarrier)
	fns := p.FuncsIn(false, "lib/query")
	fns = append(fns, txnCtl(c, "Lock7")...)
	entries := 0
	for _, fn := range fns {
		if fn.Parent() != nil || lock7ForUpdateParam(fn) >= 0 {
			continue // closures are seen through their parent; loaders that pass forUpdate on are not entry functions
		}
		// update-loads: loader(…, forUpdate = true, …)
		var ups []ssa.Instruction
		for _, call := range core.Calls(fn) {
			cc, ok := call.(*ssa.Call)
			if !ok {
				continue
			}
			k := core.StaticCallee(cc)
			if k == nil || !readers[k] {
				continue
			}
			j := lock7ForUpdateParam(k)
			if j < 0 || j >= len(cc.Call.Args) {
				continue
			}
			if b, isConst := core.ConstBool(cc.Call.Args[j]); isConst && b {
				ups = append(ups, cc)
			}
		}
		if len(ups) == 0 {
			continue
		}
		if !p.IsControl(fn) {
			entries++
		}
		c.Touch(fn)
		isUp := func(in ssa.Instruction) bool {
			for _, u := range ups {
				if u == in {
					return true
				}
			}
			return false
		}
		c.Ok(c.KeyAt(fn, "update-load of the target"), c.Pos(ups[0]), fmt.Sprintf("data-changing entry function: %d call(s) load tables with forUpdate = true", len(ups)))
		ord := map[string]int{}
		for _, call := range core.Calls(fn) {
			cc, ok := call.(*ssa.Call)
			if !ok || isUp(cc) || !txnCallIn(p, cc, readers) {
				continue
			}
			c.Sites++
			key := txnOrd(ord, c.KeyAt(fn, txnCallLabel(p, cc)+" after the update-load of the target"))
			if core.ReachesFromEntry(fn, cc, isUp, nil) {
				c.Bad(key, c.Pos(cc), fmt.Sprintf("this call can load and read tables for the statement, and a path reaches it before the target has been opened for update (update-load at %s): it reads the target through the unlocked shared path; the update-load then re-reads the file and the statement writes rows computed from the stale read over whatever another process committed in between (lost update)", c.Pos(ups[0])))
			} else {
				c.Ok(key, c.Pos(cc), "every path to it has passed the update-load of the target")
			}
		}
	}
	if entries == 0 {
		c.Unknown("data-changing entry functions", "-", "cannot-analyse: no lib/query function calls a table loader with forUpdate = true any more")
	}
}
