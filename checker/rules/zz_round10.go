package rules

// Registrations made after the tenth round of seeded changes (DESIGN §10): rules that existed and reported
// the change, but were not registered for the property it was seeded under. Runs after every other init of
// the package (file name) and only widens Props.

var round10Registrations = map[string][]string{
	"R-IDENT-1": {"C07"}, // which computed column an ORDER BY item sorts by is decided by the exact identifier of the expression: literals are compared case-sensitively (C07-19)
	"R-FMT-12":  {"C10"}, // the bytes that close a committed file are encoded with the file's own encoding: a raw / foreign-encoded line break is a mixed file (C10-20)
	"R-FMT-4":   {"C10"}, // … and come from the file's own FileInfo (C10-20)
	"R-SCP-2":   {"C14"}, // a scope is released once: a node scope pooled twice is handed to two nested queries, whose aliases and inline tables then change under evaluation (C14-20)
	"R-ISO-5":   {"C20"}, // a failed multi-table DELETE / UPDATE leaves no half-published table in the cache: later reads of the transaction see only its own successful changes (C20-19)
	"R-SRT-12":  {"C12"},
	"R-SCP-1":   {"C16"}, // what OPEN materialises depends on the innermost-first lookup: a scope chain re-sliced so that inner blocks are hidden binds the outer variable (C16-19) // a per-row cache handed whole to the sub-view of a worker makes the result depend on how the rows were split (C12-19)
}

func init() {
	for _, r := range registry {
		add, ok := round10Registrations[r.ID]
		if !ok {
			continue
		}
		have := map[string]bool{}
		for _, p := range r.Props {
			have[p] = true
		}
		for _, p := range add {
			if !have[p] {
				r.Props = append(r.Props, p)
			}
		}
	}
}
