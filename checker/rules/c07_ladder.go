package rules

import (
	"fmt"
	"go/constant"
	"go/types"
	"sort"
	"strings"

	"golang.org/x/tools/go/ssa"

	"verif/checker/absint"
	"verif/checker/core"
)

// R-SRT-6 — the classification ladder of NewSortValue (ORDER BY keys), the
// sibling of SerializeKey (R-KEY-3) and CompareCombinedly (R-CMP-3).

const srt6Target = "lib/query.NewSortValue"

func init() {
	Register(&Rule{ID: "R-SRT-6", Props: []string{"C07", "C04", "C17"}, Floor: 1,
		Doc: "NewSortValue follows the normalisation ladder in every abstract world — the ladder of SerializeKey (R-KEY-3) and CompareCombinedly (R-CMP-3): NULL, then value.ToIntegerStrictly, value.ToFloat, value.ToDatetime (with flags.DatetimeFormat and flags.GetTimeLocation()), value.ToBoolean, then *value.String, else NULL. " +
			"The function is executed by abstract interpretation with the null-ness of the value, the success of each conversion and the *value.String test as world atoms (value.IsNull and type assertions on a conversion result answer by that atom; unexported functions and methods of lib/query are inlined, every other condition — a test on the bytes of the text, a flag — is an opaque atom answered both ways). " +
			"Decided in every world: a conversion is left untried only when the value is NULL or an earlier rung succeeded (so no test on the content may route a value past a rung); the SortValue returned has the Type of the first successful rung; its fields are that rung's data: " +
			"Integer/Float/String for an integer (raw integer, its float64, upper-cased trimmed text of value.ToString), Float/String for a float, Datetime = the raw time.Time of the datetime (the instant itself, not a number derived from it: R-SRT-8), Integer 1/0 for a boolean by its raw value, String = upper-cased trimmed raw text for a string, nothing else set — except that a datetime or a boolean that was read from a *value.String may keep String = the upper-cased trimmed raw text of that string (the text it is ordered by among other words: R-SRT-10 decides whether the comparator needs it); " +
			"SerializeIdenticalKey fills SerializedKey exactly when flags.StrictEqual",
		Controls: []string{"CtlSortValueTextFastPath"},
		Run:      ruleSrt6})
}

type srt6Rung struct {
	name, conv, typ, ptr string
}

var srt6Rungs = []srt6Rung{
	{"integer", "lib/value.ToIntegerStrictly", "IntegerType", "Integer"},
	{"float", "lib/value.ToFloat", "FloatType", "Float"},
	{"datetime", "lib/value.ToDatetime", "DatetimeType", "Datetime"},
	{"boolean", "lib/value.ToBoolean", "BooleanType", "Boolean"},
}

// expected fields per type; "" = must stay unset. The expressions are the
// abstract interpreter's rendering of the documented data of the rung.
const (
	srt6Text    = "strings.ToUpper(option.TrimSpace(value.(String).Raw(value.ToString(val))))"
	srt6RawText = "strings.ToUpper(option.TrimSpace(value.(String).Raw(val)))"
	srt6IntRaw  = "value.(Integer).Raw(integer(val))"
)

var srt6Fields = map[string]map[string]string{
	"NullType":     {},
	"IntegerType":  {"Integer": srt6IntRaw, "Float": "conv(" + srt6IntRaw + ")", "String": srt6Text},
	"FloatType":    {"Float": "value.(Float).Raw(float(val))", "String": srt6Text},
	"DatetimeType": {"Datetime": "value.(Datetime).Raw(datetime(val))"},
	"BooleanType":  {"Integer": "<1 if value.(Boolean).Raw(boolean(val)) else 0>"},
	"StringType":   {"String": srt6RawText},
}

func ruleSrt6(c *Ctx) {
	if fn := c.Fn(srt6Target); fn != nil {
		srt6Check(c, fn, false)
	}
	for _, cf := range c.P.FuncsIn(true) {
		if !c.P.IsControl(cf) || cf.Parent() != nil {
			continue
		}
		neg := strings.HasPrefix(cf.Name(), "OkSortValue")
		if !neg && !strings.HasPrefix(cf.Name(), "CtlSortValue") {
			continue
		}
		c.Touch(cf)
		srt6Check(c, cf, neg)
	}
}

// srt6Inline: unexported functions and methods of lib/query (and of the control
// package) and closures are executed.
func srt6Inline(c *Ctx) func(f *ssa.Function) bool {
	return func(f *ssa.Function) bool {
		if f == nil || f.Blocks == nil {
			return false
		}
		if !c.P.InPkg(f, "lib/query") && !c.P.IsControl(f) {
			return false
		}
		if f.Parent() != nil {
			return true
		}
		return f.Object() != nil && !f.Object().Exported()
	}
}

func srt6Check(c *Ctx, fn *ssa.Function, negative bool) {
	key := c.KeyAt(fn, "ladder")
	primT := c.P.Type("lib/value", "Primary")
	svt := c.P.Type("lib/query", "SortValueType")
	if primT == nil || svt == nil || len(fn.Params) != 2 || !types.Identical(fn.Params[0].Type(), primT) || fn.Signature.Results().Len() != 1 {
		c.Unknown(key, c.FnPos(fn), "cannot-analyse: expected func(value.Primary, *option.Flags) *SortValue")
		return
	}
	vt := func(n string) string { return "*" + core.ModPath + "/lib/value." + n }
	norm := func(s string) string { return strings.ReplaceAll(s, "&", "") }
	var bad []string
	nbad := 0
	reported := map[string]bool{}
	report := func(s string) {
		nbad++
		// one example per deviation: the strict-mode atom is irrelevant to most
		k := strings.NewReplacer(" flags.StrictEqual=0", "", " flags.StrictEqual=1", "").Replace(s)
		if len(bad) < 3 && !reported[k] {
			reported[k] = true
			bad = append(bad, s)
		}
	}
	seenTypes := map[string]bool{}
	worlds, err := absint.Enumerate(20000, func(w *absint.World) {
		it := newInterp(c, w)
		it.InlinePred = srt6Inline(c)
		it.MaxDepth = 8
		val := absint.Sym("val", fn.Params[0].Type())
		flags := absint.Obj("flags", fn.Params[1].Type())
		w.Assume("b:nil:val", 0)
		tried := map[string]bool{}
		var trouble []string
		var strict []string
		// conversion results: one symbol per rung, success is the atom conv:<rung>
		rungOf := map[string]string{}
		for _, r := range srt6Rungs {
			r := r
			sym := r.name + "(val)"
			rungOf[sym] = r.name
			it.Models[r.conv] = func(it *absint.Interp, call ssa.CallInstruction, a []absint.Val) (absint.Val, bool) {
				if len(a) < 1 || a[0].K != absint.KSym || a[0].Sym != "val" {
					trouble = append(trouble, fmt.Sprintf("%s(%s) at %s does not convert the value itself", srt6Short(r.conv), joinAbs(a), c.Pos(call)))
					return absint.Val{}, false
				}
				if r.name == "datetime" && (len(a) != 3 || !strings.Contains(a[1].String(), "flags.DatetimeFormat") || !strings.Contains(a[2].String(), "GetTimeLocation(")) {
					trouble = append(trouble, fmt.Sprintf("ToDatetime(%s) at %s is not given flags.DatetimeFormat and flags.GetTimeLocation(): datetimes in the user's formats are not recognised", joinAbs(a), c.Pos(call)))
				}
				tried[r.name] = true
				ok := it.W.Choose("conv:"+r.name, 2) == 1
				for _, o := range srt6Rungs {
					it.W.Assume("b:is:"+vt(o.ptr)+":"+sym, map[bool]int{true: 1, false: 0}[ok && o.name == r.name])
				}
				it.W.Assume("b:is:"+vt("Null")+":"+sym, map[bool]int{true: 0, false: 1}[ok])
				it.W.Assume("b:nil:"+sym, 0)
				return absint.Sym(sym, primT), true
			}
		}
		it.Models["lib/value.IsNull"] = func(it *absint.Interp, call ssa.CallInstruction, a []absint.Val) (absint.Val, bool) {
			if len(a) != 1 || (a[0].K != absint.KSym && a[0].K != absint.KObj) {
				return absint.Val{}, false
			}
			if a[0].Sym == "val" {
				return absint.Bool(it.W.Choose("null:val", 2) == 1), true
			}
			if r, ok := rungOf[a[0].Sym]; ok {
				return absint.Bool(it.W.Get("conv:"+r) != 1), true
			}
			return absint.Val{}, false
		}
		var foreign []string
		it.OnCall = func(name string, call ssa.CallInstruction, a []absint.Val) {
			if name == "lib/query.SerializeIdenticalKey" {
				strict = append(strict, joinAbs(a))
			}
			if strings.HasPrefix(name, "lib/value.To") && name != "lib/value.ToString" {
				if _, modelled := it.Models[name]; !modelled {
					foreign = append(foreign, srt6Short(name))
				}
			}
		}
		stores := map[string]absint.Val{}
		it.OnStore = func(st *ssa.Store, addr absint.Val, v absint.Val) { stores[addr.Sym] = v }
		r := it.Call(fn, []absint.Val{val, flags}, nil)

		// the world: the ladder's own atoms; every other atom is a test of the
		// code on something else (content of the text, …)
		var atoms, content []string
		for _, a := range w.Asked() {
			a = strings.ReplaceAll(strings.TrimPrefix(a, "b:"), core.ModPath+"/lib/", "")
			if strings.HasPrefix(a, "conv:") || strings.HasPrefix(a, "null:val") || strings.HasPrefix(a, "is:") || strings.HasPrefix(a, "flags.") || strings.HasPrefix(a, "value.(Boolean).Raw(") {
				atoms = append(atoms, a)
			} else {
				content = append(content, a)
			}
		}
		world := "world {" + strings.Join(atoms, " ") + "}"
		if len(content) > 0 {
			world += fmt.Sprintf(" + %d other test(s)", len(content))
		}
		if it.Err != nil {
			report(world + ": cannot evaluate: " + it.Err.Error())
			return
		}
		if len(trouble) > 0 {
			report(world + ": " + strings.Join(dedup(trouble), "; "))
			return
		}
		if r.K != absint.KObj {
			report(world + ": returns " + r.String() + ", not a SortValue built here")
			return
		}
		field := func(name string) (absint.Val, bool) {
			v, ok := stores[r.Sym+"."+name]
			return v, ok
		}
		// the ladder on the same world
		want, skipped := "", ""
		switch {
		case w.Get("null:val") == 1:
			want = "NullType"
		default:
			for _, rg := range srt6Rungs {
				v := w.Get("conv:" + rg.name)
				if v < 0 {
					skipped = rg.name
					break
				}
				if v == 1 {
					want = rg.typ
					break
				}
			}
			if want == "" && skipped == "" {
				switch w.Get("b:is:" + vt("String") + ":val") {
				case 1:
					want = "StringType"
				case 0:
					want = "NullType"
				default:
					skipped = "*value.String test"
				}
			}
		}
		got := "unset (NullType)"
		gotT := "NullType"
		if tv, ok := field("Type"); ok {
			if tv.K != absint.KConst {
				report(world + ": Type is set to the non-constant " + tv.String())
				return
			}
			gotT = enumName(svt, tv.C)
			got = gotT
		}
		seenTypes[gotT] = true
		if skipped != "" {
			msg := fmt.Sprintf("%s: classifies the value as %s without trying the %s rung although the value is not NULL and no earlier rung succeeded", world, got, skipped)
			if len(content) > 0 {
				show := content
				more := ""
				if len(show) > 3 {
					more = fmt.Sprintf(", … (%d more)", len(show)-3)
					show = show[:3]
				}
				msg += " — routed by tests that are none of the ladder's conversions: " + strings.Join(show, ", ") + more
			}
			if len(foreign) > 0 {
				msg += " — converts with " + strings.Join(dedup(foreign), ", ") + ", which is not a conversion of the ladder"
			}
			report(msg)
			return
		}
		if gotT != want {
			report(fmt.Sprintf("%s: Type = %s, the ladder prescribes %s", world, got, want))
			return
		}
		// fields
		for _, f := range []string{"Integer", "Float", "Datetime", "String"} {
			exp := srt6Fields[want][f]
			v, set := field(f)
			gotF := "unset"
			if set {
				gotF = norm(v.String())
				if v.K == absint.KConst && (v.C.Kind() == constant.Int || v.C.Kind() == constant.Float) && constant.Sign(v.C) == 0 && exp == "" {
					gotF = "unset"
				}
				if v.K == absint.KConst && v.C.Kind() == constant.String && constant.StringVal(v.C) == "" && exp == "" {
					gotF = "unset"
				}
			}
			switch {
			case exp == "" && f == "String" && (want == "DatetimeType" || want == "BooleanType") && gotF == srt6RawText && w.Get("b:is:"+vt("String")+":val") == 1:
				// a datetime or a boolean read from a string may keep the text of that string (upper-cased,
				// trimmed): it is what the value is ordered by among the other words of its column (R-SRT-10)
			case exp == "":
				if gotF != "unset" {
					report(fmt.Sprintf("%s: %s also sets %s = %s, which is not data of that rung", world, want, f, gotF))
				}
			case want == "BooleanType":
				raw := w.Get("b:value.(Boolean).Raw(&boolean(val))")
				e := map[int]string{1: "1", 0: "0"}[raw]
				if gotF == "unset" {
					gotF = "0" // the zero value of a SortValue built here
				}
				if raw < 0 || gotF != e {
					report(fmt.Sprintf("%s: BooleanType with Integer = %s, expected 1 for true and 0 for false (raw value %d)", world, gotF, raw))
				}
			case gotF != exp:
				report(fmt.Sprintf("%s: %s with %s = %s, expected %s", world, want, f, gotF, exp))
			}
		}
		// strict mode
		se := w.Get("b:flags.StrictEqual")
		switch {
		case se < 0:
			report(world + ": flags.StrictEqual is never consulted: the identical key of --strict-equal is not built")
		case se == 1 && (len(strict) != 1 || !strings.HasSuffix(strict[0], "val")):
			report(fmt.Sprintf("%s: under StrictEqual SerializeIdenticalKey is called %d time(s) %v, expected once on the value", world, len(strict), strict))
		case se == 0 && len(strict) > 0:
			report(world + ": SerializeIdenticalKey is called without StrictEqual")
		}
	})
	switch {
	case err != nil:
		c.Unknown(key, c.FnPos(fn), err.Error())
	case nbad > 0:
		sort.Strings(bad)
		why := fmt.Sprintf("%d of %d abstract worlds leave the ladder NULL, integer, float, datetime, boolean, string, NULL: %s", nbad, worlds, strings.Join(bad, " | "))
		c.Bad(key, c.FnPos(fn), why)
		if negative {
			c.Unknown("negative-control:"+key, "-", "the rule reports "+fn.Name()+", a correct spelling of the ladder: "+why)
		}
	case len(seenTypes) != 6:
		c.Bad(key, c.FnPos(fn), fmt.Sprintf("only %d of the 6 sort value types are ever produced (%s)", len(seenTypes), strings.Join(keysOf(seenTypes), ", ")))
	default:
		c.OkN(key, c.FnPos(fn), fmt.Sprintf("%d abstract worlds (null-ness × success of each conversion × string test × boolean raw value × StrictEqual) agree with the ladder NULL, integer, float, datetime, boolean, string, NULL and with each rung's fields", worlds), worlds)
	}
}

func srt6Short(name string) string {
	if i := strings.LastIndex(name, "/"); i >= 0 {
		return name[i+1:]
	}
	return name
}
