package rules

import (
	"fmt"
	"sort"
	"strings"

	"golang.org/x/tools/go/ssa"

	"verif/checker/core"
)

// R-ANA-6 — no window frame is computed over a reordered partition.
//
// Written after LAST_VALUE was found to apply its frame to the reversed partition:
// LastValue.Execute reversed the partition in place and handed it to the helper that
// asks WindowFrameSet for the frames; PRECEDING and FOLLOWING are positions relative
// to the order of the slice WindowFrameSet is given, so `ROWS BETWEEN UNBOUNDED PRECEDING
// AND CURRENT ROW` became "from the last row of the partition back to the current one".
//
// Frame builders (found by role): the lib/query functions that read a field of
// parser.WindowFramePosition (a closure counts for its enclosing function) and take a
// Partition parameter; transitively, a function that forwards its Partition parameter
// to a frame builder.
// Obligation, per function of lib/query with a Partition parameter that reorders it in
// place (a store through its elements, package sort, an in-place mutator method such as
// Reverse — the mutators are found from the code as in R-ANA-5): no call that can be
// reached from the reordering and is handed the same partition builds frames over it.
// LEAD reverses and scans without frames and is accepted.

func init() {
	Register(&Rule{ID: "R-ANA-6", Props: []string{"C17"}, Floor: 2,
		Doc:      "no window frame is computed over a reordered partition: PRECEDING / FOLLOWING are positions in the ORDER BY order of the partition. For every lib/query function with a Partition parameter that reorders it in place (store through its elements, package sort, an in-place mutator method such as Partition.Reverse, found from the code), no call reachable from the reordering that is handed the same partition is a frame builder — a function with a Partition parameter that reads the fields of parser.WindowFramePosition (in itself or a closure), or one that forwards its partition to such a function. LAST_VALUE reversing the partition and then asking for the frames mirrors every frame (UNBOUNDED PRECEDING … CURRENT ROW becomes CURRENT ROW … UNBOUNDED FOLLOWING); LEAD reverses and scans without frames and is accepted. One obligation for the frame builders found, one per reordering function",
		Controls: []string{"CtlFrameOverReversed", "CtlFrameOverReversedViaHelper"},
		Run:      ruleAna6})
}

// fx6FrameReaders: functions (closures mapped to their outermost parent) that load a field of parser.WindowFramePosition.
func fx6FrameReaders(c *Ctx) map[*ssa.Function]bool {
	out := map[*ssa.Function]bool{}
	for _, fn := range c.P.FuncsIn(true, "lib/query") {
		reads := false
		for _, b := range fn.Blocks {
			for _, in := range b.Instrs {
				switch x := in.(type) {
				case *ssa.FieldAddr:
					if strings.HasPrefix(core.FieldOwner(x), "lib/parser.WindowFramePosition.") {
						reads = true
					}
				case *ssa.Field:
					if strings.HasPrefix(core.FieldOwner(x), "lib/parser.WindowFramePosition.") {
						reads = true
					}
				}
			}
		}
		if !reads {
			continue
		}
		root := fn
		for root.Parent() != nil {
			root = root.Parent()
		}
		out[root] = true
	}
	return out
}

// fx6BuildsFrames: fn builds frames over its parameter idx (a Partition).
func fx6BuildsFrames(c *Ctx, fn *ssa.Function, idx int, readers map[*ssa.Function]bool, depth int, busy map[*ssa.Function]bool) (bool, string) {
	if fn == nil || fn.Blocks == nil || idx >= len(fn.Params) || !fxIsPartitionType(fn.Params[idx]) || busy[fn] || depth > 4 {
		return false, ""
	}
	if readers[fn] {
		return true, c.P.Name(fn)
	}
	busy[fn] = true
	defer delete(busy, fn)
	p := fn.Params[idx]
	for _, call := range core.Calls(fn) {
		g := core.StaticCallee(call)
		if g == nil || !c.P.InPkg(g, "lib/query", core.ControlPkg) {
			continue
		}
		for j, a := range call.Common().Args {
			if fxDerivedFrom(c, a, p) {
				if ok, via := fx6BuildsFrames(c, g, j, readers, depth+1, busy); ok {
					return true, c.P.Name(fn) + " → " + via
				}
			}
		}
	}
	return false, ""
}

// fx6Reorderings: the instructions of fn that reorder slice p in place.
func fx6Reorderings(c *Ctx, fn *ssa.Function, p ssa.Value, mutators map[*ssa.Function]bool) []ssa.Instruction {
	var out []ssa.Instruction
	for _, b := range fn.Blocks {
		for _, in := range b.Instrs {
			switch x := in.(type) {
			case *ssa.Store:
				if ia, ok := x.Addr.(*ssa.IndexAddr); ok && fxDerivedFrom(c, ia.X, p) {
					out = append(out, in)
				}
			case *ssa.Call:
				name := c.P.CalleeName(x)
				args := x.Common().Args
				if strings.HasPrefix(name, "sort.") && name != "sort.Reverse" && name != "sort.IntSlice" && !strings.HasPrefix(name, "sort.Search") && !strings.HasSuffix(name, "AreSorted") && !strings.HasSuffix(name, "IsSorted") {
					for _, a := range args {
						if fxDerivedFrom(c, a, p) {
							out = append(out, in)
						}
					}
					continue
				}
				f := core.StaticCallee(x)
				if f == nil {
					continue
				}
				for i, a := range args {
					if !fxDerivedFrom(c, a, p) {
						continue
					}
					if mutators[f] {
						out = append(out, in)
					} else if f.Blocks != nil && f != fn && c.P.InPkg(f, "lib/query", core.ControlPkg) && i < len(f.Params) && fxMutatesSlice(c, f, f.Params[i], mutators, 1) != nil {
						out = append(out, in)
					}
				}
			}
		}
	}
	return out
}

func ruleAna6(c *Ctx) {
	start := len(c.Obs)
	defer func() { c.negControls(start, "okFrameThenScanReversed", "okReverseWithoutFrames") }()
	readers := fx6FrameReaders(c)
	var names []string
	real := 0
	for f := range readers {
		if !c.P.IsControl(f) {
			real++
		}
		names = append(names, c.P.Name(f))
	}
	sort.Strings(names)
	if real == 0 {
		c.Unknown("anchor:frame builders", "-", "cannot-analyse: no lib/query function reads the fields of parser.WindowFramePosition")
		return
	}
	c.Ok("frame builders: functions that read parser.WindowFramePosition", "-", strings.Join(names, ", "))
	mutators := fxPartitionMutators(c)
	fns := append([]*ssa.Function(nil), c.P.FuncsIn(true, "lib/query")...)
	sort.SliceStable(fns, func(i, j int) bool { return c.P.Name(fns[i]) < c.P.Name(fns[j]) })
	for _, fn := range fns {
		if fn.Blocks == nil || mutators[fn] {
			continue
		}
		for _, p := range fn.Params {
			if !fxIsPartitionType(p) {
				continue
			}
			muts := fx6Reorderings(c, fn, p, mutators)
			if len(muts) == 0 {
				continue
			}
			c.Touch(fn)
			key := c.KeyAt(fn, "no frames over the reordered partition "+p.Name())
			bad := ""
			var at ssa.Instruction
			for _, m := range muts {
				for _, call := range core.Calls(fn) {
					ci, ok := call.(ssa.Instruction)
					if !ok || ci == m || !core.Reachable(m, ci, nil) {
						continue
					}
					g := core.StaticCallee(call)
					if g == nil {
						continue
					}
					for j, a := range call.Common().Args {
						if !fxDerivedFrom(c, a, p) {
							continue
						}
						if ok, via := fx6BuildsFrames(c, g, j, readers, 0, map[*ssa.Function]bool{}); ok && bad == "" {
							bad = fmt.Sprintf("the partition is reordered in place at %s and then handed to %s, which builds the window frames over it (%s): PRECEDING and FOLLOWING are counted in the reordered sequence, every frame is mirrored (LAST_VALUE … ROWS BETWEEN UNBOUNDED PRECEDING AND CURRENT ROW returns the last row of the partition). Walk the frame backwards instead of reversing the partition", c.Pos(m), c.P.Name(g), via)
							at = ci
						}
					}
				}
			}
			if bad != "" {
				c.Bad(key, c.Pos(at), bad)
			} else {
				c.Ok(key, c.Pos(muts[0]), fmt.Sprintf("reorders the partition in place (%d site(s)); nothing it is handed to afterwards builds frames", len(muts)))
			}
		}
	}
}
