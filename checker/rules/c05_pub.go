package rules

import (
	"fmt"
	"go/constant"
	"go/token"
	"go/types"
	"sort"
	"strings"

	"golang.org/x/tools/go/ssa"

	"verif/checker/core"
)

// R-PUB-1 — the write-back of a data-changing statement covers every updatable
// view type (C05 "…on files, temporary tables and stdin"; C01: what is marked
// uncommitted is what was published).
//
// Finite-domain decision: the domain is the set of constants of
// lib/query.ViewType; the guards of the publication calls are predicate methods
// of *FileInfo, which a small SSA evaluator decides per constant.

const (
	pubReplaceTemp = "lib/query.(*ReferenceScope).ReplaceTemporaryTable"
	pubVMSet       = "lib/query.(ViewMap).Set"
	pubIsUpdatable = "lib/query.(*FileInfo).IsUpdatable"
	pubIsInMemory  = "lib/query.(*FileInfo).IsInMemoryTable"
	pubIsFile      = "lib/query.(*FileInfo).IsFile"
)

func init() {
	Register(&Rule{ID: "R-PUB-1", Props: []string{"C05", "C01"}, Floor: 1,
		Doc:      "the write-back of a data-changing statement covers every updatable view type: in every lib/query function that calls (*ReferenceScope).ReplaceTemporaryTable, for each published view and each constant vt of lib/query.ViewType with (*FileInfo).IsUpdatable = true under vt, there is a publication call (ReplaceTemporaryTable / (ViewMap).Set of that view) whose dominating branch conditions all hold or may hold under vt and whose sink suits vt (ReplaceTemporaryTable: IsInMemoryTable; CachedViews.Set: IsFile). Conditions are predicate methods of the view's *FileInfo (or comparisons of its ViewType field), evaluated per constant by abstract execution of their SSA; a condition that cannot be evaluated may hold. The uncovered view type is named",
		Controls: []string{"CtlPub1HelperTestsTemporaryTable"},
		Run:      rulePub1})
}

// pubTri is a three-valued truth value.
type pubTri int

const (
	pubUnknown pubTri = iota
	pubTrue
	pubFalse
)

func pubOfBool(b bool) pubTri {
	if b {
		return pubTrue
	}
	return pubFalse
}

// pubVal is an abstract value: a known boolean, a known integer, or unknown.
type pubVal struct {
	known  bool
	isBool bool
	b      bool
	i      int64
}

// pubEnv: what is known while evaluating inside one function: which SSA values
// denote the *FileInfo under consideration, and its view type.
type pubEnv struct {
	p      *core.Prog
	vt     int64
	isInfo func(v ssa.Value) bool // v is the *FileInfo whose ViewType is vt
	depth  int
	local  map[ssa.Value]pubVal // values computed during block interpretation (Phi results)
}

// pubValue evaluates an SSA value under env (no control flow: Phis are looked
// up in env.local, which the block interpreter fills).
func pubValue(v ssa.Value, env *pubEnv) pubVal {
	if lv, ok := env.local[v]; ok {
		return lv
	}
	switch x := v.(type) {
	case *ssa.Const:
		if x.Value == nil {
			return pubVal{}
		}
		switch x.Value.Kind() {
		case constant.Bool:
			return pubVal{known: true, isBool: true, b: constant.BoolVal(x.Value)}
		case constant.Int:
			if i, exact := constant.Int64Val(x.Value); exact {
				return pubVal{known: true, i: i}
			}
		}
	case *ssa.UnOp:
		switch x.Op {
		case token.NOT:
			a := pubValue(x.X, env)
			if a.known && a.isBool {
				return pubVal{known: true, isBool: true, b: !a.b}
			}
		case token.MUL:
			if fa, ok := x.X.(*ssa.FieldAddr); ok && core.FieldOwner(fa) == "lib/query.FileInfo.ViewType" && env.isInfo(fa.X) {
				return pubVal{known: true, i: env.vt}
			}
		}
	case *ssa.Field:
		// not used by csvq (FileInfo is handled by pointer), kept for completeness
	case *ssa.ChangeType:
		return pubValue(x.X, env)
	case *ssa.Convert:
		return pubValue(x.X, env)
	case *ssa.BinOp:
		a, b := pubValue(x.X, env), pubValue(x.Y, env)
		if !a.known || !b.known || a.isBool != b.isBool {
			return pubVal{}
		}
		if a.isBool {
			switch x.Op {
			case token.EQL:
				return pubVal{known: true, isBool: true, b: a.b == b.b}
			case token.NEQ:
				return pubVal{known: true, isBool: true, b: a.b != b.b}
			}
			return pubVal{}
		}
		switch x.Op {
		case token.EQL:
			return pubVal{known: true, isBool: true, b: a.i == b.i}
		case token.NEQ:
			return pubVal{known: true, isBool: true, b: a.i != b.i}
		case token.LSS:
			return pubVal{known: true, isBool: true, b: a.i < b.i}
		case token.LEQ:
			return pubVal{known: true, isBool: true, b: a.i <= b.i}
		case token.GTR:
			return pubVal{known: true, isBool: true, b: a.i > b.i}
		case token.GEQ:
			return pubVal{known: true, isBool: true, b: a.i >= b.i}
		}
	case *ssa.Call:
		// a predicate method of *FileInfo applied to the FileInfo under consideration
		k := core.StaticCallee(x)
		if k == nil || k.Blocks == nil || len(x.Call.Args) != 1 || len(k.Params) != 1 || env.depth > 4 {
			return pubVal{}
		}
		if core.NamedOf(k.Params[0].Type()) != "lib/query.FileInfo" || !env.isInfo(x.Call.Args[0]) {
			return pubVal{}
		}
		res := k.Signature.Results()
		if res.Len() != 1 {
			return pubVal{}
		}
		if b, ok := res.At(0).Type().Underlying().(*types.Basic); !ok || b.Kind() != types.Bool {
			return pubVal{}
		}
		switch pubPredicate(env.p, k, env.vt, env.depth+1) {
		case pubTrue:
			return pubVal{known: true, isBool: true, b: true}
		case pubFalse:
			return pubVal{known: true, isBool: true, b: false}
		}
	}
	return pubVal{}
}

// pubPredicate abstractly executes the bool method k of *FileInfo for a
// receiver whose ViewType is vt. Unknown when a branch condition or the
// returned value cannot be evaluated.
func pubPredicate(p *core.Prog, k *ssa.Function, vt int64, depth int) pubTri {
	if k == nil || len(k.Blocks) == 0 || len(k.Params) != 1 {
		return pubUnknown
	}
	recv := k.Params[0]
	env := &pubEnv{p: p, vt: vt, depth: depth, local: map[ssa.Value]pubVal{},
		isInfo: func(v ssa.Value) bool { return v == recv }}
	var prev *ssa.BasicBlock
	b := k.Blocks[0]
	for steps := 0; steps < 200; steps++ {
		// Phis first, with the edge we came through
		for _, in := range b.Instrs {
			ph, ok := in.(*ssa.Phi)
			if !ok {
				break
			}
			val := pubVal{}
			for i, pr := range b.Preds {
				if pr == prev {
					val = pubValue(ph.Edges[i], env)
				}
			}
			env.local[ph] = val
		}
		last := b.Instrs[len(b.Instrs)-1]
		switch t := last.(type) {
		case *ssa.Return:
			if len(t.Results) != 1 {
				return pubUnknown
			}
			r := pubValue(t.Results[0], env)
			if !r.known || !r.isBool {
				return pubUnknown
			}
			return pubOfBool(r.b)
		case *ssa.If:
			cv := pubValue(t.Cond, env)
			if !cv.known || !cv.isBool {
				return pubUnknown
			}
			prev = b
			if cv.b {
				b = b.Succs[0]
			} else {
				b = b.Succs[1]
			}
		case *ssa.Jump:
			prev = b
			b = b.Succs[0]
		default:
			return pubUnknown
		}
	}
	return pubUnknown
}

// pubViewTypes enumerates the constants of lib/query.ViewType from the type checker.
func pubViewTypes(p *core.Prog) (names []string, vals map[string]int64) {
	vals = map[string]int64{}
	pk := p.ByPath["lib/query"]
	t := p.Type("lib/query", "ViewType")
	if pk == nil || t == nil {
		return nil, vals
	}
	sc := pk.Types.Scope()
	for _, n := range sc.Names() {
		k, ok := sc.Lookup(n).(*types.Const)
		if !ok || !types.Identical(k.Type(), t) || k.Val().Kind() != constant.Int {
			continue
		}
		if v, exact := constant.Int64Val(k.Val()); exact {
			names = append(names, n)
			vals[n] = v
		}
	}
	sort.Slice(names, func(i, j int) bool { return vals[names[i]] < vals[names[j]] })
	return
}

// pubSameView: two SSA values denote the same view variable.
func pubSameView(a, b ssa.Value) bool {
	return a == b || core.SameCell(a, b) || txnThroughCell(a) == txnThroughCell(b)
}

type pubSite struct {
	call ssa.CallInstruction
	view ssa.Value
	sink string // predicate that must not be false for the sink to suit the view type ("" = any)
	what string
}

func rulePub1(c *Ctx) {
	p := c.P
	replace := c.Fn(pubReplaceTemp)
	updatable := c.Fn(pubIsUpdatable)
	if replace == nil || updatable == nil {
		return
	}
	names, vals := pubViewTypes(p)
	if len(names) < 2 {
		c.Unknown("anchor:lib/query.ViewType", "-", "cannot-analyse: the constants of lib/query.ViewType do not resolve")
		return
	}
	// the updatable view types
	var upd []string
	for _, n := range names {
		switch pubPredicate(p, updatable, vals[n], 0) {
		case pubTrue:
			upd = append(upd, n)
		case pubUnknown:
			c.Unknown("anchor:"+pubIsUpdatable, c.FnPos(updatable), "cannot-analyse: (*FileInfo).IsUpdatable cannot be evaluated for "+n)
			return
		}
	}
	if len(upd) == 0 {
		c.Unknown("anchor:"+pubIsUpdatable, c.FnPos(updatable), "cannot-analyse: no view type is updatable")
		return
	}
	sinkPred := map[string]*ssa.Function{pubIsInMemory: p.Func(pubIsInMemory), pubIsFile: p.Func(pubIsFile)}

	var fns []*ssa.Function
	for _, f := range p.FuncsIn(false, "lib/query") {
		if f != replace && len(p.CallsNamed(f, pubReplaceTemp)) > 0 {
			fns = append(fns, f)
		}
	}
	fns = append(fns, txnCtl(c, "Pub1")...)
	n := 0
	for _, fn := range fns {
		// publication sites, grouped by published view
		var sites []pubSite
		for _, call := range core.Calls(fn) {
			if _, isCall := call.(*ssa.Call); !isCall {
				continue
			}
			args := call.Common().Args
			switch p.CalleeName(call) {
			case pubReplaceTemp:
				if len(args) == 2 {
					sites = append(sites, pubSite{call, args[1], pubIsInMemory, "ReplaceTemporaryTable"})
				}
			case pubVMSet:
				if len(args) == 2 {
					s := pubSite{call, args[1], "", "ViewMap.Set"}
					if core.FieldOwner(core.Addr(args[0])) == "lib/query.Transaction.CachedViews" {
						s.sink, s.what = pubIsFile, "CachedViews.Set"
					}
					sites = append(sites, s)
				}
			}
		}
		var groups [][]pubSite
		for _, s := range sites {
			placed := false
			for gi := range groups {
				if pubSameView(groups[gi][0].view, s.view) {
					groups[gi] = append(groups[gi], s)
					placed = true
					break
				}
			}
			if !placed {
				groups = append(groups, []pubSite{s})
			}
		}
		ord := map[string]int{}
		for _, g := range groups {
			hasReplace := false
			for _, s := range g {
				if s.what == "ReplaceTemporaryTable" {
					hasReplace = true
				}
			}
			if !hasReplace {
				continue // a plain cache store (CREATE TABLE …), not a write-back
			}
			n++
			c.Touch(fn)
			c.Sites += len(g)
			key := txnOrd(ord, c.KeyAt(fn, "covers every updatable view type"))
			pos := c.Pos(g[0].call.(ssa.Instruction))
			view := g[0].view
			isInfo := func(v ssa.Value) bool {
				r, path, ok := core.AccessPath(v)
				return ok && path == ".FileInfo" && pubSameView(r, view)
			}
			guards, evaluable := 0, 0
			var uncovered []string
			var detail []string
			cells := 0
			for _, vtName := range upd {
				vt := vals[vtName]
				covered := false
				var whyNot []string
				for _, s := range g {
					env := &pubEnv{p: p, vt: vt, isInfo: isInfo, local: map[ssa.Value]pubVal{}}
					holds := true
					failed := ""
					for _, f := range core.FactsAt(s.call.(ssa.Instruction).Block()) {
						cells++
						guards++
						cond, neg := core.UnNot(f.Cond)
						val := pubValue(cond, env)
						if !val.known || !val.isBool {
							continue // may hold
						}
						evaluable++
						if val.b == (f.Neg != neg) { // the fact asserts cond (or !cond) and it is the opposite
							holds = false
							failed = pubCondLabel(p, cond, f.Neg == neg)
						}
					}
					if holds && s.sink != "" && sinkPred[s.sink] != nil {
						if pubPredicate(p, sinkPred[s.sink], vt, 0) == pubFalse {
							holds = false
							failed = "its sink " + s.what + " does not hold views of this type (" + strings.TrimPrefix(s.sink, "lib/query.(*FileInfo).") + " is false)"
						}
					}
					if holds {
						covered = true
						break
					}
					whyNot = append(whyNot, fmt.Sprintf("%s at %s: %s", s.what, c.Pos(s.call.(ssa.Instruction)), failed))
				}
				if !covered {
					uncovered = append(uncovered, vtName)
					detail = append(detail, vtName+" ["+strings.Join(whyNot, "; ")+"]")
				}
			}
			switch {
			case guards > 0 && evaluable == 0:
				c.Unknown(key, pos, "cannot-analyse: none of the conditions guarding the publication calls could be evaluated per view type")
			case len(uncovered) > 0:
				c.Bad(key, pos, fmt.Sprintf("a view of type %s is updatable (IsUpdatable) but no publication call is reached for it: %s — the statement reports its count and marks the table uncommitted, yet the modified copy is dropped and later statements and COMMIT see the old table",
					strings.Join(uncovered, ", "), strings.Join(detail, " | ")))
			default:
				c.OkN(key, pos, fmt.Sprintf("each of %s reaches one of the %d publication call(s) of the view with a suitable sink", strings.Join(upd, ", "), len(g)), cells)
			}
		}
	}
	if n == 0 {
		c.Unknown("write-back sites", "-", "cannot-analyse: no lib/query function publishes a view through ReplaceTemporaryTable any more: the rule no longer sees the write-back of the data-changing statements")
	}
}

func pubCondLabel(p *core.Prog, cond ssa.Value, asserted bool) string {
	name := cond.String()
	if call, ok := cond.(*ssa.Call); ok {
		name = strings.TrimPrefix(p.CalleeName(call), "lib/query.(*FileInfo).") + "()"
	}
	if asserted {
		return "requires " + name + ", which is false"
	}
	return "requires !" + name + ", but it is true"
}
