package rules

// R-LOCK-10 (seventh round, D81): the name of a table is never read as a pattern.

import (
	"fmt"

	"golang.org/x/tools/go/ssa"

	"verif/checker/core"
)

func init() {
	Register(&Rule{ID: "R-LOCK-10", Props: []string{"C09", "C11"}, Floor: 0,
		Doc:      "the name of a table is never read as a pattern: lib/file and lib/query call no pattern matcher of the standard library (path/filepath.Glob, Match, path.Match, regexp.Compile / MustCompile / Match*) on a text that is built from a file path — the control files (.NAME.lock, .NAME.temp, .NAME.<random>.rlock) are found by literal comparison. filepath.Glob reads `[`, `?`, `*` and `\\` in the table's own name as pattern syntax: for a table called a[1].csv no read lock is ever found, and a writer proceeds past its readers. Expected count on a healthy tree: zero in lib/file (the positive control keeps the rule alive)",
		Controls: []string{"ctlGlobOverTableName"},
		Run:      ruleLock10})
}

func ruleLock10(c *Ctx) {
	matchers := map[string]bool{"path/filepath.Glob": true, "path/filepath.Match": true, "path.Match": true,
		"regexp.Compile": true, "regexp.MustCompile": true, "regexp.MatchString": true, "regexp.Match": true, "regexp.CompilePOSIX": true}
	n := 0
	for _, fn := range c.P.FuncsIn(true, "lib/file") {
		n++
		k := 0
		for _, call := range core.Calls(fn) {
			name := c.P.CalleeName(call)
			if !matchers[name] || len(call.Common().Args) == 0 {
				continue
			}
			// a constant pattern is fine
			if _, isConst := call.Common().Args[0].(*ssa.Const); isConst {
				continue
			}
			k++
			c.Touch(fn)
			c.Bad(c.KeyAt(fn, fmt.Sprintf("%s on a computed pattern #%d", name, k)), c.Pos(call.(ssa.Instruction)),
				name+" is handed a pattern computed at run time in the package that finds the control files of a table: the table's own name becomes pattern syntax (`[`, `?`, `*`, `\\`), so the lock files of a table called a[1].csv are never found and a writer does not see its readers; list the directory and compare the names literally")
		}
	}
	c.Ok("lib/file: pattern matchers", "-", fmt.Sprintf("%d function(s) of lib/file examined: no pattern matcher is handed a computed pattern", n))
	if n < 20 {
		c.Unknown("anchor:lib/file", "-", fmt.Sprintf("cannot-analyse: expected the functions of lib/file, found %d", n))
	}
}
