package rules

import (
	"fmt"
	"go/token"
	"go/types"
	"sort"
	"strings"

	"golang.org/x/tools/go/ssa"

	"verif/checker/core"
)

// R-CACHE-8 — read-through caches of the transaction are filled on every success path.
//
// Transaction.CachedViews and Transaction.UrlCache are what makes the second read of
// a transaction see what the first one saw: a table (file or remote resource) is
// loaded on the first reference, filed in the cache, and served from there until
// COMMIT / ROLLBACK empties the cache. That only holds if a miss always ends in an
// entry. R-CACHE-1/4 decide when a reload happens, R-CACHE-2/6 who may evict; this
// rule decides that the fill cannot be skipped.
//
//	cache      a field X of lib/query.Transaction that is read by key with a found
//	           flag (a comma-ok map lookup, a method of the field's type that returns
//	           (T, bool), a plain lookup compared with nil)
//	subject    a lib/query function that branches on the found flag of such a lookup
//	           (its own, or that of a closure / static callee it calls which returns
//	           the flag) and contains a store into the same field X
//	decided    from the miss edge of every such branch, every path on which no error
//	           test fails (edges that establish e != nil for an error e are not
//	           followed) and that ends in a return whose error result is not
//	           certainly non-nil crosses a store into X: a map update, a storing
//	           method of the field's type, or a static callee (≤ 2 levels) that itself
//	           stores on every success path. A store that stands under a condition on
//	           the loaded resource leaves such a path and is reported with the return
//	           it reaches.
//	key        when lookup and store both spell their key, the two are the same
//	           expression
//	per cache  every field X that is looked up this way in lib/query has at least one
//	           subject (a cache that is consulted but never filled re-loads on every
//	           reference)

func init() {
	Register(&Rule{ID: "R-CACHE-8", Props: []string{"C20"}, Floor: 4,
		Doc:      "read-through caches of the transaction are filled on every success path: for every field X of lib/query.Transaction that lib/query reads by key with a found flag (comma-ok map lookup, (T, bool) method of the field's type, lookup compared with nil — CachedViews, UrlCache today) and every lib/query function that branches on that flag (its own lookup or the one of a closure / static callee that returns it) and stores into X, every path from the miss edge on which no error test fails to a return that can carry a nil error crosses a store into X (map update, storing method of the field's type, or a static callee ≤ 2 levels that stores on all its success paths) — a guard on a property of the loaded resource in front of the store is a violation, because the next reference of the same transaction (even of the same statement) loads the resource again and may see another version; where both spell their key, the store uses the key expression of the lookup; and every such field has at least one filling function",
		Controls: []string{"CtlReadThroughGuardedStore", "CtlReadThroughOtherKey", "CtlReadThroughHelperGuardedStore"},
		Run:      ruleCache8})
}

const rt8Owner = "lib/query.Transaction"

// rt8FieldOf: v is the value of a field of a lib/query.Transaction (loaded in
// this function); returns the field name.
func rt8FieldOf(v ssa.Value) string {
	for _, o := range core.Origins(v, false) {
		if fa := fxFieldLoad(o); fa != nil && strings.HasPrefix(core.FieldOwner(fa), rt8Owner+".") {
			return core.FieldName(fa)
		}
	}
	return ""
}

type rt8Lookup struct {
	in    ssa.Instruction
	field string
	key   ssa.Value
	found ssa.Value // bool (comma-ok), or nil
	val   ssa.Value // looked-up value (compared with nil), or nil
}

func rt8Extract(tuple ssa.Value, idx int) ssa.Value {
	refs := tuple.Referrers()
	if refs == nil {
		return nil
	}
	for _, r := range *refs {
		if e, ok := r.(*ssa.Extract); ok && e.Index == idx {
			return e
		}
	}
	return nil
}

func rt8IsBool(t types.Type) bool {
	b, ok := t.Underlying().(*types.Basic)
	return ok && b.Kind() == types.Bool
}

// rt8ContainerMethod: the call is a method of the named type of a Transaction
// field, invoked on the value of that field.
func rt8ContainerMethod(call ssa.CallInstruction) (*ssa.Function, string) {
	f := core.StaticCallee(call)
	if f == nil || f.Signature.Recv() == nil || len(call.Common().Args) == 0 {
		return nil, ""
	}
	recv := call.Common().Args[0]
	if core.NamedOf(recv.Type()) == "" || core.NamedOf(recv.Type()) != core.NamedOf(f.Signature.Recv().Type()) {
		return nil, ""
	}
	fld := rt8FieldOf(recv)
	if fld == "" {
		return nil, ""
	}
	return f, fld
}

// rt8Lookups lists the keyed reads of Transaction fields in fn.
func rt8Lookups(fn *ssa.Function) []rt8Lookup {
	var out []rt8Lookup
	for _, b := range fn.Blocks {
		for _, in := range b.Instrs {
			switch x := in.(type) {
			case *ssa.Lookup:
				if _, isMap := x.X.Type().Underlying().(*types.Map); !isMap {
					continue
				}
				fld := rt8FieldOf(x.X)
				if fld == "" {
					continue
				}
				l := rt8Lookup{in: x, field: fld, key: x.Index}
				if x.CommaOk {
					l.found, l.val = rt8Extract(x, 1), rt8Extract(x, 0)
				} else {
					l.val = x
				}
				out = append(out, l)
			case *ssa.Call:
				f, fld := rt8ContainerMethod(x)
				if f == nil {
					continue
				}
				res := f.Signature.Results()
				if res.Len() != 2 || !rt8IsBool(res.At(1).Type()) || len(x.Call.Args) != 2 {
					continue
				}
				out = append(out, rt8Lookup{in: x, field: fld, key: x.Call.Args[1], found: rt8Extract(x, 1), val: rt8Extract(x, 0)})
			}
		}
	}
	return out
}

type rt8Store struct {
	in    ssa.Instruction
	field string
	key   ssa.Value // nil: the key is computed by the storing method
	how   string
}

type rt8Engine struct {
	c       *Ctx
	writers func(*ssa.Function) bool
	must    map[string]bool // fn|field|depth → stores on every success path
}

// writes: f reaches a storing primitive of sync.Map, or updates a map, through
// static calls (depth levels) — no call graph needed for the wrappers of a container.
func (e *rt8Engine) writes(f *ssa.Function, depth int) bool {
	if f == nil {
		return false
	}
	if e.writers(f) {
		return true
	}
	if f.Blocks == nil || depth == 0 {
		return false
	}
	k := fmt.Sprintf("w|%s|%d", e.c.P.Name(f), depth)
	if v, ok := e.must[k]; ok {
		return v
	}
	e.must[k] = false
	res := false
	for _, b := range f.Blocks {
		for _, in := range b.Instrs {
			switch x := in.(type) {
			case *ssa.MapUpdate:
				if len(f.Params) > 0 && rt8DerivedFrom(x.Map, f.Params[0], 6) {
					res = true // a map held by the receiver
				}
			case ssa.CallInstruction:
				// only what is called on (a part of) the receiver: closing a file handle
				// on the way is not a store into the container
				g := core.StaticCallee(x)
				if g != nil && len(f.Params) > 0 && len(x.Common().Args) > 0 && rt8DerivedFrom(x.Common().Args[0], f.Params[0], 6) && e.writes(g, depth-1) {
					res = true
				}
			}
		}
	}
	e.must[k] = res
	return res
}

// rt8DerivedFrom: v is root itself or a (field of a field of …) root, loaded or addressed.
func rt8DerivedFrom(v, root ssa.Value, depth int) bool {
	if v == root {
		return true
	}
	if depth == 0 {
		return false
	}
	switch x := v.(type) {
	case *ssa.UnOp:
		return x.Op == token.MUL && rt8DerivedFrom(x.X, root, depth-1)
	case *ssa.FieldAddr:
		return rt8DerivedFrom(x.X, root, depth-1)
	case *ssa.Field:
		return rt8DerivedFrom(x.X, root, depth-1)
	case *ssa.Alloc:
		// a value receiver spilled into a local
		for _, r := range *x.Referrers() {
			if st, ok := r.(*ssa.Store); ok && st.Addr == x && st.Val == root {
				return true
			}
		}
	}
	return false
}

// rt8StoreAt: instruction in is a store into a Transaction field (directly, by a
// storing method of the field's type, or by a static callee that must store).
func (e *rt8Engine) storeAt(in ssa.Instruction, depth int) *rt8Store {
	switch x := in.(type) {
	case *ssa.MapUpdate:
		if fld := rt8FieldOf(x.Map); fld != "" {
			return &rt8Store{in: in, field: fld, key: x.Key, how: "map update"}
		}
	case *ssa.Call:
		if f, fld := rt8ContainerMethod(x); f != nil {
			if !e.writes(f, 4) {
				return nil
			}
			st := &rt8Store{in: in, field: fld, how: "call of " + e.c.P.FnRef(f)}
			if len(x.Call.Args) >= 3 {
				if b, ok := x.Call.Args[1].Type().Underlying().(*types.Basic); ok && b.Info()&types.IsString != 0 {
					st.key = x.Call.Args[1]
				}
			}
			return st
		}
		if depth > 0 {
			if g := core.StaticCallee(x); g != nil && g.Blocks != nil && inModule(g) {
				for _, fld := range e.mustStoreFields(g, depth-1) {
					// one helper fills one cache; the first (sorted) field is reported
					return &rt8Store{in: in, field: fld, how: "call of " + e.c.P.FnRef(g) + ", which stores on every success path"}
				}
			}
		}
	}
	return nil
}

// fieldsStoredIn: Transaction fields fn stores into directly.
func (e *rt8Engine) fieldsStoredIn(fn *ssa.Function, depth int) []string {
	set := map[string]bool{}
	for _, b := range fn.Blocks {
		for _, in := range b.Instrs {
			if st := e.storeAt(in, depth); st != nil {
				set[st.field] = true
			}
		}
	}
	var out []string
	for f := range set {
		out = append(out, f)
	}
	sort.Strings(out)
	return out
}

// mayStoreFields: Transaction fields fn may store into: directly, or through a
// static callee (depth levels) that contains a store (on some path).
func (e *rt8Engine) mayStoreFields(fn *ssa.Function, depth int) map[string]bool {
	out := map[string]bool{}
	for _, f := range e.fieldsStoredIn(fn, 0) {
		out[f] = true
	}
	if depth > 0 {
		for _, call := range core.Calls(fn) {
			if g := core.StaticCallee(call); g != nil && g != fn && g.Blocks != nil && inModule(g) {
				for f := range e.mayStoreFields(g, depth-1) {
					out[f] = true
				}
			}
		}
	}
	return out
}

func (e *rt8Engine) mustStoreFields(g *ssa.Function, depth int) []string {
	var out []string
	k0 := fmt.Sprintf("%s|%d|", e.c.P.Name(g), depth)
	if done, ok := e.must[k0]; ok {
		if !done {
			return nil // recursion
		}
	} else {
		e.must[k0] = false
		for _, fld := range e.fieldsStoredIn(g, depth) {
			esc, n := e.escapes(g, []*ssa.BasicBlock{g.Blocks[0]}, fld, depth)
			e.must[k0+fld] = len(esc) == 0 && len(n) > 0
		}
		e.must[k0] = true
	}
	for k, v := range e.must {
		if v && strings.HasPrefix(k, k0) && len(k) > len(k0) {
			out = append(out, k[len(k0):])
		}
	}
	sort.Strings(out)
	return out
}

// rt8ErrorEdge: the edge from→to establishes e != nil for an error value e.
func rt8ErrorEdge(from, to *ssa.BasicBlock) bool {
	iff, ok := blockTerm(from).(*ssa.If)
	if !ok || len(from.Succs) != 2 || from.Succs[0] == from.Succs[1] {
		return false
	}
	x, isNeq, ok := core.NilCmp(iff.Cond)
	if !ok || !core.IsErrorType(x.Type()) {
		return false
	}
	if isNeq {
		return to == from.Succs[0]
	}
	return to == from.Succs[1]
}

// escapes walks from the start blocks along the edges on which no error test
// fails and returns the returns that can carry a nil error and are reached without
// crossing a store into field; n counts the stores that closed a path.
func (e *rt8Engine) escapes(fn *ssa.Function, starts []*ssa.BasicBlock, field string, depth int) (esc []*ssa.Return, stores []*rt8Store) {
	errIdx := core.ErrorResultIndex(fn)
	seen := map[*ssa.BasicBlock]bool{}
	seenStore := map[ssa.Instruction]bool{}
	var walk func(b *ssa.BasicBlock)
	walk = func(b *ssa.BasicBlock) {
		if seen[b] {
			return
		}
		seen[b] = true
		for _, in := range b.Instrs {
			if st := e.storeAt(in, depth); st != nil && st.field == field {
				if !seenStore[in] {
					seenStore[in] = true
					stores = append(stores, st)
				}
				return
			}
			if r, ok := in.(*ssa.Return); ok {
				if errIdx >= 0 {
					certain := true
					vals := core.ReturnOperand(r, errIdx)
					if len(vals) == 0 {
						certain = false
					}
					for _, v := range vals {
						if v == nil || core.ClassifyNil(v, r) != core.NonNil {
							certain = false
						}
					}
					if certain {
						return
					}
				}
				esc = append(esc, r)
				return
			}
		}
		for _, s := range b.Succs {
			if !rt8ErrorEdge(b, s) {
				walk(s)
			}
		}
	}
	for _, s := range starts {
		walk(s)
	}
	return
}

// rt8SameExpr: a and b are the same expression over the same operands.
func rt8SameExpr(a, b ssa.Value, depth int) bool {
	if a == b {
		return true
	}
	if depth == 0 {
		return false
	}
	switch x := a.(type) {
	case *ssa.Const:
		y, ok := b.(*ssa.Const)
		return ok && x.Value != nil && y.Value != nil && x.Value.ExactString() == y.Value.ExactString() && types.Identical(x.Type(), y.Type())
	case *ssa.Field:
		y, ok := b.(*ssa.Field)
		return ok && x.Field == y.Field && rt8SameExpr(x.X, y.X, depth-1)
	case *ssa.FieldAddr:
		y, ok := b.(*ssa.FieldAddr)
		return ok && x.Field == y.Field && rt8SameExpr(x.X, y.X, depth-1)
	case *ssa.UnOp:
		y, ok := b.(*ssa.UnOp)
		return ok && x.Op == y.Op && rt8SameExpr(x.X, y.X, depth-1)
	case *ssa.Convert:
		y, ok := b.(*ssa.Convert)
		return ok && types.Identical(x.Type(), y.Type()) && rt8SameExpr(x.X, y.X, depth-1)
	case *ssa.Call:
		y, ok := b.(*ssa.Call)
		if !ok || core.StaticCallee(x) == nil || core.StaticCallee(x) != core.StaticCallee(y) || len(x.Call.Args) != len(y.Call.Args) {
			return false
		}
		for i := range x.Call.Args {
			if !rt8SameExpr(x.Call.Args[i], y.Call.Args[i], depth-1) {
				return false
			}
		}
		return true
	}
	return false
}

type rt8Miss struct {
	from, to *ssa.BasicBlock
	field    string
	lookups  []rt8Lookup // own lookups of the subject that feed the flag (keys comparable)
	via      string
}

func ruleCache8(c *Ctx) {
	p := c.P
	e := &rt8Engine{c: c, writers: p.NameIs("(*sync.Map).Store", "(*sync.Map).LoadOrStore", "(*sync.Map).Swap"), must: map[string]bool{}}
	fns := p.FuncsIn(true, "lib/query")
	sortFuncs(p, fns)

	// found flags exported by closures / helpers: result index → field
	type flagKey struct {
		f   *ssa.Function
		idx int
	}
	lookupsOf := map[*ssa.Function][]rt8Lookup{}
	lk := func(f *ssa.Function) []rt8Lookup {
		if f == nil || f.Blocks == nil {
			return nil
		}
		if v, ok := lookupsOf[f]; ok {
			return v
		}
		v := rt8Lookups(f)
		lookupsOf[f] = v
		return v
	}
	exported := func(g *ssa.Function) map[int]string {
		out := map[int]string{}
		ls := lk(g)
		if len(ls) == 0 {
			return out
		}
		res := g.Signature.Results()
		for j := 0; j < res.Len(); j++ {
			if !rt8IsBool(res.At(j).Type()) {
				continue
			}
			for _, v := range core.ReturnedValues(g, j) {
				for _, l := range ls {
					if l.found != nil && v == l.found {
						out[j] = l.field
					}
				}
			}
		}
		return out
	}

	lookedUp := map[string][]string{} // field → functions that look it up (repository code)
	subjectsOf := map[string]int{}
	note := func(fld, fn string) {
		for _, x := range lookedUp[fld] {
			if x == fn {
				return
			}
		}
		lookedUp[fld] = append(lookedUp[fld], fn)
	}

	for _, fn := range fns {
		if fn.Blocks == nil {
			continue
		}
		// found flags and looked-up values visible in fn
		flags := map[ssa.Value]*rt8Miss{} // value → template (field, lookups, via)
		vals := map[ssa.Value]*rt8Miss{}
		own := lk(fn)
		for i := range own {
			l := own[i]
			if !p.IsControl(fn) {
				note(l.field, p.Name(fn))
			}
			t := &rt8Miss{field: l.field, lookups: []rt8Lookup{l}, via: "its lookup at " + c.Pos(l.in)}
			if l.found != nil {
				flags[l.found] = t
			}
			if l.val != nil {
				vals[l.val] = t
			}
		}
		for _, call := range core.Calls(fn) {
			cv, ok := call.(*ssa.Call)
			if !ok {
				continue
			}
			g := core.StaticCallee(call)
			if mc, isMC := call.Common().Value.(*ssa.MakeClosure); isMC {
				g, _ = mc.Fn.(*ssa.Function)
			}
			if g == nil || g.Blocks == nil || !inModule(g) {
				continue
			}
			ex := exported(g)
			var idxs []int
			for j := range ex {
				idxs = append(idxs, j)
			}
			sort.Ints(idxs)
			for _, j := range idxs {
				if !p.IsControl(fn) {
					note(ex[j], p.Name(fn))
				}
				if x := rt8Extract(cv, j); x != nil {
					flags[x] = &rt8Miss{field: ex[j], via: "the found flag returned by " + p.FnRef(g) + " at " + c.Pos(cv)}
				}
			}
		}
		if len(flags) == 0 && len(vals) == 0 {
			continue
		}
		// miss edges
		var misses []rt8Miss
		for _, b := range fn.Blocks {
			iff, ok := blockTerm(b).(*ssa.If)
			if !ok || len(b.Succs) != 2 || b.Succs[0] == b.Succs[1] {
				continue
			}
			cond, neg := iff.Cond, false
			for {
				u, ok := cond.(*ssa.UnOp)
				if !ok || u.Op != token.NOT {
					break
				}
				cond, neg = u.X, !neg
			}
			var t *rt8Miss
			missSucc := 1
			for _, o := range core.Origins(cond, false) {
				if x := flags[o]; x != nil {
					t = x
				}
			}
			if t == nil {
				if x, isNeq, ok := core.NilCmp(cond); ok {
					for _, o := range core.Origins(x, false) {
						if y := vals[o]; y != nil {
							t = y
						}
					}
					if t != nil && !isNeq {
						missSucc = 0 // v == nil: the true edge is the miss
					}
				}
			}
			if t == nil {
				continue
			}
			if neg {
				missSucc = 1 - missSucc
			}
			m := *t
			m.from, m.to = b, b.Succs[missSucc]
			misses = append(misses, m)
		}
		if len(misses) == 0 {
			continue
		}
		stored := e.mayStoreFields(fn, 2)
		byField := map[string][]rt8Miss{}
		var fields []string
		for _, m := range misses {
			if !stored[m.field] {
				continue // consults the cache without being its filler
			}
			if len(byField[m.field]) == 0 {
				fields = append(fields, m.field)
			}
			byField[m.field] = append(byField[m.field], m)
		}
		sort.Strings(fields)
		for _, fld := range fields {
			c.Touch(fn)
			if !p.IsControl(fn) {
				subjectsOf[fld]++
			}
			key := c.KeyAt(fn, "read-through fill of Transaction."+fld+" after a miss")
			var bad, good []string
			var pos string
			nstores := 0
			for _, m := range byField[fld] {
				esc, stores := e.escapes(fn, []*ssa.BasicBlock{m.to}, fld, 2)
				if pos == "" {
					pos = c.Pos(blockTerm(m.from))
				}
				for _, r := range esc {
					bad = append(bad, fmt.Sprintf("from the miss edge of the branch at %s (on %s) the return at %s is reached with a possibly nil error without a store into Transaction.%s: a store on that way stands under a condition, so the loaded resource is not entered and the next reference of the same transaction loads it again and may see another version", c.Pos(blockTerm(m.from)), m.via, c.Pos(r), fld))
				}
				for _, st := range stores {
					nstores++
					if st.key != nil && len(m.lookups) > 0 {
						same := false
						for _, l := range m.lookups {
							if l.key != nil && rt8SameExpr(core.Strip(st.key), core.Strip(l.key), 6) {
								same = true
							}
						}
						if !same {
							bad = append(bad, fmt.Sprintf("the %s at %s files the entry under %s, the lookup at %s asks for %s: the entry is never found again", st.how, c.Pos(st.in), valueLabel(st.key), c.Pos(m.lookups[0].in), valueLabel(m.lookups[0].key)))
							continue
						}
					}
					good = append(good, st.how+" at "+c.Pos(st.in))
				}
			}
			if len(bad) > 0 {
				bad = dedup(bad)
				sort.Strings(bad)
				c.Bad(key, pos, strings.Join(bad, " | "))
			} else if nstores == 0 {
				c.Bad(key, pos, "no certain store into Transaction."+fld+" is reachable from the miss edge on a path without a failed error test (a callee that stores only under a condition does not count)")
			} else {
				good = dedup(good)
				sort.Strings(good)
				c.OkN(key, pos, fmt.Sprintf("%d miss edge(s); every path without a failed error test from there to a return that can carry a nil error crosses: %s", len(byField[fld]), strings.Join(good, " / ")), len(byField[fld]))
			}
		}
	}

	// the per-transaction caches, by role: the looked-up fields that the release at the
	// end of a transaction (ReleaseResources and its static callees, 2 levels) touches;
	// other keyed fields (registries of declared objects) live across transactions
	released := map[string]bool{}
	if rel := c.Fn("lib/query.(*Transaction).ReleaseResources"); rel != nil {
		level := []*ssa.Function{rel}
		seenFn := map[*ssa.Function]bool{rel: true}
		for d := 0; d <= 2; d++ {
			var next []*ssa.Function
			for _, f := range level {
				for _, b := range f.Blocks {
					for _, in := range b.Instrs {
						if fa, ok := in.(*ssa.FieldAddr); ok && strings.HasPrefix(core.FieldOwner(fa), rt8Owner+".") {
							released[core.FieldName(fa)] = true
						}
					}
				}
				for _, call := range core.Calls(f) {
					if g := core.StaticCallee(call); g != nil && g.Blocks != nil && inModule(g) && !seenFn[g] {
						seenFn[g] = true
						next = append(next, g)
					}
				}
			}
			level = next
		}
	}
	var flds []string
	for f := range lookedUp {
		if released[f] {
			flds = append(flds, f)
		}
	}
	sort.Strings(flds)
	for _, fld := range flds {
		key := "Transaction." + fld + ": a keyed cache that is consulted is filled on a miss"
		who := append([]string(nil), lookedUp[fld]...)
		sort.Strings(who)
		if subjectsOf[fld] == 0 {
			c.Bad(key, "-", fmt.Sprintf("Transaction.%s is looked up by key with a found flag in %s, but no lib/query function branches on that flag and stores into the field: every reference loads the resource again, two reads of one transaction can see two versions", fld, strings.Join(who, ", ")))
		} else {
			c.Ok(key, "-", fmt.Sprintf("looked up in %s; %d filling function(s)", strings.Join(who, ", "), subjectsOf[fld]))
		}
	}
	if len(flds) == 0 {
		c.Unknown("Transaction: keyed caches", "-", "cannot-analyse: no field of lib/query.Transaction is looked up by key with a found flag in lib/query")
	}
}
