package rules

import (
	"fmt"
	"go/token"
	"strings"

	"golang.org/x/tools/go/ssa"

	"verif/checker/core"
)

// C01 — a transaction reaches the files all-or-nothing.

func init() {
	Register(&Rule{ID: "R-TXN-6", Props: []string{"C01", "C10", "C11"}, Floor: 8,
		Doc:      "in every lib/query function reachable from EncodeView, each path that starts at the true edge of a `ctx.Err() != nil` test ends in a return whose error is provably non-nil: a cancelled encode can never be reported as success (and then be swapped over the table file)",
		Controls: []string{"CtlCancelSwallowed"},
		Run:      ruleTxn6})
}

// isCtxErrNonNil: cond is `<ctx>.Err() != nil`.
func isCtxErrNonNil(cond ssa.Value) bool {
	v, neq, ok := core.NilCmp(cond)
	if !ok || !neq {
		return false
	}
	call, ok := v.(*ssa.Call)
	if !ok || !call.Common().IsInvoke() || call.Common().Method.Name() != "Err" {
		return false
	}
	return strings.HasSuffix(call.Common().Value.Type().String(), "context.Context")
}

func ruleTxn6(c *Ctx) {
	root := c.Fn("lib/query.EncodeView")
	if root == nil {
		return
	}
	var fns []*ssa.Function
	for f := range c.P.ReachSet(root) {
		if c.P.InPkg(f, "lib/query") && f.Blocks != nil {
			fns = append(fns, f)
		}
	}
	for _, f := range c.P.FuncsIn(true) { // controls
		fns = append(fns, f)
	}
	sortFuncs(c.P, fns)
	for _, fn := range fns {
		errIdx := core.ErrorResultIndex(fn)
		n := 0
		for _, b := range fn.Blocks {
			iff, ok := b.Instrs[len(b.Instrs)-1].(*ssa.If)
			if !ok || !isCtxErrNonNil(iff.Cond) {
				continue
			}
			n++
			c.Touch(fn)
			key := c.KeyAt(fn, fmt.Sprintf("cancellation test #%d", n))
			if errIdx < 0 {
				c.Unknown(key, c.Pos(iff), "function tests for cancellation but has no error result to report it")
				continue
			}
			t := b.Succs[0]
			region := core.RegionFrom(t)
			bad := ""
			rets := 0
			for _, r := range core.Returns(fn) {
				if !region[r.Block()] {
					continue
				}
				rets++
				for _, v := range core.ValuesOnPathsFrom(b, t, r.Results[errIdx], r) {
					if k := core.ClassifyNil(v, r); k != core.NonNil {
						what := "nil"
						if k == core.MaybeNil {
							what = "a possibly-nil error (" + valueLabel(v) + ")"
						}
						bad = fmt.Sprintf("after the cancellation test succeeds, the return at %s can yield %s: the caller treats the truncated output as complete", c.Pos(r), what)
					}
				}
			}
			if bad != "" {
				c.Bad(key, c.Pos(iff), bad)
			} else if rets == 0 {
				c.Unknown(key, c.Pos(iff), "no return reachable from the cancellation edge")
			} else {
				c.Ok(key, c.Pos(iff), fmt.Sprintf("%d return(s) reachable from the cancellation edge, each returns a constructed error", rets))
			}
		}
	}
}

func sortFuncs(p *core.Prog, fns []*ssa.Function) {
	for i := 1; i < len(fns); i++ {
		for j := i; j > 0 && p.Name(fns[j]) < p.Name(fns[j-1]); j-- {
			fns[j], fns[j-1] = fns[j-1], fns[j]
		}
	}
}

var _ = token.NoPos
