package rules

import (
	"fmt"
	"go/constant"
	"go/token"
	"go/types"
	"sort"
	"strings"

	"golang.org/x/tools/go/ssa"

	"verif/checker/core"
)

// C02 — what is written reads back as the same table. Decided here: the
// per-file dialect (format, delimiter, encoding, line break, header convention,
// …) flows load → FileInfo → ExportOptions → writer, writer errors surface, and
// the format→encoder / format→loader dispatch tables agree.

const (
	fxEncodeView    = "lib/query.EncodeView"
	fxExportOptions = "lib/query.(*FileInfo).ExportOptions"
	fxCommit        = "lib/query.(*Transaction).Commit"
	fxLoadFromFile  = "lib/query.loadViewFromFile"
	fxGoText        = "github.com/mithrandie/go-text"
)

// the ten dialect fields: ExportOptions field <- FileInfo field (documented in
// docs/_posts/reference/…: "table attributes").
var fxDialect = []struct{ Out, In string }{
	{"Format", "Format"},
	{"Delimiter", "Delimiter"},
	{"DelimiterPositions", "DelimiterPositions"},
	{"SingleLine", "SingleLine"},
	{"Encoding", "Encoding"},
	{"LineBreak", "LineBreak"},
	{"WithoutHeader", "NoHeader"},
	{"EncloseAll", "EncloseAll"},
	{"JsonEscape", "JsonEscape"},
	{"PrettyPrint", "PrettyPrint"},
}

func fxIsDialectField(name string) bool {
	for _, d := range fxDialect {
		if d.Out == name {
			return true
		}
	}
	return false
}

func init() {
	Register(&Rule{ID: "R-FMT-1", Props: []string{"C02"}, Floor: 1,
		Doc:      "every EncodeView call that writes into a table file (writer obtained from (*file.Handler).FileForUpdate; a writer, options, view or FileInfo parameter of a private helper is mapped back to the argument of each calling context) receives as options the result of (*FileInfo).ExportOptions called on the FileInfo of the view being written — never the session options",
		Controls: []string{"CtlEncodeWithSessionOptions", "CtlEncodeHelperOtherFileInfo"},
		Run:      ruleFmt1})
	Register(&Rule{ID: "R-FMT-2", Props: []string{"C02"}, Floor: 20,
		Doc:      "(*FileInfo).ExportOptions copies each of the 10 dialect fields (Format, Delimiter, DelimiterPositions, SingleLine, Encoding, LineBreak, NoHeader→WithoutHeader, EncloseAll, JsonEscape, PrettyPrint) of the returned options from the receiver; the last store to each field before the return is a load of the receiver's field (composite literal and field-store spellings alike). The presentation field Color is the constant false in the returned options (ANSI escape sequences are for the terminal: a coloured JSON file cannot be loaded again). The field table is complete: every field of option.ExportOptions that an encoder of the six file formats reads (the lib/query functions reachable from EncodeView, the text-table encoder excepted) is one of the 10 dialect fields, a constant field, or a listed session-level value-spelling switch (ScientificNotation)",
		Controls: []string{"CtlExportOptionsKeepsSessionEncoding", "CtlExportOptionsKeepsSessionColor"},
		Run:      ruleFmt2})
	Register(&Rule{ID: "R-FMT-3", Props: []string{"C02"}, Floor: 11,
		Doc:      "each loader dispatched by loadViewFromFile records what it detects in the FileInfo it was given: detected encoding → Encoding, reader.DetectedLineBreak → LineBreak, reader.EnclosedAll → EncloseAll, JSON escape type → JsonEscape and UTF8 → Encoding for the JSON loaders (one obligation per detection source the loader creates)",
		Controls: []string{"CtlLoaderDropsLineBreak", "CtlLoaderHelperDropsEncoding"},
		Run:      ruleFmt3})
	Register(&Rule{ID: "R-FMT-4", Props: []string{"C02"}, Floor: 2,
		Doc:      "in Transaction.Commit and the lib/query helpers of the commit path (those that reach an os.File write and are handed a file / writer / handler / FileInfo / view; EncodeView and FileInfo.ExportOptions excluded) (i) none of the 10 dialect fields and no presentation field (Color) of the session options tx.Flags.ExportOptions is read, also not through a local copy of the flags, and (ii) every line break written directly into a table file (os.File.Write / WriteString / io.Writer.Write whose bytes come from a LineBreak.Value() or a CR/LF constant, followed through conversions, locals, phis and helper parameters; a write into a file parameter of a helper is judged once per calling context of the commit path, the file and FileInfo parameters mapped back to the caller's arguments) is made from the LineBreak of the FileInfo being written or of its own ExportOptions — a session-flag or constant origin is reported as such",
		Controls: []string{"CtlCommitReadsSessionLineBreak", "CtlCommitHoistedSessionLineBreak", "CtlCommitHelperOtherFileLineBreak"},
		Run:      ruleFmt4})
	Register(&Rule{ID: "R-FMT-5", Props: []string{"C02"}, Floor: 20,
		Doc:      "in the lib/query functions reachable from EncodeView every error returned by a go-text/bufio writer or encoder (NewWriter, Write, WriteString, Flush, Encode) is either returned or tested with `!= nil` on an edge from which every return yields a non-nil error",
		Controls: []string{"CtlWriterErrorDropped"},
		Run:      ruleFmt5})
	Register(&Rule{ID: "R-FMT-6", Props: []string{"C02"}, Floor: 18,
		Doc:      "the format→encoder dispatch of EncodeView and the format→loader dispatch of loadViewFromFile (switch, if-chain or map literal) equal the specification table: each of CSV, TSV, FIXED, JSON, JSONL, LTSV is written and read by the go-text package of that format, text-table formats are encoded by the table encoder, TSV forces the tab delimiter on both sides, and option.ImportFormats lists exactly the loadable formats",
		Controls: []string{"CtlEncoderTableSwapped"},
		Run:      ruleFmt6})
}

// ---------------------------------------------------------------------------
// small helpers (prefix fx: shared by the c02/c05/c17/c18/c20 files)

// fxFieldLoad: v is `*(&X.f)`; returns the FieldAddr.
func fxFieldLoad(v ssa.Value) *ssa.FieldAddr {
	u, ok := v.(*ssa.UnOp)
	if !ok || u.Op != token.MUL {
		return nil
	}
	fa, _ := u.X.(*ssa.FieldAddr)
	return fa
}

// fxStripConv removes ChangeType / Convert wrappers.
func fxStripConv(v ssa.Value) ssa.Value {
	for {
		switch x := v.(type) {
		case *ssa.ChangeType:
			v = x.X
		case *ssa.Convert:
			v = x.X
		default:
			return v
		}
	}
}

// fxCallOf returns the call a value is (one of) the result(s) of.
func fxCallOf(v ssa.Value) (*ssa.Call, int) {
	if c, i, ok := core.ExtractOf(v); ok {
		return c, i
	}
	return nil, -1
}

func fxCtlFuncs(c *Ctx) []*ssa.Function { return c.P.FuncsIn(true) }

func fxParamOfType(fn *ssa.Function, named string) *ssa.Parameter {
	for _, p := range fn.Params {
		if core.NamedOf(p.Type()) == named {
			return p
		}
	}
	return nil
}

// fxWithClosures returns fn and, recursively, the anonymous functions it defines.
func fxWithClosures(fn *ssa.Function) []*ssa.Function {
	out := []*ssa.Function{fn}
	for _, a := range fn.AnonFuncs {
		out = append(out, fxWithClosures(a)...)
	}
	return out
}

// ---------------------------------------------------------------------------
// R-FMT-1

func ruleFmt1(c *Ctx) {
	if c.Fn(fxEncodeView) == nil || c.Fn(fxExportOptions) == nil || c.Fn(fxCommit) == nil {
		return
	}
	fns := c.P.FuncsIn(true, "lib/query")
	perFn := map[*ssa.Function]int{}
	commitSites := 0
	fromCommit := c.P.ReachSet(c.P.Func(fxCommit)) // Commit or a helper extracted from it
	for _, fn := range fns {
		for _, call := range c.P.CallsNamed(fn, fxEncodeView) {
			c.Sites++
			args := call.Common().Args
			if len(args) < 4 {
				continue
			}
			// the writer may be a parameter of a private helper (the encode block of Commit moved
			// out): each calling context is judged with the values the caller hands over
			for _, ctx := range fxLift(c, args[1], fn, 3) {
				toTableFile := false
				for _, o := range core.Origins(ctx.V, true) {
					if oc, _ := fxCallOf(o); oc != nil && c.P.CalleeName(oc) == "lib/file.(*Handler).FileForUpdate" {
						toTableFile = true
					}
				}
				if !toTableFile {
					continue // prints a result set (stdout / --out): the session options apply
				}
				host := ctx.Fn
				c.Touch(fn)
				c.Touch(host)
				perFn[host]++
				if fromCommit[fxRootFn(host)] {
					commitSites++
				}
				key := c.KeyAt(host, fmt.Sprintf("EncodeView into a table file #%d", perFn[host]))
				in := ctx.At(call.(ssa.Instruction))
				n := len(ctx.Chain)
				opts, ol := fxMapUp(ctx.Chain, args[3], n)
				bad := ""
				for _, o := range fxStructOrigins(opts) {
					oc, _ := fxCallOf(o)
					if oc == nil || c.P.CalleeName(oc) != fxExportOptions {
						bad = fmt.Sprintf("the options argument is %s, not the result of (*FileInfo).ExportOptions: the file would be rewritten in the session's dialect instead of its own", valueLabel(o))
						break
					}
					// the FileInfo and the view are compared in a function that sees both
					recv, rl := oc.Common().Args[0], ol
					view, vl := args[2], n
					same := false
					for {
						if rl == vl && fxFileInfoOfView(c, recv, view) {
							same = true
							break
						}
						moved := false
						if rl >= vl {
							if w, ok := fxUp1(ctx.Chain, recv, rl); ok {
								recv, rl, moved = w, rl-1, true
							}
						}
						if vl > rl || (!moved && vl == rl) {
							if w, ok := fxUp1(ctx.Chain, view, vl); ok {
								view, vl, moved = w, vl-1, true
							}
						}
						if !moved {
							break
						}
					}
					if !same {
						bad = fmt.Sprintf("ExportOptions is called on %s, which is not the FileInfo of the view being written (neither view.FileInfo nor the FileInfo whose IdentifiedPath selected the view)", valueLabel(recv))
						break
					}
				}
				if bad != "" {
					c.Bad(key, c.Pos(in), bad)
				} else {
					c.Ok(key, c.Pos(in), "options = ExportOptions() of the FileInfo of the written view")
				}
			}
		}
	}
	if commitSites == 0 {
		c.Unknown(c.KeyAt(c.P.Func(fxCommit), "EncodeView into a table file"), "-", "neither Transaction.Commit nor a function it calls passes a writer obtained from Handler.FileForUpdate to EncodeView: the rule does not see how table files are written")
	}
}

// fxStructOrigins is core.Origins that also reads through a local struct
// variable (`opts := f.ExportOptions(tx); … opts.Format … EncodeView(…, opts, …)`):
// the variable's whole-struct stores, provided none of its fields is ever
// assigned (a field assignment makes the variable itself the origin).
func fxStructOrigins(v ssa.Value) []ssa.Value {
	var out []ssa.Value
	for _, o := range core.Origins(v, false) {
		al, _ := core.Addr(o).(*ssa.Alloc)
		if al == nil || al.Referrers() == nil {
			out = append(out, o)
			continue
		}
		var whole []ssa.Value
		clean := true
		for _, r := range *al.Referrers() {
			switch x := r.(type) {
			case *ssa.Store:
				if x.Addr == al {
					whole = append(whole, x.Val)
				} else {
					clean = false
				}
			case *ssa.UnOp, *ssa.DebugRef:
			case *ssa.FieldAddr:
				for _, rr := range *x.Referrers() {
					switch y := rr.(type) {
					case *ssa.UnOp, *ssa.DebugRef:
					case *ssa.Store:
						if y.Addr == x {
							clean = false
						}
					default:
						clean = false
					}
				}
			default:
				clean = false
			}
		}
		if !clean || len(whole) == 0 {
			out = append(out, o)
			continue
		}
		for _, w := range whole {
			out = append(out, fxStructOrigins(w)...)
		}
	}
	return out
}

// fxFileInfoOfView: recv is view.FileInfo, or view was fetched from the cache
// under recv.IdentifiedPath().
func fxFileInfoOfView(c *Ctx, recv, view ssa.Value) bool {
	for _, r := range core.Origins(recv, false) {
		if fa := fxFieldLoad(r); fa != nil && core.FieldOwner(fa) == "lib/query.View.FileInfo" {
			for _, v := range core.Origins(view, false) {
				for _, b := range core.Origins(fa.X, false) {
					if v == b {
						return true
					}
				}
			}
		}
	}
	for _, v := range core.Origins(view, false) {
		vc, _ := fxCallOf(v)
		if vc == nil {
			continue
		}
		vf := core.StaticCallee(vc)
		if vf == nil || vf.Signature.Recv() == nil || core.NamedOf(vf.Signature.Recv().Type()) != "lib/query.ViewMap" || (vf.Name() != "Get" && vf.Name() != "Load") {
			continue
		}
		for _, a := range vc.Common().Args[1:] {
			for _, k := range core.Origins(a, false) {
				// through strings.ToUpper(x)
				if kc, _ := fxCallOf(k); kc != nil && c.P.CalleeName(kc) == "strings.ToUpper" {
					k = kc.Common().Args[0]
				}
				if kc, _ := fxCallOf(k); kc != nil && c.P.CalleeName(kc) == "lib/query.(*FileInfo).IdentifiedPath" {
					if kc.Common().Args[0] == recv {
						return true
					}
				}
			}
		}
	}
	return false
}

// ---------------------------------------------------------------------------
// R-FMT-2

func ruleFmt2(c *Ctx) {
	if fn := c.Fn(fxExportOptions); fn != nil {
		fxCheckDialectCopy(c, fn)
	}
	fxCheckOptionTableComplete(c)
	for _, fn := range fxCtlFuncs(c) {
		if strings.HasPrefix(fn.Name(), "CtlExportOptions") || strings.HasPrefix(fn.Name(), "okExportOptions") {
			c.Touch(fn)
			fxCheckDialectCopy(c, fn)
		}
	}
}

func fxCheckDialectCopy(c *Ctx, fn *ssa.Function) {
	recv := fxParamOfType(fn, "lib/query.FileInfo")
	rets := core.Returns(fn)
	if recv == nil || len(rets) == 0 {
		c.Unknown(c.KeyAt(fn, "dialect copy"), c.FnPos(fn), "cannot-analyse: no *FileInfo parameter or no return")
		return
	}
	fxCheckFileConstFields(c, fn, rets)
	for _, d := range fxDialect {
		key := c.KeyAt(fn, "ExportOptions."+d.Out+" <- FileInfo."+d.In)
		status, why, pos := Discharged, "", c.FnPos(fn)
		for _, r := range rets {
			if len(r.Results) == 0 {
				continue
			}
			ld, ok := r.Results[0].(*ssa.UnOp)
			var cell *ssa.Alloc
			if ok && ld.Op == token.MUL {
				cell, _ = ld.X.(*ssa.Alloc)
			}
			if cell == nil || core.NamedOf(cell.Type()) != "lib/option.ExportOptions" {
				status, why, pos = Undecided, "the returned options are not a struct built in this function (a local variable or composite literal): "+valueLabel(r.Results[0]), c.Pos(r)
				break
			}
			st, w := fxLastFieldStore(cell, d.Out, ld)
			if st == nil {
				status, pos = Violated, c.Pos(r)
				why = fmt.Sprintf("cell %s: no assignment of this field reaches the return%s — the written file gets the session's %s instead of the file's own", d.Out, w, d.Out)
				break
			}
			src := fxFieldLoad(fxStripConv(st.Val))
			if src == nil || src.X != recv || core.FieldName(src) != d.In {
				status, pos = Violated, c.Pos(st)
				why = fmt.Sprintf("cell %s: assigned from %s, expected the receiver's FileInfo.%s", d.Out, valueLabel(st.Val), d.In)
				break
			}
			why = fmt.Sprintf("last store before the return copies FileInfo.%s", d.In)
			pos = c.Pos(st)
		}
		switch status {
		case Discharged:
			c.OkN(key, pos, why, 1)
		case Violated:
			c.Bad(key, pos, why)
		default:
			c.Unknown(key, pos, why)
		}
	}
}

// fxLastFieldStore finds the store to cell.field that is the last write of that
// field on every path to `at`: it dominates `at` and no other write of the field
// (or of the whole struct) can execute between it and `at`.
func fxLastFieldStore(cell *ssa.Alloc, field string, at ssa.Instruction) (*ssa.Store, string) {
	var fieldStores, whole []*ssa.Store
	for _, r := range *cell.Referrers() {
		switch x := r.(type) {
		case *ssa.Store:
			if x.Addr == cell {
				whole = append(whole, x)
			}
		case *ssa.FieldAddr:
			if core.FieldName(x) != field {
				continue
			}
			for _, rr := range *x.Referrers() {
				if st, ok := rr.(*ssa.Store); ok && st.Addr == x {
					fieldStores = append(fieldStores, st)
				}
			}
		}
	}
	writes := append(append([]*ssa.Store(nil), fieldStores...), whole...)
	for _, st := range fieldStores {
		if !core.Dominates(st, at) {
			continue
		}
		clobbered := false
		for _, w := range writes {
			if w != st && core.Reachable(st, w, nil) && core.Reachable(w, at, nil) {
				clobbered = true
			}
		}
		if !clobbered {
			return st, ""
		}
	}
	if len(fieldStores) > 0 {
		return nil, " on every path (it is assigned conditionally or overwritten)"
	}
	return nil, ""
}

// ---------------------------------------------------------------------------
// R-FMT-3

type fxSource struct {
	field string // FileInfo field that must receive it
	what  string
	// match: o is one resolved origin of a stored value; resolve maps a value to
	// its origins (through a helper's parameters to the caller's arguments)
	match func(o ssa.Value, resolve func(ssa.Value) []ssa.Value) bool
	pos   string
}

func fxStructField(t types.Type, name string) bool {
	if p, ok := t.Underlying().(*types.Pointer); ok {
		t = p.Elem()
	}
	st, ok := t.Underlying().(*types.Struct)
	if !ok {
		return false
	}
	for i := 0; i < st.NumFields(); i++ {
		if st.Field(i).Name() == name {
			return true
		}
	}
	return false
}

func fxResultTypes(call *ssa.Call) []types.Type {
	if tup, ok := call.Type().(*types.Tuple); ok {
		var out []types.Type
		for i := 0; i < tup.Len(); i++ {
			out = append(out, tup.At(i).Type())
		}
		return out
	}
	return []types.Type{call.Type()}
}

func fxIsResult(v ssa.Value, call *ssa.Call, idx int) bool {
	c, i := fxCallOf(v)
	return c == call && i == idx
}

func ruleFmt3(c *Ctx) {
	root := c.Fn(fxLoadFromFile)
	if root == nil {
		return
	}
	var loaders []*ssa.Function
	seen := map[*ssa.Function]bool{}
	for _, call := range core.Calls(root) {
		f := core.StaticCallee(call)
		if f == nil || !c.P.InPkg(f, "lib/query") || f.Blocks == nil || seen[f] {
			continue
		}
		if fxParamOfType(f, "lib/query.FileInfo") == nil || f.Signature.Results().Len() != 2 || core.NamedOf(f.Signature.Results().At(0).Type()) != "lib/query.View" {
			continue
		}
		seen[f] = true
		loaders = append(loaders, f)
	}
	for _, f := range fxCtlFuncs(c) {
		if strings.HasPrefix(f.Name(), "CtlLoader") || strings.HasPrefix(f.Name(), "okLoader") {
			loaders = append(loaders, f)
		}
	}
	sortFuncs(c.P, loaders)
	utf8 := fxTextConst(c, "UTF8")
	for _, L := range loaders {
		c.Touch(L)
		fns := fxWithClosures(L)
		// detection may be delegated to a lib/query helper that is handed the
		// loader's FileInfo (one detectFileEncoding shared by several loaders): its
		// sources count for this loader — one obligation per loader and source, so
		// merging the blocks of three loaders into one helper keeps three obligations
		scan := append([]*ssa.Function(nil), fns...)
		seenH := map[*ssa.Function]bool{}
		lparam := fxParamOfType(L, "lib/query.FileInfo")
		for _, fn := range fns {
			for _, ci := range core.Calls(fn) {
				H := core.StaticCallee(ci)
				if H == nil || H.Blocks == nil || H == L || seenH[H] || !c.P.InPkg(H, "lib/query", core.ControlPkg) || fxParamOfType(H, "lib/query.FileInfo") == nil {
					continue
				}
				handed := false
				for _, a := range ci.Common().Args {
					for _, o := range core.Origins(a, false) {
						if lparam != nil && o == ssa.Value(lparam) {
							handed = true
						}
					}
				}
				if handed {
					seenH[H] = true
					scan = append(scan, fxWithClosures(H)...)
					c.Touch(H)
				}
			}
		}
		var srcs []fxSource
		hasEscape := false
		for _, fn := range scan {
			for _, ci := range core.Calls(fn) {
				call, ok := ci.(*ssa.Call)
				if !ok {
					continue
				}
				name := c.P.CalleeName(call)
				if name == fxGoText+".DetectInSpecifiedEncoding" {
					cc := call
					srcs = append(srcs, fxSource{"Encoding", "the encoding detected by text.DetectInSpecifiedEncoding", func(v ssa.Value, _ func(ssa.Value) []ssa.Value) bool { return fxIsResult(v, cc, 0) }, c.Pos(call)})
					continue
				}
				callee := core.StaticCallee(call)
				if callee == nil || c.P.InPkg(callee, "lib/query") {
					continue
				}
				for i, t := range fxResultTypes(call) {
					cc, ii := call, i
					if i == 0 {
						for _, pair := range [][2]string{{"DetectedLineBreak", "LineBreak"}, {"EnclosedAll", "EncloseAll"}} {
							if fxStructField(t, pair[0]) {
								rf := pair[0]
								srcs = append(srcs, fxSource{pair[1], fmt.Sprintf("field %s of the reader created by %s", rf, calleeLabel(call)), func(v ssa.Value, resolve func(ssa.Value) []ssa.Value) bool {
									fa := fxFieldLoad(v)
									if fa == nil || core.FieldName(fa) != rf {
										return false
									}
									for _, o := range resolve(fa.X) {
										if fxIsResult(o, cc, 0) {
											return true
										}
									}
									return false
								}, c.Pos(call)})
							}
						}
					}
					if types.TypeString(t, nil) == fxGoText+"/json.EscapeType" {
						hasEscape = true
						srcs = append(srcs, fxSource{"JsonEscape", fmt.Sprintf("the escape type reported by %s", calleeLabel(call)), func(v ssa.Value, _ func(ssa.Value) []ssa.Value) bool { return fxIsResult(v, cc, ii) }, c.Pos(call)})
					}
				}
			}
		}
		if hasEscape {
			srcs = append(srcs, fxSource{"Encoding", "UTF-8 (JSON text is always read and written as UTF-8)", func(v ssa.Value, _ func(ssa.Value) []ssa.Value) bool {
				k, ok := v.(*ssa.Const)
				return ok && utf8 != nil && k.Value != nil && constant.Compare(k.Value, token.EQL, utf8.Val()) && types.Identical(k.Type(), utf8.Type())
			}, c.FnPos(L)})
		}
		if len(srcs) == 0 {
			c.Unknown(c.KeyAt(L, "detections"), c.FnPos(L), "loader creates no reader/detector the rule knows: it cannot tell what the loader detects")
			continue
		}
		// stores into FileInfo fields of the loader's own FileInfo parameter, in the
		// loader, its closures, and lib/query helpers it hands that FileInfo to
		type fstore struct {
			field   string
			st      *ssa.Store
			resolve func(ssa.Value) []ssa.Value
		}
		plain := func(v ssa.Value) []ssa.Value { return core.Origins(v, false) }
		isOwnFileInfo := func(v ssa.Value, resolve func(ssa.Value) []ssa.Value) bool {
			for _, o := range resolve(v) {
				if p, ok := o.(*ssa.Parameter); ok && p.Parent() == L {
					return true
				}
				if fv, ok := o.(*ssa.FreeVar); ok && core.NamedOf(fv.Type()) == "lib/query.FileInfo" {
					return true
				}
			}
			return false
		}
		var stores []fstore
		collect := func(fn *ssa.Function, resolve func(ssa.Value) []ssa.Value) {
			for _, b := range fn.Blocks {
				for _, in := range b.Instrs {
					st, ok := in.(*ssa.Store)
					if !ok {
						continue
					}
					fa, ok := st.Addr.(*ssa.FieldAddr)
					if !ok || !strings.HasPrefix(core.FieldOwner(fa), "lib/query.FileInfo.") {
						continue
					}
					if isOwnFileInfo(fa.X, resolve) {
						stores = append(stores, fstore{core.FieldName(fa), st, resolve})
					}
				}
			}
		}
		for _, fn := range fns {
			collect(fn, plain)
			for _, ci := range core.Calls(fn) {
				call, ok := ci.(*ssa.Call)
				if !ok {
					continue
				}
				H := core.StaticCallee(call)
				if H == nil || H.Blocks == nil || H == L || !c.P.InPkg(H, "lib/query", core.ControlPkg) || fxParamOfType(H, "lib/query.FileInfo") == nil {
					continue
				}
				args := call.Common().Args
				hh := H
				collect(H, func(v ssa.Value) []ssa.Value {
					var out []ssa.Value
					for _, o := range core.Origins(v, false) {
						if p, ok := o.(*ssa.Parameter); ok && p.Parent() == hh {
							for i, hp := range hh.Params {
								if hp == p && i < len(args) {
									out = append(out, core.Origins(args[i], false)...)
								}
							}
							continue
						}
						out = append(out, o)
					}
					return out
				})
			}
		}
		n := map[string]int{}
		for _, s := range srcs {
			n[s.field]++
			key := c.KeyAt(L, "FileInfo."+s.field+" <- "+s.what)
			found := false
			pos := s.pos
			for _, fs := range stores {
				if fs.field != s.field {
					continue
				}
				for _, o := range fs.resolve(fs.st.Val) {
					if s.match(fxStripConv(o), fs.resolve) {
						found = true
						pos = c.Pos(fs.st)
					}
				}
			}
			if found {
				c.Ok(key, pos, "stored into the FileInfo handed to the loader")
			} else {
				c.Bad(key, pos, fmt.Sprintf("%s is never stored into fileInfo.%s: an UPDATE followed by COMMIT rewrites the file with the session default instead of what was detected", s.what, s.field))
			}
		}
	}
}

func fxTextConst(c *Ctx, name string) *types.Const {
	for _, pk := range c.P.SSA.AllPackages() {
		if pk.Pkg.Path() == fxGoText {
			k, _ := pk.Pkg.Scope().Lookup(name).(*types.Const)
			return k
		}
	}
	return nil
}

// ---------------------------------------------------------------------------
// R-FMT-4

// fxSessionOptionField: v addresses/extracts a field of Flags.ExportOptions;
// returns the field name.
func fxSessionOptionField(in ssa.Instruction) string {
	isSession := func(x ssa.Value) bool { return fxIsSessionOptions(x, 0) }
	switch x := in.(type) {
	case *ssa.FieldAddr:
		if isSession(x.X) {
			return core.FieldName(x)
		}
	case *ssa.Field:
		if isSession(x.X) {
			return core.FieldName(x)
		}
	}
	return ""
}

// fxIsSessionOptions: x is &flags.ExportOptions, a load of it, or a local
// variable that only ever holds a copy of it (`exportOptions := tx.Flags.ExportOptions`).
func fxIsSessionOptions(x ssa.Value, depth int) bool {
	if depth > 3 {
		return false
	}
	if u, ok := x.(*ssa.UnOp); ok && u.Op == token.MUL {
		x = u.X
	}
	switch a := x.(type) {
	case *ssa.FieldAddr:
		return core.FieldOwner(a) == "lib/option.Flags.ExportOptions"
	case *ssa.Alloc:
		if core.NamedOf(a.Type()) != "lib/option.ExportOptions" || a.Referrers() == nil {
			return false
		}
		n := 0
		for _, r := range *a.Referrers() {
			if st, ok := r.(*ssa.Store); ok && st.Addr == a {
				if !fxIsSessionOptions(st.Val, depth+1) {
					return false
				}
				n++
			}
		}
		return n > 0
	}
	return false
}

// what the bytes of a trailing write are
const (
	fxLbFile    = iota // LineBreak of a FileInfo (x = the *FileInfo)
	fxLbFileOps        // LineBreak of the options returned by (*FileInfo).ExportOptions
	fxLbSession        // LineBreak of the session flags
	fxLbConst          // a constant line break
	fxLbParam          // parameter #idx of the enclosing helper
	fxLbOther          // anything else
)

type fxLbLeaf struct {
	kind int
	x    ssa.Value
	idx  int
	what string
}

// fxLineBreakOrigin follows the bytes handed to a file write back through
// conversions, locals and phis to the LineBreak they were made from. isLB tells
// whether a LineBreak.Value() call (or a constant made of CR/LF) was met at all.
func fxLineBreakOrigin(c *Ctx, v ssa.Value) (leaves []fxLbLeaf, isLB bool) {
	seen := map[ssa.Value]bool{}
	var lbOf func(v ssa.Value)
	lbOf = func(v ssa.Value) { // v has type text.LineBreak
		if seen[v] {
			return
		}
		seen[v] = true
		switch x := v.(type) {
		case *ssa.Phi:
			for _, e := range x.Edges {
				lbOf(e)
			}
			return
		case *ssa.Parameter:
			for i, p := range x.Parent().Params {
				if p == x {
					leaves = append(leaves, fxLbLeaf{kind: fxLbParam, idx: i})
				}
			}
			return
		case *ssa.Field:
			if core.FieldName(x) == "LineBreak" && fxIsSessionOptions(x.X, 0) {
				leaves = append(leaves, fxLbLeaf{kind: fxLbSession})
				return
			}
		case *ssa.UnOp:
			if x.Op != token.MUL {
				break
			}
			switch a := x.X.(type) {
			case *ssa.FieldAddr:
				switch core.FieldOwner(a) {
				case "lib/query.FileInfo.LineBreak":
					leaves = append(leaves, fxLbLeaf{kind: fxLbFile, x: a.X})
					return
				case "lib/option.ExportOptions.LineBreak":
					if fxIsSessionOptions(a.X, 0) {
						leaves = append(leaves, fxLbLeaf{kind: fxLbSession})
						return
					}
					// options of the file: a local that holds the result of (*FileInfo).ExportOptions
					if al, ok := a.X.(*ssa.Alloc); ok {
						fromFile := false
						for _, r := range *al.Referrers() {
							if st, ok := r.(*ssa.Store); ok && st.Addr == al {
								fromFile = false
								for _, o := range core.Origins(st.Val, false) {
									if oc, _ := fxCallOf(o); oc != nil && c.P.CalleeName(oc) == fxExportOptions {
										fromFile = true
									}
								}
								if !fromFile {
									break
								}
							}
						}
						if fromFile {
							leaves = append(leaves, fxLbLeaf{kind: fxLbFileOps})
							return
						}
					}
				}
			case *ssa.Alloc, *ssa.FreeVar:
				vals, complete := core.StoresTo(a)
				if complete && len(vals) > 0 {
					for _, sv := range vals {
						lbOf(sv)
					}
					return
				}
			}
		}
		leaves = append(leaves, fxLbLeaf{kind: fxLbOther, what: valueLabel(v)})
	}
	var walk func(v ssa.Value)
	walk = func(v ssa.Value) {
		if seen[v] {
			return
		}
		seen[v] = true
		switch x := v.(type) {
		case *ssa.Convert:
			walk(x.X)
		case *ssa.ChangeType:
			walk(x.X)
		case *ssa.Phi:
			for _, e := range x.Edges {
				walk(e)
			}
		case *ssa.Const:
			if str, ok := core.ConstString(x); ok && str != "" && strings.Trim(str, "\r\n") == "" {
				isLB = true
				leaves = append(leaves, fxLbLeaf{kind: fxLbConst, what: fmt.Sprintf("%q", str)})
				return
			}
			leaves = append(leaves, fxLbLeaf{kind: fxLbOther, what: valueLabel(v)})
		case *ssa.Parameter:
			for i, p := range x.Parent().Params {
				if p == x {
					leaves = append(leaves, fxLbLeaf{kind: fxLbParam, idx: i})
				}
			}
		case *ssa.UnOp:
			if x.Op == token.MUL {
				switch a := x.X.(type) {
				case *ssa.Alloc, *ssa.FreeVar:
					vals, complete := core.StoresTo(a)
					if complete && len(vals) > 0 {
						for _, sv := range vals {
							walk(sv)
						}
						return
					}
				}
			}
			leaves = append(leaves, fxLbLeaf{kind: fxLbOther, what: valueLabel(v)})
		case *ssa.Extract:
			if x.Index == 0 {
				walk(x.Tuple)
				return
			}
			leaves = append(leaves, fxLbLeaf{kind: fxLbOther, what: valueLabel(v)})
		case *ssa.Call:
			if f := core.StaticCallee(x); f != nil && f.Name() == "Value" && f.Signature.Recv() != nil && strings.HasSuffix(core.NamedOf(f.Signature.Recv().Type()), "go-text.LineBreak") {
				isLB = true
				lbOf(x.Common().Args[0])
				return
			}
			// the character-set encoder of go-text is transparent for the origin of the bytes
			if f := core.StaticCallee(x); f != nil && f.Name() == "Encode" && f.Pkg != nil && strings.HasSuffix(f.Pkg.Pkg.Path(), "mithrandie/go-text") && len(x.Call.Args) > 0 {
				walk(x.Call.Args[0])
				return
			}
			// a lib/query helper that makes the bytes from a line break it is handed: its returned
			// bytes are followed inside the helper, parameters are mapped back to the arguments
			if f := core.StaticCallee(x); f != nil && f.Blocks != nil && (c.P.InPkg(f, "lib/query") || c.P.IsControl(f)) && !seen[ssa.Value(f)] {
				seen[ssa.Value(f)] = true
				any := false
				for _, rv := range core.ReturnedValues(f, 0) {
					if core.IsNilConst(rv) {
						continue
					}
					sub, sawLB := fxLineBreakOrigin(c, rv)
					if sawLB {
						isLB = true
					}
					for _, sl := range sub {
						any = true
						if sl.kind == fxLbParam && sl.idx < len(x.Call.Args) {
							a := x.Call.Args[sl.idx]
							if strings.HasSuffix(core.NamedOf(a.Type()), "go-text.LineBreak") {
								isLB = true
								lbOf(a)
							} else {
								walk(a)
							}
							continue
						}
						leaves = append(leaves, sl)
					}
				}
				if any {
					return
				}
			}
			leaves = append(leaves, fxLbLeaf{kind: fxLbOther, what: valueLabel(v)})
		default:
			leaves = append(leaves, fxLbLeaf{kind: fxLbOther, what: valueLabel(v)})
		}
	}
	walk(v)
	return
}

// fxFileWrite: the call writes bytes/strings directly into a file or writer;
// returns the receiver and the data argument.
func fxFileWrite(c *Ctx, call ssa.CallInstruction) (recv, data ssa.Value, ok bool) {
	com := call.Common()
	if com.IsInvoke() {
		if (com.Method.Name() == "Write" || com.Method.Name() == "WriteString") && len(com.Args) == 1 {
			return com.Value, com.Args[0], true
		}
		return nil, nil, false
	}
	switch c.P.CalleeName(call) {
	case "(*os.File).Write", "(*os.File).WriteString":
		return com.Args[0], com.Args[1], true
	}
	return nil, nil, false
}

func ruleFmt4(c *Ctx) {
	root := c.Fn(fxCommit)
	if root == nil {
		return
	}
	start4 := len(c.Obs)
	defer func() {
		c.negControls(start4, "okCommitHelperOwnLineBreak")
		// not vacuous: the two closing line breaks of Commit must have been recognised (when the bytes
		// started to come from a helper, the walk lost them and the clause passed silently)
		n := 0
		for _, o := range c.Obs[start4:] {
			if !o.Control && strings.Contains(o.Key, "trailing line break write") {
				n++
			}
		}
		if n < 2 {
			c.Unknown("anchor:trailing line break writes of the commit path", "-", fmt.Sprintf("cannot-analyse: expected the closing line break of the created and of the updated files (2 writes), recognised %d", n))
		}
	}()
	// Commit plus the lib/query helpers it calls directly or through helpers that
	// receive the transaction or a file (helper extraction must not hide a read);
	// EncodeView and ExportOptions are the sanctioned consumers of the options.
	stop := map[string]bool{fxEncodeView: true, fxExportOptions: true}
	writers := c.P.ReachersOfNames("(*os.File).Write", "(*os.File).WriteString")
	scope := []*ssa.Function{root}
	seen := map[*ssa.Function]bool{root: true}
	for i := 0; i < len(scope); i++ {
		for _, fn := range fxWithClosures(scope[i]) {
			if !seen[fn] {
				seen[fn] = true
				scope = append(scope, fn)
			}
			for _, call := range core.Calls(fn) {
				f := core.StaticCallee(call)
				if f == nil || seen[f] || f.Blocks == nil || !c.P.InPkg(f, "lib/query") || stop[c.P.Name(f)] {
					continue
				}
				// only helpers that can reach a file write and are handed a file / writer /
				// FileInfo / view take part in writing table files
				if !writers[f] || !fxTakesFile(call) {
					continue
				}
				seen[f] = true
				scope = append(scope, f)
			}
		}
	}
	for _, f := range fxCtlFuncs(c) {
		if strings.HasPrefix(f.Name(), "CtlCommit") || strings.HasPrefix(f.Name(), "okCommit") {
			scope = append(scope, f)
			for _, call := range core.Calls(f) { // and the control's own helpers
				if h := core.StaticCallee(call); h != nil && h.Blocks != nil && c.P.IsControl(h) && !seen[h] && fxTakesFile(call) {
					seen[h] = true
					scope = append(scope, h)
				}
			}
		}
	}
	for _, fn := range scope {
		c.Touch(fn)
		n := map[string]int{}
		for _, b := range fn.Blocks {
			for _, in := range b.Instrs {
				f := fxSessionOptionField(in)
				if f == "" {
					continue
				}
				n[f]++
				key := c.KeyAt(fn, fmt.Sprintf("session ExportOptions.%s read #%d", f, n[f]))
				if _, isConst := fxFileConst[f]; isConst {
					c.Bad(key, c.Pos(in), fmt.Sprintf("the commit path reads the session's %s (tx.Flags.ExportOptions.%s) while writing a table file; %s", f, f, fxFileConstWhy[f]))
				} else if fxIsDialectField(f) {
					c.Bad(key, c.Pos(in), fmt.Sprintf("the commit path reads the session's %s (tx.Flags.ExportOptions.%s) while writing a table file; the file's own dialect (FileInfo.%s / the options returned by FileInfo.ExportOptions) must be used — a file loaded with a different %s is rewritten inconsistently", f, f, fxInName(f), f))
				} else {
					c.Ok(key, c.Pos(in), f+" is a session-level output switch, not part of a file's dialect")
				}
			}
		}
	}
	// positive form: every line break written directly into a table file is the
	// LineBreak of the FileInfo being written
	inScope := map[*ssa.Function]bool{}
	for _, fn := range scope {
		inScope[fn] = true
	}
	type lvLeaf struct {
		fxLbLeaf
		lvl int // the level of the calling context the leaf's value lives at
	}
	originOfArg := func(a ssa.Value) ([]fxLbLeaf, bool) {
		if strings.HasSuffix(core.NamedOf(a.Type()), "go-text.LineBreak") {
			// wrap: the parameter is the LineBreak itself
			tmp, _ := fxLineBreakOriginOfLB(c, a)
			return tmp, true
		}
		return fxLineBreakOrigin(c, a)
	}
	perHost := map[*ssa.Function]int{}
	for _, fn := range scope {
		for _, ci := range core.Calls(fn) {
			recv, data, ok := fxFileWrite(c, ci)
			if !ok {
				continue
			}
			leaves0, isLB0 := fxLineBreakOrigin(c, data)
			// the file written may be a parameter of a helper of the commit path: the write is judged
			// once per calling context inside the commit path, with the caller's values
			var ctxs []fxCtxVal
			for _, x := range fxLift(c, recv, fn, 3) {
				if len(x.Chain) > 0 && inScope[fxRootFn(x.Fn)] {
					ctxs = append(ctxs, x)
				}
			}
			if len(ctxs) == 0 {
				ctxs = []fxCtxVal{{V: recv, Fn: fn}}
			}
			for _, ctx := range ctxs {
				isLB := isLB0
				// a helper that is handed the bytes / the line break: judged at its call sites
				var resolved []lvLeaf
				var resolve func(leaves []fxLbLeaf, lvl int, in *ssa.Function)
				resolve = func(leaves []fxLbLeaf, lvl int, in *ssa.Function) {
					for _, l := range leaves {
						if l.kind != fxLbParam {
							resolved = append(resolved, lvLeaf{l, lvl})
							continue
						}
						if lvl > 0 {
							// along the calls of this context
							site := ctx.Chain[lvl-1]
							if core.StaticCallee(site) != in || l.idx >= len(site.Common().Args) {
								resolved = append(resolved, lvLeaf{fxLbLeaf{kind: fxLbOther, what: "a parameter of " + c.P.Name(in)}, lvl})
								continue
							}
							sub, sawLB := originOfArg(site.Common().Args[l.idx])
							if sawLB {
								isLB = true
							}
							resolve(sub, lvl-1, site.Parent())
							continue
						}
						found := false
						for _, caller := range scope { // slice order, not map order
							for _, cc := range core.Calls(caller) {
								if core.StaticCallee(cc) != in || l.idx >= len(cc.Common().Args) {
									continue
								}
								sub, sawLB := originOfArg(cc.Common().Args[l.idx])
								if sawLB {
									isLB = true
								}
								for _, sl := range sub {
									if sl.kind == fxLbParam {
										sl = fxLbLeaf{kind: fxLbOther, what: "a parameter of " + c.P.Name(caller)}
									}
									resolved = append(resolved, lvLeaf{sl, -1})
								}
								found = true
							}
						}
						if !found {
							resolved = append(resolved, lvLeaf{fxLbLeaf{kind: fxLbOther, what: "a parameter no call in the commit path supplies"}, -1})
						}
					}
				}
				resolve(leaves0, len(ctx.Chain), fxRootFn(fn))
				if !isLB {
					continue // not a line break (EncodeView's writers, other payload)
				}
				host := ctx.Fn
				perHost[host]++
				c.Sites++
				key := c.KeyAt(host, fmt.Sprintf("trailing line break write #%d", perHost[host]))
				pos := c.Pos(ctx.At(ci.(ssa.Instruction)))
				bad, und := "", ""
				for _, l := range resolved {
					switch l.kind {
					case fxLbSession:
						bad = "the line break appended to the table file is made from the SESSION flag tx.Flags.ExportOptions.LineBreak (directly or through a local copy of the flags), not from the LineBreak of the FileInfo being written: a CRLF file committed under the default flags ends in a bare LF"
					case fxLbConst:
						bad = "the line break appended to the table file is the constant " + l.what + ", not the LineBreak of the FileInfo being written"
					case fxLbOther:
						und = "cannot-analyse: the line break appended to the table file comes from " + l.what + "; the rule cannot follow it to a FileInfo.LineBreak"
					case fxLbFile:
						// the FileInfo and the file are compared where both are visible: in the function
						// of the write, or after mapping a FileInfo parameter back to the caller's value
						F, fl, W := l.x, l.lvl, recv
						if fl >= 0 && fl <= len(ctx.Chain) && len(ctx.Chain) > 0 {
							F, fl = fxMapUp(ctx.Chain, F, fl)
							if fl == 0 {
								W = ctx.V
							} else if fl != len(ctx.Chain) {
								break
							}
						}
						if why := fxOtherFile(c, F, W); why != "" {
							bad = why
						}
					}
				}
				switch {
				case bad != "":
					c.Bad(key, pos, bad)
				case und != "":
					c.Unknown(key, pos, und)
				default:
					c.Ok(key, pos, "the bytes are made from the LineBreak of the FileInfo being written (or of its own ExportOptions)")
				}
			}
		}
	}
}

// fxLineBreakOriginOfLB classifies a value of type text.LineBreak (an argument
// handed to a helper) by wrapping it as if .Value() had been applied.
func fxLineBreakOriginOfLB(c *Ctx, lb ssa.Value) ([]fxLbLeaf, bool) {
	switch x := lb.(type) {
	case *ssa.UnOp:
		if fa, ok := x.X.(*ssa.FieldAddr); ok && x.Op == token.MUL {
			switch core.FieldOwner(fa) {
			case "lib/query.FileInfo.LineBreak":
				return []fxLbLeaf{{kind: fxLbFile, x: fa.X}}, true
			case "lib/option.ExportOptions.LineBreak":
				if fxIsSessionOptions(fa.X, 0) {
					return []fxLbLeaf{{kind: fxLbSession}}, true
				}
			}
		}
	case *ssa.Field:
		if core.FieldName(x) == "LineBreak" && fxIsSessionOptions(x.X, 0) {
			return []fxLbLeaf{{kind: fxLbSession}}, true
		}
	}
	return []fxLbLeaf{{kind: fxLbOther, what: valueLabel(lb)}}, true
}

// fxOtherFile: when both are visible in one function — the file written is the
// update file of view.FileInfo.Handler and the LineBreak is read from FileInfo F —
// F must be that view's FileInfo (or the FileInfo whose IdentifiedPath fetched the
// view). Returns a diagnosis when it is provably another one.
func fxOtherFile(c *Ctx, F, recv ssa.Value) string {
	for _, o := range core.Origins(recv, true) {
		oc, _ := fxCallOf(o)
		if oc == nil || c.P.CalleeName(oc) != "lib/file.(*Handler).FileForUpdate" {
			continue
		}
		h := fxFieldLoad(oc.Common().Args[0])
		if h == nil || core.FieldOwner(h) != "lib/query.FileInfo.Handler" {
			continue
		}
		G := h.X // the FileInfo that owns the file
		if G == F || core.SameCell(G, F) {
			return ""
		}
		if g := fxFieldLoad(G); g != nil && core.FieldOwner(g) == "lib/query.View.FileInfo" {
			if fxFileInfoOfView(c, F, g.X) {
				return ""
			}
			if _, isParam := F.(*ssa.Parameter); isParam {
				return ""
			}
			return fmt.Sprintf("the line break appended to the file of %s is the LineBreak of another FileInfo (%s)", valueLabel(G), valueLabel(F))
		}
	}
	return ""
}

// fxTakesFile: the call hands over a file, a writer, a handler, a FileInfo or a
// view — what a helper needs to take part in writing a table file (logging and
// bookkeeping helpers receive none of these).
func fxTakesFile(call ssa.CallInstruction) bool {
	for _, a := range call.Common().Args {
		t := a.Type()
		switch core.NamedOf(t) {
		case "lib/query.FileInfo", "lib/query.View", "lib/file.Handler":
			return true
		}
		switch types.TypeString(t, nil) {
		case "*os.File", "io.Writer", "io.WriteCloser", "io.ReadWriter":
			return true
		}
	}
	return false
}

func fxInName(out string) string {
	for _, d := range fxDialect {
		if d.Out == out {
			return d.In
		}
	}
	return out
}

// ---------------------------------------------------------------------------
// R-FMT-5

// fxWriterCall: a foreign writer/encoder operation whose error must surface.
func fxWriterCall(c *Ctx, call *ssa.Call) (string, int, bool) {
	f := core.StaticCallee(call)
	var name, pkg string
	var sig *types.Signature
	if f != nil {
		if c.P.Name(f) != f.String() { // a csvq function
			return "", 0, false
		}
		if f.Pkg == nil && f.Signature.Recv() == nil {
			return "", 0, false
		}
		name, sig = f.Name(), f.Signature
		if o := f.Object(); o != nil && o.Pkg() != nil {
			pkg = o.Pkg().Path()
		}
	} else if call.Common().IsInvoke() {
		m := call.Common().Method
		name, sig = m.Name(), m.Type().(*types.Signature)
		if m.Pkg() != nil {
			pkg = m.Pkg().Path()
		}
	} else {
		return "", 0, false
	}
	if !(strings.HasPrefix(pkg, fxGoText) || pkg == "bufio" || pkg == "io") {
		return "", 0, false // bytes.Buffer / strings.Builder writes cannot fail (documented)
	}
	switch name {
	case "NewWriter", "Write", "WriteString", "Flush", "Encode":
	default:
		return "", 0, false
	}
	res := sig.Results()
	if res.Len() == 0 || !core.IsErrorType(res.At(res.Len()-1).Type()) {
		return "", 0, false
	}
	return pkg[strings.LastIndex(pkg, "/")+1:] + "." + name, res.Len() - 1, true
}

func ruleFmt5(c *Ctx) {
	root := c.Fn(fxEncodeView)
	if root == nil {
		return
	}
	var fns []*ssa.Function
	for f := range c.P.ReachSet(root) {
		if c.P.InPkg(f, "lib/query") && f.Blocks != nil {
			fns = append(fns, f)
		}
	}
	fns = append(fns, fxCtlFuncs(c)...)
	sortFuncs(c.P, fns)
	for _, fn := range fns {
		n := map[string]int{}
		for _, ci := range core.Calls(fn) {
			call, ok := ci.(*ssa.Call)
			if !ok {
				continue
			}
			what, idx, ok := fxWriterCall(c, call)
			if !ok {
				continue
			}
			c.Touch(fn)
			c.Sites++
			n[what]++
			key := c.KeyAt(fn, fmt.Sprintf("error of %s #%d", what, n[what]))
			// the error value
			var ev ssa.Value
			if _, isTuple := call.Type().(*types.Tuple); !isTuple {
				ev = call
			} else {
				for _, r := range *call.Referrers() {
					if ex, ok := r.(*ssa.Extract); ok && ex.Index == idx {
						ev = ex
					}
				}
			}
			if ev == nil {
				c.Bad(key, c.Pos(call), "the error result is discarded: a failed write (disk full, encoding error) is reported as success")
				continue
			}
			ok2, why := fxErrorSurfaces(fn, ev)
			if ok2 {
				c.Ok(key, c.Pos(call), why)
			} else {
				c.Bad(key, c.Pos(call), why)
			}
		}
	}
}

// fxErrorSurfaces: the error value is returned, or tested `!= nil` with every
// return reachable from the true edge yielding a non-nil error.
func fxErrorSurfaces(fn *ssa.Function, ev ssa.Value) (bool, string) {
	errIdx := core.ErrorResultIndex(fn)
	if errIdx < 0 {
		return false, "the enclosing function has no error result to report a failed write"
	}
	// values that carry ev: ev itself, phis it flows into, loads of cells it is stored to
	// (order keeps them in discovery order: the result must not depend on map iteration)
	carriers := map[ssa.Value]bool{ev: true}
	order := []ssa.Value{ev}
	work := []ssa.Value{ev}
	for len(work) > 0 {
		v := work[len(work)-1]
		work = work[:len(work)-1]
		if v.Referrers() == nil {
			continue
		}
		for _, r := range *v.Referrers() {
			switch x := r.(type) {
			case *ssa.Phi:
				if !carriers[x] {
					carriers[x] = true
					order = append(order, x)
					work = append(work, x)
				}
			case *ssa.Store:
				if al, ok := x.Addr.(*ssa.Alloc); ok && x.Val == v {
					for _, rr := range *al.Referrers() {
						if ld, ok := rr.(*ssa.UnOp); ok && ld.Op == token.MUL && !carriers[ld] {
							for _, s := range core.ReachingStores(al, ld) {
								if s == v && !carriers[ld] {
									carriers[ld] = true
									order = append(order, ld)
									work = append(work, ld)
								}
							}
						}
					}
				}
			}
		}
	}
	// several explanations can hold at once (the error is tested and also returned
	// as it is): fixed priority — returned, then tested with non-nil failure
	// returns (first such test in carrier / referrer order), then tested only
	tested, returned, testedGood := false, false, ""
	for _, v := range order {
		if v.Referrers() == nil {
			continue
		}
		for _, r := range *v.Referrers() {
			switch x := r.(type) {
			case *ssa.Return:
				if errIdx < len(x.Results) && x.Results[errIdx] == v {
					returned = true
				}
			case *ssa.BinOp:
				_, neq, ok := core.NilCmp(x)
				if !ok || x.Referrers() == nil {
					continue
				}
				for _, rr := range *x.Referrers() {
					iff, ok := rr.(*ssa.If)
					if !ok {
						continue
					}
					b := iff.Block()
					t := b.Succs[0]
					if !neq {
						t = b.Succs[1]
					}
					tested = true
					region := core.RegionFrom(t)
					rets, good := 0, true
					for _, ret := range core.Returns(fn) {
						if !region[ret.Block()] {
							continue
						}
						rets++
						for _, rv := range core.ValuesOnPathsFrom(b, t, ret.Results[errIdx], ret) {
							if rv != nil && carriers[rv] {
								continue // returns the tested (non-nil) error itself
							}
							if core.ClassifyNil(rv, ret) != core.NonNil {
								good = false
							}
						}
					}
					if rets > 0 && good && testedGood == "" {
						testedGood = fmt.Sprintf("tested against nil; the %d return(s) on the failure edge yield a non-nil error", rets)
					}
				}
			}
		}
	}
	if returned {
		return true, "returned to the caller"
	}
	if testedGood != "" {
		return true, testedGood
	}
	if tested {
		return false, "the error is tested but a return reachable from the failure edge can yield nil: the failed write is reported as success"
	}
	return false, "the error is neither returned nor tested against nil (overwritten or ignored): a failed write is reported as success"
}

// ---------------------------------------------------------------------------
// R-FMT-6

// characteristic callees: which go-text (or lib/json) entry point identifies
// the writer / reader of a format.
var fxEncoderOf = map[string]string{
	"CSV":   fxGoText + "/csv.NewWriter",
	"TSV":   fxGoText + "/csv.NewWriter",
	"FIXED": fxGoText + "/fixedlen.NewWriter",
	"JSON":  "lib/json.ConvertTableValueToJsonStructure",
	"JSONL": "lib/json.ConvertRecordValueToJsonStructure",
	"LTSV":  fxGoText + "/ltsv.NewWriter",
	"GFM":   fxGoText + "/table.NewEncoder",
	"ORG":   fxGoText + "/table.NewEncoder",
	"BOX":   fxGoText + "/table.NewEncoder",
	"TEXT":  fxGoText + "/table.NewEncoder",
}

var fxLoaderOf = map[string]string{
	"CSV":   fxGoText + "/csv.NewReader",
	"TSV":   fxGoText + "/csv.NewReader",
	"FIXED": fxGoText + "/fixedlen.NewReader",
	"JSON":  "lib/json.LoadTable",
	"JSONL": fxGoText + "/jsonl.NewReader",
	"LTSV":  fxGoText + "/ltsv.NewReader",
	// GFM, ORG, BOX, TEXT: output-only by design (docs: "Import Format … CSV|TSV|FIXED|JSON|JSONL|LTSV")
}

var fxImportFormats = []string{"CSV", "TSV", "FIXED", "JSON", "JSONL", "LTSV"}

func fxSetOf(m map[string]string) []string {
	s := map[string]bool{}
	for _, v := range m {
		s[v] = true
	}
	var out []string
	for v := range s {
		out = append(out, v)
	}
	sort.Strings(out)
	return out
}

func fxIsFormatType(t types.Type) bool { return core.NamedOf(t) == "lib/option.Format" }

// fxFormatTable evaluates the format dispatch of fn for every declared format
// constant: result[name] = the characteristic callees reachable from the arm
// selected by that constant. Recognises switch / if-chains and a lookup in a
// map literal keyed by option.Format.
type fxFmtTable struct {
	form   string
	fn     *ssa.Function
	cells  map[string][]string
	pos    map[string]string
	blocks map[string]map[*ssa.BasicBlock]bool // blocks executable when Format == that constant (chain form)
}

// fxBlocksFor: the blocks of fn that can execute when every comparison of the
// dispatch key (any load of the same Format variable/field) with a constant is
// decided for key == k; all other conditions are taken both ways. This is the
// abstract evaluation of the dispatch for one cell and is indifferent to how the
// dispatch is spelled (one switch, several, if/else-if chains, early returns).
func fxBlocksFor(fn *ssa.Function, key ssa.Value, k constant.Value) map[*ssa.BasicBlock]bool {
	sameKey := func(v ssa.Value) bool { return v == key || core.SameCell(v, key) }
	seen := map[*ssa.BasicBlock]bool{}
	var walk func(b *ssa.BasicBlock)
	walk = func(b *ssa.BasicBlock) {
		if seen[b] {
			return
		}
		seen[b] = true
		if iff, ok := b.Instrs[len(b.Instrs)-1].(*ssa.If); ok {
			if bin, ok := iff.Cond.(*ssa.BinOp); ok && (bin.Op == token.EQL || bin.Op == token.NEQ) {
				x, y := bin.X, bin.Y
				if _, isC := x.(*ssa.Const); isC {
					x, y = y, x
				}
				if cy, isC := y.(*ssa.Const); isC && cy.Value != nil && sameKey(x) {
					eq := constant.Compare(cy.Value, token.EQL, k)
					if eq == (bin.Op == token.EQL) {
						walk(b.Succs[0])
					} else {
						walk(b.Succs[1])
					}
					return
				}
			}
		}
		for _, s := range b.Succs {
			walk(s)
		}
	}
	walk(fn.Blocks[0])
	return seen
}

func fxFormatTable(c *Ctx, fn *ssa.Function, consts []*types.Const, chars []string) *fxFmtTable {
	reachesOf := func(calls []ssa.CallInstruction, fns []*ssa.Function) []string {
		var out []string
		for _, ch := range chars {
			set := c.P.ReachersOfNames(ch)
			hit := false
			for _, call := range calls {
				if c.P.CallMayReach(call, set) {
					hit = true
				}
			}
			for _, f := range fns {
				if set[f] {
					hit = true
				}
			}
			if hit {
				out = append(out, ch)
			}
		}
		// keep the most specific entry points: one that is only reached through
		// another reached one (table encoder → per-record encoder) is implied
		var min []string
		for _, x := range out {
			implied := false
			for _, y := range out {
				if y == x {
					continue
				}
				// (only csvq entry points can reach another one; go-text never calls back)
				if f := c.P.Func(y); f != nil && c.P.ReachersOfNames(x)[f] {
					implied = true
				}
			}
			if !implied {
				min = append(min, x)
			}
		}
		return min
	}
	// switch / if-chain form: abstract evaluation of the function for each constant
	var key ssa.Value
	ntests := 0
	for _, d := range core.Dispatches(fn) {
		if fxIsFormatType(d.Key.Type()) {
			if key == nil {
				key = d.Key
			}
			if key == d.Key || core.SameCell(key, d.Key) {
				ntests += len(d.Tests)
			}
		}
	}
	if key != nil && ntests >= 3 {
		t := &fxFmtTable{form: "switch/if-chain", fn: fn, cells: map[string][]string{}, pos: map[string]string{}, blocks: map[string]map[*ssa.BasicBlock]bool{}}
		for _, k := range consts {
			blocks := fxBlocksFor(fn, key, k.Val())
			t.blocks[k.Name()] = blocks
			var calls []ssa.CallInstruction
			for _, b := range fn.Blocks {
				if !blocks[b] {
					continue
				}
				for _, in := range b.Instrs {
					if ci, ok := in.(ssa.CallInstruction); ok {
						calls = append(calls, ci)
					}
				}
			}
			t.cells[k.Name()] = reachesOf(calls, nil)
			// position: the first call of the cell that reaches a characteristic callee
			for _, ci := range calls {
				hit := false
				for _, ch := range chars {
					if c.P.CallMayReach(ci, c.P.ReachersOfNames(ch)) {
						hit = true
					}
				}
				if hit {
					t.pos[k.Name()] = c.Pos(ci.(ssa.Instruction))
					break
				}
			}
		}
		return t
	}
	// map-literal form: m[format] where m is a package-level map literal
	for _, b := range fn.Blocks {
		for _, in := range b.Instrs {
			lk, ok := in.(*ssa.Lookup)
			if !ok {
				continue
			}
			mt, ok := lk.X.Type().Underlying().(*types.Map)
			if !ok || !fxIsFormatType(mt.Key()) {
				continue
			}
			var entries []core.MapEntry
			for _, o := range core.Origins(lk.X, false) {
				if fa := core.Addr(o); fa != nil {
					if g, ok := fa.(*ssa.Global); ok {
						entries, _ = core.GlobalMapLiteral(g)
					}
				}
				if mk, ok := o.(*ssa.MakeMap); ok {
					entries = core.MapLiteralOf(mk)
				}
			}
			if len(entries) == 0 {
				continue
			}
			t := &fxFmtTable{form: "map literal", fn: fn, cells: map[string][]string{}, pos: map[string]string{}}
			for _, k := range consts {
				for _, e := range entries {
					if e.Key == nil || !constant.Compare(e.Key.Value, token.EQL, k.Val()) {
						continue
					}
					var fns []*ssa.Function
					for _, o := range core.Origins(e.Val, false) {
						switch x := fxStripConv(o).(type) {
						case *ssa.Function:
							fns = append(fns, x)
						case *ssa.MakeClosure:
							if f, ok := x.Fn.(*ssa.Function); ok {
								fns = append(fns, f)
							}
						}
					}
					t.cells[k.Name()] = reachesOf(nil, fns)
					t.pos[k.Name()] = c.Pos(e.At)
				}
			}
			return t
		}
	}
	return nil
}

// fxForcesTab: on the TSV path '\t' is stored into a Delimiter field, either in
// a block that runs for TSV and not for CSV, or under a `Format == TSV` test in
// the function itself or in a lib/query function called on that path.
func fxForcesTab(c *Ctx, t *fxFmtTable, tsv *types.Const) bool {
	isTabStore := func(in ssa.Instruction) bool {
		st, ok := in.(*ssa.Store)
		if !ok {
			return false
		}
		fa, ok := st.Addr.(*ssa.FieldAddr)
		if !ok || core.FieldName(fa) != "Delimiter" {
			return false
		}
		r, ok := core.ConstRune(st.Val)
		return ok && r == '\t'
	}
	underTSV := func(b *ssa.BasicBlock) bool {
		for _, f := range core.FactsAt(b) {
			bin, ok := f.Cond.(*ssa.BinOp)
			if !ok || f.Neg || bin.Op != token.EQL {
				continue
			}
			for _, pair := range [][2]ssa.Value{{bin.X, bin.Y}, {bin.Y, bin.X}} {
				k, ok := pair[1].(*ssa.Const)
				if ok && k.Value != nil && fxIsFormatType(pair[0].Type()) && constant.Compare(k.Value, token.EQL, tsv.Val()) {
					return true
				}
			}
		}
		return false
	}
	if t == nil || t.blocks == nil || t.blocks["TSV"] == nil {
		return false
	}
	// blocks that run for TSV but not for CSV belong to TSV alone
	var callees []*ssa.Function
	for _, b := range t.fn.Blocks {
		if !t.blocks["TSV"][b] {
			continue
		}
		for _, in := range b.Instrs {
			if isTabStore(in) && (!t.blocks["CSV"][b] || underTSV(b)) {
				return true
			}
			if ci, ok := in.(ssa.CallInstruction); ok {
				if f := core.StaticCallee(ci); f != nil && f.Blocks != nil && c.P.InPkg(f, "lib/query", core.ControlPkg) {
					callees = append(callees, f)
				}
			}
		}
	}
	for _, f := range callees {
		for _, b := range f.Blocks {
			for _, in := range b.Instrs {
				if isTabStore(in) && underTSV(b) {
					return true
				}
			}
		}
	}
	return false
}

func ruleFmt6(c *Ctx) {
	ft := c.P.Type("lib/option", "Format")
	if ft == nil {
		c.Unknown("anchor:lib/option.Format", "-", "cannot-analyse: type lib/option.Format not found")
		return
	}
	var consts []*types.Const
	var tsv *types.Const
	for _, k := range core.EnumConsts(ft) {
		if constant.Sign(k.Val()) < 0 {
			continue // AutoSelect: resolved to a concrete format before any dispatch
		}
		consts = append(consts, k)
		if k.Name() == "TSV" {
			tsv = k
		}
	}
	for name := range fxEncoderOf {
		found := false
		for _, k := range consts {
			if k.Name() == name {
				found = true
			}
		}
		if !found {
			c.Unknown("anchor:lib/option."+name, "-", "cannot-analyse: format constant "+name+" of the specification table is not declared")
		}
	}
	check := func(fn *ssa.Function, spec map[string]string, side string) {
		c.Touch(fn)
		t := fxFormatTable(c, fn, consts, fxSetOf(spec))
		if t == nil {
			c.Unknown(c.KeyAt(fn, "format dispatch"), c.FnPos(fn), "cannot-analyse: no dispatch on an option.Format value (switch, if-chain or map literal) found")
			return
		}
		for _, k := range consts {
			want, has := spec[k.Name()]
			key := c.KeyAt(fn, "format "+k.Name()+" -> "+side)
			pos := t.pos[k.Name()]
			if pos == "" {
				pos = c.FnPos(fn)
			}
			if !has {
				continue // output-only format: no loader by design
			}
			got := t.cells[k.Name()]
			if len(got) == 1 && got[0] == want {
				c.OkN(key, pos, fmt.Sprintf("%s: arm reaches %s only", t.form, want), 1)
			} else {
				c.Bad(key, pos, fmt.Sprintf("cell %s of the %s table: the selected arm reaches %v, the specification says %s — a %s file would be %s", k.Name(), side, got, want, k.Name(), map[string]string{"encoder": "written in another format than it is read back in", "loader": "parsed by the reader of another format"}[side]))
			}
		}
		if tsv != nil {
			key := c.KeyAt(fn, "format TSV forces the tab delimiter ("+side+")")
			if fxForcesTab(c, t, tsv) {
				c.Ok(key, t.pos["TSV"], "'\\t' is stored into the Delimiter on the TSV path only")
			} else {
				c.Bad(key, c.FnPos(fn), "the TSV path does not force the tab delimiter (no store of '\\t' into a Delimiter field under Format == TSV): a .tsv file would be read/written with the session delimiter")
			}
		}
	}
	if fn := c.Fn(fxEncodeView); fn != nil {
		check(fn, fxEncoderOf, "encoder")
	}
	if fn := c.Fn(fxLoadFromFile); fn != nil {
		check(fn, fxLoaderOf, "loader")
	}
	for _, fn := range fxCtlFuncs(c) {
		if strings.HasPrefix(fn.Name(), "CtlEncoderTable") || strings.HasPrefix(fn.Name(), "okEncoderTable") {
			check(fn, fxEncoderOf, "encoder")
		}
	}
	// option.ImportFormats lists exactly the loadable formats
	key := "lib/option.ImportFormats: loadable formats"
	var g *ssa.Global
	if pk := c.P.SSAPkgs["lib/option"]; pk != nil {
		g, _ = pk.Members["ImportFormats"].(*ssa.Global)
	}
	if g == nil {
		c.Unknown(key, "-", "cannot-analyse: lib/option.ImportFormats not found")
		return
	}
	vals := core.GlobalInit(g)
	var elems []ssa.Value
	ok := false
	if len(vals) == 1 {
		elems, ok = core.SliceLiteral(vals[0])
	}
	if !ok {
		c.Unknown(key, c.P.Pos(g.Pos()), "ImportFormats is not initialised by a slice literal")
		return
	}
	got := map[string]bool{}
	for _, e := range elems {
		for _, k := range consts {
			if kc, isC := e.(*ssa.Const); isC && kc.Value != nil && constant.Compare(kc.Value, token.EQL, k.Val()) {
				got[k.Name()] = true
			}
		}
	}
	var diff []string
	for _, n := range fxImportFormats {
		if !got[n] {
			diff = append(diff, "missing "+n)
		}
		delete(got, n)
	}
	for n := range got {
		diff = append(diff, "extra "+n)
	}
	sort.Strings(diff)
	if len(diff) == 0 {
		c.OkN(key, c.P.Pos(g.Pos()), "equals the set of formats that have a loader arm", len(fxImportFormats))
	} else {
		c.Bad(key, c.P.Pos(g.Pos()), "differs from the loadable formats of the specification: "+strings.Join(diff, ", "))
	}
}
