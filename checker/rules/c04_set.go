package rules

import (
	"fmt"
	"go/token"
	"go/types"

	"golang.org/x/tools/go/ssa"

	"verif/checker/core"
)

// R-SET-1: a set operator without ALL buckets the rows it keeps.

func init() {
	Register(&Rule{ID: "R-SET-1", Props: []string{"C04", "C03"}, Floor: 3,
		Doc:      "set operators without ALL bucket the rows they keep: in every set-operator method of View (methods taking the other operand's *View and the `all` flag: Union, Except, Intersect today), every path that can return success with all == false has generated the comparison keys of the receiver (a call reaching GenerateComparisonKeys on it) or has emptied the receiver's RecordSet — an early exit for an empty right-hand side must still collapse equal rows of the left operand",
		Controls: []string{"CtlSetOpSkipsBucketing"},
		Run:      ruleSet1})
}

func ruleSet1(c *Ctx) {
	n := 0
	for _, fn := range c.P.FuncsIn(true, "lib/query") {
		sig := fn.Signature
		if fn.Parent() != nil || len(fn.Params) < 3 {
			continue
		}
		recv := fn.Params[0]
		if core.NamedOf(recv.Type()) != "lib/query.View" && !c.P.IsControl(fn) {
			continue
		}
		var allP, other *ssa.Parameter
		for _, p := range fn.Params[1:] {
			if b, ok := p.Type().Underlying().(*types.Basic); ok && b.Kind() == types.Bool {
				allP = p
			}
			if core.NamedOf(p.Type()) == "lib/query.View" {
				other = p
			}
		}
		if allP == nil || other == nil || core.NamedOf(recv.Type()) != "lib/query.View" {
			continue
		}
		if sig.Results().Len() != 1 || !core.IsErrorType(sig.Results().At(0).Type()) {
			continue
		}
		n++
		c.Touch(fn)
		key := c.KeyAt(fn, "rows kept without ALL are bucketed")
		isTarget := func(in ssa.Instruction) bool {
			if call, ok := in.(ssa.CallInstruction); ok {
				com := call.Common()
				if len(com.Args) > 0 && (com.Args[0] == ssa.Value(recv) || sameViewValue(com.Args[0], recv)) {
					if c.P.CallReaches(call, c.P.NameIs("lib/query.(*View).GenerateComparisonKeys")) || c.P.CalleeName(call) == "lib/query.(*View).GenerateComparisonKeys" {
						return true
					}
				}
			}
			if st, ok := in.(*ssa.Store); ok {
				if fa, ok := st.Addr.(*ssa.FieldAddr); ok && fa.X == ssa.Value(recv) && core.FieldName(fa) == "RecordSet" && isEmptySliceValue(st.Val) {
					return true
				}
			}
			return false
		}
		allTrueEdge := func(from, to *ssa.BasicBlock) bool {
			if len(from.Instrs) == 0 {
				return false
			}
			iff, ok := from.Instrs[len(from.Instrs)-1].(*ssa.If)
			if !ok || len(from.Succs) != 2 {
				return false
			}
			cond := iff.Cond
			neg := false
			if u, ok := cond.(*ssa.UnOp); ok && u.Op == token.NOT {
				cond, neg = u.X, true
			}
			if cond != ssa.Value(allP) {
				return false
			}
			// the edge on which all == true
			if !neg {
				return to == from.Succs[0]
			}
			return to == from.Succs[1]
		}
		var bad ssa.Instruction
		seen := map[*ssa.BasicBlock]bool{}
		var walk func(b *ssa.BasicBlock)
		walk = func(b *ssa.BasicBlock) {
			if bad != nil || seen[b] {
				return
			}
			seen[b] = true
			for _, in := range b.Instrs {
				if isTarget(in) {
					return
				}
				if r, ok := in.(*ssa.Return); ok {
					if len(r.Results) == 1 && core.ClassifyNil(r.Results[0], r) == core.NonNil {
						return
					}
					bad = r
					return
				}
			}
			for _, s := range b.Succs {
				if allTrueEdge(b, s) {
					continue
				}
				walk(s)
			}
		}
		if len(fn.Blocks) > 0 {
			walk(fn.Blocks[0])
		}
		if bad == nil {
			c.Ok(key, c.FnPos(fn), "every success path with all == false passes GenerateComparisonKeys on the receiver (or empties it)")
		} else {
			c.Bad(key, c.Pos(bad), fmt.Sprintf("the return at %s is reached with all == false without the receiver's comparison keys having been generated: rows of the left operand that are equal under normalisation ('1' / '01', NULL / NULL …) stay separate rows of a UNION / EXCEPT / INTERSECT without ALL", c.Pos(bad)))
		}
	}
	if n == 0 {
		c.Unknown("set operators", "-", "cannot-analyse: no method of View takes another *View and a bool (Union / Except / Intersect expected)")
	}
}

func sameViewValue(a ssa.Value, recv *ssa.Parameter) bool {
	for _, o := range core.Origins(a, false) {
		if o != ssa.Value(recv) {
			return false
		}
	}
	return true
}
