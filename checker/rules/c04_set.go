package rules

import (
	"fmt"
	"go/token"
	"go/types"
	"strings"

	"golang.org/x/tools/go/ssa"

	"verif/checker/core"
)

// R-SET-1: a set operator without ALL buckets the rows it keeps.

func init() {
	Register(&Rule{ID: "R-SET-1", Props: []string{"C04", "C03"}, Floor: 3,
		Doc:      "set operators without ALL bucket the rows they keep: in every set-operator method of View (methods taking the other operand's *View and the `all` flag: Union, Except, Intersect today), every path that can return success with all == false has generated the comparison keys of the receiver (a call reaching GenerateComparisonKeys on it) or has emptied the receiver's RecordSet — an early exit for an empty right-hand side must still collapse equal rows of the left operand",
		Controls: []string{"CtlSetOpSkipsBucketing"},
		Run:      ruleSet1})
}

func ruleSet1(c *Ctx) {
	n := 0
	for _, fn := range c.P.FuncsIn(true, "lib/query") {
		sig := fn.Signature
		if fn.Parent() != nil || len(fn.Params) < 3 {
			continue
		}
		recv := fn.Params[0]
		if core.NamedOf(recv.Type()) != "lib/query.View" && !c.P.IsControl(fn) {
			continue
		}
		var allP, other *ssa.Parameter
		for _, p := range fn.Params[1:] {
			if b, ok := p.Type().Underlying().(*types.Basic); ok && b.Kind() == types.Bool {
				allP = p
			}
			if core.NamedOf(p.Type()) == "lib/query.View" {
				other = p
			}
		}
		if allP == nil || other == nil || core.NamedOf(recv.Type()) != "lib/query.View" {
			continue
		}
		if sig.Results().Len() != 1 || !core.IsErrorType(sig.Results().At(0).Type()) {
			continue
		}
		n++
		c.Touch(fn)
		key := c.KeyAt(fn, "rows kept without ALL are bucketed")
		isTarget := func(in ssa.Instruction) bool {
			if call, ok := in.(ssa.CallInstruction); ok {
				com := call.Common()
				if len(com.Args) > 0 && (com.Args[0] == ssa.Value(recv) || sameViewValue(com.Args[0], recv)) {
					if c.P.CallReaches(call, c.P.NameIs("lib/query.(*View).GenerateComparisonKeys")) || c.P.CalleeName(call) == "lib/query.(*View).GenerateComparisonKeys" {
						return true
					}
				}
			}
			if st, ok := in.(*ssa.Store); ok {
				if fa, ok := st.Addr.(*ssa.FieldAddr); ok && fa.X == ssa.Value(recv) && core.FieldName(fa) == "RecordSet" && isEmptySliceValue(st.Val) {
					return true
				}
			}
			return false
		}
		allTrueEdge := func(from, to *ssa.BasicBlock) bool {
			if len(from.Instrs) == 0 {
				return false
			}
			iff, ok := from.Instrs[len(from.Instrs)-1].(*ssa.If)
			if !ok || len(from.Succs) != 2 {
				return false
			}
			cond := iff.Cond
			neg := false
			if u, ok := cond.(*ssa.UnOp); ok && u.Op == token.NOT {
				cond, neg = u.X, true
			}
			if cond != ssa.Value(allP) {
				return false
			}
			// the edge on which all == true
			if !neg {
				return to == from.Succs[0]
			}
			return to == from.Succs[1]
		}
		var bad ssa.Instruction
		seen := map[*ssa.BasicBlock]bool{}
		var walk func(b *ssa.BasicBlock)
		walk = func(b *ssa.BasicBlock) {
			if bad != nil || seen[b] {
				return
			}
			seen[b] = true
			for _, in := range b.Instrs {
				if isTarget(in) {
					return
				}
				if r, ok := in.(*ssa.Return); ok {
					if len(r.Results) == 1 && core.ClassifyNil(r.Results[0], r) == core.NonNil {
						return
					}
					bad = r
					return
				}
			}
			for _, s := range b.Succs {
				if allTrueEdge(b, s) {
					continue
				}
				walk(s)
			}
		}
		if len(fn.Blocks) > 0 {
			walk(fn.Blocks[0])
		}
		if bad == nil {
			c.Ok(key, c.FnPos(fn), "every success path with all == false passes GenerateComparisonKeys on the receiver (or empties it)")
		} else {
			c.Bad(key, c.Pos(bad), fmt.Sprintf("the return at %s is reached with all == false without the receiver's comparison keys having been generated: rows of the left operand that are equal under normalisation ('1' / '01', NULL / NULL …) stay separate rows of a UNION / EXCEPT / INTERSECT without ALL", c.Pos(bad)))
		}
	}
	if n == 0 {
		c.Unknown("set operators", "-", "cannot-analyse: no method of View takes another *View and a bool (Union / Except / Intersect expected)")
	}
}

func sameViewValue(a ssa.Value, recv *ssa.Parameter) bool {
	for _, o := range core.Origins(a, false) {
		if o != ssa.Value(recv) {
			return false
		}
	}
	return true
}

// R-SET-2: both operands of a set operation are evaluated.
//
// Evaluating an operand is also what loads — and, under FOR UPDATE, locks — its
// tables. A shortcut that skips the right-hand query because the result is
// already known (EXCEPT / INTERSECT with an empty left side) returns the right
// rows but leaves the right-hand tables unlocked and unloaded for the rest of
// the transaction, and hides their errors.

func init() {
	Register(&Rule{ID: "R-SET-2", Props: []string{"C09", "C20"}, Floor: 2,
		Doc:      "every operand of a set operation is evaluated on every success path: in each lib/query function that receives a parser.SelectSet and evaluates an operand of it (selectSet, selectSetForRecursion — found by role: a call whose argument is the LHS / RHS field of the parameter), every path from the entry to a return that may report success passes a call that evaluates set.RHS — directly, or a lib/query function that is handed the same SelectSet and evaluates its RHS on all of its own success paths — and likewise set.LHS unless the function receives the left-hand view as a parameter. `SELECT … FROM a EXCEPT SELECT … FROM b FOR UPDATE` must lock b even when a yields no rows. Decides that the operand queries run, not what the operators compute (R-SET-1, R-REL-5)",
		Controls: []string{"CtlSetOperandSkipped"},
		Run:      ruleSet2})
}

func ruleSet2(c *Ctx) {
	setT := c.P.Type("lib/parser", "SelectSet")
	if setT == nil {
		c.Unknown("anchor: lib/parser.SelectSet", "-", "cannot-analyse: type not found")
		return
	}
	isSetParam := func(fn *ssa.Function) *ssa.Parameter {
		for _, p := range fn.Params {
			if types.Identical(p.Type(), setT) || strings.HasSuffix(p.Type().String(), "zzverifpositive.ctlSelectSet") {
				return p
			}
		}
		return nil
	}
	// operandCall: the call evaluates field `name` of the set parameter
	fieldOf := func(v ssa.Value, set *ssa.Parameter, name string) bool {
		for _, o := range core.Origins(v, false) {
			switch x := o.(type) {
			case *ssa.Field:
				if core.FieldName(x) == name {
					for _, oo := range core.Origins(x.X, false) {
						if oo == ssa.Value(set) {
							return true
						}
					}
				}
			case *ssa.UnOp:
				if fa, ok := x.X.(*ssa.FieldAddr); ok && core.FieldName(fa) == name {
					// the parameter spilled to a local cell
					if al, ok := fa.X.(*ssa.Alloc); ok {
						for _, r := range *al.Referrers() {
							if st, ok := r.(*ssa.Store); ok && st.Addr == ssa.Value(al) && st.Val == ssa.Value(set) {
								return true
							}
						}
					}
				}
			}
		}
		return false
	}
	passesWhole := func(call ssa.CallInstruction, set *ssa.Parameter) bool {
		for _, a := range call.Common().Args {
			for _, o := range core.Origins(a, false) {
				if o == ssa.Value(set) {
					return true
				}
				if u, ok := o.(*ssa.UnOp); ok {
					if al, ok := u.X.(*ssa.Alloc); ok {
						for _, r := range *al.Referrers() {
							if st, ok := r.(*ssa.Store); ok && st.Addr == ssa.Value(al) && st.Val == ssa.Value(set) {
								return true
							}
						}
					}
				}
			}
		}
		return false
	}
	var cands []*ssa.Function
	for _, fn := range c.P.FuncsIn(true, "lib/query") {
		if fn.Parent() == nil && isSetParam(fn) != nil {
			cands = append(cands, fn)
		}
	}
	// always[name][fn]: fn evaluates the operand on every success path
	always := map[string]map[*ssa.Function]bool{"LHS": {}, "RHS": {}}
	evaluates := func(fn *ssa.Function, name string) (ok bool, any bool, leak ssa.Instruction) {
		set := isSetParam(fn)
		isEval := func(in ssa.Instruction) bool {
			call, isCall := in.(ssa.CallInstruction)
			if !isCall {
				return false
			}
			for _, a := range call.Common().Args {
				if fieldOf(a, set, name) {
					any = true
					return true
				}
			}
			if g := call.Common().StaticCallee(); g != nil && g != fn && always[name][g] && passesWhole(call, set) {
				any = true
				return true
			}
			return false
		}
		// does the function evaluate the operand anywhere?
		for _, b := range fn.Blocks {
			for _, in := range b.Instrs {
				isEval(in)
			}
		}
		core.WalkFromEntry(fn, func(in ssa.Instruction) bool {
			if isEval(in) {
				return false
			}
			if r, isRet := in.(*ssa.Return); isRet && leak == nil && !errorExit(c, r.Block()) {
				// a return that may report success
				if n := len(r.Results); n > 0 && core.IsErrorType(r.Results[n-1].Type()) {
					if k, isConst := r.Results[n-1].(*ssa.Const); isConst && k.Value == nil || !isConst {
						if _, isCall := r.Results[n-1].(*ssa.Call); !isCall || true {
							leak = r
						}
					}
				}
			}
			return true
		})
		return leak == nil, any, leak
	}
	for changed := true; changed; {
		changed = false
		for _, name := range []string{"LHS", "RHS"} {
			for _, fn := range cands {
				if always[name][fn] {
					continue
				}
				if ok, any, _ := evaluates(fn, name); ok && any {
					always[name][fn] = true
					changed = true
				}
			}
		}
	}
	n := 0
	for _, fn := range cands {
		for _, name := range []string{"LHS", "RHS"} {
			ok, any, leak := evaluates(fn, name)
			if !any {
				continue // the function does not deal with this operand (it is given the left-hand view)
			}
			n++
			c.Touch(fn)
			key := c.KeyAt(fn, "set."+name+" is evaluated on every success path")
			if ok {
				c.Ok(key, c.FnPos(fn), "every path to a return that may report success passes the evaluation of the operand")
			} else {
				c.Bad(key, c.Pos(leak), fmt.Sprintf("the return at %s can report success without the %s operand having been evaluated: its tables are neither loaded nor — under FOR UPDATE — locked for the rest of the transaction, and an error in that query goes unreported", c.Pos(leak), name))
			}
		}
	}
	c.Sites += n
}
