package rules

import (
	"fmt"
	"go/token"
	"go/types"
	"strings"

	"golang.org/x/tools/go/ssa"

	"verif/checker/core"
)

// R-ERR-12 — nil-able pointer fields of cached objects.
//
// Frozen field list (each re-checked to be nil-able: some allocation of the
// owner leaves it unset): lib/query.FileInfo.Handler — nil for every view that
// was cached by a read-only load.
// Obligation: every use of a load of the field that dereferences it — receiver
// of a method that dereferences its receiver, argument of a function that
// dereferences the parameter without a nil test, field access — is
//   (1) dominated by a `!= nil` test of the same field of the same object, or
//   (2) dominated by a store of a provably non-nil value into that field of the
//       same object in the same function (no other store in between), or
//   (3) covered by a documented implication (frozen, with a side condition).
// Passing the value to a function that tests its parameter for nil
// ((*file.Container).Close/Commit/CloseWithErrors) is discharged by that test.

var err12Fields = []string{"lib/query.FileInfo.Handler"}

type e19NilImplication struct {
	fn, reason string
	side       func(c *Ctx, fn *ssa.Function, load *ssa.UnOp) (bool, string)
}

var err12Implications = []e19NilImplication{
	{"lib/query.(*Transaction).Commit",
		"the views written by COMMIT are those of tx.UncommittedViews; a FileInfo is entered there only for a view that was created or loaded for update, and both paths store the open handler (FileInfo.ForUpdate ⇒ Handler != nil)",
		func(c *Ctx, fn *ssa.Function, load *ssa.UnOp) (bool, string) {
			// the FileInfo's view comes from CachedViews.Get(x) inside a range over the results of UncommittedFiles()
			hasUF := false
			commit := c.Fn("lib/query.(*Transaction).Commit")
			if commit == nil {
				return false, "anchor (*Transaction).Commit missing"
			}
			for _, call := range core.Calls(commit) {
				if f := call.Common().StaticCallee(); f != nil && f.Name() == "UncommittedFiles" {
					hasUF = true
				}
			}
			if !hasUF {
				return false, "Commit no longer enumerates tx.UncommittedViews.UncommittedFiles()"
			}
			fa := load.X.(*ssa.FieldAddr)
			okOrigin := false
			for _, o := range core.Origins(fa.X, false) {
				// FileInfo pointer loaded from view.FileInfo, view = result of (ViewMap).Get
				if ld, ok := o.(*ssa.UnOp); ok && ld.Op == token.MUL {
					if vfa, ok := ld.X.(*ssa.FieldAddr); ok {
						for _, vo := range core.Origins(vfa.X, false) {
							if call, _, ok := core.ExtractOf(vo); ok {
								if f := call.Common().StaticCallee(); f != nil && f.Name() == "Get" {
									okOrigin = true
								}
							}
						}
					}
				}
			}
			if !okOrigin {
				return false, "the FileInfo is not that of a view fetched with CachedViews.Get"
			}
			return true, "the FileInfo belongs to a view fetched with CachedViews.Get for an entry of UncommittedFiles()"
		}},
}

func init() {
	Register(&Rule{ID: "R-ERR-12", Props: []string{"C19"}, Floor: 8,
		Doc: "nil-able pointer fields of cached objects (frozen list: lib/query.FileInfo.Handler, nil for views cached by a read-only load): every dereferencing use of a load of the field (method receiver, argument of a function that dereferences the parameter without testing it, field access) is dominated by a non-nil test of that field of the same object, " +
			"or by a store of a provably non-nil value into it in the same function, or is covered by a documented implication (Transaction.Commit: FileInfos of UncommittedViews were loaded for update/created, which stores the handler)",
		Controls: []string{"CtlHandlerOfCachedView"},
		Run:      ruleErr12})
}

var e19DerefMemo = map[*ssa.Parameter]int{}

// e19ParamDeref: does fn dereference parameter #idx on some path without a
// dominating non-nil test of it? (method receivers and callees followed, depth-limited)
func e19ParamDeref(p *ssa.Parameter, depth int) bool {
	switch e19DerefMemo[p] {
	case 1:
		return true
	case 2:
		return false
	}
	if depth > 3 || p.Referrers() == nil {
		return true
	}
	e19DerefMemo[p] = 2 // recursion guard
	res := false
	for _, r := range *p.Referrers() {
		if e19Derefs(r, p, depth) && !core.NonNilAt(p, r) {
			res = true
			break
		}
	}
	if res {
		e19DerefMemo[p] = 1
	}
	return res
}

// e19Derefs: instruction `in` dereferences pointer value v.
func e19Derefs(in ssa.Instruction, v ssa.Value, depth int) bool {
	switch x := in.(type) {
	case *ssa.FieldAddr:
		return x.X == v
	case *ssa.UnOp:
		return x.Op == token.MUL && x.X == v
	case *ssa.Store:
		return x.Addr == v
	case ssa.CallInstruction:
		com := x.Common()
		if com.IsInvoke() {
			return false
		}
		f := com.StaticCallee()
		if f == nil || f.Blocks == nil {
			// unknown callee receiving the pointer: assume it copes unless it is the receiver of a dynamic call
			return false
		}
		for i, a := range com.Args {
			if a == v && i < len(f.Params) && e19ParamDeref(f.Params[i], depth+1) {
				return true
			}
		}
	}
	return false
}

// e19NonNilValue: v is non-nil at `at`: fresh allocation, always-non-nil call,
// dominating test, or result #0 of a call whose error result is known nil at
// `at` and whose every nil-error return yields a non-nil result #0.
func e19NonNilValue(v ssa.Value, at ssa.Instruction, d int) bool {
	if core.ClassifyNil(v, at) == core.NonNil {
		return true
	}
	if d > 3 {
		return false
	}
	if ex, ok := v.(*ssa.Extract); ok && ex.Index == 0 {
		call, ok := ex.Tuple.(*ssa.Call)
		if !ok {
			return false
		}
		var errV ssa.Value
		for _, r := range *call.Referrers() {
			if e2, ok := r.(*ssa.Extract); ok && core.IsErrorType(e2.Type()) {
				errV = e2
			}
		}
		if errV == nil || !core.NilAt(errV, at) {
			return false
		}
		f := call.Common().StaticCallee()
		if f == nil || f.Blocks == nil {
			return false
		}
		ei := core.ErrorResultIndex(f)
		if ei < 0 {
			return false
		}
		for _, ret := range core.Returns(f) {
			for _, evv := range core.ReturnOperand(ret, ei) {
				if evv != nil && core.ClassifyNil(evv, ret) == core.NonNil {
					continue // error return: result #0 irrelevant
				}
				for _, rv := range core.ReturnOperand(ret, 0) {
					if rv == nil || !e19NonNilValue(rv, ret, d+1) {
						return false
					}
				}
			}
		}
		return true
	}
	return false
}

func ruleErr12(c *Ctx) {
	for _, fname := range err12Fields {
		// anchor: the field exists and is nil-able
		var fieldVar *types.Var
		var owner *types.Named
		for _, pk := range c.P.Pkgs {
			sc := pk.Types.Scope()
			for _, n := range sc.Names() {
				tn, ok := sc.Lookup(n).(*types.TypeName)
				if !ok {
					continue
				}
				named, ok := tn.Type().(*types.Named)
				if !ok {
					continue
				}
				st, ok := named.Underlying().(*types.Struct)
				if !ok {
					continue
				}
				for i := 0; i < st.NumFields(); i++ {
					if core.Short(pk.PkgPath)+"."+n+"."+st.Field(i).Name() == fname {
						fieldVar, owner = st.Field(i), named
					}
				}
			}
		}
		if fieldVar == nil {
			c.Unknown("anchor:"+fname, "-", "cannot-analyse: field "+fname+" does not exist")
			continue
		}
		c.Anchors[fname] = true
		nilable := false
		for _, fn := range c.P.SrcFuncs() {
			if c.P.IsControl(fn) {
				continue
			}
			for _, b := range fn.Blocks {
				for _, in := range b.Instrs {
					al, ok := in.(*ssa.Alloc)
					if !ok || !types.Identical(al.Type().Underlying().(*types.Pointer).Elem(), owner) {
						continue
					}
					set := false
					for _, r := range *al.Referrers() {
						if fa, ok := r.(*ssa.FieldAddr); ok && e19FieldVarOf(fa) == fieldVar {
							set = true
						}
					}
					if !set {
						nilable = true
					}
				}
			}
		}
		if !nilable {
			c.Unknown("anchor:"+fname+" nil-able", "-", "every allocation of the owner now sets "+fname+": the frozen premise of R-ERR-12 (field may be nil) no longer holds, re-triage")
		}
		seq := e19SeqKey{}
		for _, fn := range c.P.SrcFuncs() {
			if c.P.IsControl(fn) && !strings.Contains(fn.Name(), "Handler") {
				continue // other rules' controls use the field too; only this rule's own controls count
			}
			for _, b := range fn.Blocks {
				for _, in := range b.Instrs {
					load, ok := in.(*ssa.UnOp)
					if !ok || load.Op != token.MUL {
						continue
					}
					fa, ok := load.X.(*ssa.FieldAddr)
					if !ok || e19FieldVarOf(fa) != fieldVar {
						continue
					}
					for _, use := range e19NonDebugRefs(load) {
						c.Sites++
						c.Touch(fn)
						what := ""
						deref := e19Derefs(use, load, 0)
						if call, ok := use.(ssa.CallInstruction); ok {
							what = "passed to " + e19ShortFn(c.P.CalleeName(call))
						} else {
							what = fmt.Sprintf("%T", use)
						}
						kfn := e19KeyFn(c, fn)
						key := seq.key(c, kfn, e19ExprLabel(load)+" "+what)
						if !deref {
							if _, isCall := use.(ssa.CallInstruction); isCall {
								c.Ok(key, c.Pos(use), "the callee tests the parameter for nil before using it (or does not dereference it)")
							} else {
								c.Ok(key, c.Pos(use), "not a dereference")
							}
							continue
						}
						if core.NonNilAt(load, use) {
							c.Ok(key, c.Pos(use), "dominated by a non-nil test of the same field")
							continue
						}
						// (2) dominating store of a non-nil value
						stored := false
						for _, b2 := range fn.Blocks {
							for _, in2 := range b2.Instrs {
								st, ok := in2.(*ssa.Store)
								if !ok {
									continue
								}
								sfa, ok := st.Addr.(*ssa.FieldAddr)
								if !ok || sfa.Field != fa.Field || !core.SameVal(sfa.X, fa.X) || !core.Dominates(st, load) {
									continue
								}
								if e19NonNilValue(st.Val, st, 0) && core.SameVal(load, e19LoadAfter(st, load)) {
									stored = true
								}
							}
						}
						if stored {
							c.Ok(key, c.Pos(use), "dominated by a store of a non-nil value into the same field")
							continue
						}
						done := false
						for _, im := range err12Implications {
							if e19OnlyCalledFrom(c, fn, im.fn) {
								if ok, why := im.side(c, fn, load); ok {
									c.Ok(key, c.Pos(use), "documented implication: "+im.reason+" — side condition checked: "+why)
								} else {
									c.Bad(key, c.Pos(use), "documented implication ("+im.reason+") no longer applies: "+why)
								}
								done = true
							}
						}
						if done {
							continue
						}
						c.Bad(key, c.Pos(use), fmt.Sprintf("%s is dereferenced here (%s) but it is nil for objects whose constructor leaves it unset (a view cached by a read-only load has no handler): no dominating `!= nil` test of this field and no dominating store of a non-nil value — nil pointer dereference → internal Fatal Error", fname, what))
					}
				}
			}
		}
	}
}

func e19FieldVarOf(fa *ssa.FieldAddr) *types.Var {
	t := fa.X.Type()
	if p, ok := t.Underlying().(*types.Pointer); ok {
		t = p.Elem()
	}
	st, ok := t.Underlying().(*types.Struct)
	if !ok || fa.Field >= st.NumFields() {
		return nil
	}
	return st.Field(fa.Field)
}

// e19LoadAfter returns load itself when no store to the field lies between st
// and load (checked through SameVal on a synthetic comparison with load).
func e19LoadAfter(st *ssa.Store, load *ssa.UnOp) ssa.Value {
	// SameVal(load, load) is trivially true; the store-between check is done here
	for _, b := range load.Parent().Blocks {
		for _, in := range b.Instrs {
			s2, ok := in.(*ssa.Store)
			if !ok || s2 == st {
				continue
			}
			f2, ok := s2.Addr.(*ssa.FieldAddr)
			if !ok || f2.Field != load.X.(*ssa.FieldAddr).Field || !core.SameVal(f2.X, load.X.(*ssa.FieldAddr).X) {
				continue
			}
			if core.Reachable(st, s2, nil) && core.Reachable(s2, load, nil) {
				return nil
			}
		}
	}
	return load
}
