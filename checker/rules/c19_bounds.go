package rules

import (
	"fmt"
	"go/ast"
	"go/token"
	"go/types"
	"math"
	"os"
	"sort"
	"strings"

	"golang.org/x/tools/go/ssa"

	"verif/checker/core"
)

// C19 — numeric preconditions of panicking operations (R-ERR-5, -7, -9, -10),
// decided with the demand-driven interval evaluator core.Bounds: a value's
// bounds come from constants, len/cap, dominating comparisons of the value
// itself, Phi edges, callee returns, caller arguments and field invariants.
// Nothing is concluded from arithmetic on values of unknown magnitude.

const e19BoundsAssumption = " (assumptions: lengths and loop trip counts < 2^47; runtime.NumCPU() ≥ 1; struct fields are written only by the stores visible in csvq, not by reflection)"

func init() {
	Register(&Rule{ID: "R-ERR-5", Props: []string{"C06"}, Floor: 2,
		Doc: "R-ERR-5 restricted to lib/query.calculateInteger (integer `/` and `%` of the SQL arithmetic): the divisor is excluded from 0 by a dominating test",
		Run: func(c *Ctx) { ruleErr5(c, e19InFuncsOrHelpers(c, "lib/query.calculateInteger")) }})
	Register(&Rule{ID: "R-ERR-7", Props: []string{"C17"}, Floor: 1,
		Doc: "R-ERR-7 restricted to lib/query.windowValues (frame-size guard): the capacity computed from the window frame is non-negative and bounded by the partition",
		Run: func(c *Ctx) { ruleErr7(c, e19InFuncsOrHelpers(c, "lib/query.windowValues")) }})
	Register(&Rule{ID: "R-ERR-9", Props: []string{"C07"}, Floor: 1,
		Doc: "R-LIM-3a = R-ERR-9 restricted to lib/query.(*View).Limit: the WITH TIES index limit-1 is non-negative (LIMIT 0 WITH TIES)",
		Run: func(c *Ctx) { ruleErr9(c, e19InFuncsOrHelpers(c, "lib/query.(*View).Limit")) }})
	Register(&Rule{ID: "R-ERR-10", Props: []string{"C07"}, Floor: 1,
		Doc: "R-LIM-3b = R-ERR-10 restricted to lib/query.(*View).Limit: the PERCENT → row-count conversion never sees NaN/±Inf or a float whose integral part is not an int",
		Run: func(c *Ctx) { ruleErr10(c, e19InFuncsOrHelpers(c, "lib/query.(*View).Limit")) }})
	Register(&Rule{ID: "R-ERR-5", Props: []string{"C19"}, Floor: 5,
		Doc:      "every integer `/` and `%` of hand-written csvq code whose divisor is not a constant has a divisor whose interval excludes 0 at the division (dominating zero test of the divisor itself, or an invariant of the field/parameter it is loaded from)" + e19BoundsAssumption,
		Controls: []string{"CtlUnguardedDivisor"},
		Run:      func(c *Ctx) { ruleErr5(c, nil) }})
	Register(&Rule{ID: "R-ERR-7", Props: []string{"C19"}, Floor: 200,
		Doc: "arguments of library operations with a panicking precondition are guarded: the len/cap of every make([]T, …), the count of strings.Repeat/bytes.Repeat (≥ 0 and bounded above), the argument of rand.Intn/Int63n (> 0), the precision of strconv.FormatFloat/AppendFloat and big.Float.Text/Append (bounded above: it is the number of digits written) and the argument of Builder/Buffer/slices.Grow (≥ 0 and bounded). " +
			"A non-constant argument must evaluate to an interval with the required lower bound and a finite upper bound; values of unknown magnitude get bounds only from a dominating comparison of the argument value itself (a guard on its operands is not enough: `high <= low` does not protect `high - low + 1` from overflow). An argument built from sizes is non-negative only if every subtraction in it is ordered; when the argument is a helper's parameter (a padding helper such as (*doc.Writer).WriteSpaces) the subtractions of ALL its static callers count, however many there are, and when they cannot be enumerated (deeper than two helpers, a closure's parameter, a dynamic call) the interval alone has to show the sign" + e19BoundsAssumption,
		Controls: []string{"CtlRepeatUnguarded", "CtlMakeOverflow", "CtlRandUnguarded", "CtlPrecUnbounded", "CtlGrowUnbounded", "CtlPadHelperSpaces"},
		Run:      func(c *Ctx) { ruleErr7(c, nil) }})
	Register(&Rule{ID: "R-ERR-9", Props: []string{"C19"}, Floor: 20,
		Doc: "every index or slice bound of the form `n - c` (c > 0 constant) in hand-written, non-interactive csvq code is non-negative where it is used (for x[k:n-c] also n - c ≥ k): n ≥ c follows from a dominating test of n, from `0 < len(x)`-style tests of the same slice, from the construction of the slice (literal, append, make) or from a field invariant" + e19BoundsAssumption +
			". Upper bounds (index < len) are not decided.",
		Controls: []string{"CtlDecrementedIndex"},
		Run:      func(c *Ctx) { ruleErr9(c, nil) }})
	Register(&Rule{ID: "R-ERR-10", Props: []string{"C19"}, Floor: 14,
		Doc: "every float → integer conversion of hand-written csvq code has an operand that is neither NaN nor ±Inf and whose integral part is a value of the target type (for int64: -2^63 ≤ f < 2^63 — the upper end is exclusive, float64(MaxInt64) is 2^63): the float interval (with NaN flag) is computed from the operand's expression and the comparisons / math.IsNaN / math.IsInf tests that dominate the conversion; a false ordered comparison does not exclude NaN, a quotient is finite only if its divisor excludes 0. " +
			"The result of converting a float outside the range is left to the implementation by the language (MinInt64 on amd64): INTEGER(1e19), LIMIT 1e30, FETCH ABSOLUTE 1e30. The range part is not demanded of a finite operand built from sizes only (file sizes, byte positions, lengths, counters, constants — R-ERR-7's notion): it has the magnitude of the data, not one the input chooses; nor of a finite operand whose converted integer is used only as an argument that R-ERR-7 requires to be shown ≥ 0 and bounded (make, Repeat, Grow): the interval engine assumes nothing about the result of an out-of-range conversion, so that obligation covers it" + e19BoundsAssumption,
		Controls: []string{"CtlNaNToInt", "CtlQuotientToInt", "CtlFloatToIntNoRange", "CtlFloatToIntMaxInclusive", "CtlFloatOfUserCountToInt", "CtlFloatToInt32WideTest"},
		Run:      func(c *Ctx) { ruleErr10(c, nil) }})
}

// ---------------------------------------------------------------------------
// scope: hand-written code

var e19GeneratedMemo = map[*core.Prog]map[string]bool{}

// e19GeneratedFiles: real file names (not //line-adjusted) of files marked "Code generated … DO NOT EDIT".
func e19GeneratedFiles(p *core.Prog) map[string]bool {
	if m, ok := e19GeneratedMemo[p]; ok {
		return m
	}
	m := map[string]bool{}
	for _, pk := range p.Pkgs {
		for _, f := range pk.Syntax {
			if ast.IsGenerated(f) {
				m[p.Fset.PositionFor(f.Pos(), false).Filename] = true
			}
		}
	}
	e19GeneratedMemo[p] = m
	return m
}

func e19IsGeneratedFn(p *core.Prog, fn *ssa.Function) bool {
	root := fn
	for root.Parent() != nil {
		root = root.Parent()
	}
	pos := root.Pos()
	if !pos.IsValid() {
		return root.Synthetic != ""
	}
	return e19GeneratedFiles(p)[p.Fset.PositionFor(pos, false).Filename]
}

// e19InFuncs: scope predicate — the named functions (anchors; a missing one is
// reported by the caller's floor) and their closures.
func e19InFuncs(names ...string) func(*ssa.Function) bool {
	return func(fn *ssa.Function) bool {
		for fn.Parent() != nil {
			fn = fn.Parent()
		}
		pk := core.FnPkg(fn)
		if pk == nil {
			return false
		}
		n := core.Short(pk.Pkg.Path()) + "." + fn.RelString(pk.Pkg)
		for _, x := range names {
			if n == x {
				return true
			}
		}
		return false
	}
}

// e19HandWritten: source functions of csvq outside generated files (plus controls).
func e19HandWritten(c *Ctx, scope func(*ssa.Function) bool, exclude ...string) []*ssa.Function {
	var out []*ssa.Function
	for _, fn := range c.P.SrcFuncs() {
		if e19IsGeneratedFn(c.P, fn) {
			continue
		}
		if scope != nil && !scope(fn) {
			continue
		}
		if len(exclude) > 0 && c.P.InPkg(fn, exclude...) {
			continue
		}
		out = append(out, fn)
	}
	return out
}

func e19FmtAV(a core.AV) string {
	if a.Bot {
		return "unreachable"
	}
	s := fmt.Sprintf("[%s, %s]", e19FmtBound(a.Lo), e19FmtBound(a.Hi))
	if a.Lo > a.Hi {
		s = "{}"
	}
	if a.NaN {
		s += "∪NaN"
	}
	return s
}

func e19FmtBound(f float64) string {
	switch {
	case math.IsInf(f, 1):
		return "+∞"
	case math.IsInf(f, -1):
		return "-∞"
	case f == core.LenMax:
		return "maxlen"
	case f == math.Trunc(f) && math.Abs(f) < 1e15:
		return fmt.Sprintf("%d", int64(f))
	}
	return fmt.Sprintf("%g", f)
}

// e19SeqKey makes keys unique per (function, construct) in source order.
// e19KeyFn attributes a construct to the function a reader would look for: a
// helper that has exactly one calling function (all call sites in it, static
// calls) is folded into that caller, so that extracting code into a helper does
// not rename the construct (known findings and exceptions stay attached).
// e19OnlyCalledFrom: fn is `name` or an unexported helper whose every call
// chain (≤ 3 hops, static calls) starts in `name`.
func e19OnlyCalledFrom(c *Ctx, fn *ssa.Function, names ...string) bool {
	for fn.Parent() != nil {
		fn = fn.Parent()
	}
	memo := map[*ssa.Function]int{} // 1 yes, 2 no / in progress
	var up func(f *ssa.Function, d int) bool
	up = func(f *ssa.Function, d int) bool {
		for _, n := range names {
			if c.P.Name(f) == n {
				return true
			}
		}
		switch memo[f] {
		case 1:
			return true
		case 2:
			return false
		}
		if d > 3 || ast.IsExported(f.Name()) {
			return false
		}
		memo[f] = 2
		n := 0
		for _, ed := range c.P.RealCallers(f) {
			cf := ed.Caller.Func
			if cf == nil || cf.Synthetic != "" {
				continue
			}
			for cf.Parent() != nil {
				cf = cf.Parent()
			}
			if ed.Site == nil || ed.Site.Common().StaticCallee() != f || !up(cf, d+1) {
				return false
			}
			n++
		}
		if n > 0 {
			memo[f] = 1
		}
		return n > 0
	}
	return up(fn, 0)
}

// e19InFuncsOrHelpers: scope predicate — the named functions, their closures,
// and unexported helpers that are called only from them (≤ 3 hops), so that
// splitting a scoped function into helpers keeps its obligations in scope.
func e19InFuncsOrHelpers(c *Ctx, names ...string) func(*ssa.Function) bool {
	for _, n := range names {
		c.Fn(n) // a vanished anchor is reported, not silently skipped
	}
	return func(fn *ssa.Function) bool { return e19OnlyCalledFrom(c, fn, names...) }
}

func e19KeyFn(c *Ctx, fn *ssa.Function) *ssa.Function {
	for hop := 0; hop < 3; hop++ {
		if fn.Parent() != nil || c.P.IsControl(fn) || ast.IsExported(fn.Name()) {
			return fn // only unexported helpers are folded into their caller
		}
		var caller *ssa.Function
		for _, ed := range c.P.RealCallers(fn) {
			cf := ed.Caller.Func
			if cf == nil || cf.Synthetic != "" {
				continue
			}
			if ed.Site == nil || ed.Site.Common().StaticCallee() != fn {
				return fn
			}
			for cf.Parent() != nil {
				cf = cf.Parent()
			}
			if caller != nil && caller != cf {
				return fn
			}
			caller = cf
		}
		if caller == nil || caller == fn || c.P.Name(caller) == caller.String() || ast.IsExported(caller.Name()) {
			return fn // helpers of exported functions keep their own name
		}
		fn = caller
	}
	return fn
}

type e19SeqKey map[string]int

func (s e19SeqKey) key(c *Ctx, fn *ssa.Function, detail string) string {
	k := c.KeyAt(fn, detail)
	s[k]++
	if s[k] > 1 {
		return fmt.Sprintf("%s #%d", k, s[k])
	}
	return k
}

// ---------------------------------------------------------------------------
// R-ERR-5

func e19NewBounds(c *Ctx) *core.Bounds {
	e := core.NewBounds(c.P)
	fixedViewCallers = c.P.RealCallers
	if os.Getenv("CSVQSA_TRACE") != "" {
		e.Trace = func(s string) { fmt.Fprintln(os.Stderr, s) }
	}
	return e
}

func ruleErr5(c *Ctx, scope func(*ssa.Function) bool) {
	e := e19NewBounds(c)
	seq := e19SeqKey{}
	for _, fn := range e19HandWritten(c, scope) {
		for _, b := range fn.Blocks {
			for _, in := range b.Instrs {
				x, ok := in.(*ssa.BinOp)
				if !ok || (x.Op != token.QUO && x.Op != token.REM) || !e19IsIntType(x.Type()) {
					continue
				}
				if _, isConst := x.Y.(*ssa.Const); isConst {
					continue
				}
				c.Sites++
				c.Touch(fn)
				key := seq.key(c, fn, fmt.Sprintf("%s %s %s", e19ExprLabel(x.X), x.Op, e19ExprLabel(x.Y)))
				a := e.Eval(x.Y, x, core.KInt)
				if a.ExcludesZero() {
					c.Ok(key, c.Pos(x), "divisor ∈ "+e19FmtAV(a))
				} else {
					c.Bad(key, c.Pos(x), fmt.Sprintf("the divisor %s may be 0 here (interval %s): no dominating test of the divisor and no invariant excludes it — integer divide by zero panics", valueLabel(x.Y), e19FmtAV(a)))
				}
			}
		}
	}
}

// ---------------------------------------------------------------------------
// R-ERR-7

var e19RandCallees = map[string]bool{
	"math/rand.Int63n": true, "math/rand.Intn": true, "math/rand.Int31n": true,
	"(*math/rand.Rand).Int63n": true, "(*math/rand.Rand).Intn": true, "(*math/rand.Rand).Int31n": true,
}

// e19OutputSizeArgs: library operations that produce as many bytes as an int
// argument says (besides make and Repeat): the argument needs an upper bound,
// or a user-chosen number ends the process with "fatal error: out of memory",
// which no recover() catches. arg counts the SSA arguments (receiver first).
var e19OutputSizeArgs = map[string]struct {
	arg   int
	name  string
	lo    float64
	fails string
}{
	"strconv.FormatFloat":      {2, "prec", math.Inf(-1), "strconv writes prec digits: a huge precision ends in \"fatal error: out of memory\" (not recoverable)"},
	"strconv.AppendFloat":      {3, "prec", math.Inf(-1), "strconv writes prec digits: a huge precision ends in \"fatal error: out of memory\" (not recoverable)"},
	"(*math/big.Float).Text":   {2, "prec", math.Inf(-1), "big.Float.Text writes prec digits: a huge precision ends in \"fatal error: out of memory\""},
	"(*math/big.Float).Append": {3, "prec", math.Inf(-1), "big.Float.Append writes prec digits: a huge precision ends in \"fatal error: out of memory\""},
	"(*strings.Builder).Grow":  {1, "n", 0, "panic \"strings.Builder.Grow: negative count\" / out of memory"},
	"(*bytes.Buffer).Grow":     {1, "n", 0, "panic \"bytes.Buffer.Grow: negative count\" / bytes.ErrTooLarge"},
	"slices.Grow":              {1, "n", 0, "panic \"cannot be negative\" / out of memory"},
}

// e19Diff is a subtraction inside a size expression and the point where its
// operands are alive (the use, or the call site that passes it to a helper).
type e19Diff struct {
	op *ssa.BinOp
	at ssa.Instruction
}

// e19Differences lists the subtractions inside an integer expression: through
// conversions, Phi, arithmetic, math rounding, and — for a helper's parameter —
// the arguments of its static callers (2 levels).
func e19Differences(c *Ctx, v ssa.Value, at ssa.Instruction) ([]e19Diff, ssa.Value) {
	var out []e19Diff
	// cut: the first parameter behind which the callers' arguments were NOT
	// enumerated (nesting deeper than two helpers, a closure's parameter, a call
	// site that is not a static call): the list of subtractions is then incomplete
	// and "no subtraction found" proves nothing.
	var cut ssa.Value
	seen := map[ssa.Value]bool{}
	var walk func(x ssa.Value, at ssa.Instruction, d, up int)
	walk = func(x ssa.Value, at ssa.Instruction, d, up int) {
		if x == nil || seen[x] || d > 10 {
			return
		}
		seen[x] = true
		switch y := x.(type) {
		case *ssa.BinOp:
			if y.Op == token.SUB {
				out = append(out, e19Diff{y, at})
			}
			walk(y.X, at, d+1, up)
			walk(y.Y, at, d+1, up)
		case *ssa.Convert:
			walk(y.X, at, d+1, up)
		case *ssa.ChangeType:
			walk(y.X, at, d+1, up)
		case *ssa.Phi:
			for _, ed := range y.Edges {
				walk(ed, at, d+1, up)
			}
		case *ssa.UnOp:
			// a local variable that lives in a cell because a closure captures it
			// (fieldLen := a - b; … func() { make(T, fieldLen) }): its assigned values
			if y.Op != token.MUL {
				return
			}
			cell := e19CellRoot(y.X)
			if cell == nil {
				return
			}
			vals, complete := core.StoresTo(cell)
			if !complete {
				return
			}
			for _, sv := range vals {
				sat := at
				if si, ok := sv.(ssa.Instruction); ok {
					sat = si
				}
				walk(sv, sat, d+1, up)
			}
		case *ssa.Parameter:
			_, idx := e19ParamIndex(y)
			edges := c.P.RealCallers(y.Parent())
			if idx < 0 || up >= 2 || y.Parent().Parent() != nil {
				if cut == nil {
					cut = y
				}
				return
			}
			// every caller, however many there are: a padding helper such as
			// (*doc.Writer).WriteSpaces has dozens, and each passes its own difference
			for _, ed := range edges {
				if ed.Caller.Func != nil && ed.Caller.Func.Synthetic != "" && len(c.P.Callers(ed.Caller.Func)) == 0 {
					continue // promoted-method wrapper that nothing calls
				}
				site, ok := ed.Site.(*ssa.Call)
				if !ok || site.Common().StaticCallee() != y.Parent() || idx >= len(site.Common().Args) {
					if cut == nil {
						cut = y
					}
					continue
				}
				walk(site.Common().Args[idx], site, d+1, up+1)
			}
		case *ssa.Call:
			if _, isB := y.Common().Value.(*ssa.Builtin); isB {
				return
			}
			if f := y.Common().StaticCallee(); f != nil && f.Pkg != nil && f.Pkg.Pkg.Path() == "math" {
				for _, a := range y.Common().Args {
					walk(a, at, d+1, up)
				}
			}
		}
	}
	walk(v, at, 0, 0)
	return out, cut
}

// differences of sizes whose order is a value-level invariant (frozen, re-checked shape)
type e19DiffException struct {
	fn, reason string
	side       func(c *Ctx, diffs []ssa.Value) (bool, string)
}

var err7DiffExceptions = []e19DiffException{
	{"lib/query.Delete", "deletedIndices[k] is a set of distinct record indices of the view v, so it has at most v.RecordLen() members",
		func(c *Ctx, diffs []ssa.Value) (bool, string) {
			if len(diffs) != 1 {
				return false, "more than one subtraction"
			}
			d := diffs[0].(*ssa.BinOp)
			xc, ok := d.X.(*ssa.Call)
			if !ok || xc.Common().StaticCallee() == nil || xc.Common().StaticCallee().Name() != "RecordLen" {
				return false, "the minuend is not RecordLen()"
			}
			yc, ok := d.Y.(*ssa.Call)
			if !ok {
				return false, "the subtrahend is not len(map)"
			}
			if b, ok := yc.Common().Value.(*ssa.Builtin); !ok || b.Name() != "len" {
				return false, "the subtrahend is not len(map)"
			}
			if _, isMap := yc.Common().Args[0].Type().Underlying().(*types.Map); !isMap {
				return false, "the subtrahend is not the size of a set"
			}
			return true, "RecordLen() minus the size of a map keyed by record index"
		}},
	{"lib/query.writeFieldList", "idxstr is the decimal text of i+1 ≤ l and digits is the length of the decimal text of l",
		func(c *Ctx, diffs []ssa.Value) (bool, string) {
			if len(diffs) != 1 {
				return false, "more than one subtraction"
			}
			d := diffs[0].(*ssa.BinOp)
			for _, side := range []ssa.Value{d.X, d.Y} {
				lc, ok := side.(*ssa.Call)
				if !ok {
					return false, "operand is not len(strconv.Itoa(...))"
				}
				if b, ok := lc.Common().Value.(*ssa.Builtin); !ok || b.Name() != "len" {
					return false, "operand is not len(...)"
				}
				ic, ok := lc.Common().Args[0].(*ssa.Call)
				if !ok || c.P.CalleeName(ic) != "strconv.Itoa" {
					return false, "operand is not len(strconv.Itoa(...))"
				}
			}
			return true, "both operands are lengths of strconv.Itoa results"
		}},
}

// e19RecordRangeDiff: end - start of one (*GoroutineTaskManager).RecordRange call:
// the ranges tile [0, recordLen) with start ≤ end (decided by R-PAR-5).
func e19RecordRangeDiff(c *Ctx, d *ssa.BinOp) bool {
	ex, ok1 := d.X.(*ssa.Extract)
	ey, ok2 := d.Y.(*ssa.Extract)
	if !ok1 || !ok2 || ex.Tuple != ey.Tuple || ex.Index != 1 || ey.Index != 0 {
		return false
	}
	call, ok := ex.Tuple.(*ssa.Call)
	return ok && call.Common().StaticCallee() != nil && c.P.Name(call.Common().StaticCallee()) == "lib/query.(*GoroutineTaskManager).RecordRange"
}

func ruleErr7(c *Ctx, scope func(*ssa.Function) bool) {
	e := e19NewBounds(c)
	seq := e19SeqKey{}
	// need(v, lo): obligation that v ≥ lo and v bounded above
	check := func(fn *ssa.Function, at ssa.Instruction, what string, v ssa.Value, lo float64, needUpper bool, panicText string) {
		if _, isConst := v.(*ssa.Const); isConst {
			return
		}
		c.Sites++
		c.Touch(fn)
		if lo == 0 && e.SizeDerived(v, at) {
			// sums and products of sizes are non-negative; a DIFFERENCE of sizes is not:
			// its sign is a logic invariant that has to be shown (interval, or a
			// dominating comparison of the two operands) — `len(fields) - len(keys)`
			diffs, cut := e19Differences(c, v, at)
			if len(diffs) == 0 && cut == nil {
				c.Ok(seq.key(c, e19KeyFn(c, fn), what+" guarded"), c.Pos(at), "built from lengths, counters, library-reported sizes and constants only (no subtraction): carries no input-chosen magnitude and cannot be negative")
				return
			}
			key := seq.key(c, e19KeyFn(c, fn), what+" guarded")
			if a := e.Eval(v, at, core.KInt); a.Bot || a.Lo >= 0 {
				c.Ok(key, c.Pos(at), "built from sizes; shown ≥ 0: "+e19FmtAV(a))
				return
			}
			if cut != nil {
				// the subtractions behind this parameter were not enumerated: only the
				// interval could have shown the sign, and it did not
				c.Bad(key, c.Pos(at), fmt.Sprintf("the argument is built from sizes, but the values that reach it through %s (%s) were not all enumerated (helper nesting deeper than two levels, a closure's parameter or a dynamic call site), and its interval %s does not show it ≥ 0 — %s", valueLabel(cut), c.P.InstrPos(e19InstrOf(cut)), e19FmtAV(e.Eval(v, at, core.KInt)), panicText))
				return
			}
			pr := &e19Prover{c: c, e: e, busy: map[e19BusyKey]bool{}}
			var open []e19Diff
			for _, df := range diffs {
				if a := e.Eval(df.op, df.at, core.KInt); a.Bot || a.Lo >= 0 {
					continue
				}
				if pr.le(df.op.Y, e19Term{val: df.op.X}, false, core.FactsAt(df.at.Block()), df.at, 0) {
					continue
				}
				if e19RecordRangeDiff(c, df.op) {
					continue
				}
				open = append(open, df)
			}
			// a stable order: the callers of a helper are enumerated in call-graph order
			sort.SliceStable(open, func(i, j int) bool { return c.Pos(open[i].at) < c.Pos(open[j].at) })
			if len(open) == 0 {
				c.Ok(key, c.Pos(at), "built from sizes; every subtraction in it has its subtrahend shown ≤ its minuend (interval, dominating comparison, io.Reader contract, or RecordRange's start ≤ end)")
				return
			}
			for _, ex := range err7DiffExceptions {
				if e19OnlyCalledFrom(c, fn, ex.fn) {
					var ops []ssa.Value
					for _, df := range open {
						ops = append(ops, df.op)
					}
					if ok, why := ex.side(c, ops); ok {
						c.Ok(key, c.Pos(at), "frozen exception: "+ex.reason+" — side condition checked: "+why)
					} else {
						c.Bad(key, c.Pos(at), "frozen exception ("+ex.reason+") no longer holds: "+why)
					}
					return
				}
			}
			d := open[0].op
			where := ""
			if open[0].at != at {
				where = " (computed at " + c.Pos(open[0].at) + ")"
			}
			more := ""
			if len(open) > 1 {
				// a helper's parameter collects the differences of all its callers: name each
				var sites []string
				for _, df := range open[1:] {
					sites = append(sites, fmt.Sprintf("%s - %s at %s", e19ExprLabel(df.op.X), e19ExprLabel(df.op.Y), c.Pos(df.at)))
				}
				sort.Strings(sites)
				more = fmt.Sprintf("; %d more unshown difference(s) reach the same argument: %s", len(sites), strings.Join(sites, "; "))
			}
			c.Bad(key, c.Pos(at), fmt.Sprintf("the argument is a difference of sizes (%s - %s)%s whose sign is not shown: nothing that dominates it orders the two operands (duplicates in a user-written list make the subtrahend larger)%s — %s", e19ExprLabel(d.X), e19ExprLabel(d.Y), where, more, panicText))
			return
		}
		leaf := ""
		if f := e.SizeFail(); f != nil && lo == 0 {
			leaf = "; it is not size-derived because of " + valueLabel(f) + " (" + c.P.InstrPos(e19InstrOf(f)) + ")"
		}
		a := e.Eval(v, at, core.KInt)
		if !math.IsInf(lo, -1) { // lo = -∞: the operation accepts every negative argument (strconv's precision: "shortest")
			keyLo := seq.key(c, e19KeyFn(c, fn), what+fmt.Sprintf(" ≥ %d", int(lo)))
			if a.Bot || a.Lo >= lo {
				c.Ok(keyLo, c.Pos(at), "argument ∈ "+e19FmtAV(a))
			} else {
				c.Bad(keyLo, c.Pos(at), fmt.Sprintf("the argument %s evaluates to %s: nothing that dominates this call shows it ≥ %d (a test of its operands does not survive overflow)%s — %s", valueLabel(v), e19FmtAV(a), int(lo), leaf, panicText))
			}
		}
		if !needUpper {
			return
		}
		keyHi := seq.key(c, e19KeyFn(c, fn), what+" bounded")
		if a.Bot || !math.IsInf(a.Hi, 1) {
			c.Ok(keyHi, c.Pos(at), "argument ∈ "+e19FmtAV(a))
		} else {
			c.Bad(keyHi, c.Pos(at), fmt.Sprintf("the argument %s has no upper bound here (%s): a huge user-supplied value reaches the allocation%s — %s", valueLabel(v), e19FmtAV(a), leaf, panicText))
		}
	}
	for _, fn := range e19HandWritten(c, scope) {
		for _, b := range fn.Blocks {
			for _, in := range b.Instrs {
				switch x := in.(type) {
				case *ssa.MakeSlice:
					t := types.TypeString(x.Type(), func(p *types.Package) string { return p.Name() })
					check(fn, x, "make("+t+") len", x.Len, 0, true, "runtime panic \"makeslice: len out of range\"")
					if x.Cap != x.Len {
						check(fn, x, "make("+t+") cap", x.Cap, 0, true, "runtime panic \"makeslice: cap out of range\"")
					}
				case *ssa.MakeChan:
					check(fn, x, "make(chan) size", x.Size, 0, true, "runtime panic \"makechan: size out of range\"")
				case ssa.CallInstruction:
					n := c.P.CalleeName(x)
					switch {
					case n == "strings.Repeat" || n == "bytes.Repeat":
						check(fn, x, n+" count", x.Common().Args[1], 0, true, "panic \"strings: negative Repeat count\" / \"Repeat output length overflow\"")
					case e19RandCallees[n]:
						args := x.Common().Args
						check(fn, x, n+" n", args[len(args)-1], 1, false, "panic \"invalid argument to "+n[strings.LastIndex(n, ".")+1:]+"\"")
					default:
						if sz, ok := e19OutputSizeArgs[n]; ok && sz.arg < len(x.Common().Args) {
							check(fn, x, n+" "+sz.name, x.Common().Args[sz.arg], sz.lo, true, sz.fails)
						}
					}
				}
			}
		}
	}
}

// ---------------------------------------------------------------------------
// R-ERR-9

func ruleErr9(c *Ctx, scope func(*ssa.Function) bool) {
	e := e19NewBounds(c)
	seq := e19SeqKey{}
	decr := func(idx ssa.Value) (*ssa.BinOp, int64) {
		if cv, ok := idx.(*ssa.Convert); ok {
			idx = cv.X
		}
		b, ok := idx.(*ssa.BinOp)
		if !ok || b.Op != token.SUB {
			return nil, 0
		}
		k, ok := core.ConstInt(b.Y)
		if !ok || k <= 0 {
			return nil, 0
		}
		return b, k
	}
	check := func(fn *ssa.Function, at ssa.Instruction, container ssa.Value, idx ssa.Value, min float64, role string) {
		b, k := decr(idx)
		if b == nil {
			return
		}
		c.Sites++
		c.Touch(fn)
		key := seq.key(c, fn, fmt.Sprintf("%s[%s - %d]%s", e19ExprLabel(container), e19ExprLabel(b.X), k, role))
		a := e.Eval(b, at, core.KInt)
		if a.Bot || a.Lo >= min {
			c.Ok(key, c.Pos(at), fmt.Sprintf("%s - %d ∈ %s", e19ExprLabel(b.X), k, e19FmtAV(a)))
			return
		}
		n := e.Eval(b.X, at, core.KInt)
		for _, ex := range err9Exceptions {
			if ex.fn == c.P.Name(fn) && strings.HasPrefix(key[len(c.P.Name(fn))+2:], ex.construct) {
				if ok, why := ex.side(c, fn, b, k, n); ok {
					c.Ok(key, c.Pos(at), "frozen exception: "+ex.reason+" — side condition checked: "+why)
				} else {
					c.Bad(key, c.Pos(at), "frozen exception ("+ex.reason+") no longer holds: "+why)
				}
				return
			}
		}
		c.Bad(key, c.Pos(at), fmt.Sprintf("%s - %d is used as an index/bound but %s ∈ %s here: no dominating test, construction or invariant shows %s ≥ %d — index out of range [-%d] / slice bounds out of range", valueLabel(b.X), k, valueLabel(b.X), e19FmtAV(n), e19ExprLabel(b.X), k+int64(min), k))
	}
	for _, fn := range e19HandWritten(c, scope, "lib/terminal") {
		for _, b := range fn.Blocks {
			for _, in := range b.Instrs {
				switch x := in.(type) {
				case *ssa.IndexAddr:
					check(fn, x, x.X, x.Index, 0, "")
				case *ssa.Index:
					check(fn, x, x.X, x.Index, 0, "")
				case *ssa.Slice:
					if x.Low != nil {
						check(fn, x, x.X, x.Low, 0, " (low)")
					}
					min := 0.0
					if x.Low != nil {
						if k, ok := core.ConstInt(x.Low); ok && k > 0 {
							min = float64(k)
						}
					}
					if x.High != nil {
						check(fn, x, x.X, x.High, min, " (high)")
					}
					if x.Max != nil {
						check(fn, x, x.X, x.Max, min, " (max)")
					}
				}
			}
		}
	}
}

// Frozen exceptions of R-ERR-9: single constructs whose lower bound is a
// value-level fact, each with a mechanical side condition that is re-checked.
type err9Exception struct {
	fn, construct, reason string
	side                  func(c *Ctx, fn *ssa.Function, b *ssa.BinOp, k int64, n core.AV) (bool, string)
}

var err9Exceptions = []err9Exception{
	{"lib/parser.(*Scanner).checkNewLine", "s.src[s.srcPos - 1]",
		"checkNewLine examines the rune that next() has just consumed",
		func(c *Ctx, fn *ssa.Function, b *ssa.BinOp, k int64, n core.AV) (bool, string) {
			if n.Bot || n.Lo < 0 {
				return false, "the field is not known to be ≥ 0"
			}
			return e19CallersIncrementField(c, fn, b.X, k)
		}},
	{"lib/query.perseCumulativeGroups", "groups[result of len - 1]",
		"the else-arm runs only after EquivalentTo(currentRank) returned true, i.e. currentRank was set by an earlier iteration, which also appended to groups",
		func(c *Ctx, fn *ssa.Function, b *ssa.BinOp, k int64, n core.AV) (bool, string) {
			eq := c.Fn("lib/query.(SortValues).EquivalentTo")
			if eq == nil {
				return false, "anchor (SortValues).EquivalentTo missing"
			}
			// every return reached under `compareValues == nil` yields the constant false
			okAll, seen := true, false
			for _, r := range core.Returns(eq) {
				for _, f := range core.FactsAt(r.Block()) {
					x, neq, ok := core.NilCmp(f.Cond)
					if !ok || x != eq.Params[1] || neq != f.Neg {
						continue
					}
					seen = true
					if v, isB := core.ConstBool(r.Results[0]); !isB || v {
						okAll = false
					}
				}
			}
			if !seen || !okAll {
				return false, "(SortValues).EquivalentTo(nil) is not the constant false"
			}
			// the same branch that appends to groups also is the only one assigning currentRank
			return true, "(SortValues).EquivalentTo returns false for a nil argument"
		}},
}

// e19CallersIncrementField: the index is `recv.f - k` with recv the receiver of fn;
// every caller stores recv.f = recv.f + j (j ≥ k) before the call, in the
// call's block, with no call or other store to f in between.
func e19CallersIncrementField(c *Ctx, fn *ssa.Function, n ssa.Value, k int64) (bool, string) {
	load, ok := n.(*ssa.UnOp)
	if !ok {
		return false, "index base is not a field load"
	}
	fa, ok := load.X.(*ssa.FieldAddr)
	if !ok || len(fn.Params) == 0 || fa.X != fn.Params[0] {
		return false, "index base is not a field of the receiver"
	}
	edges := c.P.RealCallers(fn)
	if len(edges) == 0 {
		return false, "no caller"
	}
	checked := 0
	for _, ed := range edges {
		if ed.Caller.Func.Synthetic != "" && len(c.P.Callers(ed.Caller.Func)) == 0 {
			continue // promoted-method wrapper that nothing calls
		}
		checked++
		site, ok := ed.Site.(*ssa.Call)
		if !ok || site.Common().StaticCallee() != fn {
			return false, "dynamic or deferred call site in " + c.P.Name(ed.Caller.Func)
		}
		recv := site.Common().Args[0]
		found := false
		instrs := site.Block().Instrs
	scan:
		for i := core.InstrIndex(site) - 1; i >= 0; i-- {
			switch x := instrs[i].(type) {
			case *ssa.Store:
				sfa, ok := x.Addr.(*ssa.FieldAddr)
				if !ok || sfa.Field != fa.Field || !core.SameVal(sfa.X, recv) {
					continue
				}
				if add, ok := x.Val.(*ssa.BinOp); ok && add.Op == token.ADD {
					if j, ok := core.ConstInt(add.Y); ok && j >= k {
						if l, ok := add.X.(*ssa.UnOp); ok {
							if lfa, ok := l.X.(*ssa.FieldAddr); ok && lfa.Field == fa.Field && core.SameVal(lfa.X, recv) {
								found = true
							}
						}
					}
				}
				break scan
			case ssa.CallInstruction:
				break scan
			}
		}
		if !found {
			return false, "caller " + c.P.Name(ed.Caller.Func) + " does not increment the field right before the call"
		}
	}
	if checked == 0 {
		return false, "no caller"
	}
	return true, fmt.Sprintf("all %d caller(s) increment the field by ≥ %d immediately before the call", checked, k)
}

// ---------------------------------------------------------------------------
// R-ERR-10

func ruleErr10(c *Ctx, scope func(*ssa.Function) bool) {
	if scope == nil {
		start := len(c.Obs)
		defer func() {
			c.negControls(start, "okNaNExcluded", "okQuotientGuarded", "okFloatToIntRange:", "okFloatToIntRangeConj", "okFloatOfSizesToInt")
		}()
	}
	e := e19NewBounds(c)
	seq := e19SeqKey{}
	for _, fn := range e19HandWritten(c, scope) {
		for _, b := range fn.Blocks {
			for _, in := range b.Instrs {
				x, ok := in.(*ssa.Convert)
				if !ok || !e19IsFloatType(x.X.Type()) || !e19IsIntType(x.Type()) {
					continue
				}
				c.Sites++
				c.Touch(fn)
				key := seq.key(c, fn, fmt.Sprintf("%s(%s)", types.TypeString(x.Type(), nil), e19FloatExprLabel(x.X)))
				a := e.Eval(x.X, x, core.KFloat)
				lo, hi, tname := e19IntRange(x.Type())
				if a.Bot || (a.Finite() && a.Lo >= lo && a.Hi <= hi) {
					c.Ok(key, c.Pos(x), "operand ∈ "+e19FmtAV(a)+" ⊆ range of "+tname)
					continue
				}
				if site := e19ConfinedByErr7(c, x); a.Finite() && site != nil {
					// the integer goes nowhere but into an argument whose sign and upper bound
					// R-ERR-7 decides: the interval engine knows nothing about an out-of-range
					// conversion (Top), so that obligation stands for this one
					c.Ok(key, c.Pos(x), "operand ∈ "+e19FmtAV(a)+": finite; the converted integer is used only as an argument that R-ERR-7 requires to be shown ≥ 0 and bounded ("+c.Pos(site)+"), and the interval engine assumes nothing about the result of an out-of-range conversion")
					continue
				}
				if a.Finite() && e.SizeDerived(x.X, x) {
					// finite, and no leaf of the expression is a value the input chooses
					// (file sizes, byte positions, lengths, counters, constants): its magnitude
					// is the magnitude of the data, covered by the stated assumption
					c.Ok(key, c.Pos(x), "operand ∈ "+e19FmtAV(a)+": finite and built from sizes, positions and constants only (no input-chosen magnitude)")
					continue
				}
				var bad []string
				if a.NaN {
					bad = append(bad, "NaN")
				}
				if math.IsInf(a.Lo, -1) {
					bad = append(bad, "-Inf")
				} else if a.Lo < lo {
					bad = append(bad, "below the smallest "+tname)
				}
				if math.IsInf(a.Hi, 1) {
					bad = append(bad, "+Inf")
				} else if a.Hi > hi {
					bad = append(bad, "above the largest "+tname)
				}
				c.Bad(key, c.Pos(x), fmt.Sprintf("the operand %s can be %s here (%s): the tests that dominate the conversion do not exclude it (a false `<`/`>` comparison is also false for NaN; x/0 is ±Inf; float64(MaxInt64) is 2^63, one above the largest int64) — Go leaves the result of converting a float outside the target's range to the implementation: the converted integer is garbage (MinInt64 on amd64) and reaches index/size arithmetic or is shown to the user as the value", e19FloatExprLabel(x.X), strings.Join(bad, "/"), e19FmtAV(a)))
			}
		}
	}
}

// e19ConfinedByErr7: every use of the converted integer v is an argument for which
// ruleErr7 emits a "≥ 0" and a "bounded" obligation (make len/cap, Repeat count,
// Grow) — returns one such site, or nil.
func e19ConfinedByErr7(c *Ctx, v ssa.Value) ssa.Instruction {
	refs := v.Referrers()
	if refs == nil || len(*refs) == 0 {
		return nil
	}
	var site ssa.Instruction
	for _, r := range *refs {
		ok := false
		switch u := r.(type) {
		case *ssa.DebugRef:
			continue
		case *ssa.MakeSlice:
			ok = u.Len == v || u.Cap == v
		case *ssa.MakeChan:
			ok = u.Size == v
		case ssa.CallInstruction:
			n := c.P.CalleeName(u)
			args := u.Common().Args
			switch {
			case n == "strings.Repeat" || n == "bytes.Repeat":
				ok = len(args) == 2 && args[1] == v && args[0] != v
			default:
				if sz, is := e19OutputSizeArgs[n]; is && sz.lo == 0 && sz.arg < len(args) && args[sz.arg] == v {
					ok = true
					for i, a := range args {
						if i != sz.arg && a == v {
							ok = false
						}
					}
				}
			}
		}
		if !ok {
			return nil
		}
		site = r
	}
	return site
}

// e19FloatExprLabel names the outermost operation of a float expression.
func e19FloatExprLabel(v ssa.Value) string {
	switch x := v.(type) {
	case *ssa.Call:
		if f := x.Common().StaticCallee(); f != nil {
			if len(x.Common().Args) > 0 {
				return f.Name() + "(" + e19FloatExprLabel(x.Common().Args[0]) + ")"
			}
			return f.Name() + "()"
		}
	case *ssa.BinOp:
		return e19FloatExprLabel(x.X) + " " + x.Op.String() + " " + e19FloatExprLabel(x.Y)
	case *ssa.Convert:
		return "float(" + e19ExprLabel(x.X) + ")"
	case *ssa.Const:
		return x.Value.String()
	case *ssa.Extract:
		if call, ok := x.Tuple.(*ssa.Call); ok {
			return "result of " + calleeLabel(call)
		}
	}
	return e19ExprLabel(v)
}

// e19IntRange: the closed interval of float64 values whose truncation is a value
// of the integer type t (int and uint are 64 bits wide on every platform csvq is
// released for; a narrower int only makes the clause stricter). The upper end is
// the largest float64 BELOW 2^n: 2^63 itself — which is what float64(MaxInt64)
// rounds to — is outside int64.
func e19IntRange(t types.Type) (lo, hi float64, name string) {
	b := t.Underlying().(*types.Basic)
	below := func(x float64) float64 { return math.Nextafter(x, math.Inf(-1)) }
	switch b.Kind() {
	case types.Int8:
		return -128, 127, "int8"
	case types.Int16:
		return -32768, 32767, "int16"
	case types.Int32:
		return -(1 << 31), 1<<31 - 1, "int32"
	case types.Uint8:
		return 0, 255, "uint8"
	case types.Uint16:
		return 0, 65535, "uint16"
	case types.Uint32:
		return 0, 1<<32 - 1, "uint32"
	case types.Uint, types.Uint64, types.Uintptr:
		return 0, below(1 << 64), "uint64"
	}
	return -(1 << 63), below(1 << 63), "int64"
}

func e19IsIntType(t types.Type) bool {
	b, ok := t.Underlying().(*types.Basic)
	return ok && b.Info()&types.IsInteger != 0
}

func e19IsFloatType(t types.Type) bool {
	b, ok := t.Underlying().(*types.Basic)
	return ok && b.Info()&types.IsFloat != 0
}

func e19InstrOf(v ssa.Value) ssa.Instruction {
	if in, ok := v.(ssa.Instruction); ok {
		return in
	}
	if p, ok := v.(*ssa.Parameter); ok && len(p.Parent().Blocks) > 0 {
		return p.Parent().Blocks[0].Instrs[0]
	}
	return nil
}
