package rules

import (
	"fmt"
	"go/token"
	"go/types"
	"sort"
	"strings"
	"unicode"
	"unicode/utf8"

	"golang.org/x/tools/go/ssa"

	"verif/checker/core"
)

// R-IDENT-2: names are never compared exactly.
//
// "Character case is insensitive except file paths" (docs, statement.md):
// a table alias, a column name or any other identifier written T1 is the one
// written t1. csvq has no canonical spelling for names in a header — the
// HeaderField keeps what the user or the file said — so the rule is kept by
// every single comparison: the resolution paths of header.go use
// strings.EqualFold, the name-keyed maps fold their keys with strings.ToUpper.
// A comparison with == between two names silently makes one path
// case-sensitive: `SELECT T1.* FROM t1` selects no column although
// `SELECT T1.a FROM t1` works. This is the dual of R-IDENT-1 (expression text
// is never compared case-insensitively).

func init() {
	Register(&Rule{ID: "R-IDENT-2", Props: []string{"C03"}, Floor: 10,
		Doc:      "sibling agreement of the name comparisons of lib/query: a name is the Literal of a parser.Identifier or the View / Column / an alias of a lib/query.HeaderField, read directly (or through strings.TrimSpace) or received through a string parameter into which some call site of lib/query passes a name (propagated to a fixpoint over static calls). Every comparison of a name is an obligation: strings.EqualFold (and csvq helpers whose only use of the parameter is such a call) discharge it; a == or != (if or switch) one of whose operands is a name that has not gone through strings.ToUpper / strings.ToLower is a violation, unless the other operand is the empty-string constant (a presence test) or a constant that no bare identifier can spell (first character neither a letter nor '_': the internal-id marker column). Resolution of `table.*`, of qualified columns, of aliases, of the recursive table's name, of USING columns all compare names; one exact comparison among them makes that path case-sensitive and the select list loses or keeps columns depending on the spelling of the qualifier. Decides the operator of each comparison; names used as map keys are not comparisons in this sense (the keyed maps fold their keys, checked by their own tests), and names that are file paths are not compared with == anywhere today",
		Controls: []string{"CtlQualifierComparedExactly", "ctlNameComparedInHelper"},
		Run:      ruleIdent2})
}

func ruleIdent2(c *Ctx) {
	fns := c.P.FuncsIn(true, "lib/query")
	tainted := map[*ssa.Parameter]string{}
	var nameOf func(v ssa.Value) string
	fieldName := func(owner string) string {
		switch owner {
		case "lib/parser.Identifier.Literal":
			return "the Literal of an identifier"
		case "lib/query.HeaderField.View":
			return "HeaderField.View"
		case "lib/query.HeaderField.Column":
			return "HeaderField.Column"
		}
		return ""
	}
	nameOf = func(v ssa.Value) string {
		for _, o := range core.Origins(v, false) {
			switch x := o.(type) {
			case *ssa.Parameter:
				if w, ok := tainted[x]; ok {
					return w
				}
			case *ssa.UnOp:
				if x.Op != token.MUL {
					continue
				}
				if fa, ok := x.X.(*ssa.FieldAddr); ok {
					if n := fieldName(core.FieldOwner(fa)); n != "" {
						return n
					}
				}
				if ia, ok := x.X.(*ssa.IndexAddr); ok {
					if l, ok := ia.X.(*ssa.UnOp); ok && l.Op == token.MUL {
						if fa, ok := l.X.(*ssa.FieldAddr); ok && core.FieldOwner(fa) == "lib/query.HeaderField.Aliases" {
							return "an alias of a HeaderField"
						}
					}
				}
			case *ssa.Field:
				if n := fieldName(core.FieldOwner(x)); n != "" {
					return n
				}
			case *ssa.Call:
				// trimming keeps a name a name (and its case)
				if c.P.CalleeName(x) == "strings.TrimSpace" && len(x.Common().Args) == 1 {
					if n := nameOf(x.Common().Args[0]); n != "" {
						return n
					}
				}
			case *ssa.Extract:
				// for _, alias := range f.Aliases
				if nx, ok := x.Tuple.(*ssa.Next); ok && x.Index == 2 {
					if r, ok := nx.Iter.(*ssa.Range); ok {
						if l, ok := r.X.(*ssa.UnOp); ok && l.Op == token.MUL {
							if fa, ok := l.X.(*ssa.FieldAddr); ok && core.FieldOwner(fa) == "lib/query.HeaderField.Aliases" {
								return "an alias of a HeaderField"
							}
						}
					}
				}
			}
		}
		return ""
	}
	isString := func(t types.Type) bool {
		b, ok := t.Underlying().(*types.Basic)
		return ok && b.Info()&types.IsString != 0
	}
	// propagate names into string parameters over static calls
	for changed := true; changed; {
		changed = false
		for _, fn := range fns {
			for _, call := range core.Calls(fn) {
				callee := call.Common().StaticCallee()
				if callee == nil || callee.Blocks == nil || !(c.P.InPkg(callee, "lib/query") || c.P.IsControl(callee)) {
					continue
				}
				if c.P.IsControl(fn) != c.P.IsControl(callee) {
					continue // a control never taints the analysed repository
				}
				for i, a := range call.Common().Args {
					if i >= len(callee.Params) || !isString(a.Type()) {
						continue
					}
					p := callee.Params[i]
					if _, ok := tainted[p]; ok {
						continue
					}
					if w := nameOf(a); w != "" {
						if !strings.Contains(w, "passed") {
							w += " passed as " + p.Name()
						}
						tainted[p] = w
						changed = true
					}
				}
			}
		}
	}
	// emptyConst: the empty string (presence test) or a constant that no bare identifier can spell (it does not
	// start with a letter or '_': an internal marker such as the internal-id column "@__…", not a name a user writes
	// in two spellings)
	emptyConst := func(v ssa.Value) bool {
		s, ok := core.ConstString(v)
		if !ok {
			return false
		}
		if s == "" {
			return true
		}
		r, _ := utf8.DecodeRuneInString(s)
		return !(r == '_' || unicode.IsLetter(r))
	}
	type ob struct {
		key, pos, why string
		ok            bool
	}
	var obs []ob
	for _, fn := range fns {
		k := 0
		for _, b := range fn.Blocks {
			for _, in := range b.Instrs {
				switch x := in.(type) {
				case *ssa.BinOp:
					if x.Op != token.EQL && x.Op != token.NEQ || !isString(x.X.Type()) {
						continue
					}
					nx, ny := nameOf(x.X), nameOf(x.Y)
					if nx == "" && ny == "" {
						continue
					}
					if emptyConst(x.X) || emptyConst(x.Y) {
						continue
					}
					k++
					c.Touch(fn)
					w := nx
					if w == "" {
						w = ny
					}
					obs = append(obs, ob{c.KeyAt(fn, fmt.Sprintf("name comparison #%d (%s)", k, x.Op)), c.Pos(x),
						fmt.Sprintf("%s is compared with %s: exact, although names are case-insensitive — every sibling comparison uses strings.EqualFold; this path resolves T1 and t1 differently", w, x.Op), false})
				case *ssa.Call:
					if c.P.CalleeName(x) != "strings.EqualFold" {
						continue
					}
					w := ""
					for _, a := range x.Common().Args {
						if n := nameOf(a); n != "" && w == "" {
							w = n
						}
					}
					if w == "" {
						continue
					}
					k++
					c.Touch(fn)
					obs = append(obs, ob{c.KeyAt(fn, fmt.Sprintf("name comparison #%d (EqualFold)", k)), c.Pos(x), w + " is compared with strings.EqualFold", true})
				}
			}
		}
	}
	sort.SliceStable(obs, func(i, j int) bool { return obs[i].key < obs[j].key })
	for _, o := range obs {
		c.Sites++
		if o.ok {
			c.Ok(o.key, o.pos, o.why)
		} else {
			c.Bad(o.key, o.pos, o.why)
		}
	}
}
