package rules

import (
	"fmt"
	"go/constant"
	"go/types"
	"sort"
	"strings"

	"golang.org/x/tools/go/ssa"

	"verif/checker/absint"
	"verif/checker/core"
)

// R-SRT-10 — ORDER BY orders two texts the way the comparison operators do.
//
// Every cell read from a file is a *value.String. NewSortValue classifies it once, on its own
// (integer, float, datetime, boolean, string); value.CompareCombinedly classifies a PAIR: two
// texts that do not convert on a common rung are compared as texts ('abc' < 'true' < 'zed',
// '2012-01-01' < 'abc'). A comparator that has no arm for the tag NewSortValue gave one of them
// (BooleanType, DatetimeType) ties it with every other word of its column, and the column is no
// longer sorted (R-SRT-1 / R-SRT-9 accept such a comparator: a tie both ways is a lawful tie —
// what is lost is the transitivity of the ties, and that cannot be seen on one pair of tags).
//
// The rule executes the three functions on the same abstract world.

const (
	srt10New  = "lib/query.NewSortValue"
	srt10Less = "lib/query.(*SortValue).Less"
	srt10Cmp  = "lib/value.CompareCombinedly"
)

func init() {
	Register(&Rule{ID: "R-SRT-10", Props: []string{"C07", "C17"}, Floor: 1,
		Doc: "ORDER BY's comparator agrees with the comparison operators on every pair of texts: for two non-NULL *value.String values a, b (the content of every cell read from a file), NewSortValue(a), NewSortValue(b), SortValue.Less both ways and value.CompareCombinedly(a, b) are executed by abstract interpretation on one world — the success of each conversion of each operand (value.ToIntegerStrictly / ToFloat / ToDatetime / ToBoolean: one atom per operand and rung, shared by the three functions), the orderings of the payloads and NaN flags are the atoms; NewSortValue's stores are the fields Less reads (shared heap, unset fields are zero). " +
			"Decided in every world in which CompareCombinedly decides on the rung that is the class of both operands (both integers, both floats, both datetimes) or falls through to the text comparison because the two texts share no conversion (word vs boolean word, word vs date, number vs word, boolean word vs date, two boolean words are left to IsBoolEqual/IsNotEqual …): IsLess ⇒ Less(a,b)=TRUE and Less(b,a)=FALSE, IsGreater ⇒ the mirror image, IsEqual ⇒ UNKNOWN both ways. " +
			"Not demanded: worlds in which CompareCombinedly answers IsBoolEqual / IsNotEqual / IsIncommensurable (no order to agree with), worlds in which the pair is compared on a rung that is not the class of both operands (an integer against a float, a number that also reads as a datetime: mixed columns, outside the property's quantifier; the laws of those cells are R-SRT-1 / R-SRT-9), --strict-equal (flags.StrictEqual is answered false). " +
			"Feasibility: F1 a text that reads as an integer reads as a float; F2 two texts that are equal after trimming and upper-casing have the same class (R-SRT-1's F2); F3 a text that converts on some rung is not blank (emptiness tests on such a text are answered accordingly)",
		Controls: []string{"CtlSortTextDrop", "CtlSortTextNoArm"},
		Run:      ruleSrt10})
}

var srt10Rungs = []struct{ name, conv, ptr string }{
	{"integer", "lib/value.ToIntegerStrictly", "Integer"},
	{"float", "lib/value.ToFloat", "Float"},
	{"datetime", "lib/value.ToDatetime", "Datetime"},
	{"boolean", "lib/value.ToBoolean", "Boolean"},
}

func ruleSrt10(c *Ctx) {
	newFn, lessFn, cmpFn := c.Fn(srt10New), c.Fn(srt10Less), c.Fn(srt10Cmp)
	if newFn == nil || lessFn == nil || cmpFn == nil {
		return
	}
	srt10Check(c, newFn, lessFn, cmpFn, srt10Less, false)
	// control pairs <Name>New / <Name>Less of the control package; a missing half is the real function
	pairs := map[string][2]*ssa.Function{}
	for _, cf := range c.P.FuncsIn(true) {
		if !c.P.IsControl(cf) || cf.Parent() != nil {
			continue
		}
		n := cf.Name()
		if !strings.HasPrefix(n, "CtlSortText") && !strings.HasPrefix(n, "OkSortText") {
			continue
		}
		switch {
		case strings.HasSuffix(n, "New"):
			p := pairs[strings.TrimSuffix(n, "New")]
			p[0] = cf
			pairs[strings.TrimSuffix(n, "New")] = p
		case strings.HasSuffix(n, "Less"):
			p := pairs[strings.TrimSuffix(n, "Less")]
			p[1] = cf
			pairs[strings.TrimSuffix(n, "Less")] = p
		}
	}
	var names []string
	for n := range pairs {
		names = append(names, n)
	}
	sort.Strings(names)
	for _, n := range names {
		nf, lf := pairs[n][0], pairs[n][1]
		name := ""
		if nf != nil {
			c.Touch(nf)
			name = c.P.Name(nf)
		} else {
			nf = newFn
		}
		if lf != nil {
			c.Touch(lf)
			name = c.P.Name(lf)
		} else {
			lf = lessFn
		}
		srt10Check(c, nf, lf, cmpFn, name, strings.HasPrefix(n, "Ok"))
	}
}

func srt10Check(c *Ctx, newFn, lessFn, cmpFn *ssa.Function, name string, negative bool) {
	posFn := lessFn
	if c.P.IsControl(newFn) && !c.P.IsControl(lessFn) {
		posFn = newFn
	}
	key := name + ": two texts are ordered as the comparison operators order them"
	primT := c.P.Type("lib/value", "Primary")
	crT := c.P.Type("lib/value", "ComparisonResult")
	if primT == nil || crT == nil || len(newFn.Params) != 2 || !types.Identical(newFn.Params[0].Type(), primT) || len(lessFn.Params) != 2 || len(cmpFn.Params) != 4 {
		c.Unknown(key, c.FnPos(posFn), "cannot-analyse: expected NewSortValue(value.Primary, *option.Flags), (*SortValue).Less(*SortValue), CompareCombinedly(p1, p2, formats, location)")
		return
	}
	vt := func(n string) string { return "*" + core.ModPath + "/lib/value." + n }
	ops := []string{"pA", "pB"}
	groups := map[string][]string{}
	var errs []string
	demanded, noOrder, crossRung, infeasible := 0, 0, 0, 0
	cells := map[string]bool{}
	worlds, err := absint.Enumerate(200000, func(w *absint.World) {
		it := sortValueInterp(c, w)
		base := it.InlinePred
		valueHelpers := inlineHelpers(c, "lib/value")
		it.InlinePred = func(f *ssa.Function) bool {
			if base(f) || valueHelpers(f) {
				return true
			}
			if f != nil && f.Blocks != nil && c.P.IsControl(f) {
				return f.Parent() != nil || (f.Object() != nil && !f.Object().Exported())
			}
			return false
		}
		it.AtomKey = nil
		it.MaxDepth = 8
		// a SortValue built here starts as the zero value
		it.FieldInit = func(obj, field string, t types.Type) (absint.Val, bool) {
			if !strings.HasPrefix(obj, "alloc:") {
				return absint.Val{}, false
			}
			switch u := t.Underlying().(type) {
			case *types.Basic:
				switch {
				case u.Info()&types.IsBoolean != 0:
					return absint.Const(constant.MakeBool(false), t), true
				case u.Info()&types.IsString != 0:
					return absint.Const(constant.MakeString(""), t), true
				case u.Info()&types.IsNumeric != 0:
					return absint.Const(constant.MakeInt64(0), t), true
				}
			case *types.Pointer, *types.Slice, *types.Interface, *types.Map:
				return absint.Nil(t), true
			}
			return absint.Val{}, false
		}
		for _, p := range ops {
			w.Assume("b:nil:"+p, 0)
			w.Assume("b:is:"+vt("String")+":"+p, 1)
			for _, o := range []string{"Integer", "Float", "Datetime", "Boolean", "Ternary", "Null"} {
				w.Assume("b:is:"+vt(o)+":"+p, 0)
			}
		}
		w.Assume("b:flags.StrictEqual", 0)
		var trouble []string
		rungOf := map[string][2]string{}
		for _, r := range srt10Rungs {
			r := r
			for _, p := range ops {
				rungOf[r.name+"("+p+")"] = [2]string{r.name, p}
			}
			it.Models[r.conv] = func(it *absint.Interp, call ssa.CallInstruction, a []absint.Val) (absint.Val, bool) {
				if len(a) < 1 || a[0].K != absint.KSym || (a[0].Sym != "pA" && a[0].Sym != "pB") {
					trouble = append(trouble, fmt.Sprintf("%s(%s) at %s does not convert one of the two values", srt6Short(r.conv), joinAbs(a), c.Pos(call)))
					return absint.Val{}, false
				}
				p := a[0].Sym
				sym := r.name + "(" + p + ")"
				ok := it.W.Choose("conv:"+r.name+":"+p, 2) == 1
				for _, o := range srt10Rungs {
					it.W.Assume("b:is:"+vt(o.ptr)+":"+sym, map[bool]int{true: 1, false: 0}[ok && o.name == r.name])
				}
				it.W.Assume("b:is:"+vt("Null")+":"+sym, map[bool]int{true: 0, false: 1}[ok])
				it.W.Assume("b:nil:"+sym, 0)
				return absint.Sym(sym, primT), true
			}
		}
		it.Models["lib/value.IsNull"] = func(it *absint.Interp, call ssa.CallInstruction, a []absint.Val) (absint.Val, bool) {
			if len(a) != 1 || a[0].K != absint.KSym {
				return absint.Val{}, false
			}
			if a[0].Sym == "pA" || a[0].Sym == "pB" {
				return absint.Bool(false), true
			}
			if rp, ok := rungOf[a[0].Sym]; ok {
				return absint.Bool(it.W.Get("conv:"+rp[0]+":"+rp[1]) != 1), true
			}
			return absint.Val{}, false
		}
		// the string of a string is that string
		it.Models["lib/value.ToString"] = func(it *absint.Interp, call ssa.CallInstruction, a []absint.Val) (absint.Val, bool) {
			if len(a) == 1 && a[0].K == absint.KSym && (a[0].Sym == "pA" || a[0].Sym == "pB") {
				return a[0], true
			}
			return absint.Val{}, false
		}
		flags := absint.Obj("flags", newFn.Params[1].Type())
		pA, pB := absint.Sym("pA", primT), absint.Sym("pB", primT)
		sA := it.Call(newFn, []absint.Val{pA, flags}, nil)
		sB := it.Call(newFn, []absint.Val{pB, flags}, nil)
		var cmp, lab, lba absint.Val
		if it.Err == nil {
			cmp = it.Call(cmpFn, []absint.Val{pA, pB, absint.Sym("flags.DatetimeFormat", cmpFn.Params[2].Type()), absint.Sym("location", cmpFn.Params[3].Type())}, nil)
		}
		if it.Err == nil {
			lab = it.Call(lessFn, []absint.Val{sA, sB}, nil)
			lba = it.Call(lessFn, []absint.Val{sB, sA}, nil)
		}
		if it.Err != nil || len(trouble) > 0 {
			if len(errs) < 3 {
				if it.Err != nil {
					errs = append(errs, it.Err.Error())
				}
				errs = append(errs, trouble...)
			}
			return
		}
		// class of each operand: its first successful rung; rung of the pair: the first common one
		class := func(p string) string {
			for _, r := range srt10Rungs {
				if w.Get("conv:"+r.name+":"+p) == 1 {
					return r.name
				}
			}
			return "string"
		}
		ca, cb := class("pA"), class("pB")
		pairRung := "string"
		for _, r := range srt10Rungs {
			if w.Get("conv:"+r.name+":pA") == 1 && w.Get("conv:"+r.name+":pB") == 1 {
				pairRung = r.name
				break
			}
		}
		// F1: a text that reads as an integer reads as a float
		for _, p := range ops {
			if w.Get("conv:integer:"+p) == 1 && w.Get("conv:float:"+p) == 0 {
				infeasible++
				return
			}
		}
		// F2: the conversions look at the trimmed text without regard to case: two texts that are equal
		// after trimming and upper-casing have the same class
		if ca != cb {
			for _, a := range w.Asked() {
				if strings.HasPrefix(a, "ord:") && strings.HasSuffix(a, "=1") && strings.Contains(a, "(&pA)") && strings.Contains(a, "(&pB)") && !strings.Contains(a, "integer(") && !strings.Contains(a, "float(") && !strings.Contains(a, "datetime(") && !strings.Contains(a, "boolean(") {
					infeasible++
					return
				}
			}
		}
		// F3: a text that converts on some rung is not blank
		for _, a := range w.Asked() {
			eq := strings.LastIndex(a, "=")
			k, v := strings.TrimPrefix(a[:eq], "b:"), a[eq+1:]
			for i, p := range ops {
				if []string{ca, cb}[i] == "string" || !strings.Contains(k, "(&"+p+")") {
					continue
				}
				empty := ""
				switch {
				case strings.HasPrefix(k, "len(") && strings.HasSuffix(k, ")>0"):
					empty = "0"
				case strings.HasPrefix(k, "len(") && (strings.HasSuffix(k, ")==0") || strings.HasSuffix(k, ")<1")):
					empty = "1"
				case strings.HasSuffix(k, `==""`):
					empty = "1"
				}
				if empty != "" && v == empty {
					infeasible++
					return
				}
			}
		}
		got := cmp.String()
		if cmp.K == absint.KConst {
			got = enumName(crT, cmp.C)
		}
		if got != "IsLess" && got != "IsGreater" && got != "IsEqual" {
			noOrder++
			return
		}
		if pairRung != "string" && (pairRung != ca || pairRung != cb) {
			crossRung++
			return
		}
		demanded++
		tp := []string{ca, cb}
		sort.Strings(tp)
		cell := strings.Join(tp, " vs ")
		cells[cell] = true
		l1, l2 := ternaryName(c, lab), ternaryName(c, lba)
		want := map[string][2]string{"IsLess": {"TRUE", "FALSE"}, "IsGreater": {"FALSE", "TRUE"}, "IsEqual": {"UNKNOWN", "UNKNOWN"}}[got]
		if l1 == want[0] && l2 == want[1] {
			return
		}
		how := "compared as texts"
		if pairRung != "string" {
			how = "compared as " + pairRung + "s"
		}
		desc := fmt.Sprintf("a: %s text, b: %s text {%s}: CompareCombinedly(a,b)=%s (%s) but Less(a,b)=%s Less(b,a)=%s", ca, cb, strings.Join(srt10Atoms(w), " "), got, how, l1, l2)
		k := "a " + tp[0] + " text vs a " + tp[1] + " text"
		groups[k] = append(groups[k], desc)
	})
	switch {
	case err != nil:
		c.Unknown(key, c.FnPos(posFn), err.Error())
		return
	case len(errs) > 0:
		c.Unknown(key, c.FnPos(posFn), "cannot evaluate: "+strings.Join(dedup(errs), "; "))
		return
	}
	if len(groups) > 0 {
		var ks []string
		for k := range groups {
			ks = append(ks, k)
		}
		sort.Strings(ks)
		for _, k := range ks {
			sort.Strings(groups[k])
			why := fmt.Sprintf("%d abstract world(s), e.g. %s — the comparison operators order the two texts, the sort ties them or orders them the other way: a column that holds both is not sorted", len(groups[k]), groups[k][0])
			c.Bad(name+": "+k, c.FnPos(posFn), why)
			if negative {
				c.Unknown("negative-control:"+name+": "+k, "-", "the rule reports "+name+", a correct spelling: "+why)
			}
		}
		return
	}
	var missing []string
	for _, p := range []string{"integer vs integer", "float vs float", "datetime vs datetime", "string vs string", "boolean vs string", "datetime vs string", "integer vs string", "boolean vs datetime"} {
		if !cells[p] {
			missing = append(missing, p)
		}
	}
	if len(missing) > 0 {
		c.Unknown(key, c.FnPos(posFn), "the enumeration never reached "+strings.Join(missing, ", "))
		return
	}
	c.OkN(key, c.FnPos(posFn), fmt.Sprintf("%d abstract worlds: in the %d worlds in which the comparison operators order two texts of one class or as texts (%d class pairs) Less orders NewSortValue's values the same way; %d without an order, %d compared on a rung that is not the class of both, %d infeasible worlds not demanded", worlds, demanded, len(cells), noOrder, crossRung, infeasible), worlds)
}

// srt10Atoms: the atoms of a world that a reader needs (conversions and orderings).
func srt10Atoms(w *absint.World) []string {
	var out []string
	for _, a := range w.Asked() {
		if strings.HasPrefix(a, "conv:") || strings.HasPrefix(a, "ord:") || strings.HasPrefix(a, "nan:") {
			out = append(out, strings.ReplaceAll(a, core.ModPath+"/lib/", ""))
		}
	}
	return out
}
