package rules

import (
	"fmt"
	"go/token"
	"go/types"
	"sort"
	"strings"

	"golang.org/x/tools/go/ssa"

	"verif/checker/core"
)

// R-CUR-7 — block-lookup loops fall through to the enclosing block only on
// "not declared here".
//
// ReferenceScope resolves names lexically: a loop visits Blocks[0], Blocks[1], …
// and asks the per-block map. The innermost block that DECLARES the name
// decides: if its answer is an error other than "not declared here" (cursor is
// closed, pseudo cursor, a failed load …) that error is the result. A loop that
// goes on to the next block on any error lets an outer object of the same name
// answer for the inner one — FETCH on a closed inner cursor reads (and advances)
// an outer open cursor: stale data instead of an error.

func init() {
	Register(&Rule{ID: "R-CUR-7", Props: []string{"C16", "C15"}, Floor: 30,
		Doc:      "for every inner→outer lookup loop over ReferenceScope.Blocks/.nodes (the non-visit-all loops of R-SCP-1) and its per-element call: the callee's possible results are enumerated from its returns (nil, each sentinel error, each error constructor; or true/false for a boolean hit test) and the code after the call is evaluated for each of them: a hit (nil / true) leaves the loop, 'not declared here' (the result the callee returns where its own lookup failed; the only non-nil kind if there is just one) goes on to the next block, EVERY other error the callee can return leaves the loop with a non-nil error",
		Controls: []string{"CtlLookupFallsThroughOnAnyError", "CtlLookupFetchFallsThrough", "CtlLookupSearchFallsThrough"},
		Run:      ruleCur7})
}

// lkKinds enumerates what result #idx (an error) of fn can be.
type lkKind struct {
	name     string      // "nil", "sentinel:errX", "new:NewXError", "other:…"
	global   *ssa.Global // for sentinels
	notFound bool        // returned where the callee's own lookup failed
	desc     string      // what the "other" bucket contains
}

var lkMemo = map[string][]lkKind{}

// lkErrorKinds enumerates the error result #idx of the per-block method fn:
// nil, each sentinel (package-level error variable) and ONE bucket for every
// other error value (constructed errors, errors of deeper callees) — split by
// whether it is returned where fn's own lookup failed. Only fn's own lookup
// counts; deeper callees contribute their kinds, not their "not found".
func lkErrorKinds(c *Ctx, fn *ssa.Function, idx int) []lkKind {
	key := fmt.Sprintf("%p/%d", fn, idx)
	if r, ok := lkMemo[key]; ok {
		return r
	}
	// a pure forwarder (a closure `func(m CursorMap) error { return m.Fetch(…) }`,
	// a thin wrapper): its kinds — and its "not found" — are those of the callee
	if h, ri, ok := lkForwardee(c, fn, idx); ok {
		lkMemo[key] = nil // recursion guard
		r := lkErrorKinds(c, h, ri)
		lkMemo[key] = r
		return r
	}
	set := map[string]*lkKind{}
	others := map[bool][]string{}
	add := func(k lkKind) {
		if old, ok := set[k.name]; ok {
			old.notFound = old.notFound || k.notFound
			return
		}
		kk := k
		set[k.name] = &kk
	}
	seen := map[*ssa.Function]bool{}
	var scan func(g *ssa.Function, idx int, depth int, nfOuter bool)
	scan = func(g *ssa.Function, idx int, depth int, nfOuter bool) {
		if g == nil || g.Blocks == nil || depth > 3 || seen[g] {
			others[nfOuter] = append(others[nfOuter], "errors of "+g.Name())
			return
		}
		seen[g] = true
		defer func() { seen[g] = false }()
		for _, r := range core.Returns(g) {
			nf := nfOuter
			if depth == 0 {
				nf = lkLookupFailedAt(r.Block())
			}
			for _, v := range core.ReturnOperand(r, idx) {
				if v == nil {
					add(lkKind{name: "nil"})
					continue
				}
				for _, o := range core.Origins(v, false) {
					switch x := o.(type) {
					case *ssa.Const:
						if x.Value == nil {
							add(lkKind{name: "nil"})
							continue
						}
					case *ssa.UnOp:
						if gl, ok := x.X.(*ssa.Global); ok && x.Op == token.MUL {
							add(lkKind{name: "sentinel:" + gl.Name(), global: gl, notFound: nf})
							continue
						}
					case *ssa.Call, *ssa.Extract:
						if call, ri, ok := core.ExtractOf(o); ok {
							h := core.StaticCallee(call)
							if h != nil && h.Blocks != nil && (c.P.InPkg(h, "lib/query") || c.P.IsControl(h)) {
								if core.AlwaysNonNil(h, ri) {
									others[nf] = append(others[nf], h.Name())
									continue
								}
								if depth < 2 {
									if !core.NonNilAt(v, r) {
										add(lkKind{name: "nil"})
									}
									// sentinels and other errors of the callee (its nil is decided above)
									hadNil := set["nil"] != nil
									scan(h, ri, depth+1, nf)
									if !hadNil && core.NonNilAt(v, r) {
										delete(set, "nil")
									}
									continue
								}
								others[nf] = append(others[nf], "errors of "+h.Name())
								continue
							}
						}
					}
					others[nf] = append(others[nf], valueLabel(o))
				}
			}
		}
	}
	scan(fn, idx, 0, false)
	for _, nf := range []bool{false, true} {
		if names := others[nf]; len(names) > 0 {
			uniq := map[string]bool{}
			var list []string
			for _, n := range names {
				if !uniq[n] {
					uniq[n] = true
					list = append(list, n)
				}
			}
			sort.Strings(list)
			if len(list) > 4 {
				list = append(list[:4], fmt.Sprintf("… (%d in all)", len(uniq)))
			}
			add(lkKind{name: fmt.Sprintf("other:%v", nf), notFound: nf, desc: strings.Join(list, ", ")})
		}
	}
	var out []lkKind
	for _, k := range set {
		out = append(out, *k)
	}
	sort.Slice(out, func(i, j int) bool { return out[i].name < out[j].name })
	lkMemo[key] = out
	return out
}

// lkForwardee: every return of fn yields, as result #idx, result #ri of one and
// the same csvq callee h, and fn performs no lookup of its own.
func lkForwardee(c *Ctx, fn *ssa.Function, idx int) (*ssa.Function, int, bool) {
	if fn == nil || fn.Blocks == nil {
		return nil, 0, false
	}
	var h *ssa.Function
	ri := -1
	rets := core.Returns(fn)
	if len(rets) == 0 {
		return nil, 0, false
	}
	for _, r := range rets {
		if lkLookupFailedAt(r.Block()) {
			return nil, 0, false
		}
		vals := core.ReturnOperand(r, idx)
		if len(vals) == 0 {
			return nil, 0, false
		}
		for _, v := range vals {
			if v == nil {
				return nil, 0, false
			}
			for _, o := range core.Origins(v, false) {
				call, i, ok := core.ExtractOf(o)
				if !ok {
					return nil, 0, false
				}
				g := core.StaticCallee(call)
				if g == nil || g.Blocks == nil || !(c.P.InPkg(g, "lib/query") || c.P.IsControl(g)) || core.AlwaysNonNil(g, i) {
					return nil, 0, false
				}
				if h != nil && (h != g || ri != i) {
					return nil, 0, false
				}
				h, ri = g, i
			}
		}
	}
	return h, ri, h != nil
}

// lkLookupFailedAt: the block is reached only when a comma-ok lookup / Exists
// test of the function came out false.
func lkLookupFailedAt(b *ssa.BasicBlock) bool {
	for _, f := range core.FactsAt(b) {
		cond, neg := f.Cond, f.Neg
		if u, ok := cond.(*ssa.UnOp); ok && u.Op == token.NOT {
			cond, neg = u.X, !neg
		}
		if !neg {
			continue
		}
		switch x := cond.(type) {
		case *ssa.Extract:
			switch x.Tuple.(type) {
			case *ssa.Call, *ssa.Lookup, *ssa.TypeAssert:
				return true
			}
		case *ssa.Call:
			return true
		}
	}
	return false
}

type lkLoop struct {
	fn   *ssa.Function
	loop *core.Loop
	acc  *scpElemAccess
}

// lkLoops finds the non-visit-all inner→outer loops.
func lkLoops(c *Ctx) []lkLoop {
	var out []lkLoop
	seen := map[*ssa.Phi]bool{}
	for _, fn := range c.P.SrcFuncs() {
		var loops []*core.Loop
		for _, b := range fn.Blocks {
			for _, in := range b.Instrs {
				a := scpDirectAccess(in)
				if a == nil || a.class != scpIdxAsc || a.phi == nil || a.phi.Parent() != fn || seen[a.phi] {
					continue
				}
				if _, visitAll := scopeVisitAll[c.P.Name(fn)]; visitAll {
					continue
				}
				if loops == nil {
					loops = core.NaturalLoops(fn)
				}
				l := core.InnermostLoop(loops, a.phi.Block())
				if l == nil || l.Header != a.phi.Block() {
					continue
				}
				seen[a.phi] = true
				out = append(out, lkLoop{fn, l, a})
			}
		}
	}
	return out
}

func ruleCur7(c *Ctx) {
	start := len(c.Obs)
	for _, ll := range lkLoops(c) {
		fn, loop := ll.fn, ll.loop
		c.Touch(fn)
		// per-element calls: a receiver/argument traces back to this loop's element
		var calls []*ssa.Call
		for _, b := range fn.Blocks {
			if !loop.Blocks[b] {
				continue
			}
			for _, in := range b.Instrs {
				call, ok := in.(*ssa.Call)
				if !ok {
					continue
				}
				if core.StaticCallee(call) == nil {
					if prm, isPrm := call.Call.Value.(*ssa.Parameter); !isPrm || prm.Parent() != fn {
						continue
					}
				}
				hit := false
				for _, a := range call.Call.Args {
					if _, isElem := scpElemKindOf(a.Type()); !isElem && !lkIsScopeMap(a.Type()) {
						continue
					}
					for _, acc := range scpTraceElem(a, 0) {
						if acc.phi == ll.acc.phi {
							hit = true
						}
					}
				}
				if hit {
					calls = append(calls, call)
				}
			}
		}
		if len(calls) == 0 {
			c.Unknown(c.KeyAt(fn, "lookup loop over ."+ll.acc.kind.field()), c.Pos(ll.acc.at), "no per-element call found in the lookup loop")
			continue
		}
		// the deciding call is the first one on the way from the loop head
		call := calls[0]
		for _, x := range calls[1:] {
			if core.Dominates(x, call) {
				call = x
			}
		}
		lkCheckCall(c, fn, loop, call)
	}
	c.negControls(start, "okLookupSentinelOnly", "okLookupNotFoundContinues", "okLookupBoolHit", "okLookupSearch:")
}

func lkIsScopeMap(t types.Type) bool {
	switch core.NamedOf(t) {
	case "lib/query.VariableMap", "lib/query.ViewMap", "lib/query.CursorMap", "lib/query.UserDefinedFunctionMap", "lib/query.InlineTableMap", "lib/query.AliasMap":
		return true
	}
	return false
}

// lkCallees: the functions the per-element call may run: its static callee, or —
// for a call of a function-typed parameter (the loop lives in a helper such as
// searchCursor(name, fn)) — the closures / functions every caller passes.
func lkCallees(c *Ctx, fn *ssa.Function, call *ssa.Call) (callees []*ssa.Function, unknown bool, name string) {
	if g := core.StaticCallee(call); g != nil {
		return []*ssa.Function{g}, false, g.Name()
	}
	prm, _ := call.Call.Value.(*ssa.Parameter)
	idx := -1
	for i, p := range fn.Params {
		if p == prm {
			idx = i
		}
	}
	if idx < 0 {
		return nil, true, "function value"
	}
	seen := map[*ssa.Function]bool{}
	edges := scpCallers(c, fn, true)
	if len(edges) == 0 {
		unknown = true
	}
	for _, e := range edges {
		args := e.Site.Common().Args
		if idx >= len(args) {
			unknown = true
			continue
		}
		for _, o := range core.Origins(args[idx], false) {
			var f *ssa.Function
			switch x := o.(type) {
			case *ssa.MakeClosure:
				f, _ = x.Fn.(*ssa.Function)
			case *ssa.Function:
				f = x
			}
			if f == nil || f.Blocks == nil {
				unknown = true
				continue
			}
			if !seen[f] {
				seen[f] = true
				callees = append(callees, f)
			}
		}
	}
	sortFuncs(c.P, callees)
	return callees, unknown, "function parameter " + prm.Name()
}

func lkCheckCall(c *Ctx, fn *ssa.Function, loop *core.Loop, call *ssa.Call) {
	callees, unknownCallee, calleeName := lkCallees(c, fn, call)
	res := call.Call.Signature().Results()
	errIdx := -1
	if res.Len() > 0 && core.IsErrorType(res.At(res.Len()-1).Type()) {
		errIdx = res.Len() - 1
	}
	calleeDesc := calleeName
	if len(callees) == 1 && !unknownCallee {
		calleeDesc = c.P.Name(callees[0])
	} else if len(callees) > 0 {
		var ns []string
		for _, f := range callees {
			ns = append(ns, f.Name())
		}
		calleeDesc = calleeName + " (" + strings.Join(ns, ", ") + ")"
	}
	boolIdx := -1
	for i := 0; i < res.Len(); i++ {
		if b, ok := res.At(i).Type().Underlying().(*types.Basic); ok && b.Kind() == types.Bool {
			boolIdx = i
		}
	}
	resultVal := func(idx int) ssa.Value {
		if res.Len() == 1 {
			return call
		}
		for _, r := range *call.Referrers() {
			if ex, ok := r.(*ssa.Extract); ok && ex.Index == idx {
				return ex
			}
		}
		return nil
	}
	base := fmt.Sprintf("%s per block", calleeName)
	stop := map[*ssa.BasicBlock]bool{loop.Header: true}
	from := core.InstrIndex(call) + 1

	type cell struct {
		name     string
		assume   func(e *scpFlowEval)
		wantCont bool // must go on to the next block
		wantErr  bool // must return a non-nil error
		desc     string
	}
	var cells []cell
	switch {
	case errIdx >= 0:
		E := resultVal(errIdx)
		if E == nil {
			c.Bad(c.KeyAt(fn, base), c.Pos(call), "the error of the per-block lookup is discarded")
			return
		}
		// union of the kinds of every possible callee; per callee, a single non-nil
		// kind is its "not declared here"
		merged := map[string]*lkKind{}
		addKind := func(k lkKind) {
			if old, ok := merged[k.name]; ok {
				old.notFound = old.notFound || k.notFound
				if k.desc != "" && !strings.Contains(old.desc, k.desc) {
					old.desc += ", " + k.desc
				}
				return
			}
			kk := k
			merged[k.name] = &kk
		}
		for _, g := range callees {
			ks := lkErrorKinds(c, g, errIdx)
			nn := 0
			for _, k := range ks {
				if k.name != "nil" {
					nn++
				}
			}
			for _, k := range ks {
				if k.name != "nil" && nn == 1 {
					k.notFound = true
				}
				addKind(k)
			}
		}
		if unknownCallee || len(callees) == 0 {
			addKind(lkKind{name: "nil"})
			addKind(lkKind{name: "other:false", desc: "errors of an unknown function value"})
		}
		var kinds []lkKind
		for _, k := range merged {
			kinds = append(kinds, *k)
		}
		sort.Slice(kinds, func(i, j int) bool { return kinds[i].name < kinds[j].name })
		var nonNil []lkKind
		nNotFound := 0
		for i := range kinds {
			if kinds[i].name != "nil" {
				nonNil = append(nonNil, kinds[i])
				if kinds[i].notFound {
					nNotFound++
				}
			}
		}
		if len(nonNil) > 1 && nNotFound == 0 {
			c.Unknown(c.KeyAt(fn, base), c.Pos(call), fmt.Sprintf("%s can return %d kinds of error but none of them is returned where its own lookup failed: cannot tell which one means 'not declared here'", calleeDesc, len(nonNil)))
			return
		}
		// identity classes: one per sentinel global, -1 for everything else
		ids := map[*ssa.Global]int64{}
		for _, k := range nonNil {
			if k.global != nil {
				ids[k.global] = int64(len(ids) + 1)
			}
		}
		sentinelLoads := func(e *scpFlowEval) {
			for _, b := range fn.Blocks {
				for _, in := range b.Instrs {
					if u, ok := in.(*ssa.UnOp); ok && u.Op == token.MUL {
						if gl, ok := u.X.(*ssa.Global); ok && core.IsErrorType(u.Type()) {
							if id, known := ids[gl]; known {
								e.assume[u] = id
							} else {
								e.assume[u] = 1000 + int64(len(e.assume)) // some other sentinel: differs from every kind
							}
						}
					}
				}
			}
		}
		for _, k := range kinds {
			k := k
			cl := cell{name: strings.TrimPrefix(k.name, "sentinel:"), desc: k.desc}
			if strings.HasPrefix(k.name, "other:") {
				cl.name = "any other error"
			}
			switch {
			case k.name == "nil":
				cl.name = "nil (hit)"
				cl.assume = func(e *scpFlowEval) { sentinelLoads(e); e.nilness[E] = true; e.assume[E] = 0 }
			default:
				id := int64(-1)
				if k.global != nil {
					id = ids[k.global]
				}
				cl.assume = func(e *scpFlowEval) { sentinelLoads(e); e.nilness[E] = false; e.assume[E] = id }
				if k.notFound {
					cl.name += " (not declared here)"
					cl.wantCont = true
				} else {
					cl.wantErr = true
				}
			}
			cells = append(cells, cl)
		}
	case boolIdx >= 0:
		B := resultVal(boolIdx)
		if B == nil {
			c.Bad(c.KeyAt(fn, base), c.Pos(call), "the hit flag of the per-block lookup is discarded")
			return
		}
		cells = []cell{
			{name: "true (hit)", assume: func(e *scpFlowEval) { e.assume[B] = 1 }},
			{name: "false (not declared here)", assume: func(e *scpFlowEval) { e.assume[B] = 0 }, wantCont: true},
		}
	default:
		c.Unknown(c.KeyAt(fn, base), c.Pos(call), "the per-block call reports neither an error nor a hit flag")
		return
	}
	retErrIdx := core.ErrorResultIndex(fn)
	for _, cl := range cells {
		key := c.KeyAt(fn, base+" = "+cl.name)
		e := &scpFlowEval{assume: map[ssa.Value]int64{}, nilness: map[ssa.Value]bool{}, stop: stop}
		cl.assume(e)
		paths := e.run(call.Block(), from, scpStateAt(call))
		if e.over || len(paths) == 0 {
			c.Unknown(key, c.Pos(call), "cannot enumerate the paths after the per-block call")
			continue
		}
		bad := ""
		for _, p := range paths {
			switch {
			case p.cycle:
				bad = "the code after the call loops without reaching the loop head"
			case cl.wantCont && p.ret != nil:
				bad = fmt.Sprintf("when the block does not declare the name the method returns at %s instead of asking the enclosing block: outer declarations are invisible from inner blocks", c.Pos(p.ret))
			case !cl.wantCont && p.ret == nil:
				if cl.wantErr {
					if cl.desc != "" {
						cl.name += " (" + cl.desc + ")"
					}
					bad = fmt.Sprintf("when %s reports %s — the block DECLARES the name but cannot serve the request — the loop goes on to the enclosing block: an outer object of the same name answers for the inner one (stale data instead of the error), or the error degrades to 'undeclared'. Only 'not declared here' may fall through", calleeDesc, cl.name)
				} else {
					bad = "a hit in this block does not leave the loop: an outer declaration of the same name is consulted although the inner one shadows it"
				}
			case cl.wantErr && p.ret != nil && retErrIdx >= 0:
				if n, known := e.evalNil(scpNewFlowState(), p.err); !known || n {
					if curErrKind(c, p.err, p.ret) != core.NonNil {
						bad = fmt.Sprintf("when %s reports %s the method returns at %s with an error that may be nil", calleeDesc, cl.name, c.Pos(p.ret))
					}
				}
			}
			if bad != "" {
				break
			}
		}
		if bad != "" {
			c.Bad(key, c.Pos(call), bad)
			continue
		}
		what := "leaves the loop"
		if cl.wantCont {
			what = "goes on to the enclosing block"
		} else if cl.wantErr {
			what = "leaves the loop with the error"
		}
		if cl.desc != "" {
			what += " (" + cl.desc + ")"
		}
		c.OkN(key, c.Pos(call), fmt.Sprintf("%d path(s): %s", len(paths), what), len(paths))
	}
}
