package rules

import (
	"fmt"
	"go/token"
	"go/types"
	"strings"

	"golang.org/x/tools/go/ssa"

	"verif/checker/core"
)

// R-CONV-3 — the configured datetime formats are tried first, and win.

func init() {
	Register(&Rule{ID: "R-CONV-3", Props: []string{"C06", "C04", "C07"}, Floor: 2,
		Doc: "the datetime formats configured by the user (--datetime-format / @@DATETIME_FORMAT) are tried before anything can fail: in the text-to-datetime conversion — anchored by role: the lib/value function returning (time.Time, bool) with a []string parameter that calls time.ParseInLocation with a layout derived from an element of that parameter inside a loop over it (lib/value.StrToTime), or that hands the parameter to such a function — " +
			"(1) no return is reachable from the entry without crossing the header of that loop (resp. the call of the helper); trimming the text and anything else that cannot return may come first; a guard on the content of the text (length, first byte) in front of the loop makes texts in a configured format that starts with a letter or is short no datetimes at all. The only bypass accepted is a branch on len(formats) against 0 whose other arm leads to the loop. " +
			"(2) the configured attempt wins: on the edge where time.ParseInLocation reported no error (resp. the helper reported success) the function returns that time with ok = true at once — no built-in layout is tried after it",
		Controls: []string{"CtlStrToTimeGuardBeforeFormats"},
		Run:      ruleConv3})
}

type conv3Anchor struct {
	fn      *ssa.Function
	param   *ssa.Parameter
	attempt *ssa.Call       // time.ParseInLocation in the loop, or the helper call
	loop    *core.Loop      // nil for the helper-call shape
	barrier *ssa.BasicBlock // loop header, or the block of the helper call
}

// conv3Derives: v is computed from an element of the slice parameter p.
func conv3Derives(v ssa.Value, p *ssa.Parameter, depth int) *ssa.IndexAddr {
	if depth > 8 || v == nil {
		return nil
	}
	switch x := v.(type) {
	case *ssa.UnOp:
		if ia, ok := x.X.(*ssa.IndexAddr); ok && ia.X == p {
			return ia
		}
		return conv3Derives(x.X, p, depth+1)
	case *ssa.Call:
		for _, a := range x.Common().Args {
			if ia := conv3Derives(a, p, depth+1); ia != nil {
				return ia
			}
		}
		if x.Common().IsInvoke() {
			return conv3Derives(x.Common().Value, p, depth+1)
		}
	case *ssa.Phi:
		for _, e := range x.Edges {
			if ia := conv3Derives(e, p, depth+1); ia != nil {
				return ia
			}
		}
	case *ssa.BinOp:
		if ia := conv3Derives(x.X, p, depth+1); ia != nil {
			return ia
		}
		return conv3Derives(x.Y, p, depth+1)
	case *ssa.Convert:
		return conv3Derives(x.X, p, depth+1)
	case *ssa.ChangeType:
		return conv3Derives(x.X, p, depth+1)
	case *ssa.Extract:
		return conv3Derives(x.Tuple, p, depth+1)
	case *ssa.Slice:
		return conv3Derives(x.X, p, depth+1)
	}
	return nil
}

func conv3Anchors(c *Ctx) []*conv3Anchor {
	strSlice := types.NewSlice(types.Typ[types.String])
	var fns []*ssa.Function
	for _, fn := range c.P.FuncsIn(true, "lib/value") {
		if fn.Parent() != nil {
			continue
		}
		// a text-to-time conversion: (…, []string, …) (time.Time, bool)
		res := fn.Signature.Results()
		if res.Len() != 2 || core.NamedOf(res.At(0).Type()) != "time.Time" || !types.Identical(res.At(1).Type(), types.Typ[types.Bool]) {
			continue
		}
		if c.P.IsControl(fn) && !strings.HasPrefix(fn.Name(), "CtlStrToTime") && !strings.HasPrefix(fn.Name(), "OkStrToTime") && !strings.HasPrefix(fn.Name(), "strToTime") {
			continue
		}
		fns = append(fns, fn)
	}
	byFn := map[*ssa.Function]*conv3Anchor{}
	var out []*conv3Anchor
	// direct shape
	for _, fn := range fns {
		loops := core.NaturalLoops(fn)
		for _, p := range fn.Params {
			if !types.Identical(p.Type(), strSlice) || byFn[fn] != nil {
				continue
			}
			for _, call := range core.Calls(fn) {
				cc, ok := call.(*ssa.Call)
				if !ok || c.P.CalleeName(call) != "time.ParseInLocation" || len(cc.Call.Args) != 3 {
					continue
				}
				ia := conv3Derives(cc.Call.Args[0], p, 0)
				if ia == nil {
					continue
				}
				l := core.InnermostLoop(loops, cc.Block())
				if l == nil || !l.Blocks[ia.Block()] {
					continue
				}
				a := &conv3Anchor{fn: fn, param: p, attempt: cc, loop: l, barrier: l.Header}
				byFn[fn] = a
				out = append(out, a)
				break
			}
		}
	}
	// helper shape: the parameter handed to an anchor (to a fixpoint)
	for changed := true; changed; {
		changed = false
		for _, fn := range fns {
			if byFn[fn] != nil {
				continue
			}
			for _, call := range core.Calls(fn) {
				cc, ok := call.(*ssa.Call)
				g := core.StaticCallee(call)
				if !ok || g == nil || byFn[g] == nil {
					continue
				}
				for _, arg := range cc.Call.Args {
					if p, ok := arg.(*ssa.Parameter); ok && types.Identical(p.Type(), strSlice) && byFn[fn] == nil {
						a := &conv3Anchor{fn: fn, param: p, attempt: cc, barrier: cc.Block()}
						byFn[fn] = a
						out = append(out, a)
						changed = true
					}
				}
			}
		}
	}
	return out
}

// conv3LenGuard: b ends in `if len(p) <op> 0` (either operand order).
func conv3LenGuard(b *ssa.BasicBlock, p *ssa.Parameter) bool {
	if len(b.Instrs) == 0 {
		return false
	}
	iff, ok := b.Instrs[len(b.Instrs)-1].(*ssa.If)
	if !ok {
		return false
	}
	bo, ok := iff.Cond.(*ssa.BinOp)
	if !ok {
		return false
	}
	isLen := func(v ssa.Value) bool {
		call, ok := v.(*ssa.Call)
		if !ok {
			return false
		}
		bi, ok := call.Call.Value.(*ssa.Builtin)
		return ok && bi.Name() == "len" && len(call.Call.Args) == 1 && call.Call.Args[0] == p
	}
	isZero := func(v ssa.Value) bool {
		k, ok := core.ConstInt(v)
		return ok && k == 0
	}
	return (isLen(bo.X) && isZero(bo.Y)) || (isLen(bo.Y) && isZero(bo.X))
}

func ruleConv3(c *Ctx) {
	anchors := conv3Anchors(c)
	real := 0
	for _, a := range anchors {
		if !c.P.IsControl(a.fn) {
			real++
		}
		if c.P.IsControl(a.fn) && strings.HasPrefix(a.fn.Name(), "strToTime") {
			continue // private helper of a control: judged through its caller
		}
		c.Touch(a.fn)
		conv3Check(c, a)
	}
	if real == 0 {
		c.Unknown("lib/value: conversion with configured datetime formats", "-", "cannot-analyse: no function of lib/value ranges over a []string parameter and parses with a layout taken from it (time.ParseInLocation): the configured datetime formats are tried somewhere this rule does not see, or not at all")
	}
}

func conv3Check(c *Ctx, a *conv3Anchor) {
	fn := a.fn
	negative := c.P.IsControl(fn) && strings.HasPrefix(fn.Name(), "Ok")
	bad := func(key, pos, why string) {
		c.Bad(key, pos, why)
		if negative {
			c.Unknown("negative-control:"+key, "-", "the rule reports "+fn.Name()+", an accepted spelling: "+why)
		}
	}
	what := "the loop over " + a.param.Name()
	if a.loop == nil {
		what = "the call of " + c.P.CalleeName(a.attempt)
	}
	// (1) must pass through
	key := c.KeyAt(fn, "configured formats tried before any return")
	seen := map[*ssa.BasicBlock]bool{}
	stack := []*ssa.BasicBlock{fn.Blocks[0]}
	var early []string
	for len(stack) > 0 {
		b := stack[len(stack)-1]
		stack = stack[:len(stack)-1]
		if seen[b] || b == a.barrier {
			continue
		}
		seen[b] = true
		if len(b.Instrs) > 0 {
			if r, ok := b.Instrs[len(b.Instrs)-1].(*ssa.Return); ok {
				early = append(early, c.Pos(r))
				continue
			}
		}
		if conv3LenGuard(b, a.param) {
			leads := false
			for _, s := range b.Succs {
				if s == a.barrier || s.Dominates(a.barrier) {
					leads = true
				}
			}
			if leads {
				continue // `if len(formats) == 0` around the loop: nothing to try on the bypass
			}
		}
		stack = append(stack, b.Succs...)
	}
	if len(early) > 0 {
		bad(key, early[0], fmt.Sprintf("a return (%s) is reachable from the entry without passing %s: the conversion can fail — or succeed with something else — before the formats configured with --datetime-format / @@DATETIME_FORMAT were tried; a text in a configured format is then no datetime (compared as text, not equal to the same instant written differently)", strings.Join(early, ", "), what))
	} else {
		c.Ok(key, c.FnPos(fn), "every path from the entry to a return passes "+what)
	}
	// (2) the configured attempt wins
	key = c.KeyAt(fn, "a configured format that parses wins")
	var succ *ssa.BasicBlock
	var condPos string
	for _, r := range *a.attempt.Referrers() {
		ex, ok := r.(*ssa.Extract)
		if !ok || ex.Index == 0 {
			continue
		}
		for _, u := range *ex.Referrers() {
			switch x := u.(type) {
			case *ssa.BinOp: // e == nil / e != nil
				k, isConst := x.Y.(*ssa.Const)
				if !isConst || k.Value != nil || (x.Op != token.EQL && x.Op != token.NEQ) {
					continue
				}
				for _, uu := range *x.Referrers() {
					if iff, ok := uu.(*ssa.If); ok {
						succ = iff.Block().Succs[map[bool]int{true: 0, false: 1}[x.Op == token.EQL]]
						condPos = c.Pos(iff)
					}
				}
			case *ssa.If: // ok
				succ = x.Block().Succs[0]
				condPos = c.Pos(x)
			case *ssa.UnOp: // !ok
				if x.Op == token.NOT {
					for _, uu := range *x.Referrers() {
						if iff, ok := uu.(*ssa.If); ok {
							succ = iff.Block().Succs[1]
							condPos = c.Pos(iff)
						}
					}
				}
			}
		}
	}
	if succ == nil {
		bad(key, c.Pos(a.attempt), "the outcome of the configured-format attempt is not tested (no branch on its error / ok result): its success cannot end the conversion")
		return
	}
	for hops := 0; hops < 4 && len(succ.Instrs) == 1 && len(succ.Succs) == 1; hops++ {
		if _, ok := succ.Instrs[0].(*ssa.Jump); !ok {
			break
		}
		succ = succ.Succs[0]
	}
	ret, ok := succ.Instrs[len(succ.Instrs)-1].(*ssa.Return)
	fromAttempt := func(v ssa.Value) bool {
		for i := 0; i < 6; i++ {
			switch x := v.(type) {
			case *ssa.Extract:
				return x.Tuple == a.attempt && x.Index == 0
			case *ssa.ChangeType:
				v = x.X
				continue
			case *ssa.Phi:
				if len(x.Edges) == 1 {
					v = x.Edges[0]
					continue
				}
			}
			return false
		}
		return false
	}
	okTrue := func(v ssa.Value) bool {
		if b, isB := core.ConstBool(v); isB {
			return b
		}
		// the helper's own ok result, which is true on this edge
		ex, isEx := v.(*ssa.Extract)
		return isEx && ex.Tuple == a.attempt && ex.Index > 0 && types.Identical(ex.Type(), types.Typ[types.Bool])
	}
	if ok && len(ret.Results) == 2 && fromAttempt(ret.Results[0]) && okTrue(ret.Results[1]) {
		c.Ok(key, condPos, "the success edge returns the parsed time with ok = true")
		return
	}
	bad(key, condPos, "on the edge where the configured-format attempt succeeded the function does not return that time with ok = true at once: a built-in layout (or the next format) can still decide the result")
}
