package rules

import (
	"fmt"
	"go/types"
	"strings"

	"golang.org/x/tools/go/ssa"

	"verif/checker/core"
)

// R-CMP-9 — result type discipline of the arithmetic evaluators.

func init() {
	Register(&Rule{ID: "R-CMP-9", Props: []string{"C06"}, Floor: 5,
		Doc: "arithmetic yields a number or NULL: the evaluators of parser.Arithmetic and parser.UnaryArithmetic — found by role: the functions lib/query.Evaluate calls with an argument of that node type — return, on every success return (nil error), a value whose set of possible dynamic types is within {*value.Integer, *value.Float, *value.Null}. " +
			"The set is the interprocedural type-set fixpoint over constructors, private helpers, variables and φ-nodes; a return whose value originates from Evaluate, a parameter or anything else of unconstrained type (the operand handed back as it is: +'abc' stays a String instead of NULL) is the violation. " +
			"Decided is the result *type* discipline only, not the numeric value (R-CMP-4 decides the operators); the nil interface a callee returns together with an error is not judged here",
		Controls: []string{"CtlArithUnaryPlusReturnsOperand"},
		Run:      ruleCmp9})
}

func cmp9NodeParam(c *Ctx, fn *ssa.Function) string {
	primT := c.P.Type("lib/value", "Primary")
	res := fn.Signature.Results()
	if primT == nil || res.Len() != 2 || !types.Identical(res.At(0).Type(), primT) {
		return ""
	}
	for _, p := range fn.Params {
		switch core.NamedOf(p.Type()) {
		case "lib/parser.Arithmetic":
			return "parser.Arithmetic"
		case "lib/parser.UnaryArithmetic":
			return "parser.UnaryArithmetic"
		}
	}
	return ""
}

func ruleCmp9(c *Ctx) {
	ev := c.Fn("lib/query.Evaluate")
	if ev == nil {
		return
	}
	ts := core.NewTypeSets(c.P)
	found := map[string]bool{}
	seen := map[*ssa.Function]bool{}
	for _, call := range core.Calls(ev) {
		f := core.StaticCallee(call)
		if f == nil || f.Blocks == nil || seen[f] || f == ev {
			continue
		}
		node := cmp9NodeParam(c, f)
		if node == "" {
			continue
		}
		seen[f] = true
		found[node] = true
		c.Touch(f)
		cmp9Check(c, ts, f, node)
	}
	for _, node := range []string{"parser.Arithmetic", "parser.UnaryArithmetic"} {
		if !found[node] {
			c.Unknown("lib/query.Evaluate: evaluator of "+node, c.FnPos(ev), "cannot-analyse: Evaluate calls no function taking a "+node+" and returning (value.Primary, error)")
		}
	}
	for _, cf := range c.P.FuncsIn(true) {
		if !c.P.IsControl(cf) || cf.Parent() != nil || seen[cf] {
			continue
		}
		if !strings.HasPrefix(cf.Name(), "CtlArith") && !strings.HasPrefix(cf.Name(), "OkArith") {
			continue
		}
		if node := cmp9NodeParam(c, cf); node != "" {
			c.Touch(cf)
			cmp9Check(c, ts, cf, node)
		}
	}
}

func cmp9Allowed(k string) bool {
	if k == core.NilType {
		// the nil interface accompanies a non-nil error of a callee (Calculate on a
		// division by zero); the pairing of results and errors is not this rule's clause
		return true
	}
	for _, n := range []string{"Integer", "Float", "Null"} {
		if k == "*"+core.ModPath+"/lib/value."+n {
			return true
		}
	}
	return false
}

func cmp9Label(v ssa.Value) string {
	switch x := v.(type) {
	case *ssa.MakeInterface:
		return cmp9Label(x.X)
	case *ssa.ChangeInterface:
		return cmp9Label(x.X)
	case *ssa.Call:
		if f := core.StaticCallee(x); f != nil {
			n := f.Name()
			if f.Pkg != nil {
				n = f.Pkg.Pkg.Name() + "." + n
			}
			return "result of " + n + "()"
		}
		return "result of a dynamic call"
	case *ssa.Extract:
		return cmp9Label(x.Tuple)
	case *ssa.Phi:
		if x.Comment != "" {
			return "variable " + x.Comment
		}
		return "merged value"
	case *ssa.UnOp:
		if a, ok := x.X.(*ssa.Alloc); ok && a.Comment != "" {
			return "variable " + a.Comment
		}
	case *ssa.Parameter:
		return "parameter " + x.Name()
	case *ssa.Const:
		return "constant " + x.Name()
	}
	return "value " + v.Name()
}

func cmp9Check(c *Ctx, ts *core.TypeSets, fn *ssa.Function, node string) {
	negative := c.P.IsControl(fn) && strings.HasPrefix(fn.Name(), "Ok")
	count := map[string]int{}
	n := 0
	for _, b := range fn.Blocks {
		if len(b.Instrs) == 0 {
			continue
		}
		ret, ok := b.Instrs[len(b.Instrs)-1].(*ssa.Return)
		if !ok || len(ret.Results) != 2 {
			continue
		}
		if k, isConst := ret.Results[1].(*ssa.Const); !isConst || k.Value != nil {
			continue // an error return
		}
		n++
		label := cmp9Label(ret.Results[0])
		key := c.KeyAt(fn, "success return of "+label)
		count[key]++
		if count[key] > 1 {
			key = fmt.Sprintf("%s #%d", key, count[key])
		}
		set := ts.Final(ret.Results[0], nil)
		var offending []string
		for _, k := range set.Keys() {
			if !cmp9Allowed(k) {
				offending = append(offending, strings.ReplaceAll(k, core.ModPath+"/lib/", ""))
			}
		}
		switch {
		case set.Top:
			why := fmt.Sprintf("the value returned for a %s (%s) has an unconstrained dynamic type — %s: the evaluator hands back something that need not be a number or NULL (possible types so far %s); arithmetic must yield *value.Integer, *value.Float or *value.Null", node, label, set.TopWhy, set.String())
			cmp9Bad(c, key, c.Pos(ret), why, negative, fn)
		case len(offending) > 0:
			if len(offending) > 6 {
				offending = append(offending[:6], fmt.Sprintf("… (%d more)", len(offending)-6))
			}
			why := fmt.Sprintf("the value returned for a %s (%s) can be of type %s: arithmetic must yield *value.Integer, *value.Float or *value.Null (an operand handed back as it is keeps its own type, e.g. +'abc' stays a String instead of NULL)", node, label, strings.Join(offending, ", "))
			cmp9Bad(c, key, c.Pos(ret), why, negative, fn)
		case len(set.M) == 0 || (len(set.M) == 1 && set.Has(nil)):
			c.Unknown(key, c.Pos(ret), "cannot-analyse: no dynamic type found for the returned value")
		default:
			c.Ok(key, c.Pos(ret), "dynamic types "+set.String())
		}
	}
	if n == 0 {
		c.Unknown(c.KeyAt(fn, "success returns"), c.FnPos(fn), "cannot-analyse: no return with a nil error found")
	}
}

func cmp9Bad(c *Ctx, key, pos, why string, negative bool, fn *ssa.Function) {
	c.Bad(key, pos, why)
	if negative {
		c.Unknown("negative-control:"+key, "-", "the rule reports "+fn.Name()+", a correct spelling: "+why)
	}
}
