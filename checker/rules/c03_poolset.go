package rules

import (
	"fmt"
	"go/token"

	"golang.org/x/tools/go/ssa"

	"verif/checker/core"
)

// R-POOLSET-1: an index pool that is enumerated or counted is filled as a set.
//
// UintPool keeps its members twice: a map for Exists and a slice, in insertion
// order, for Range and Len. Add appends to the slice unconditionally, so a pool
// whose members come from a list the user wrote (USING (c1, c1), DROP (a, a),
// SET a = …, a = …) holds a member once per mention. Where only Exists is asked
// that is harmless; where the pool is enumerated (the merged columns of a USING
// join are emitted by Range) or counted (the number of dropped columns is Len)
// every mention becomes a column / a counted record. The repository's idiom is
// `if !p.Exists(v) { p.Add(v) }` (or `if p.Exists(v) { return/continue }` first).

func init() {
	Register(&Rule{ID: "R-POOLSET-1", Props: []string{"C03", "C05"}, Floor: 3,
		Doc: "set discipline of index pools: every call of (*UintPool).Add in lib/query is made where (*UintPool).Exists of the same pool (the same variable, or the same element of the same map) and the same value is known to be false (the Add is dominated by the false edge of such a test: `if !p.Exists(v) { p.Add(v) }`, or `if p.Exists(v) { return / continue }` before it) — unless the pool is a local of the function that is created there by NewUintPool, is used only as the receiver of UintPool methods, and is neither enumerated (Range) nor counted (Len) by the function or its closures, i.e. it is asked for membership only. An unguarded Add into an enumerated pool emits the column of `JOIN … USING (c1, c1)` once per mention (C03: USING columns are merged once); into a counted pool it reports `DROP (a, a)` as two dropped fields (C05). Does not track writes to the map between the test and the Add, and does not prove that two different values are different members",
		Controls: []string{"CtlMergedColumnsAddedOncePerMention"},
		Run:      rulePoolSet1})
}

func rulePoolSet1(c *Ctx) {
	add := c.Fn("lib/query.(*UintPool).Add")
	exists := c.Fn("lib/query.(*UintPool).Exists")
	rng := c.Fn("lib/query.(*UintPool).Range")
	ln := c.Fn("lib/query.(*UintPool).Len")
	mk := c.Fn("lib/query.NewUintPool")
	if add == nil || exists == nil || rng == nil || ln == nil || mk == nil {
		return
	}
	poolMethod := func(f *ssa.Function) bool {
		return f != nil && f.Signature.Recv() != nil && core.NamedOf(f.Signature.Recv().Type()) == "lib/query.UintPool"
	}
	n := 0
	for _, fn := range c.P.FuncsIn(true, "lib/query") {
		if poolMethod(fn) {
			continue
		}
		k := 0
		for _, call := range core.Calls(fn) {
			if core.StaticCallee(call) != add || len(call.Common().Args) != 2 {
				continue
			}
			k++
			n++
			c.Touch(fn)
			pool, val := call.Common().Args[0], call.Common().Args[1]
			key := c.KeyAt(fn, fmt.Sprintf("UintPool.Add #%d", k))

			// guarded?
			guarded := false
			for _, f := range core.FactsAt(call.Block()) {
				cond, neg := f.Cond, f.Neg
				for {
					u, ok := cond.(*ssa.UnOp)
					if !ok || u.Op != token.NOT {
						break
					}
					cond, neg = u.X, !neg
				}
				ex, ok := cond.(*ssa.Call)
				if !ok || !neg || core.StaticCallee(ex) != exists || len(ex.Call.Args) != 2 {
					continue
				}
				if poolSame(ex.Call.Args[0], pool, 0) && poolSame(ex.Call.Args[1], val, 0) {
					guarded = true
					break
				}
			}
			if guarded {
				c.Ok(key, c.Pos(call), "the value is added where Exists of the same pool and value is known to be false")
				continue
			}

			// membership only?
			if why := poolObserved(fn, pool, mk, rng, ln, poolMethod); why == "" {
				c.Ok(key, c.Pos(call), "the pool is a local that is only asked for membership (no Range, no Len, does not leave the function)")
			} else {
				c.Bad(key, c.Pos(call), "a value is added to an index pool without a failed Exists test of the same pool and value, and "+why+": Add appends unconditionally, so a value that the statement mentions twice (USING (c1, c1), DROP (a, a)) is a member twice — it is emitted / counted once per mention")
			}
		}
	}
	c.Sites += n
}

// poolSame: the two operands denote the same value: identical, equal by core.SameVal (loads of the same
// variable without a store in between, equal constants / conversions), or the same element of the same map.
func poolSame(a, b ssa.Value, d int) bool {
	if a == b || core.SameVal(a, b) {
		return true
	}
	if d > 6 {
		return false
	}
	switch x := a.(type) {
	case *ssa.Lookup:
		y, ok := b.(*ssa.Lookup)
		return ok && x.CommaOk == y.CommaOk && poolSame(x.X, y.X, d+1) && poolSame(x.Index, y.Index, d+1)
	case *ssa.Extract:
		y, ok := b.(*ssa.Extract)
		return ok && x.Index == y.Index && poolSame(x.Tuple, y.Tuple, d+1)
	case *ssa.Convert:
		y, ok := b.(*ssa.Convert)
		return ok && poolSame(x.X, y.X, d+1)
	case *ssa.ChangeType:
		y, ok := b.(*ssa.ChangeType)
		return ok && poolSame(x.X, y.X, d+1)
	}
	return false
}

// poolObserved: "" when the pool is a local created by NewUintPool in fn whose every use (in fn and its closures) is
// as the receiver of a UintPool method other than Range and Len; else the reason why multiplicity may be observed.
func poolObserved(fn *ssa.Function, pool ssa.Value, mk, rng, ln *ssa.Function, poolMethod func(*ssa.Function) bool) string {
	os := core.Origins(pool, false)
	if len(os) != 1 {
		return "the pool is not a single local created in this function (it may be enumerated or counted elsewhere)"
	}
	alloc, ok := os[0].(*ssa.Call)
	if !ok || core.StaticCallee(alloc) != mk || alloc.Parent() != fn && !enclosedBy(fn, alloc.Parent()) {
		return "the pool is not created by NewUintPool in this function (it may be enumerated or counted elsewhere)"
	}
	root := alloc.Parent()
	// every value that may be this pool: the call, and loads of the cells it is stored into
	isPool := func(v ssa.Value) bool {
		vs := core.Origins(v, false)
		return len(vs) == 1 && vs[0] == ssa.Value(alloc)
	}
	why := ""
	var scan func(f *ssa.Function)
	scan = func(f *ssa.Function) {
		for _, b := range f.Blocks {
			for _, in := range b.Instrs {
				if why != "" {
					return
				}
				switch x := in.(type) {
				case ssa.CallInstruction:
					callee := core.StaticCallee(x)
					for i, a := range x.Common().Args {
						if !isPool(a) {
							continue
						}
						if i == 0 && poolMethod(callee) {
							if callee == rng {
								why = "the pool is enumerated with Range"
							} else if callee == ln {
								why = "the pool is counted with Len"
							}
							continue
						}
						why = "the pool is passed to another function"
					}
					if x.Common().IsInvoke() && isPool(x.Common().Value) {
						why = "the pool is used through an interface"
					}
				case *ssa.Return:
					for _, r := range x.Results {
						if isPool(r) {
							why = "the pool is returned"
						}
					}
				case *ssa.Store:
					if isPool(x.Val) {
						if _, local := x.Addr.(*ssa.Alloc); !local {
							why = "the pool is stored outside the function's locals"
						}
					}
				case *ssa.MapUpdate:
					if isPool(x.Value) {
						why = "the pool is stored in a map"
					}
				case *ssa.MakeInterface:
					if isPool(x.X) {
						why = "the pool is converted to an interface"
					}
				case *ssa.Send:
					if isPool(x.X) {
						why = "the pool is sent on a channel"
					}
				}
			}
		}
		for _, an := range f.AnonFuncs {
			scan(an)
		}
	}
	scan(root)
	return why
}

func enclosedBy(inner, outer *ssa.Function) bool {
	for f := inner; f != nil; f = f.Parent() {
		if f == outer {
			return true
		}
	}
	return false
}
