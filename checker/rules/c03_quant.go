package rules

import (
	"fmt"
	"go/constant"
	"go/types"
	"sort"
	"strings"

	"golang.org/x/tools/go/ssa"

	"verif/checker/absint"
	"verif/checker/core"
)

// R-QUANT-1 — the quantified comparisons as the evaluator computes them.
//
// R-CMP-7 decides InRowValueList alone; R-CMP-6 decides that evalIn / Any / All
// dispatch to it. Neither sees a shortcut taken in evalAny / evalAll / evalIn /
// Any / All in front of the dispatch ("the subquery returned no rows: FALSE"),
// which is right for ANY and wrong for ALL (a universal condition over the
// empty set is TRUE). This rule executes the evaluator functions themselves,
// with the helpers they go through inlined down to value.CompareRowValues, and
// compares the answer with the Kleene fold for every list length 0, 1, 2.

const (
	quantOracle    = "lib/value.CompareRowValues"
	quantNewTern   = "lib/value.NewTernary"
	quantMaxLen    = 2
	quantCtlPrefix = "CtlQuant"
	quantOkPrefix  = "OkQuant"
)

func init() {
	Register(&Rule{ID: "R-QUANT-1", Props: []string{"C03", "C06"}, Floor: 12,
		Doc: "evalAny, evalAll and evalIn (x op ANY (…), x op ALL (…), x IN (…), x NOT IN (…)) are executed from their entry by finite-domain abstract interpretation, for row value lists of 0, 1 and 2 elements: " +
			"the function that yields the operand and the list (any function of lib/query with results (value.RowValue, []value.RowValue, error)) answers either an error or an opaque operand with a concrete list of opaque elements; " +
			"value.CompareRowValues is an uninterpreted oracle answering TRUE / FALSE / UNKNOWN / error per element; the functions of lib/query on the way (Any, All, InRowValueList: plain functions with a []value.RowValue parameter and results (ternary.Value, error); unexported helpers) and the bodies of github.com/mithrandie/ternary are executed, not modelled; error constructors of lib/query that always return a non-nil error are non-nil. " +
			"Decided in every world: each oracle call compares the operand with one element of the list (under the operator of the expression for ANY / ALL, under '=' for IN and '<>' for NOT IN); with no error the function returns a nil error and value.NewTernary of exactly the Kleene fold of the element results — ANY and IN = OR (FALSE for the empty list), ALL and NOT IN = AND (TRUE for the empty list) — " +
			"and an element may stay uncompared only when the fold is already absorbed (TRUE for OR, FALSE for AND), whatever early returns the functions take; when the list cannot be evaluated or a comparison fails, a non-nil error is returned",
		Controls: []string{"CtlQuantAllOfNothingIsFalse"},
		Run:      ruleQuant1})
}

type quantEntry struct {
	fn     *ssa.Function
	exprIx int
	label  string // "ANY", "ALL", "IN", "NOT IN"
	fold   string // "ANY" (OR) / "ALL" (AND)
	op     string // constant operator expected ("" = the operator of the expression)
	neg    int64  // token of expr.Negation
}

// quantEntries: the roles of fn by the type of its expression parameter.
func quantEntries(c *Ctx, fn *ssa.Function) ([]quantEntry, string) {
	res := fn.Signature.Results()
	primT := c.P.Type("lib/value", "Primary")
	if res.Len() != 2 || primT == nil || !types.Identical(res.At(0).Type(), primT) {
		return nil, "expected results (value.Primary, error)"
	}
	not, ok := parserConst(c, "NOT")
	if !ok {
		return nil, "parser.NOT not found"
	}
	for i, p := range fn.Params {
		switch core.NamedOf(p.Type()) {
		case "lib/parser.Any":
			return []quantEntry{{fn, i, "ANY", "ANY", "", 0}}, ""
		case "lib/parser.All":
			return []quantEntry{{fn, i, "ALL", "ALL", "", 0}}, ""
		case "lib/parser.In":
			return []quantEntry{{fn, i, "IN", "ANY", "=", 0}, {fn, i, "NOT IN", "ALL", "<>", not}}, ""
		}
	}
	return nil, "no parameter of type parser.Any, parser.All or parser.In"
}

type quantEnv struct {
	sources map[string]bool        // functions yielding (RowValue, []RowValue, error)
	chain   map[*ssa.Function]bool // Any / All / InRowValueList by role
	nonNil  map[string]types.Type  // error constructors that never return nil
	private func(*ssa.Function) bool
}

var quantEnvMemo = map[*core.Prog]*quantEnv{}

func quantEnvOf(c *Ctx) *quantEnv {
	if e, ok := quantEnvMemo[c.P]; ok {
		return e
	}
	e := &quantEnv{sources: map[string]bool{}, chain: map[*ssa.Function]bool{}, nonNil: map[string]types.Type{}}
	rowT := c.P.Type("lib/value", "RowValue")
	tt := ternaryType(c)
	errT := types.Universe.Lookup("error").Type()
	for _, f := range c.P.FuncsIn(true, "lib/query") {
		if f.Blocks == nil || f.Parent() != nil || rowT == nil || tt == nil {
			continue
		}
		res := f.Signature.Results()
		name := c.P.Name(f)
		switch {
		case res.Len() == 3 && types.Identical(res.At(0).Type(), rowT) && types.Identical(res.At(1).Type(), types.NewSlice(rowT)) && types.Identical(res.At(2).Type(), errT):
			e.sources[name] = true
		case res.Len() == 2 && types.Identical(res.At(0).Type(), tt) && types.Identical(res.At(1).Type(), errT) && f.Signature.Recv() == nil:
			for _, p := range f.Params {
				if types.Identical(p.Type(), types.NewSlice(rowT)) {
					e.chain[f] = true
				}
			}
		case res.Len() == 1 && types.Identical(res.At(0).Type(), errT) && f.Signature.Recv() == nil && core.AlwaysNonNil(f, 0):
			e.nonNil[name] = errT
		}
	}
	lq, ctl := inlineHelpers(c, "lib/query"), inlineHelpers(c, core.ControlPkg)
	e.private = func(f *ssa.Function) bool { return lq(f) || ctl(f) }
	quantEnvMemo[c.P] = e
	return e
}

func ruleQuant1(c *Ctx) {
	if ternaryType(c) == nil || len(enumConstsOf(ternaryType(c))) != 3 {
		c.Unknown("ternary values", "-", "cannot-analyse: the three constants of ternary.Value not found")
		return
	}
	for _, name := range []string{"lib/query.evalAny", "lib/query.evalAll", "lib/query.evalIn"} {
		fn := c.Fn(name)
		if fn == nil {
			continue
		}
		es, msg := quantEntries(c, fn)
		if msg != "" {
			c.Unknown(name+": signature", c.FnPos(fn), "cannot-analyse: "+msg)
			continue
		}
		c.Touch(fn)
		for _, e := range es {
			quantCheck(c, e, false)
		}
	}
	var ctls []*ssa.Function
	for _, cf := range c.P.FuncsIn(true) {
		if c.P.IsControl(cf) && cf.Parent() == nil && (strings.HasPrefix(cf.Name(), quantCtlPrefix) || strings.HasPrefix(cf.Name(), quantOkPrefix)) {
			ctls = append(ctls, cf)
		}
	}
	sortFuncs(c.P, ctls)
	for _, cf := range ctls {
		es, msg := quantEntries(c, cf)
		if msg != "" {
			c.Unknown("control:"+cf.Name(), "-", "control "+cf.Name()+" does not have the shape of an evaluator of a quantified comparison: "+msg)
			continue
		}
		c.Touch(cf)
		for _, e := range es {
			quantCheck(c, e, strings.HasPrefix(cf.Name(), quantOkPrefix))
		}
	}
}

func quantCheck(c *Ctx, e quantEntry, negative bool) {
	fn := e.fn
	env := quantEnvOf(c)
	tt := ternaryType(c)
	tconsts := enumConstsOf(tt)
	answers := []string{}
	for _, k := range tconsts {
		answers = append(answers, k.Name())
	}
	answers = append(answers, "error")
	errT := types.Universe.Lookup("error").Type()
	rowT := c.P.Type("lib/value", "RowValue")
	absorbing := map[string]string{"ANY": "TRUE", "ALL": "FALSE"}[e.fold]
	foldName := map[string]string{"ANY": "Kleene OR", "ALL": "Kleene AND"}[e.fold]
	for n := 0; n <= quantMaxLen; n++ {
		key := c.KeyAt(fn, fmt.Sprintf("%s over a list of %d element(s)", e.label, n))
		var bad []string
		nbad := 0
		evalErr := ""
		noSource := 0
		report := func(s string) {
			nbad++
			if len(bad) < 3 {
				bad = append(bad, s)
			}
		}
		worlds, err := absint.Enumerate(4000, func(w *absint.World) {
			if evalErr != "" {
				return
			}
			it := exprInterp(c, w, map[string]int64{"expr.Negation": e.neg})
			it.ConcreteSlices = true
			it.MaxDepth = 12
			it.MaxSteps = 6000
			base := it.InlinePred
			it.InlinePred = func(f *ssa.Function) bool {
				if f == nil || f.Blocks == nil {
					return false
				}
				if f.Pkg != nil && f.Pkg.Pkg.Path() == cmp7Ternry {
					return true
				}
				return env.chain[f] || env.private(f) || base(f)
			}
			operand := absint.Sym("operand", rowT)
			elems := make([]absint.Val, n)
			for i := range elems {
				elems[i] = absint.Sym(fmt.Sprintf("list[%d]", i), rowT)
			}
			nerr := 0
			newErr := func(it *absint.Interp, what string) absint.Val {
				nerr++
				ev := absint.Obj(fmt.Sprintf("%s#%d", what, nerr), errT)
				it.W.Choose("b:nil:"+ev.Sym, 1) // definitely not nil
				return ev
			}
			srcCalls, srcFailed := 0, false
			listKind := ""
			for name := range env.sources {
				it.Models[name] = func(it *absint.Interp, call ssa.CallInstruction, a []absint.Val) (absint.Val, bool) {
					srcCalls++
					if it.W.Choose("source fails", 2) == 1 {
						srcFailed = true
						return absint.Val{K: absint.KTuple, Elems: []absint.Val{absint.Nil(rowT), absint.Nil(types.NewSlice(rowT)), newErr(it, "sourceErr")}}, true
					}
					s := absint.Slice(elems...)
					s.T = types.NewSlice(rowT)
					if n == 0 {
						listKind = " (empty, non-nil list)"
						if it.W.Choose("the empty list is nil", 2) == 1 {
							s = absint.Nil(types.NewSlice(rowT)) // no rows: the nil list as well as the empty one
							listKind = " (nil list)"
						}
					}
					return absint.Val{K: absint.KTuple, Elems: []absint.Val{operand, s, absint.Nil(errT)}}, true
				}
			}
			for name := range env.nonNil {
				name := name
				it.Models[name] = func(it *absint.Interp, call ssa.CallInstruction, a []absint.Val) (absint.Val, bool) {
					return newErr(it, strings.TrimPrefix(name, "lib/query.")), true
				}
			}
			it.Models[quantNewTern] = func(it *absint.Interp, call ssa.CallInstruction, a []absint.Val) (absint.Val, bool) {
				if len(a) != 1 || a[0].K != absint.KConst {
					return absint.Val{}, false
				}
				return absint.Obj("NewTernary("+ternaryName(c, a[0])+")", call.Value().Type()), true
			}
			res := make([]string, n)
			var order []int
			var misuse []string
			it.Models[quantOracle] = func(it *absint.Interp, call ssa.CallInstruction, a []absint.Val) (absint.Val, bool) {
				j := -1
				if len(a) >= 3 && a[0].K == absint.KSym && a[0].Sym == operand.Sym && a[1].K == absint.KSym {
					for i := range elems {
						if elems[i].Sym == a[1].Sym {
							j = i
						}
					}
				}
				opOk := false
				if len(a) >= 3 {
					if e.op != "" {
						opOk = a[2].K == absint.KConst && a[2].C.Kind() == constant.String && constant.StringVal(a[2].C) == e.op
					} else {
						// a string read from the expression (its operator token), not a fixed one
						opOk = a[2].K == absint.KSym && strings.HasPrefix(a[2].Sym, "expr.")
					}
				}
				if j < 0 || !opOk {
					misuse = append(misuse, "CompareRowValues("+joinAbs(a)+") at "+c.Pos(call))
					j = -1
				}
				k := fmt.Sprintf("cmp:%v", a)
				if j >= 0 {
					k = fmt.Sprintf("cmp[%d]", j)
				}
				ch := it.W.Choose(k, len(answers))
				if j >= 0 && res[j] == "" {
					res[j] = answers[ch]
					order = append(order, j)
				}
				if answers[ch] == "error" {
					return absint.Val{K: absint.KTuple, Elems: []absint.Val{absint.Const(tconsts[1].Val(), tt), newErr(it, "cmpErr")}}, true
				}
				return absint.Val{K: absint.KTuple, Elems: []absint.Val{absint.Const(tconsts[ch].Val(), tt), absint.Nil(errT)}}, true
			}
			var args []absint.Val
			for i, p := range fn.Params {
				if i == e.exprIx {
					args = append(args, absint.Obj("expr", p.Type()))
				} else {
					args = append(args, absint.Sym(p.Name(), p.Type()))
				}
			}
			r := it.Call(fn, args, nil)
			var el []string
			for _, j := range order {
				el = append(el, fmt.Sprintf("operand %s list[%d] → %s", map[bool]string{true: "op", false: e.op}[e.op == ""], j, res[j]))
			}
			world := fmt.Sprintf("%s, %d element(s)%s, comparisons [%s]", e.label, n, listKind, strings.Join(el, "; "))
			if it.Err != nil {
				if evalErr == "" {
					evalErr = world + ": " + it.Err.Error()
				}
				return
			}
			if srcCalls == 0 {
				noSource++
			}
			if len(misuse) > 0 {
				want := "the operator of the expression"
				if e.op != "" {
					want = "'" + e.op + "'"
				}
				report(world + ": " + strings.Join(dedup(misuse), ", ") + " does not compare the left operand with an element of the list under " + want)
				return
			}
			if r.K != absint.KTuple || len(r.Elems) != 2 {
				report(world + ": unexpected result " + r.String())
				return
			}
			gotErr := "nil"
			if r.Elems[1].K != absint.KNil {
				gotErr = r.Elems[1].String()
			}
			returned := fmt.Sprintf("returns (%s, %s)", r.Elems[0].String(), gotErr)
			var made, skipped []string
			hasErr := srcFailed
			for j := 0; j < n && !srcFailed; j++ {
				switch res[j] {
				case "":
					skipped = append(skipped, fmt.Sprintf("list[%d]", j))
				case "error":
					hasErr = true
				default:
					made = append(made, res[j])
				}
			}
			if hasErr {
				if r.Elems[1].K == absint.KNil {
					what := "a comparison reported an error"
					if srcFailed {
						what = "the list could not be evaluated"
					}
					report(world + ": " + returned + " although " + what + "; expected a non-nil error")
				}
				return
			}
			if r.Elems[1].K != absint.KNil {
				report(world + ": " + returned + " although nothing failed; expected a nil error")
				return
			}
			got := ""
			if r.Elems[0].K == absint.KObj && strings.HasPrefix(r.Elems[0].Sym, "NewTernary(") {
				got = strings.TrimSuffix(strings.TrimPrefix(r.Elems[0].Sym, "NewTernary("), ")")
			}
			if got == "" {
				if evalErr == "" {
					evalErr = world + ": " + returned + ", a value that is not value.NewTernary of one of the three ternaries"
				}
				return
			}
			part := cmp7Fold(e.fold, made)
			if len(skipped) > 0 && part != absorbing {
				report(fmt.Sprintf("%s: %s without comparing %s; the %s of the results so far is %s, which the remaining element(s) can still change (only %s absorbs)",
					world, returned, strings.Join(skipped, ", "), foldName, part, absorbing))
				return
			}
			if got != part {
				report(fmt.Sprintf("%s: %s, expected %s = %s of the element results%s", world, returned, part, foldName,
					map[bool]string{true: " (the empty fold: a condition over no rows is " + part + ")", false: ""}[n == 0]))
			}
		})
		switch {
		case err != nil:
			c.Unknown(key, c.FnPos(fn), err.Error())
		case evalErr != "":
			c.Unknown(key, c.FnPos(fn), "cannot evaluate: "+evalErr)
		case noSource == worlds:
			c.Unknown(key, c.FnPos(fn), "cannot-analyse: no call of a function with results (value.RowValue, []value.RowValue, error) is executed: where the operand and the list come from is not known")
		case nbad > 0:
			sort.Strings(bad)
			why := fmt.Sprintf("%d of %d worlds deviate from the quantified comparison (%s = %s over the element comparisons): %s", nbad, worlds, e.label, foldName, strings.Join(bad, " | "))
			c.Bad(key, c.FnPos(fn), why)
			if negative {
				c.Unknown("negative-control:"+key, "-", "the rule reports "+fn.Name()+", a correct spelling of the quantified comparison: "+why)
			}
		default:
			c.OkN(key, c.FnPos(fn), fmt.Sprintf("all %d worlds (list evaluated or not × element results in {TRUE, FALSE, UNKNOWN, error}^%d × error-path atoms) return value.NewTernary of the %s of the compared elements with a nil error, or a non-nil error when something failed", worlds, n, foldName), worlds)
		}
	}
}
