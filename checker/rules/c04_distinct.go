package rules

import (
	"fmt"
	"go/token"
	"go/types"
	"sort"
	"strings"

	"golang.org/x/tools/go/ssa"

	"verif/checker/core"
)

// R-DST-1 — no successful exit of an aggregate evaluator bypasses DISTINCT.
//
// Written after COUNT(DISTINCT <literal>) was found to return the number of rows:
// the COUNT shortcut of evalAggregateFunction returned GroupLen() ahead of the call
// that builds the list of values (and receives expr.IsDistinct()).
//
// Scope (found from the code, no names): every hand-written function of lib/query
// (and of the control package) that returns at least one non-error result and
// calls IsDistinct() — a niladic bool method of a lib/parser syntax-tree type — on
// some path. The *uses* of that flag are what counts, not the call (the call may
// be hoisted to the top of the function):
//   tests        If instructions whose condition is the flag (through !, the Phi of
//                a short-circuit && / ||, a local cell),
//   delegations  calls that receive the flag as an argument (the list builder).
// For every return R that may report success:
//   A  every path from the entry to R passes a test or a delegation: the modifier
//      was consulted, whatever was done with it; or
//   B  R is dominated by an edge of a test on which the flag is known to be false:
//      a shortcut taken only for the plain aggregate; or
//   C  R can be reached from a delegation (it is the exit of the general path) and
//      each Phi between R's value and the delegated call's result joins that
//      result only with nil / empty lists: the paths that skip the list builder
//      aggregate nothing; or
//   D  the value returned is built from constants alone (COUNT(NULL) = 0).
// Anything else is a successful exit whose value was computed without knowing
// whether DISTINCT was written.

func init() {
	Register(&Rule{ID: "R-DST-1", Props: []string{"C04", "C17"}, Floor: 9,
		Doc: "no successful exit of an aggregate evaluator bypasses DISTINCT: in every hand-written lib/query function that returns a value and consults IsDistinct() of a lib/parser node (evalAggregateFunction, evalListFunction, windowValues, the analytic LISTAGG / JSON_AGG — found by that call, not by name), each return that may report success is (A) reached only through a use of the flag (a branch on it, or a call that receives it — the list builder), or (B) dominated by a branch edge on which the flag is false, or (C) the exit of the general path, where every Phi joining the list builder's result joins it with nil / empty lists only, or (D) returns a value built from constants alone. " +
			"A shortcut that answers from the size of the group (COUNT(<literal>) → GroupLen()) ahead of the list builder is reported unless it sits on the not-DISTINCT edge",
		Controls: []string{"CtlDistinctCountShortcut", "CtlDistinctHoistedFlag", "CtlDistinctWrongEdge", "CtlDistinctSecondList"},
		Run:      ruleDst1})
}

// dstFlagCalls: calls of a niladic bool method IsDistinct on a lib/parser (or control) type.
func dstFlagCalls(c *Ctx, fn *ssa.Function) []*ssa.Call {
	var out []*ssa.Call
	for _, b := range fn.Blocks {
		for _, in := range b.Instrs {
			call, ok := in.(*ssa.Call)
			if !ok {
				continue
			}
			com := call.Common()
			var sig *types.Signature
			var recvT types.Type
			name := ""
			if com.IsInvoke() {
				name = com.Method.Name()
				sig, _ = com.Method.Type().(*types.Signature)
				recvT = com.Value.Type()
			} else if f := com.StaticCallee(); f != nil && f.Signature.Recv() != nil {
				name = f.Name()
				sig = f.Signature
				recvT = f.Signature.Recv().Type()
			}
			if name != "IsDistinct" || sig == nil || sig.Params().Len() != 0 || sig.Results().Len() != 1 {
				continue
			}
			if bt, ok := sig.Results().At(0).Type().Underlying().(*types.Basic); !ok || bt.Kind() != types.Bool {
				continue
			}
			n := core.NamedOf(recvT)
			if !strings.HasPrefix(n, "lib/parser.") && !strings.HasPrefix(n, core.ControlPkg+".") && !strings.Contains(n, core.ControlPkg) {
				continue
			}
			out = append(out, call)
		}
	}
	return out
}

// dstFlagOf: what v says about the flag: +1 v == flag, -1 v == !flag, 0 v is not the flag
// (only exact copies: through local cells with a single store and through NOT).
func dstFlagOf(v ssa.Value, flags map[ssa.Value]bool, d int) int {
	if d > 6 || v == nil {
		return 0
	}
	if flags[v] {
		return 1
	}
	switch x := v.(type) {
	case *ssa.UnOp:
		switch x.Op {
		case token.NOT:
			return -dstFlagOf(x.X, flags, d+1)
		case token.MUL:
			switch cell := x.X.(type) {
			case *ssa.Alloc, *ssa.FreeVar:
				vals, complete := core.StoresTo(cell)
				if complete && len(vals) == 1 {
					return dstFlagOf(vals[0], flags, d+1)
				}
			}
		}
	}
	return 0
}

// dstMentions: v is the flag, its negation, or a Phi / short-circuit that has the flag among its inputs.
func dstMentions(v ssa.Value, flags map[ssa.Value]bool, d int) bool {
	if d > 6 || v == nil {
		return false
	}
	if dstFlagOf(v, flags, 0) != 0 {
		return true
	}
	switch x := v.(type) {
	case *ssa.UnOp:
		if x.Op == token.NOT {
			return dstMentions(x.X, flags, d+1)
		}
	case *ssa.Phi:
		for _, e := range x.Edges {
			if dstMentions(e, flags, d+1) {
				return true
			}
		}
	case *ssa.BinOp:
		if x.Op == token.EQL || x.Op == token.NEQ || x.Op == token.AND || x.Op == token.OR {
			return dstMentions(x.X, flags, d+1) || dstMentions(x.Y, flags, d+1)
		}
	}
	return false
}

// dstImplies: cond == want implies flag == val.
func dstImplies(cond ssa.Value, want bool, val bool, flags map[ssa.Value]bool, d int) bool {
	if d > 6 {
		return false
	}
	switch dstFlagOf(cond, flags, 0) {
	case 1:
		return want == val
	case -1:
		return want != val
	}
	switch x := cond.(type) {
	case *ssa.UnOp:
		if x.Op == token.NOT {
			return dstImplies(x.X, !want, val, flags, d+1)
		}
	case *ssa.Phi:
		// the Phi of a && / ||: every edge that can carry `want` must imply it
		some := false
		for _, e := range x.Edges {
			if b, ok := core.ConstBool(e); ok {
				if b == want {
					return false
				}
				continue
			}
			if !dstImplies(e, want, val, flags, d+1) {
				return false
			}
			some = true
		}
		return some
	}
	return false
}

// dstWorkOnEdge: some instruction dominated by block s does work that can tell equal values
// apart: a call other than a constructor of lib/value / lib/ternary or a builtin, or a map operation.
func dstWorkOnEdge(c *Ctx, s *ssa.BasicBlock) bool {
	for _, b := range s.Parent().Blocks {
		if b != s && !s.Dominates(b) {
			continue
		}
		for _, in := range b.Instrs {
			switch x := in.(type) {
			case *ssa.Call:
				if _, isB := x.Common().Value.(*ssa.Builtin); isB {
					continue
				}
				if f := x.Common().StaticCallee(); f != nil && c.P.InPkg(f, "lib/value", "lib/ternary") {
					continue
				}
				return true
			case *ssa.MapUpdate, *ssa.Lookup:
				return true
			}
		}
	}
	return false
}

type dstFn struct {
	fn    *ssa.Function
	flags map[ssa.Value]bool
	tests map[ssa.Instruction]bool // If instructions on the flag
	deleg map[ssa.Instruction]bool // calls receiving the flag
	uses  map[ssa.Instruction]bool
}

func dstAnalyse(c *Ctx, fn *ssa.Function) *dstFn {
	calls := dstFlagCalls(c, fn)
	if len(calls) == 0 {
		return nil
	}
	d := &dstFn{fn: fn, flags: map[ssa.Value]bool{}, tests: map[ssa.Instruction]bool{}, deleg: map[ssa.Instruction]bool{}, uses: map[ssa.Instruction]bool{}}
	for _, call := range calls {
		d.flags[call] = true
	}
	for _, b := range fn.Blocks {
		for _, in := range b.Instrs {
			switch x := in.(type) {
			case *ssa.If:
				if dstMentions(x.Cond, d.flags, 0) {
					d.tests[x] = true
					d.uses[x] = true
				}
			case ssa.CallInstruction:
				if cv, ok := x.(*ssa.Call); ok && d.flags[cv] {
					continue
				}
				for _, a := range x.Common().Args {
					if dstFlagOf(a, d.flags, 0) != 0 {
						d.deleg[x] = true
						d.uses[x] = true
					}
				}
			}
		}
	}
	return d
}

// dstAvoidReach: blocks whose terminator can be reached from the entry without executing a use.
func (d *dstFn) avoidReach() map[*ssa.BasicBlock]bool {
	out := map[*ssa.BasicBlock]bool{}
	if len(d.fn.Blocks) == 0 {
		return out
	}
	passes := func(b *ssa.BasicBlock) bool {
		for _, in := range b.Instrs {
			if d.uses[in] {
				return true
			}
		}
		return false
	}
	seen := map[*ssa.BasicBlock]bool{}
	stack := []*ssa.BasicBlock{d.fn.Blocks[0]}
	for len(stack) > 0 {
		b := stack[len(stack)-1]
		stack = stack[:len(stack)-1]
		if seen[b] {
			continue
		}
		seen[b] = true
		if passes(b) {
			continue
		}
		out[b] = true
		stack = append(stack, b.Succs...)
	}
	return out
}

// dstAfterUse: blocks reachable from a delegation (the block of the call itself counts for
// the instructions after it).
func (d *dstFn) afterDeleg() map[*ssa.BasicBlock]bool {
	out := map[*ssa.BasicBlock]bool{}
	var stack []*ssa.BasicBlock
	for in := range d.deleg {
		out[in.Block()] = true // R is a terminator, hence after the call
		stack = append(stack, in.Block().Succs...)
	}
	for len(stack) > 0 {
		b := stack[len(stack)-1]
		stack = stack[:len(stack)-1]
		if out[b] {
			continue
		}
		out[b] = true
		stack = append(stack, b.Succs...)
	}
	return out
}

// dstSlice: backward data slice of v inside the function (values only).
func dstSlice(v ssa.Value, seen map[ssa.Value]bool) {
	if v == nil || seen[v] {
		return
	}
	seen[v] = true
	switch x := v.(type) {
	case *ssa.Phi:
		for _, e := range x.Edges {
			dstSlice(e, seen)
		}
	case *ssa.Call:
		if x.Common().IsInvoke() {
			dstSlice(x.Common().Value, seen)
		} else if _, isFn := x.Common().Value.(*ssa.Function); !isFn {
			dstSlice(x.Common().Value, seen)
		}
		for _, a := range x.Common().Args {
			dstSlice(a, seen)
		}
	case *ssa.Extract:
		dstSlice(x.Tuple, seen)
	case *ssa.MakeInterface:
		dstSlice(x.X, seen)
	case *ssa.Convert:
		dstSlice(x.X, seen)
	case *ssa.ChangeType:
		dstSlice(x.X, seen)
	case *ssa.ChangeInterface:
		dstSlice(x.X, seen)
	case *ssa.TypeAssert:
		dstSlice(x.X, seen)
	case *ssa.Slice:
		dstSlice(x.X, seen)
	case *ssa.BinOp:
		dstSlice(x.X, seen)
		dstSlice(x.Y, seen)
	case *ssa.UnOp:
		if x.Op == token.MUL {
			switch cell := x.X.(type) {
			case *ssa.Alloc, *ssa.FreeVar:
				vals, _ := core.StoresTo(cell)
				for _, s := range vals {
					dstSlice(s, seen)
				}
				return
			}
		}
		dstSlice(x.X, seen)
	case *ssa.FieldAddr:
		dstSlice(x.X, seen)
	case *ssa.IndexAddr:
		dstSlice(x.X, seen)
		dstSlice(x.Index, seen)
	case *ssa.Index:
		dstSlice(x.X, seen)
		dstSlice(x.Index, seen)
	case *ssa.Field:
		dstSlice(x.X, seen)
	case *ssa.Lookup:
		dstSlice(x.X, seen)
		dstSlice(x.Index, seen)
	}
}

// dstEmpty: nil, a zero-length make, or a Phi of such.
func dstEmpty(v ssa.Value, d int) bool {
	if d > 4 || v == nil {
		return v == nil
	}
	if core.IsNilConst(v) {
		return true
	}
	switch x := v.(type) {
	case *ssa.MakeSlice:
		n, ok := core.ConstInt(x.Len)
		return ok && n == 0
	case *ssa.Phi:
		for _, e := range x.Edges {
			if !dstEmpty(e, d+1) {
				return false
			}
		}
		return true
	case *ssa.ChangeType:
		return dstEmpty(x.X, d+1)
	case *ssa.Slice:
		// xs[:0]
		if x.High != nil {
			if n, ok := core.ConstInt(x.High); ok && n == 0 {
				return true
			}
		}
	}
	return false
}

// dstConstOnly: v is built from constants alone (through value constructors of lib/value, lib/ternary).
func dstConstOnly(c *Ctx, v ssa.Value, d int) bool {
	if d > 6 || v == nil {
		return false
	}
	switch x := v.(type) {
	case *ssa.Const:
		return true
	case *ssa.MakeInterface:
		return dstConstOnly(c, x.X, d+1)
	case *ssa.Convert:
		return dstConstOnly(c, x.X, d+1)
	case *ssa.ChangeType:
		return dstConstOnly(c, x.X, d+1)
	case *ssa.ChangeInterface:
		return dstConstOnly(c, x.X, d+1)
	case *ssa.Phi:
		for _, e := range x.Edges {
			if !dstConstOnly(c, e, d+1) {
				return false
			}
		}
		return true
	case *ssa.Call:
		f := x.Common().StaticCallee()
		if f == nil || !c.P.InPkg(f, "lib/value", "lib/ternary") {
			return false
		}
		for _, a := range x.Common().Args {
			if !dstConstOnly(c, a, d+1) {
				return false
			}
		}
		return true
	}
	return false
}

func ruleDst1(c *Ctx) {
	start := len(c.Obs)
	defer func() {
		c.negControls(start, "okDistinctGuardedShortcut", "okDistinctHoistedGuard", "okDistinctSelectAfterLoop", "okDistinctEmptyWhenNoRows")
	}()
	real := 0
	fns := append([]*ssa.Function(nil), c.P.FuncsIn(true, "lib/query")...)
	sort.SliceStable(fns, func(i, j int) bool { return c.P.Name(fns[i]) < c.P.Name(fns[j]) })
	for _, fn := range fns {
		if fn.Blocks == nil || (!c.P.IsControl(fn) && e19IsGeneratedFn(c.P, fn)) {
			continue
		}
		res := fn.Signature.Results()
		hasValue := false
		for i := 0; i < res.Len(); i++ {
			if !core.IsErrorType(res.At(i).Type()) {
				hasValue = true
			}
		}
		if !hasValue {
			continue
		}
		d := dstAnalyse(c, fn)
		if d == nil {
			continue
		}
		c.Touch(fn)
		if len(d.uses) == 0 {
			c.Bad(c.KeyAt(fn, "IsDistinct() is called but its result decides nothing"), c.FnPos(fn), "the function reads the DISTINCT modifier of its expression and neither branches on it nor hands it to a callee: the modifier is ignored")
			continue
		}
		avoid := d.avoidReach()
		after := d.afterDeleg()
		seq := e19SeqKey{}
		for _, ret := range core.Returns(fn) {
			if core.FailureReturn(fn, ret) {
				continue
			}
			if !c.P.IsControl(fn) {
				real++
			}
			key := seq.key(c, fn, "successful return honours DISTINCT")
			guarded, idle := false, false
			for _, f := range core.FactsAt(ret.Block()) {
				if dstImplies(f.Cond, !f.Neg, false, d.flags, 0) {
					guarded = true
				}
				if dstImplies(f.Cond, !f.Neg, true, d.flags, 0) && f.If != nil && len(f.If.Block().Succs) == 2 {
					s := f.If.Block().Succs[0]
					if f.Neg {
						s = f.If.Block().Succs[1]
					}
					if !after[ret.Block()] && !dstWorkOnEdge(c, s) {
						idle = true
					}
				}
			}
			if idle {
				c.Bad(key, c.Pos(ret), "this return is taken only WITH DISTINCT, yet nothing on that edge can tell equal values apart (no call besides value constructors, no map operation) and the call that receives the flag is not passed: the shortcut sits on the wrong edge of the IsDistinct() test")
				continue
			}
			// A
			if !avoid[ret.Block()] {
				c.Ok(key, c.Pos(ret), "every path to this return passes a use of the DISTINCT flag (branch or delegation)")
				continue
			}
			// B
			if guarded {
				c.Ok(key, c.Pos(ret), "shortcut dominated by a branch edge on which IsDistinct() is false")
				continue
			}
			var vals []ssa.Value
			for i := 0; i < res.Len() && i < len(ret.Results); i++ {
				if core.IsErrorType(res.At(i).Type()) {
					continue
				}
				vals = append(vals, core.ReturnOperand(ret, i)...)
			}
			// D
			allConst := len(vals) > 0
			for _, v := range vals {
				if v != nil && !dstConstOnly(c, v, 0) {
					allConst = false
				}
			}
			if allConst {
				c.Ok(key, c.Pos(ret), "the value returned is built from constants alone")
				continue
			}
			// C
			if after[ret.Block()] && len(d.deleg) > 0 {
				slice := map[ssa.Value]bool{}
				for _, v := range vals {
					dstSlice(v, slice)
				}
				derived := func(v ssa.Value) bool {
					s := map[ssa.Value]bool{}
					dstSlice(v, s)
					for in := range d.deleg {
						if cv, ok := in.(*ssa.Call); ok && s[cv] {
							return true
						}
					}
					return false
				}
				joins, bad := 0, ""
				var phis []*ssa.Phi
				for v := range slice {
					if ph, ok := v.(*ssa.Phi); ok {
						phis = append(phis, ph)
					}
				}
				sort.Slice(phis, func(i, j int) bool {
					return phis[i].Pos() < phis[j].Pos() || (phis[i].Pos() == phis[j].Pos() && phis[i].Name() < phis[j].Name())
				})
				for _, ph := range phis {
					some := false
					for _, e := range ph.Edges {
						if derived(e) {
							some = true
						}
					}
					if !some {
						continue
					}
					joins++
					for i, e := range ph.Edges {
						if derived(e) || dstEmpty(e, 0) {
							continue
						}
						// an edge that cannot be taken without passing a use is the general path's own
						if !avoid[ph.Block().Preds[i]] {
							continue
						}
						bad = fmt.Sprintf("%s joins the list builder's result with %s, which is neither nil nor empty, on a path that never looked at IsDistinct()", valueLabel(ph), e19ExprLabel(e))
					}
				}
				switch {
				case bad != "":
					c.Bad(key, c.Pos(ret), "exit of the general path, but "+bad+": the aggregate is computed over a list that DISTINCT did not filter")
				case joins > 0:
					c.OkN(key, c.Pos(ret), fmt.Sprintf("exit of the general path: %d Phi(s) join the list builder's result with nil / empty lists only", joins), joins)
				default:
					c.Bad(key, c.Pos(ret), "this return can be reached both through the call that receives IsDistinct() and around it, and its value is not a join of that call's result with an empty list: what is aggregated on the path around it is not shown to be nothing")
				}
				continue
			}
			what := "its value"
			if len(vals) > 0 && vals[0] != nil {
				what = e19ExprLabel(vals[0])
			}
			c.Bad(key, c.Pos(ret), "this return reports success with "+what+" on a path that never looked at IsDistinct(): it lies ahead of (or beside) every branch on the flag and every call that receives it, is not on a not-DISTINCT edge and does not return a constant — f(DISTINCT x) is answered as f(x) (COUNT(DISTINCT 1) = number of rows)")
		}
	}
	if real == 0 {
		c.Unknown("anchor:IsDistinct consumers", "-", "cannot-analyse: no hand-written lib/query function that returns a value consults IsDistinct()")
	}
}
