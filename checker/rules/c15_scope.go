package rules

import (
	"fmt"
	"go/token"
	"go/types"
	"sort"
	"strings"

	"golang.org/x/tools/go/callgraph"
	"golang.org/x/tools/go/ssa"

	"verif/checker/core"
)

// C15 — block and function scopes.
//
//	R-SCP-1  declare innermost / look up inner→outer / child chain construction
//	R-SCP-2  pooled scope typestate (ownership, no use after release, one release per path)
//	R-SCP-3  loop bodies start every iteration with an empty block
//	R-SCP-4  user-defined functions run in a child scope of their own
//	R-SCP-5  control-transfer table over the StatementFlow constants (c15_flow part below)
//	R-SCP-6  recycled scopes are empty

func init() {
	Register(&Rule{ID: "R-SCP-1", Props: []string{"C15"}, Floor: 45,
		Doc:      "every element access to ReferenceScope.Blocks / .nodes in the program is either index 0 (innermost) or a loop whose induction variable starts at 0 and steps +1; a lookup loop leaves the loop on a condition computed from the element just visited (first hit wins), visit-all loops are a frozen list and their accumulators keep the inner entry (Store guarded by !Exists); the outermost element is read only by Global, whose callers are frozen; CreateChild/CreateNode build a fresh slice with the pool scope at index 0 and parent element i at i+1",
		Controls: []string{"CtlScopeDeclareGlobal", "CtlScopeLookupOuterFirst", "CtlScopeLookupNoStop"},
		Run:      ruleScp1})
	Register(&Rule{ID: "R-SCP-2", Props: []string{"C15", "C13"}, Floor: 45,
		Doc:      "pooled scopes (block: CreateChild/NewChildProcessor … CloseCurrentBlock/Close; node: CreateNode … CloseCurrentNode; creators, releasers and their wrappers are derived from the sync.Pool Get/Put sites): every release is applied to a handle created in the same function (the result of a creator, or a Processor / ReferenceScope literal whose scope field holds one), no path carries two releases of one handle (explicit or deferred), no use of the handle or of a scope derived from it is reachable from a release; the pools are Put only by the putters and the putters are called only by the releasers",
		Controls: []string{"CtlScopeDoubleRelease", "CtlScopeUseAfterRelease", "CtlScopeReleaseNotOwned", "CtlScopeDeferAndExplicit", "CtlScopeReleaseViaHelperTwice", "CtlScopeLiteralReleaseNotOwned", "CtlScopeLiteralDoubleRelease"},
		Run:      ruleScp2})
	Register(&Rule{ID: "R-SCP-3", Props: []string{"C15"}, Floor: 2,
		Doc:      "in every loop that runs statements on a child processor created outside the loop (While, WhileInCursor), the first use of the child scope on every path from the loop head is the call that clears its current block: declarations of one iteration are never visible in the next",
		Controls: []string{"CtlScopeLoopNoClear"},
		Run:      ruleScp3})
	Register(&Rule{ID: "R-SCP-4", Props: []string{"C15"}, Floor: 9,
		Doc:      "UserDefinedFunction.Execute/ExecuteAggregate create a child block scope from the caller's scope, release it on every path (deferred or explicit), hand only the child (never the caller's scope) to anything else; the body binds parameters through element 0 of the scope it was given and runs the statements on a processor built on that same scope",
		Controls: []string{"CtlScopeUdfBindsInCaller"},
		Run:      ruleScp4})
	Register(&Rule{ID: "R-SCP-6", Props: []string{"C15"}, Floor: 8,
		Doc:      "the pool putters call Clear on the scope before (*sync.Pool).Put on every path and put the value they cleared; BlockScope.Clear / NodeScope.Clear call an emptying method on every field of the struct (sibling coverage), and each such callee reaches a map delete",
		Controls: []string{"CtlScopePutWithoutClear"},
		Run:      ruleScp6})
}

const (
	scpTRefScope  = "lib/query.ReferenceScope"
	scpTProcessor = "lib/query.Processor"
)

type scopeKind int

const (
	kBlock scopeKind = iota
	kNode
)

var scopeKinds = []scopeKind{kBlock, kNode}

func (k scopeKind) String() string {
	if k == kBlock {
		return "block"
	}
	return "node"
}
func (k scopeKind) elem() string {
	if k == kBlock {
		return "lib/query.BlockScope"
	}
	return "lib/query.NodeScope"
}
func (k scopeKind) field() string {
	if k == kBlock {
		return "Blocks"
	}
	return "nodes"
}

func scpIsPtrTo(t types.Type, named string) bool {
	p, ok := t.Underlying().(*types.Pointer)
	return ok && core.NamedOf(p.Elem()) == named
}

func scpIsHandleType(t types.Type) bool {
	return scpIsPtrTo(t, scpTRefScope) || scpIsPtrTo(t, scpTProcessor)
}

// negControls turns a report about a correct-idiom control into a failure of
// the rule itself (the framework ignores control obligations otherwise).
func (c *Ctx) negControls(from int, names ...string) {
	for _, n := range names {
		seen := false
		for _, o := range c.Obs[from:] {
			if !strings.Contains(o.Key, n) {
				continue
			}
			seen = true
			if o.Status != Discharged {
				c.Unknown("negative-control:"+n, "-", fmt.Sprintf("the correct idiom %s is reported (%s: %s): the rule raises false alarms", n, o.Status, o.Why))
			}
		}
		if !seen {
			c.Unknown("negative-control:"+n, "-", "the correct-idiom control "+n+" was not examined at all")
		}
	}
}

// scpResolveCell reads through local cells (Alloc / FreeVar) that have exactly one
// visible store: captured loop variables and captured parameters.
func scpResolveCell(v ssa.Value) ssa.Value {
	for i := 0; i < 8; i++ {
		u, ok := v.(*ssa.UnOp)
		if !ok || u.Op != token.MUL {
			return v
		}
		switch cell := u.X.(type) {
		case *ssa.Alloc, *ssa.FreeVar:
			vals, complete := core.StoresTo(cell)
			if !complete || len(vals) != 1 {
				return v
			}
			v = vals[0]
		default:
			return v
		}
	}
	return v
}

// ---------------------------------------------------------------------------
// Element accesses to ReferenceScope.Blocks / .nodes

type scpIdxClass int

const (
	scpIdxZero  scpIdxClass = iota // [0]
	scpIdxAsc                      // loop variable starting at 0, step +1
	scpIdxLast                     // [len-1]
	scpIdxOther                    // anything else
)

type scpElemAccess struct {
	kind  scopeKind
	class scpIdxClass
	root  ssa.Value       // the *ReferenceScope whose slice is indexed
	at    ssa.Instruction // IndexAddr, Slice or accessor call
	phi   *ssa.Phi        // induction variable of scpIdxAsc / looping scpIdxOther
	via   *ssa.Function   // accessor method when the access is a call
	desc  string
}

// scpSliceLoad: v is a load of <root>.Blocks / <root>.nodes.
func scpSliceLoad(v ssa.Value) (root ssa.Value, k scopeKind, ok bool) {
	u, isLoad := v.(*ssa.UnOp)
	if !isLoad || u.Op != token.MUL {
		return nil, 0, false
	}
	fa, isFA := u.X.(*ssa.FieldAddr)
	if !isFA {
		return nil, 0, false
	}
	switch core.FieldOwner(fa) {
	case scpTRefScope + ".Blocks":
		return scpResolveCell(fa.X), kBlock, true
	case scpTRefScope + ".nodes":
		return scpResolveCell(fa.X), kNode, true
	}
	return nil, 0, false
}

func scpClassifyIndex(idx ssa.Value, root ssa.Value, k scopeKind) (scpIdxClass, *ssa.Phi, string) {
	idx = scpResolveCell(idx)
	base, off := core.LinearIndex(idx)
	if base == nil {
		if off == 0 {
			return scpIdxZero, nil, "[0]"
		}
		return scpIdxOther, nil, fmt.Sprintf("[%d]", off)
	}
	base = scpResolveCell(base)
	if b2, o2 := core.LinearIndex(base); b2 != base {
		base, off = b2, off+o2
	}
	if p, ok := base.(*ssa.Phi); ok {
		if initVal, ic, isConst, step, ok := core.Induction(p); ok {
			if isConst && ic+off == 0 && step == 1 {
				return scpIdxAsc, p, "[i], i = 0,1,2,…"
			}
			start := fmt.Sprintf("%d", ic+off)
			if !isConst {
				start = "a computed value"
				if ib, io := core.LinearIndex(initVal); scpIsLenOfSlice(ib, root, k) {
					start = fmt.Sprintf("len%+d", io+off)
				}
			}
			return scpIdxOther, p, fmt.Sprintf("[i], i starts at %s and steps %+d", start, step)
		}
		return scpIdxOther, p, "[i] with an unrecognised loop variable"
	}
	if scpIsLenOfSlice(base, root, k) && off == -1 {
		return scpIdxLast, nil, "[len-1]"
	}
	return scpIdxOther, nil, "[computed index]"
}

func scpIsLenOfSlice(v ssa.Value, root ssa.Value, k scopeKind) bool {
	call, ok := v.(*ssa.Call)
	if !ok {
		return false
	}
	b, ok := call.Call.Value.(*ssa.Builtin)
	if !ok || b.Name() != "len" || len(call.Call.Args) != 1 {
		return false
	}
	r, kk, ok := scpSliceLoad(call.Call.Args[0])
	return ok && kk == k && r == root
}

// scpDirectAccess classifies an IndexAddr / Slice on a scope slice.
func scpDirectAccess(in ssa.Instruction) *scpElemAccess {
	switch x := in.(type) {
	case *ssa.IndexAddr:
		root, k, ok := scpSliceLoad(x.X)
		if !ok {
			return nil
		}
		cl, phi, desc := scpClassifyIndex(x.Index, root, k)
		return &scpElemAccess{kind: k, class: cl, root: root, at: x, phi: phi, desc: k.field() + desc}
	case *ssa.Slice:
		root, k, ok := scpSliceLoad(x.X)
		if !ok {
			return nil
		}
		if x.Low == nil && x.High == nil {
			return nil // rs.Blocks[:] is the whole chain
		}
		return &scpElemAccess{kind: k, class: scpIdxOther, root: root, at: x, desc: k.field() + "[sub-slice]"}
	}
	return nil
}

var scpAccessorMemo = map[*ssa.Function]*scpElemAccess{}
var scpAccessorDone = map[*ssa.Function]bool{}

// scpAccessorSummary: fn returns one element of its receiver's scope slice
// (CurrentBlock → [0], Global → [len-1]).
func scpAccessorSummary(fn *ssa.Function) *scpElemAccess {
	if scpAccessorDone[fn] {
		return scpAccessorMemo[fn]
	}
	scpAccessorDone[fn] = true
	if fn == nil || fn.Blocks == nil || len(fn.Params) == 0 || fn.Signature.Results().Len() != 1 {
		return nil
	}
	rt := core.NamedOf(fn.Signature.Results().At(0).Type())
	if rt != kBlock.elem() && rt != kNode.elem() {
		return nil
	}
	if !scpIsPtrTo(fn.Params[0].Type(), scpTRefScope) {
		return nil
	}
	var res *scpElemAccess
	for _, r := range core.Returns(fn) {
		accs := scpTraceElem(r.Results[0], 0)
		if len(accs) != 1 || accs[0].root != fn.Params[0] {
			return nil
		}
		if res != nil && (res.class != accs[0].class || res.kind != accs[0].kind) {
			return nil
		}
		res = accs[0]
	}
	scpAccessorMemo[fn] = res
	return res
}

// scpTraceElem walks from a value of (pointer to) BlockScope/NodeScope type, or a
// field of one, back to the element accesses it may come from.
func scpTraceElem(v ssa.Value, depth int) []*scpElemAccess {
	if depth > 12 || v == nil {
		return nil
	}
	v = scpResolveCell(v)
	isElem := func(t types.Type) bool {
		n := core.NamedOf(t)
		return n == kBlock.elem() || n == kNode.elem()
	}
	switch x := v.(type) {
	case *ssa.UnOp:
		if x.Op == token.MUL {
			return scpTraceElem(x.X, depth+1)
		}
	case *ssa.FieldAddr:
		if isElem(x.X.Type()) || depth > 0 {
			return scpTraceElem(x.X, depth+1)
		}
	case *ssa.Field:
		return scpTraceElem(x.X, depth+1)
	case *ssa.IndexAddr:
		if a := scpDirectAccess(x); a != nil {
			return []*scpElemAccess{a}
		}
	case *ssa.Call:
		if f := core.StaticCallee(x); f != nil && len(x.Call.Args) > 0 {
			if s := scpAccessorSummary(f); s != nil {
				return []*scpElemAccess{{kind: s.kind, class: s.class, root: scpResolveCell(x.Call.Args[0]), at: x, via: f, desc: s.desc + " via " + f.Name() + "()"}}
			}
		}
	case *ssa.Phi:
		var out []*scpElemAccess
		for _, e := range x.Edges {
			out = append(out, scpTraceElem(e, depth+1)...)
		}
		return out
	case *ssa.Alloc:
		// the copy of an element: `for _, b := range rs.Blocks` / `b := rs.Blocks[i]`
		if !isElem(x.Type()) {
			return nil
		}
		var out []*scpElemAccess
		for _, r := range *x.Referrers() {
			if st, ok := r.(*ssa.Store); ok && st.Addr == ssa.Value(x) {
				accs := scpTraceElem(st.Val, depth+1)
				if len(accs) == 0 {
					return nil // some store puts a value of unknown provenance into the cell
				}
				out = append(out, accs...)
			}
		}
		return out
	}
	return nil
}

// visit-all loops: every scope of the chain is processed, there is no "hit".
var scopeVisitAll = map[string]string{
	"lib/query.(*ReferenceScope).AllVariables":          "collects the variables of all blocks, inner entry kept",
	"lib/query.(*ReferenceScope).AllTemporaryTables":    "collects the temporary tables of all blocks, inner entry kept",
	"lib/query.(*ReferenceScope).AllCursors":            "collects the cursors of all blocks, inner entry kept",
	"lib/query.(*ReferenceScope).AllFunctions":          "collects the functions of all blocks, inner entry kept",
	"lib/query.(*ReferenceScope).StoreTemporaryTable":   "COMMIT creates a restore point for the uncommitted temporary tables of every block",
	"lib/query.(*ReferenceScope).RestoreTemporaryTable": "ROLLBACK restores the uncommitted temporary tables of every block",
	"lib/query.(*ReferenceScope).CreateChild":           "copies the parent's chain behind the fresh block (structure checked separately)",
	"lib/query.(*ReferenceScope).CreateNode":            "copies the parent's chain behind the fresh node (structure checked separately)",
}

// readers of the outermost block
var scopeGlobalReaders = map[string]string{
	"lib/query.(*ReferenceScope).Global": "the accessor of the outermost (session-global) block",
	"lib/query.loadObjectFromStdin":      "the STDIN table is a session-global temporary table: it is cached in and read from the outermost block",
}

func ruleScp1(c *Ctx) {
	start := len(c.Obs)
	type grp struct {
		fn    *ssa.Function
		first *scpElemAccess
		n     int
	}
	groups := map[string]*grp{}
	var order []string
	add := func(fn *ssa.Function, a *scpElemAccess, tag string) {
		key := c.KeyAt(fn, tag)
		g := groups[key]
		if g == nil {
			g = &grp{fn: fn, first: a}
			groups[key] = g
			order = append(order, key)
		}
		g.n++
	}
	loopsOf := map[*ssa.Function][]*core.Loop{}
	for _, fn := range c.P.SrcFuncs() {
		for _, b := range fn.Blocks {
			for _, in := range b.Instrs {
				if a := scpDirectAccess(in); a != nil {
					tag := a.desc
					if a.phi != nil {
						tag = fmt.Sprintf("%s (loop at block %s)", a.desc, a.phi.Block().Comment)
					}
					add(fn, a, tag)
					continue
				}
				if call, ok := in.(*ssa.Call); ok {
					if f := core.StaticCallee(call); f != nil {
						if s := scpAccessorSummary(f); s != nil {
							add(fn, &scpElemAccess{kind: s.kind, class: s.class, at: call, via: f, desc: s.desc}, s.desc+" via "+f.Name()+"()")
						}
					}
				}
			}
		}
	}
	sort.Strings(order)
	for _, key := range order {
		g := groups[key]
		a, fn := g.first, g.fn
		c.Touch(fn)
		c.Sites += g.n
		name := c.P.Name(fn)
		pos := c.Pos(a.at)
		switch a.class {
		case scpIdxZero:
			c.Ok(key, pos, fmt.Sprintf("%d access(es) to the innermost %s scope", g.n, a.kind))
		case scpIdxLast:
			if why, ok := scopeGlobalReaders[name]; ok {
				c.Ok(key, pos, "outermost scope, allowed: "+why)
			} else {
				c.Bad(key, pos, fmt.Sprintf("%s reaches for the OUTERMOST %s scope (%s): a declaration or lookup made here bypasses the enclosing blocks — variables declared in a block/function body leak to the whole session, or an inner declaration is not seen. Only %s may do that", name, a.kind, a.desc, strings.Join(scpSortedKeys(scopeGlobalReaders), ", ")))
			}
		case scpIdxOther:
			c.Bad(key, pos, fmt.Sprintf("%s indexes the scope chain with %s: scope elements must be addressed as [0] (innermost) or visited from 0 upwards, so that the innermost declaration shadows the outer ones", name, a.desc))
		case scpIdxAsc:
			// owner of the loop: the function that holds the induction variable
			lfn := a.phi.Parent()
			if _, ok := loopsOf[lfn]; !ok {
				loopsOf[lfn] = core.NaturalLoops(lfn)
			}
			loop := core.InnermostLoop(loopsOf[lfn], a.phi.Block())
			if loop == nil || loop.Header != a.phi.Block() {
				c.Unknown(key, pos, "induction variable is not at the head of a natural loop")
				continue
			}
			lname := c.P.Name(lfn)
			if why, ok := scopeVisitAll[lname]; ok {
				if bad := scpHitExit(loop, a, lfn); bad != nil {
					c.Bad(key, pos, fmt.Sprintf("%s is registered as a visit-all loop (%s) but leaves the loop early at %s", lname, why, c.Pos(bad)))
					continue
				}
				if msg := scpAccumulatorKeepsInner(c, lfn); msg != "" {
					c.Bad(key, pos, msg)
					continue
				}
				c.Ok(key, pos, "ascending from the innermost scope; visit-all: "+why)
				continue
			}
			if ex := scpHitExit(loop, a, lfn); ex != nil {
				c.Ok(key, pos, fmt.Sprintf("ascending from the innermost scope; leaves the loop at %s on a condition computed from the element just visited (first hit wins)", c.Pos(ex)))
			} else {
				c.Bad(key, pos, fmt.Sprintf("%s visits the scope chain inner→outer but never leaves the loop on a condition computed from the visited element: after a hit in the inner scope the outer scopes are still processed (an assignment/disposal would also hit the shadowed outer declaration, a lookup would return the outermost one). Visit-all loops are only: %s", lname, strings.Join(scpSortedKeys(scopeVisitAll), ", ")))
			}
		}
	}
	ruleScp1Chain(c)
	c.negControls(start, "okScopeLookupViaCell", "okScopeDeclareInnermost")
}

func scpSortedKeys(m map[string]string) []string {
	var out []string
	for k := range m {
		out = append(out, strings.TrimPrefix(k, "lib/query."))
	}
	sort.Strings(out)
	return out
}

// scpHitExit returns the If instruction of an exit edge of the loop (not from the
// header) whose condition is computed from the element access a; nil if none.
func scpHitExit(loop *core.Loop, a *scpElemAccess, fn *ssa.Function) ssa.Instruction {
	taint := map[ssa.Value]bool{}
	var work []ssa.Value
	push := func(v ssa.Value) {
		if v != nil && !taint[v] {
			taint[v] = true
			work = append(work, v)
		}
	}
	if v, ok := a.at.(ssa.Value); ok && a.at.Parent() == fn {
		push(v)
	} else {
		// the access sits in a closure of the loop's function: whatever the
		// closure yields is computed from the element
		for cl := a.at.Parent(); cl != nil; cl = cl.Parent() {
			if cl.Parent() != fn {
				continue
			}
			for _, b := range fn.Blocks {
				for _, in := range b.Instrs {
					if mc, ok := in.(*ssa.MakeClosure); ok && mc.Fn == cl {
						push(mc)
					}
				}
			}
		}
	}
	for len(work) > 0 {
		v := work[len(work)-1]
		work = work[:len(work)-1]
		refs := v.Referrers()
		if refs == nil {
			continue
		}
		for _, r := range *refs {
			if r.Parent() != fn || !loop.Blocks[r.Block()] {
				continue
			}
			switch x := r.(type) {
			case *ssa.Store:
				if x.Val == v {
					if al, ok := x.Addr.(*ssa.Alloc); ok {
						push(al) // the copy of the element (for _, b := range …): its fields and loads
					}
				}
			case ssa.Value:
				push(x)
			}
		}
	}
	for _, e := range loop.ExitEdges(false) {
		last := e[0].Instrs[len(e[0].Instrs)-1]
		if iff, ok := last.(*ssa.If); ok && taint[iff.Cond] {
			return iff
		}
	}
	return nil
}

// scpAccumulatorKeepsInner: in the Range callbacks of a visit-all collector every
// Store into the accumulator is guarded by !Exists on it (the entry of an inner
// scope, stored first, is not overwritten by an outer one). "" when fine.
func scpAccumulatorKeepsInner(c *Ctx, fn *ssa.Function) string {
	for _, af := range fn.AnonFuncs {
		for _, call := range core.Calls(af) {
			name := c.P.CalleeName(call)
			if !strings.HasPrefix(name, "lib/query.(") || !strings.HasSuffix(name, ").Store") {
				continue
			}
			recv := call.Common().Args[0]
			if _, isFree := core.Addr(recv).(*ssa.FreeVar); !isFree {
				continue // not the captured accumulator
			}
			guarded := false
			for _, f := range core.FactsAt(call.(ssa.Instruction).Block()) {
				ex, ok := f.Cond.(*ssa.Call)
				if !ok || !f.Neg {
					continue
				}
				if n := c.P.CalleeName(ex); strings.HasSuffix(n, ").Exists") && core.SameCell(ex.Call.Args[0], recv) {
					guarded = true
				}
			}
			if !guarded {
				return fmt.Sprintf("%s stores into its accumulator at %s without a dominating !Exists test: the entry of an outer scope overwrites the shadowing inner one", c.P.Name(af), c.Pos(call.(ssa.Instruction)))
			}
		}
	}
	return ""
}

// ruleScp1Chain checks the construction of the child chains.
func ruleScp1Chain(c *Ctx) {
	m := scopeModelOf(c.P)
	for _, k := range scopeKinds {
		var fns []*ssa.Function
		for f := range m.baseCreators[k] {
			fns = append(fns, f)
		}
		sortFuncs(c.P, fns)
		n := 0
		for _, fn := range fns {
			// only creators that extend a parent chain (receiver *ReferenceScope)
			if len(fn.Params) == 0 || !scpIsPtrTo(fn.Params[0].Type(), scpTRefScope) || fn.Signature.Recv() == nil {
				continue
			}
			n++
			c.Touch(fn)
			key := c.KeyAt(fn, "chain construction of ."+k.field())
			if msg := scpCheckChain(c, m, fn, k); msg != "" {
				c.Bad(key, c.FnPos(fn), msg)
			} else {
				c.Ok(key, c.FnPos(fn), fmt.Sprintf("result.%s is a fresh slice of len(parent)+1 with the pool scope at [0] and parent[i] at [i+1]", k.field()))
			}
		}
		if n == 0 {
			c.Unknown("anchor:child-chain-creator:"+k.String(), "-", "cannot-analyse: no method of *ReferenceScope obtains a "+k.String()+" scope from the pool")
		}
	}
}

func scpCheckChain(c *Ctx, m *scopeModel, fn *ssa.Function, k scopeKind) string {
	recv := fn.Params[0]
	// the slice stored into result.<field>
	var chain ssa.Value
	for _, b := range fn.Blocks {
		for _, in := range b.Instrs {
			st, ok := in.(*ssa.Store)
			if !ok {
				continue
			}
			fa, ok := st.Addr.(*ssa.FieldAddr)
			if !ok || core.FieldOwner(fa) != scpTRefScope+"."+k.field() {
				continue
			}
			if _, isNew := fa.X.(*ssa.Alloc); !isNew {
				continue
			}
			if chain != nil && chain != st.Val {
				return "the result's ." + k.field() + " is assigned more than once"
			}
			chain = st.Val
		}
	}
	if chain == nil {
		return "no store of the result's ." + k.field() + " found"
	}
	isGetter := func(v ssa.Value) bool {
		call, ok := v.(*ssa.Call)
		return ok && m.getters[k][core.StaticCallee(call)]
	}
	switch x := chain.(type) {
	case *ssa.MakeSlice:
		// len == len(parent)+1
		lb, lo := core.LinearIndex(x.Len)
		if !scpIsLenOfSlice(lb, recv, k) || lo != 1 {
			return "the new chain is not allocated with len(parent." + k.field() + ")+1 elements"
		}
		fresh, copied := false, false
		for _, r := range *x.Referrers() {
			// copy(chain[1:], parent.<field>): parent element i lands at i+1
			if sl, ok := r.(*ssa.Slice); ok && sl.X == ssa.Value(x) {
				for _, rr := range *sl.Referrers() {
					call, ok := rr.(*ssa.Call)
					if !ok {
						continue
					}
					bi, ok := call.Call.Value.(*ssa.Builtin)
					if !ok || bi.Name() != "copy" || len(call.Call.Args) != 2 || call.Call.Args[0] != ssa.Value(sl) {
						continue
					}
					src, kk, isChain := scpSliceLoad(call.Call.Args[1])
					if !isChain || kk != k || src != ssa.Value(recv) {
						return fmt.Sprintf("the copy at %s fills the chain from something other than the parent's whole chain", c.Pos(call))
					}
					low, lowOK := int64(0), sl.Low == nil
					if sl.Low != nil {
						low, lowOK = core.ConstInt(sl.Low)
					}
					if !lowOK || low != 1 || sl.High != nil || sl.Max != nil {
						return fmt.Sprintf("the parent chain is copied to chain[%d:] (%s), not to chain[1:]: parent element i must land at position i+1, behind the fresh scope", low, c.Pos(call))
					}
					copied = true
				}
				continue
			}
			ia, ok := r.(*ssa.IndexAddr)
			if !ok {
				continue
			}
			for _, rr := range *ia.Referrers() {
				st, ok := rr.(*ssa.Store)
				if !ok || st.Addr != ia {
					continue
				}
				db, do := core.LinearIndex(ia.Index)
				if isGetter(st.Val) {
					if db != nil || do != 0 {
						return fmt.Sprintf("the fresh pool scope is stored at an index other than 0 (%s): Declare*/lookups, which use element 0, would hit a parent's scope", c.Pos(st))
					}
					fresh = true
					continue
				}
				// copy of a parent element
				srcs := scpTraceElem(st.Val, 0)
				if len(srcs) != 1 || srcs[0].root != recv || srcs[0].kind != k {
					return fmt.Sprintf("the store at %s puts something other than a parent element or the pool scope into the chain", c.Pos(st))
				}
				if srcs[0].class != scpIdxAsc {
					return fmt.Sprintf("the parent chain is not copied in ascending order from index 0 (%s)", srcs[0].desc)
				}
				sb, so := core.LinearIndex(srcs[0].at.(*ssa.IndexAddr).Index)
				if db != sb || do-so != 1 {
					return fmt.Sprintf("parent element i is not copied to position i+1 (%s): the chain order inner→outer is broken", c.Pos(st))
				}
				copied = true
			}
		}
		if !fresh {
			return "no pool scope is stored at index 0 of the new chain"
		}
		if !copied {
			return "the parent's chain is not copied behind the fresh scope"
		}
		return ""
	case *ssa.Call:
		// append([]T{Get()}, parent...)
		if b, ok := x.Call.Value.(*ssa.Builtin); ok && b.Name() == "append" && len(x.Call.Args) == 2 {
			r, kk, ok := scpSliceLoad(x.Call.Args[1])
			if !ok || kk != k || r != recv {
				return "the chain is appended with something other than the parent's whole chain"
			}
			sl, ok := x.Call.Args[0].(*ssa.Slice)
			if !ok {
				return "unrecognised head of the appended chain"
			}
			arr, ok := sl.X.(*ssa.Alloc)
			if !ok {
				return "the head of the chain is not a fresh literal"
			}
			at, ok := arr.Type().(*types.Pointer).Elem().Underlying().(*types.Array)
			if !ok || at.Len() != 1 {
				return "the head of the chain does not consist of exactly one fresh scope"
			}
			for _, r := range *arr.Referrers() {
				if ia, ok := r.(*ssa.IndexAddr); ok {
					for _, rr := range *ia.Referrers() {
						if st, ok := rr.(*ssa.Store); ok && st.Addr == ia && isGetter(st.Val) {
							return ""
						}
					}
				}
			}
			return "the head element of the chain is not a pool scope"
		}
	}
	return "unrecognised construction of the chain (expected make+indexed copies or append([]T{fresh}, parent...))"
}

// ---------------------------------------------------------------------------
// Scope model: getters / putters / creators / releasers derived from the pools

type scopeModel struct {
	p            *core.Prog
	getters      [2]map[*ssa.Function]bool
	putters      [2]map[*ssa.Function]bool
	baseCreators [2]map[*ssa.Function]bool // obtain a scope from the getter themselves
	creators     [2]map[*ssa.Function]bool // … or wrap such a function
	releasers    [2]map[*ssa.Function]int  // fn → parameter index of the released handle
	baseRel      [2]map[*ssa.Function]bool
}

var scopeModels = map[*core.Prog]*scopeModel{}

func scpElemKindOf(t types.Type) (scopeKind, bool) {
	switch core.NamedOf(t) {
	case kBlock.elem():
		if _, isPtr := t.(*types.Pointer); !isPtr {
			return kBlock, true
		}
	case kNode.elem():
		if _, isPtr := t.(*types.Pointer); !isPtr {
			return kNode, true
		}
	}
	return 0, false
}

// scpHandleRoot strips loads and field selections: proc.ReferenceScope → proc.
func scpHandleRoot(v ssa.Value) ssa.Value {
	for i := 0; i < 8; i++ {
		switch x := v.(type) {
		case *ssa.UnOp:
			if x.Op != token.MUL {
				return v
			}
			if fa, ok := x.X.(*ssa.FieldAddr); ok && scpIsHandleType(x.Type()) {
				v = fa.X
				continue
			}
			r := scpResolveCell(v)
			if r == v {
				return v
			}
			v = r
		default:
			return v
		}
	}
	return v
}

func scopeModelOf(p *core.Prog) *scopeModel {
	if m, ok := scopeModels[p]; ok {
		return m
	}
	m := &scopeModel{p: p}
	for _, k := range scopeKinds {
		m.getters[k] = map[*ssa.Function]bool{}
		m.putters[k] = map[*ssa.Function]bool{}
		m.baseCreators[k] = map[*ssa.Function]bool{}
		m.creators[k] = map[*ssa.Function]bool{}
		m.releasers[k] = map[*ssa.Function]int{}
		m.baseRel[k] = map[*ssa.Function]bool{}
	}
	fns := p.FuncsIn(true, "lib/query")
	callsNamed := func(fn *ssa.Function, name string) bool {
		return len(p.CallsNamed(fn, name)) > 0
	}
	for _, fn := range fns {
		if fn.Signature.Results().Len() == 1 {
			if k, ok := scpElemKindOf(fn.Signature.Results().At(0).Type()); ok && callsNamed(fn, "(*sync.Pool).Get") {
				m.getters[k][fn] = true
			}
		}
		if callsNamed(fn, "(*sync.Pool).Put") {
			for _, prm := range fn.Params {
				if k, ok := scpElemKindOf(prm.Type()); ok {
					m.putters[k][fn] = true
				}
			}
		}
	}
	// helpers that hand their scope parameter to a putter are putters too
	for _, k := range scopeKinds {
		for changed := true; changed; {
			changed = false
			for _, fn := range fns {
				if m.putters[k][fn] {
					continue
				}
				for _, call := range core.Calls(fn) {
					g := core.StaticCallee(call)
					if g == nil || !m.putters[k][g] {
						continue
					}
					for _, a := range call.Common().Args {
						if prm, ok := scpResolveCell(a).(*ssa.Parameter); ok && prm.Parent() == fn {
							if kk, ok := scpElemKindOf(prm.Type()); ok && kk == k {
								m.putters[k][fn] = true
								changed = true
							}
						}
					}
				}
			}
		}
	}
	// carriers: functions that store parameter i into a field of the object they return
	carries := func(g *ssa.Function, i int) bool {
		if g == nil || g.Blocks == nil || i >= len(g.Params) {
			return false
		}
		for _, r := range core.Returns(g) {
			if len(r.Results) == 0 {
				continue
			}
			for _, o := range core.Origins(r.Results[0], false) {
				al, ok := o.(*ssa.Alloc)
				if !ok {
					continue
				}
				for _, ref := range *al.Referrers() {
					switch fa := ref.(type) {
					case *ssa.FieldAddr:
						for _, rr := range *fa.Referrers() {
							if st, ok := rr.(*ssa.Store); ok && st.Addr == fa {
								for _, so := range core.Origins(st.Val, true) {
									if so == g.Params[i] {
										return true
									}
									// []BlockScope{scope}
									if sl, ok := so.(*ssa.Alloc); ok {
										for _, r3 := range *sl.Referrers() {
											if ia, ok := r3.(*ssa.IndexAddr); ok {
												for _, r4 := range *ia.Referrers() {
													if s2, ok := r4.(*ssa.Store); ok && s2.Val == g.Params[i] {
														return true
													}
												}
											}
										}
									}
								}
							}
						}
					}
				}
			}
		}
		return false
	}
	for _, k := range scopeKinds {
		isSource := func(v ssa.Value) bool {
			for _, o := range core.Origins(v, false) {
				if call, ok := o.(*ssa.Call); ok {
					if f := core.StaticCallee(call); f != nil && (m.getters[k][f] || m.creators[k][f]) {
						return true
					}
				}
			}
			return false
		}
		for changed := true; changed; {
			changed = false
			for _, fn := range fns {
				if m.creators[k][fn] || fn.Signature.Results().Len() != 1 || !scpIsHandleType(fn.Signature.Results().At(0).Type()) {
					continue
				}
				is, base := false, false
				directGet := false
				for _, call := range core.Calls(fn) {
					if f := core.StaticCallee(call); f != nil && m.getters[k][f] {
						directGet = true
					}
				}
				for _, r := range core.Returns(fn) {
					for _, o := range core.Origins(r.Results[0], false) {
						switch x := o.(type) {
						case *ssa.Alloc:
							if directGet {
								is, base = true, true
							}
							for _, ref := range *x.Referrers() {
								if fa, ok := ref.(*ssa.FieldAddr); ok {
									for _, rr := range *fa.Referrers() {
										if st, ok := rr.(*ssa.Store); ok && st.Addr == fa && scpIsHandleType(st.Val.Type()) && isSource(st.Val) {
											is = true
										}
									}
								}
							}
						case *ssa.Call:
							g := core.StaticCallee(x)
							if g == nil {
								continue
							}
							if m.creators[k][g] {
								is = true
							}
							for i, a := range x.Call.Args {
								if isSource(a) && carries(g, i) {
									is = true
								}
							}
						}
					}
				}
				if is {
					m.creators[k][fn] = true
					if base {
						m.baseCreators[k][fn] = true
					}
					changed = true
				}
			}
		}
		// releasers
		for _, fn := range fns {
			direct := false
			for _, call := range core.Calls(fn) {
				if f := core.StaticCallee(call); f != nil && m.putters[k][f] {
					direct = true
				}
			}
			if !direct || m.putters[k][fn] {
				continue
			}
			for i, prm := range fn.Params {
				if scpIsPtrTo(prm.Type(), scpTRefScope) {
					m.releasers[k][fn] = i
					m.baseRel[k][fn] = true
					break
				}
			}
		}
		for changed := true; changed; {
			changed = false
			for _, fn := range fns {
				if _, ok := m.releasers[k][fn]; ok {
					continue
				}
				for _, call := range core.Calls(fn) {
					g := core.StaticCallee(call)
					if g == nil {
						continue
					}
					j, ok := m.releasers[k][g]
					if !ok || j >= len(call.Common().Args) {
						continue
					}
					root := scpHandleRoot(call.Common().Args[j])
					for i, prm := range fn.Params {
						if root == prm && scpIsHandleType(prm.Type()) {
							m.releasers[k][fn] = i
							changed = true
						}
					}
				}
			}
		}
	}
	scopeModels[p] = m
	return m
}

func (m *scopeModel) names(set map[*ssa.Function]bool) string {
	var out []string
	for f := range set {
		if m.p.IsControl(f) {
			continue
		}
		out = append(out, strings.TrimPrefix(m.p.Name(f), "lib/query."))
	}
	sort.Strings(out)
	return strings.Join(out, ", ")
}

func (m *scopeModel) relNames(k scopeKind) string {
	set := map[*ssa.Function]bool{}
	for f := range m.releasers[k] {
		set[f] = true
	}
	return m.names(set)
}

// ---------------------------------------------------------------------------
// R-SCP-6 recycled scopes are empty

func ruleScp6(c *Ctx) {
	m := scopeModelOf(c.P)
	for _, k := range scopeKinds {
		var real int
		var fns []*ssa.Function
		for f := range m.putters[k] {
			fns = append(fns, f)
			if !c.P.IsControl(f) {
				real++
			}
		}
		if real == 0 {
			c.Unknown("anchor:putter:"+k.String(), "-", "cannot-analyse: no function of lib/query with a "+k.elem()+" parameter calls (*sync.Pool).Put")
		}
		sortFuncs(c.P, fns)
		var clearFns = map[*ssa.Function]bool{}
		scopeParam := func(fn *ssa.Function) *ssa.Parameter {
			for _, p := range fn.Params {
				if kk, ok := scpElemKindOf(p.Type()); ok && kk == k {
					return p
				}
			}
			return nil
		}
		isClearOf := func(prm *ssa.Parameter) func(ssa.Instruction) bool {
			return func(in ssa.Instruction) bool {
				call, ok := in.(*ssa.Call)
				if !ok || len(call.Call.Args) == 0 {
					return false
				}
				f := core.StaticCallee(call)
				if f == nil || f.Name() != "Clear" || f.Signature.Recv() == nil {
					return false
				}
				if kk, ok := scpElemKindOf(f.Signature.Recv().Type()); !ok || kk != k {
					return false
				}
				if scpResolveCell(call.Call.Args[0]) != ssa.Value(prm) {
					return false
				}
				clearFns[f] = true
				return true
			}
		}
		// dirtySite(fn): a Put (or a call of a putter that does not clear by itself)
		// that fn can reach without clearing its scope parameter; nil if fn is clearing.
		memo := map[*ssa.Function]ssa.Instruction{}
		state := map[*ssa.Function]int{}
		var dirtySite func(fn *ssa.Function) ssa.Instruction
		dirtySite = func(fn *ssa.Function) ssa.Instruction {
			if state[fn] == 2 {
				return memo[fn]
			}
			if state[fn] == 1 {
				return nil
			}
			state[fn] = 1
			prm := scopeParam(fn)
			var res ssa.Instruction
			for _, call := range core.Calls(fn) {
				in := call.(ssa.Instruction)
				sink := false
				if c.P.CalleeName(call) == "(*sync.Pool).Put" {
					args := call.Common().Args
					if kk, ok := scpElemKindOf(core.Strip(args[len(args)-1]).Type()); ok && kk == k {
						sink = true
					}
				} else if g := core.StaticCallee(call); g != nil && m.putters[k][g] && dirtySite(g) != nil {
					sink = true
				}
				if sink && res == nil && (prm == nil || core.ReachesAvoiding(fn, in, isClearOf(prm))) {
					res = in
				}
			}
			state[fn] = 2
			memo[fn] = res
			return res
		}
		calledByPutter := map[*ssa.Function]bool{}
		for _, fn := range fns {
			for _, call := range core.Calls(fn) {
				if g := core.StaticCallee(call); g != nil && m.putters[k][g] && g != fn {
					calledByPutter[g] = true
				}
			}
		}
		for _, fn := range fns {
			c.Touch(fn)
			prm := scopeParam(fn)
			// the value handed on is the parameter
			for _, put := range c.P.CallsNamed(fn, "(*sync.Pool).Put") {
				args := put.Common().Args
				if scpResolveCell(core.Strip(args[len(args)-1])) != ssa.Value(prm) {
					c.Bad(c.KeyAt(fn, "puts its own parameter"), c.Pos(put.(ssa.Instruction)), "the value handed to the pool is not the scope parameter of the putter")
				}
			}
			key := c.KeyAt(fn, "Clear before Put of the "+k.String()+" scope")
			site := dirtySite(fn)
			if calledByPutter[fn] {
				// an inner helper: what matters is that every entry putter clears first
				if site == nil {
					c.Ok(key, c.FnPos(fn), "helper of a putter; clears the scope itself before the Put")
				} else {
					c.Ok(key, c.FnPos(fn), "helper of a putter; the callers are checked for clearing the scope first")
				}
				continue
			}
			if site != nil {
				c.Bad(key, c.Pos(site), fmt.Sprintf("%s can reach the hand-over to the pool at %s without calling Clear on the scope: the next CreateChild/CreateNode would start with the variables, cursors, tables, functions or aliases of a finished block", c.P.Name(fn), c.Pos(site)))
			} else {
				c.Ok(key, c.FnPos(fn), "every path to the pool passes "+k.elem()+".Clear(scope)")
			}
		}
		// the real Clear method must exist even if no putter referenced it
		if t := c.P.Type("lib/query", strings.TrimPrefix(k.elem(), "lib/query.")); t != nil {
			if f := c.Fn("lib/query.(" + strings.TrimPrefix(k.elem(), "lib/query.") + ").Clear"); f != nil {
				clearFns[f] = true
			}
		}
		var cfs []*ssa.Function
		for f := range clearFns {
			cfs = append(cfs, f)
		}
		sortFuncs(c.P, cfs)
		for _, cf := range cfs {
			scpClearCoversFields(c, cf, k)
		}
	}
}

// scpClearCoversFields: one obligation per struct field of the scope type.
func scpClearCoversFields(c *Ctx, cf *ssa.Function, k scopeKind) {
	c.Touch(cf)
	st, ok := cf.Signature.Recv().Type().Underlying().(*types.Struct)
	if !ok || len(cf.Params) == 0 {
		c.Unknown(c.KeyAt(cf, "fields"), c.FnPos(cf), "receiver is not a struct value")
		return
	}
	recv := cf.Params[0]
	for i := 0; i < st.NumFields(); i++ {
		fname := st.Field(i).Name()
		key := c.KeyAt(cf, "empties field "+fname)
		var hit ssa.CallInstruction
		empties := false
		for _, call := range core.Calls(cf) {
			args := call.Common().Args
			if len(args) == 0 {
				continue
			}
			// receiver is <recv>.<field> (possibly the embedded *SyncMap of it)
			found := false
			isRecv := func(b ssa.Value) bool {
				if b == recv {
					return true
				}
				if al, ok := b.(*ssa.Alloc); ok {
					// the spill cell of the by-value receiver
					n, good := 0, true
					for _, r := range *al.Referrers() {
						if st, ok := r.(*ssa.Store); ok && st.Addr == al {
							n++
							good = good && st.Val == recv
						}
					}
					return n == 1 && good
				}
				return false
			}
			v := args[0]
			for d := 0; d < 6 && v != nil && !found; d++ {
				switch x := v.(type) {
				case *ssa.Field:
					if isRecv(x.X) {
						found = x.Field == i
						v = nil
					} else {
						v = x.X
					}
				case *ssa.FieldAddr:
					if isRecv(x.X) {
						found = x.Field == i
						v = nil
					} else {
						v = x.X
					}
				case *ssa.UnOp:
					v = x.X
				default:
					v = nil
				}
			}
			if !found {
				continue
			}
			hit = call
			if f := core.StaticCallee(call); f != nil && scpReachesMapDelete(c.P, f) {
				empties = true
			}
		}
		switch {
		case hit == nil:
			c.Bad(key, c.FnPos(cf), fmt.Sprintf("%s does not touch field %s: a recycled %s scope keeps the %s of the block that released it", c.P.Name(cf), fname, k, fname))
		case !empties:
			c.Bad(key, c.Pos(hit.(ssa.Instruction)), fmt.Sprintf("the method called on field %s reaches no map delete (builtin delete, (*sync.Map).Delete/Clear/Range+Delete): the field is not emptied", fname))
		default:
			c.Ok(key, c.Pos(hit.(ssa.Instruction)), "calls "+c.P.CalleeName(hit)+", which deletes the entries")
		}
	}
}

func scpReachesMapDelete(p *core.Prog, f *ssa.Function) bool {
	for g := range p.ReachSet(f) {
		if g.Blocks == nil {
			continue
		}
		for _, call := range core.Calls(g) {
			switch p.CalleeName(call) {
			case "builtin:delete", "builtin:clear", "(*sync.Map).Delete", "(*sync.Map).Clear":
				return true
			}
		}
	}
	return false
}

// ---------------------------------------------------------------------------
// Handles: one creator call and everything that aliases it inside the function

type scpAliasClass int

const (
	scpAliasSame    scpAliasClass = iota + 1 // the handle itself (phi, cell, proc.ReferenceScope, createScope family)
	scpAliasDerived                          // a new handle of the same kind built on top of it (child of the handle)
)

type scpHandleEvent struct {
	in       ssa.Instruction
	deferred bool
	what     string
}

type scpHandleInfo struct {
	kind     scopeKind
	create   *ssa.Call
	fn       *ssa.Function
	alias    map[ssa.Value]scpAliasClass
	cells    map[*ssa.Alloc]bool
	releases []scpHandleEvent
	uses     []scpHandleEvent
	unknown  []scpHandleEvent
}

// closureReleases: does closure fn release (kind k) the handle captured through
// free variable #idx? Also reports whether it uses it in any other way.
func (m *scopeModel) closureReleases(cl *ssa.Function, idx int, k scopeKind) (releases bool) {
	if cl == nil || idx >= len(cl.FreeVars) {
		return false
	}
	fv := cl.FreeVars[idx]
	for _, r := range *fv.Referrers() {
		u, ok := r.(*ssa.UnOp)
		if !ok || u.Op != token.MUL {
			continue
		}
		// the loaded handle and proc.ReferenceScope loads of it
		vals := []ssa.Value{u}
		for _, rr := range *u.Referrers() {
			if fa, ok := rr.(*ssa.FieldAddr); ok && fa.X == u {
				for _, r3 := range *fa.Referrers() {
					if l, ok := r3.(*ssa.UnOp); ok && l.Op == token.MUL && scpIsHandleType(l.Type()) {
						vals = append(vals, l)
					}
				}
			}
		}
		for _, v := range vals {
			for _, rr := range *v.Referrers() {
				if call, ok := rr.(ssa.CallInstruction); ok {
					if g := core.StaticCallee(call); g != nil {
						if j, ok := m.releasers[k][g]; ok && j < len(call.Common().Args) && call.Common().Args[j] == v {
							return true
						}
					}
				}
			}
		}
	}
	return false
}

func (m *scopeModel) analyseHandle(create *ssa.Call, k scopeKind) *scpHandleInfo {
	h := &scpHandleInfo{kind: k, create: create, fn: create.Parent(), alias: map[ssa.Value]scpAliasClass{}, cells: map[*ssa.Alloc]bool{}}
	var work []ssa.Value
	push := func(v ssa.Value, cl scpAliasClass) {
		if old, ok := h.alias[v]; ok && old <= cl {
			return
		}
		h.alias[v] = cl
		work = append(work, v)
	}
	push(create, scpAliasSame)
	type pending struct {
		in ssa.Instruction
		v  ssa.Value
	}
	var cands []pending
	for len(work) > 0 {
		v := work[len(work)-1]
		work = work[:len(work)-1]
		cl := h.alias[v]
		refs := v.Referrers()
		if refs == nil {
			continue
		}
		for _, r := range *refs {
			switch x := r.(type) {
			case *ssa.DebugRef:
			case *ssa.Phi:
				push(x, cl)
			case *ssa.Store:
				if x.Val != v {
					continue
				}
				if al, ok := x.Addr.(*ssa.Alloc); ok {
					h.cells[al] = true
					for _, rr := range *al.Referrers() {
						if u, ok := rr.(*ssa.UnOp); ok && u.Op == token.MUL {
							push(u, cl)
						}
					}
					continue
				}
				// stored into the handle-typed field of a handle object built in place
				// (&Processor{…, ReferenceScope: v}): the object is the handle, as the result
				// of the constructor that contains this literal would be
				if fa, ok := x.Addr.(*ssa.FieldAddr); ok && scpIsHandleType(x.Val.Type()) {
					if al, ok := fa.X.(*ssa.Alloc); ok && al.Parent() == h.fn && scpIsHandleType(al.Type()) {
						push(al, cl)
						continue
					}
				}
				cands = append(cands, pending{x, v})
			case *ssa.FieldAddr:
				if x.X != v {
					continue
				}
				ft := x.Type().Underlying().(*types.Pointer).Elem()
				if scpIsHandleType(ft) {
					for _, rr := range *x.Referrers() {
						if u, ok := rr.(*ssa.UnOp); ok && u.Op == token.MUL {
							push(u, cl)
						}
					}
					continue
				}
				cands = append(cands, pending{x, v})
			case *ssa.Call:
				if scpIsHandleType(x.Type()) {
					if g := core.StaticCallee(x); g != nil && m.creators[k][g] {
						push(x, scpAliasDerived)
					} else {
						push(x, cl)
					}
				}
				cands = append(cands, pending{x, v})
			default:
				cands = append(cands, pending{r, v})
			}
		}
	}
	seen := map[ssa.Instruction]bool{}
	for _, pc := range cands {
		in, v := pc.in, pc.v
		if seen[in] {
			continue
		}
		cl := h.alias[v]
		switch x := in.(type) {
		case *ssa.BinOp:
			continue // comparison with nil
		case *ssa.FieldAddr:
			if scpIsPtrTo(v.Type(), scpTRefScope) && core.FieldName(x) == k.field() {
				seen[in] = true
				h.uses = append(h.uses, scpHandleEvent{in: in, what: "reads ." + k.field()})
			}
			continue // other fields (Tx, returnVal, Records …) are not part of the pooled scope
		case ssa.CallInstruction:
			seen[in] = true
			com := x.Common()
			if g := core.StaticCallee(x); g != nil {
				if j, ok := m.releasers[k][g]; ok && j < len(com.Args) {
					if acl, isAlias := h.alias[com.Args[j]]; isAlias && acl == scpAliasSame {
						_, isDefer := in.(*ssa.Defer)
						h.releases = append(h.releases, scpHandleEvent{in: in, deferred: isDefer, what: m.p.FnRef(g)})
						continue
					}
					if _, isAlias := h.alias[com.Args[j]]; isAlias {
						continue // release of a derived handle: that handle has its own record
					}
				}
			}
			_ = cl
			h.uses = append(h.uses, scpHandleEvent{in: in, what: "passes it to " + callDesc(m.p, x)})
		default:
			seen[in] = true
			h.uses = append(h.uses, scpHandleEvent{in: in, what: fmt.Sprintf("%T", in)})
		}
	}
	// closures capturing a cell that holds the handle
	var cellList []*ssa.Alloc
	for al := range h.cells {
		cellList = append(cellList, al)
	}
	sort.Slice(cellList, func(i, j int) bool {
		if cellList[i].Pos() != cellList[j].Pos() {
			return cellList[i].Pos() < cellList[j].Pos()
		}
		return cellList[i].Name() < cellList[j].Name()
	})
	for _, al := range cellList {
		for _, r := range *al.Referrers() {
			mc, ok := r.(*ssa.MakeClosure)
			if !ok {
				continue
			}
			cf, _ := mc.Fn.(*ssa.Function)
			idx := -1
			for i, b := range mc.Bindings {
				if b == al {
					idx = i
				}
			}
			rel := m.closureReleases(cf, idx, k)
			// how is the closure used?
			placed := false
			for _, rr := range *mc.Referrers() {
				switch y := rr.(type) {
				case *ssa.Defer:
					if y.Call.Value == mc {
						placed = true
						if rel {
							h.releases = append(h.releases, scpHandleEvent{in: y, deferred: true, what: "deferred closure " + cf.Name()})
						}
					}
				case *ssa.Call:
					if y.Call.Value == mc {
						placed = true
						if rel {
							h.releases = append(h.releases, scpHandleEvent{in: y, what: "closure " + cf.Name()})
						} else {
							h.uses = append(h.uses, scpHandleEvent{in: y, what: "runs closure " + cf.Name() + " that captures it"})
						}
					}
				}
			}
			if !placed {
				if rel {
					h.unknown = append(h.unknown, scpHandleEvent{in: mc, what: "a closure that releases the handle is neither called nor deferred directly"})
				} else {
					h.uses = append(h.uses, scpHandleEvent{in: mc, what: "captured by closure " + cf.Name()})
				}
			}
		}
	}
	return h
}

// check returns "" or a description of the first typestate violation.
func (h *scpHandleInfo) check(c *Ctx) (bad string, pos ssa.Instruction) {
	stop := func(in ssa.Instruction) bool { return in == ssa.Instruction(h.create) }
	for i, r1 := range h.releases {
		for j, r2 := range h.releases {
			if r1.deferred && r2.deferred && j < i {
				continue
			}
			switch {
			case !r1.deferred && !r2.deferred:
				if core.Reachable(r1.in, r2.in, stop) {
					if i == j {
						return fmt.Sprintf("the release at %s can execute again for the same scope (loop without re-creation)", c.Pos(r1.in)), r1.in
					}
					return fmt.Sprintf("released at %s and, on a path continuing from there, again at %s", c.Pos(r1.in), c.Pos(r2.in)), r2.in
				}
			case r1.deferred && r2.deferred:
				if i == j {
					if core.Reachable(r1.in, r1.in, stop) {
						return fmt.Sprintf("the deferred release at %s can be registered twice for the same scope", c.Pos(r1.in)), r1.in
					}
				} else if core.Reachable(r1.in, r2.in, stop) || core.Reachable(r2.in, r1.in, stop) {
					return fmt.Sprintf("two deferred releases (%s and %s) are registered on one path", c.Pos(r1.in), c.Pos(r2.in)), r2.in
				}
			case r1.deferred && !r2.deferred:
				if core.Reachable(r1.in, r2.in, stop) || core.Reachable(r2.in, r1.in, stop) {
					return fmt.Sprintf("released explicitly at %s and again by the deferred release registered at %s when the function returns", c.Pos(r2.in), c.Pos(r1.in)), r2.in
				}
			}
		}
	}
	for _, r := range h.releases {
		if r.deferred {
			continue
		}
		for _, u := range h.uses {
			if u.in == r.in {
				continue
			}
			if core.Reachable(r.in, u.in, stop) {
				return fmt.Sprintf("released at %s, then used at %s (%s)", c.Pos(r.in), c.Pos(u.in), u.what), u.in
			}
		}
	}
	return "", nil
}

func (m *scopeModel) handleCalls(fn *ssa.Function, k scopeKind) []*ssa.Call {
	var out []*ssa.Call
	for _, b := range fn.Blocks {
		for _, in := range b.Instrs {
			if call, ok := in.(*ssa.Call); ok {
				if g := core.StaticCallee(call); g != nil && m.creators[k][g] {
					out = append(out, call)
				}
			}
		}
	}
	return out
}

// scpReleaseOrigins: the creator calls (or other things) the released value comes from.
func scpReleaseOrigins(v ssa.Value) []ssa.Value {
	var out []ssa.Value
	seen := map[ssa.Value]bool{}
	var walk func(v ssa.Value, d int)
	walk = func(v ssa.Value, d int) {
		if v == nil || seen[v] || d > 10 {
			return
		}
		seen[v] = true
		for _, o := range core.Origins(v, false) {
			if u, ok := o.(*ssa.UnOp); ok && u.Op == token.MUL {
				if fa, ok := u.X.(*ssa.FieldAddr); ok && scpIsHandleType(u.Type()) && scpIsHandleType(fa.X.Type()) {
					walk(fa.X, d+1)
					continue
				}
			}
			// a handle written out as a literal (&Processor{…, ReferenceScope: x}): it stands
			// on the scope(s) stored into its handle-typed field(s) — what the constructor
			// (*Processor).NewChildProcessor contains, spelled in place
			if al, ok := o.(*ssa.Alloc); ok {
				if vals := scpLiteralHandles(al); len(vals) > 0 {
					for _, x := range vals {
						walk(x, d+1)
					}
					continue
				}
			}
			out = append(out, o)
		}
	}
	walk(v, 0)
	return out
}

// scpLiteralHandles: al is a handle object allocated in place (a composite literal
// or new(T) of Processor / ReferenceScope); the result is every value the function
// stores into a handle-typed field of it (in source order). Empty when al is not
// such an object or no such field is ever set.
func scpLiteralHandles(al *ssa.Alloc) []ssa.Value {
	if !scpIsHandleType(al.Type()) || al.Referrers() == nil {
		return nil
	}
	var out []ssa.Value
	for _, st := range scpLiteralHandleStores(al) {
		out = append(out, st.Val)
	}
	return out
}

func scpLiteralHandleStores(al *ssa.Alloc) []*ssa.Store {
	var out []*ssa.Store
	for _, r := range *al.Referrers() {
		fa, ok := r.(*ssa.FieldAddr)
		if !ok || fa.X != ssa.Value(al) || !scpIsHandleType(fa.Type().Underlying().(*types.Pointer).Elem()) {
			continue
		}
		for _, rr := range *fa.Referrers() {
			if st, ok := rr.(*ssa.Store); ok && st.Addr == ssa.Value(fa) {
				out = append(out, st)
			}
		}
	}
	sort.SliceStable(out, func(i, j int) bool { return out[i].Pos() < out[j].Pos() })
	return out
}

func ruleScp2(c *Ctx) {
	start := len(c.Obs)
	m := scopeModelOf(c.P)
	for _, k := range scopeKinds {
		// anchors derived from the pools
		for _, a := range []struct {
			what string
			set  map[*ssa.Function]bool
		}{{"getter", m.getters[k]}, {"putter", m.putters[k]}, {"creator", m.creators[k]}, {"releaser", m.baseRel[k]}} {
			real := 0
			for f := range a.set {
				if !c.P.IsControl(f) {
					real++
					c.Anchors[c.P.Name(f)] = true
				}
			}
			if real == 0 {
				c.Unknown("anchor:"+k.String()+"-scope-"+a.what, "-", fmt.Sprintf("cannot-analyse: no %s of pooled %s scopes found in lib/query (derived from the (*sync.Pool).Get/Put sites)", a.what, k))
			}
		}
	}
	for _, fn := range c.P.SrcFuncs() {
		for _, k := range scopeKinds {
			// (a) who may Put into the pools / call the putters
			for _, call := range core.Calls(fn) {
				in := call.(ssa.Instruction)
				if c.P.CalleeName(call) == "(*sync.Pool).Put" {
					args := call.Common().Args
					if kk, ok := scpElemKindOf(core.Strip(args[len(args)-1]).Type()); ok && kk == k {
						key := c.KeyAt(fn, "puts a "+k.String()+" scope into the pool")
						c.Check(m.putters[k][fn], key, c.Pos(in), "is a putter (scope parameter, R-SCP-6 checks Clear)", "a scope is handed to the pool outside the putters ("+m.names(m.putters[k])+"): this release is invisible to the typestate of its owner")
					}
				}
				g := core.StaticCallee(call)
				if g == nil {
					continue
				}
				if m.putters[k][g] {
					key := c.KeyAt(fn, "calls "+g.Name())
					c.Check(m.baseRel[k][fn] || m.putters[k][fn], key, c.Pos(in), "is a releaser method of *ReferenceScope (or a putter helper)", "the putter is called from a function that is not a release method of a scope handle: this release is invisible to the typestate of the owner")
					continue
				}
				// (b) ownership of every release
				j, isRel := m.releasers[k][g]
				if !isRel || j >= len(call.Common().Args) {
					continue
				}
				c.Sites++
				arg := call.Common().Args[j]
				if i, ok := m.releasers[k][fn]; ok && scpHandleRoot(arg) == ssa.Value(fn.Params[i]) {
					continue // release wrapper: its own callers are checked
				}
				n := 0
				for _, call2 := range core.Calls(fn) {
					if g2 := core.StaticCallee(call2); g2 == g {
						n++
						if call2 == call {
							break
						}
					}
				}
				key := c.KeyAt(fn, fmt.Sprintf("%s #%d releases a scope created here", g.Name(), n))
				bad := ""
				for _, o := range scpReleaseOrigins(arg) {
					oc, ok := o.(*ssa.Call)
					if ok {
						if f := core.StaticCallee(oc); f != nil && m.creators[k][f] {
							if oc.Parent() == fn || scpIsAncestor(oc.Parent(), fn) {
								continue
							}
						}
					}
					bad = valueLabel(o)
				}
				if bad != "" {
					c.Bad(key, c.Pos(in), fmt.Sprintf("%s releases a %s scope it did not create (%s): its creator releases it too or still uses it — the same maps would be handed out to two later scopes. A release must be applied to the result of %s in the same function", c.P.Name(fn), k, bad, m.names(m.creators[k])))
				} else {
					c.Ok(key, c.Pos(in), "the released handle is the result of a creator call in this function")
				}
			}
			// (c) typestate per creation site
			for i, hc := range m.handleCalls(fn, k) {
				c.Touch(fn)
				h := m.analyseHandle(hc, k)
				key := c.KeyAt(fn, fmt.Sprintf("%s scope #%d from %s", k, i+1, core.StaticCallee(hc).Name()))
				if len(h.unknown) > 0 {
					c.Unknown(key, c.Pos(h.unknown[0].in), h.unknown[0].what)
					continue
				}
				if len(h.releases) == 0 {
					c.Ok(key, c.Pos(hc), "never released in this function (handed on or left to the garbage collector: the pool refills itself)")
					continue
				}
				if bad, at := h.check(c); bad != "" {
					c.Bad(key, c.Pos(at), fmt.Sprintf("%s scope created at %s: %s. A scope that went back to the pool is handed to the next CreateChild/CreateNode: the two owners would share variables, cursors and tables", k, c.Pos(hc), bad))
				} else {
					c.Ok(key, c.Pos(hc), fmt.Sprintf("%d release site(s), at most one on every path; %d use(s), none reachable from a release", len(h.releases), len(h.uses)))
				}
			}
		}
	}
	c.negControls(start, "okScopeReleasePerBranch", "okScopeDeferredClosureRelease", "okScopeRecreatedInLoop", "okScopeFieldAfterRelease", "okBlockLiteralChild")
}

// scpCallers returns the call-graph edges into fn in a deterministic order
// (caller name, then position of the call site). Callers without a call site,
// synthetic wrappers and — for a function of the analysed repository — callers
// that live in the control overlay package are left out: a control must never
// influence the verdict (or the reported position) of a real function.
func scpCallers(c *Ctx, fn *ssa.Function, keepSynthetic bool) []*callgraph.Edge {
	var out []*callgraph.Edge
	for _, e := range c.P.Callers(fn) {
		if e == nil || e.Site == nil || e.Caller == nil || e.Caller.Func == nil {
			continue
		}
		cf := e.Caller.Func
		if cf.Synthetic != "" && !keepSynthetic {
			continue
		}
		if !c.P.IsControl(fn) && c.P.IsControl(cf) {
			continue
		}
		out = append(out, e)
	}
	sort.SliceStable(out, func(i, j int) bool {
		a, b := c.P.Name(out[i].Caller.Func), c.P.Name(out[j].Caller.Func)
		if a != b {
			return a < b
		}
		return out[i].Site.Pos() < out[j].Site.Pos()
	})
	return out
}

func scpIsAncestor(anc, fn *ssa.Function) bool {
	for f := fn.Parent(); f != nil; f = f.Parent() {
		if f == anc {
			return true
		}
	}
	return false
}

// ---------------------------------------------------------------------------
// R-SCP-3 loops clear per iteration

func ruleScp3(c *Ctx) {
	start := len(c.Obs)
	m := scopeModelOf(c.P)
	exec := c.Fn("lib/query.(*Processor).execute")
	if exec == nil {
		return
	}
	clearReach := func(f *ssa.Function) bool {
		if f.Name() != "Clear" || f.Signature.Recv() == nil {
			return false
		}
		kk, ok := scpElemKindOf(f.Signature.Recv().Type())
		return ok && kk == kBlock
	}
	for _, fn := range c.P.FuncsIn(true, "lib/query") {
		loops := core.NaturalLoops(fn)
		if len(loops) == 0 {
			continue
		}
		for _, hc := range m.handleCalls(fn, kBlock) {
			h := m.analyseHandle(hc, kBlock)
			// loops that run statements on the handle
			done := map[*core.Loop]bool{}
			for _, u := range h.uses {
				call, ok := u.in.(*ssa.Call)
				if !ok || !c.P.CallReaches(call, func(f *ssa.Function) bool { return f == exec }) {
					continue
				}
				loop := core.InnermostLoop(loops, call.Block())
				if loop == nil || done[loop] {
					continue
				}
				done[loop] = true
				c.Touch(fn)
				key := c.KeyAt(fn, fmt.Sprintf("loop %q running statements on the child scope from %s", loop.Header.Comment, core.StaticCallee(hc).Name()))
				if loop.Blocks[hc.Block()] {
					c.Ok(key, c.Pos(call), "the child scope is created inside the loop: every iteration gets a scope of its own")
					continue
				}
				isClearCall := func(in ssa.Instruction) bool {
					cl, ok := in.(*ssa.Call)
					if !ok || len(cl.Call.Args) == 0 {
						return false
					}
					if _, isAlias := h.alias[cl.Call.Args[0]]; !isAlias {
						return false
					}
					g := core.StaticCallee(cl)
					if g == nil {
						return false
					}
					if _, rel := m.releasers[kBlock][g]; rel {
						return false
					}
					// a method whose only business with the scope is to clear it
					return c.P.FnReaches(g, clearReach) && !c.P.FnReaches(g, func(f *ssa.Function) bool { return f == exec })
				}
				// walk from the loop head; the first use of the handle must be the clear call
				useAt := map[ssa.Instruction]string{}
				for _, uu := range h.uses {
					useAt[uu.in] = uu.what
				}
				var offender ssa.Instruction
				seen := map[*ssa.BasicBlock]bool{}
				var walk func(b *ssa.BasicBlock)
				walk = func(b *ssa.BasicBlock) {
					if seen[b] || !loop.Blocks[b] || offender != nil {
						return
					}
					seen[b] = true
					for _, in := range b.Instrs {
						if isClearCall(in) {
							return
						}
						if _, isUse := useAt[in]; isUse {
							offender = in
							return
						}
					}
					for _, s := range b.Succs {
						if s != loop.Header {
							walk(s)
						}
					}
				}
				walk(loop.Header)
				if offender != nil {
					c.Bad(key, c.Pos(offender), fmt.Sprintf("from the head of the loop at %s the child scope is used at %s (%s) before its current block is cleared: what one iteration declared (variables, cursors, temporary tables, functions) is still there in the next — a DECLARE in the body fails with 'redeclared' on the second pass, or a stale value is read", c.Pos(loop.Header.Instrs[0]), c.Pos(offender), useAt[offender]))
				} else {
					c.Ok(key, c.Pos(call), fmt.Sprintf("on every path from the loop head the first of the %d uses of the child scope is the call that clears its current block", len(useAt)))
				}
			}
		}
	}
	c.negControls(start, "okScopeLoopClear", "okScopeLoopFreshChild")
}

// ---------------------------------------------------------------------------
// R-SCP-4 user-defined functions run in their own child scope

func ruleScp4(c *Ctx) {
	m := scopeModelOf(c.P)
	udfBody := c.Fn("lib/query.(*UserDefinedFunction).execute")
	exec := c.Fn("lib/query.(*Processor).execute")
	if udfBody == nil || exec == nil {
		return
	}
	reachesBody := func(f *ssa.Function) bool { return f == udfBody }
	// entry points: functions that call the body directly
	var entries []*ssa.Function
	for _, fn := range c.P.FuncsIn(true, "lib/query") {
		if fn == udfBody {
			continue
		}
		for _, call := range core.Calls(fn) {
			if core.StaticCallee(call) == udfBody {
				entries = append(entries, fn)
				break
			}
		}
	}
	for _, fn := range c.P.FuncsIn(true) {
		if c.P.IsControl(fn) && strings.HasPrefix(fn.Name(), "CtlScopeUdf") {
			entries = append(entries, fn)
		}
	}
	sortFuncs(c.P, entries)
	for _, fn := range entries {
		c.Touch(fn)
		var parent *ssa.Parameter
		for _, p := range fn.Params {
			if scpIsPtrTo(p.Type(), scpTRefScope) {
				parent = p
			}
		}
		keyC := c.KeyAt(fn, "child scope created from the caller's scope")
		if parent == nil {
			c.Unknown(keyC, c.FnPos(fn), "no *ReferenceScope parameter")
			continue
		}
		var h *scpHandleInfo
		for _, hc := range m.handleCalls(fn, kBlock) {
			if len(hc.Call.Args) > 0 && hc.Call.Args[0] == parent {
				h = m.analyseHandle(hc, kBlock)
			}
		}
		if h == nil {
			c.Bad(keyC, c.FnPos(fn), fmt.Sprintf("%s does not create a child block scope from its scope parameter: the function body would declare its parameters and variables in the caller's block", c.P.Name(fn)))
			continue
		}
		c.Ok(keyC, c.Pos(h.create), "child := "+core.StaticCallee(h.create).Name()+"(scope)")
		// released on every path (deferred or explicit)
		keyR := c.KeyAt(fn, "child scope released on every path")
		relAt := map[ssa.Instruction]bool{}
		for _, r := range h.releases {
			relAt[r.in] = true
		}
		if len(relAt) == 0 {
			c.Bad(keyR, c.Pos(h.create), "the child scope of the function call is never released")
		} else if esc := core.EscapeWithout(h.create, func(in ssa.Instruction) bool { return relAt[in] }, nil); esc != nil {
			c.Bad(keyR, c.Pos(esc), fmt.Sprintf("the exit at %s is reachable from the creation of the child scope without releasing it (neither a deferred nor an explicit release on that path)", c.Pos(esc)))
		} else {
			c.Ok(keyR, c.Pos(h.create), fmt.Sprintf("every path from the creation passes one of the %d release site(s) (deferred or explicit)", len(relAt)))
		}
		// the caller's scope is handed to nothing else
		keyP := c.KeyAt(fn, "caller's scope is not handed on")
		var off ssa.Instruction
		for _, r := range *parent.Referrers() {
			call, ok := r.(ssa.CallInstruction)
			if !ok || r == ssa.Instruction(h.create) {
				continue
			}
			off = call.(ssa.Instruction)
		}
		if off != nil {
			c.Bad(keyP, c.Pos(off), fmt.Sprintf("%s passes the CALLER's scope to %s: whatever that declares or binds lands in the caller's block instead of the function's own", c.P.Name(fn), callDesc(c.P, off.(ssa.CallInstruction))))
		} else {
			c.Ok(keyP, c.FnPos(fn), "the scope parameter is only the receiver of the child creation")
		}
		// the body receives the child
		keyB := c.KeyAt(fn, "body runs on the child scope")
		okBody, seenBody := true, false
		for _, call := range core.Calls(fn) {
			if !c.P.CallReaches(call, reachesBody) && !c.P.CallReaches(call, func(f *ssa.Function) bool { return f == exec }) {
				continue
			}
			if call.(ssa.Instruction) == ssa.Instruction(h.create) {
				continue
			}
			for _, a := range call.Common().Args {
				if scpIsPtrTo(a.Type(), scpTRefScope) {
					seenBody = true
					if cl, ok := h.alias[a]; !ok || cl != scpAliasSame {
						okBody = false
					}
				}
			}
		}
		if !seenBody && !c.P.IsControl(fn) {
			c.Unknown(keyB, c.FnPos(fn), "no call that runs the body with a scope argument")
		} else if seenBody {
			c.Check(okBody, keyB, c.FnPos(fn), "the scope handed to the body is the child", "the scope handed to the body is not the child scope created here")
		}
	}
	// the body: binds through element 0 of its scope parameter, runs on the same scope
	var sp *ssa.Parameter
	for _, p := range udfBody.Params {
		if scpIsPtrTo(p.Type(), scpTRefScope) {
			sp = p
		}
	}
	if sp == nil {
		c.Unknown(c.KeyAt(udfBody, "scope parameter"), c.FnPos(udfBody), "no *ReferenceScope parameter")
		return
	}
	adders := map[string]bool{"lib/query.(VariableMap).Add": true, "lib/query.(VariableMap).Declare": true, "lib/query.(VariableMap).Store": true, "lib/query.(VariableMap).Set": true}
	isAdder := func(f *ssa.Function) bool { return adders[c.P.FnRef(f)] }
	nb := 0
	// bindings in the body runner itself and in its private helpers (functions
	// that receive the scope and are called from nowhere else)
	var scanBindings func(fn *ssa.Function, sp *ssa.Parameter, depth int)
	scanBindings = func(fn *ssa.Function, sp *ssa.Parameter, depth int) {
		for _, call := range core.Calls(fn) {
			if len(call.Common().Args) == 0 {
				continue
			}
			in := call.(ssa.Instruction)
			g := core.StaticCallee(call)
			if g == nil {
				continue
			}
			// a private helper that is handed the scope: follow it
			if depth < 2 && g.Blocks != nil && g != fn && c.P.FnReaches(g, isAdder) && !adders[c.P.FnRef(g)] &&
				!(g.Signature.Recv() != nil && scpIsPtrTo(g.Signature.Recv().Type(), scpTRefScope)) {
				private := true
				callers := scpCallers(c, g, true)
				for _, e := range callers {
					if e.Caller.Func != fn {
						private = false
					}
				}
				if private && len(callers) > 0 {
					for j, a := range call.Common().Args {
						if scpResolveCell(a) == ssa.Value(sp) && j < len(g.Params) {
							c.Touch(g)
							scanBindings(g, g.Params[j], depth+1)
						}
					}
					continue
				}
			}
			if !c.P.CallReaches(call, isAdder) || c.P.CallReaches(call, func(f *ssa.Function) bool { return f == exec }) {
				continue
			}
			// Evaluate(ctx, scope, default) may reach a declaration through a subquery: only direct binders
			if !(adders[c.P.FnRef(g)] || (g.Signature.Recv() != nil && scpIsPtrTo(g.Signature.Recv().Type(), scpTRefScope))) {
				continue
			}
			nb++
			key := c.KeyAt(fn, fmt.Sprintf("parameter binding #%d via %s", nb, g.Name()))
			recv := call.Common().Args[0]
			if scpIsPtrTo(recv.Type(), scpTRefScope) {
				// a *ReferenceScope method: must be on the scope parameter, and declare innermost (R-SCP-1 covers the method)
				c.Check(scpResolveCell(recv) == ssa.Value(sp), key, c.Pos(in), "binds through a declaring method of the scope it was given", "binds a parameter through a scope other than the one the function body runs in")
				continue
			}
			accs := scpTraceElem(recv, 0)
			ok := len(accs) > 0
			for _, a := range accs {
				if a.class != scpIdxZero || a.root != ssa.Value(sp) {
					ok = false
				}
			}
			c.Check(ok, key, c.Pos(in), "binds into element 0 of the scope it was given", "a parameter is bound into something other than element 0 of the function's own scope: arguments would overwrite or collide with the caller's variables")
		}
	}
	scanBindings(udfBody, sp, 0)
	if nb == 0 {
		c.Unknown(c.KeyAt(udfBody, "parameter binding"), c.FnPos(udfBody), "no parameter binding found in the function body runner")
	}
	// the processor is built on the same scope
	keyP := c.KeyAt(udfBody, "statements run on the same scope")
	found, good := false, true
	for _, call := range core.Calls(udfBody) {
		if !c.P.CallReaches(call, func(f *ssa.Function) bool { return f == exec }) {
			continue
		}
		cv, ok := call.(*ssa.Call)
		if !ok || len(cv.Call.Args) == 0 || !scpIsPtrTo(cv.Call.Args[0].Type(), scpTProcessor) {
			continue
		}
		found = true
		for _, o := range core.Origins(cv.Call.Args[0], false) {
			oc, ok := o.(*ssa.Call)
			if !ok {
				good = false
				continue
			}
			hasScope := false
			for _, a := range oc.Call.Args {
				if scpIsPtrTo(a.Type(), scpTRefScope) {
					hasScope = true
					if scpResolveCell(a) != ssa.Value(sp) {
						good = false
					}
				}
			}
			if !hasScope {
				good = false
			}
		}
	}
	if !found {
		c.Unknown(keyP, c.FnPos(udfBody), "no statement execution on a processor found")
	} else {
		c.Check(good, keyP, c.FnPos(udfBody), "the processor that runs the statements is constructed from the scope parameter", "the statements run on a processor that is not built on the function's own scope")
	}
}

// ---------------------------------------------------------------------------
// R-SCP-5 control-transfer table (finite-domain evaluation over StatementFlow)

func init() {
	Register(&Rule{ID: "R-SCP-5", Props: []string{"C15"}, Floor: 100,
		Doc:      "for every call in lib/query that yields a (StatementFlow, error) pair from running statements, the code after the call is evaluated for each declared StatementFlow constant (error nil) and for a non-nil error: loops over a child scope map Terminate/Continue→next iteration, Break→Terminate, Exit→Exit, Return→Return with returnVal copied; the statement-list runner continues on Terminate and returns every other flow unchanged; all other sites (IfStmt, Case, executeChild, ExecuteStatement arms, Execute) return the flow unchanged; a non-nil error is returned as it is, with TerminateWithError where the flow is rewritten; constant (flow, error) return pairs obey TerminateWithError ⇔ error; CONTINUE/BREAK tokens map to Continue/Break; EXIT n is Exit for n ≤ 0 and a ForcedExit error for n > 0",
		Controls: []string{"CtlFlowBreakLeaks", "CtlFlowListContinuesOnBreak", "CtlFlowPassRewrites", "CtlFlowErrorWithoutFlag"},
		Run:      ruleScp5})
}

const scpTFlow = "lib/query.StatementFlow"

type scpFlowEval struct {
	assume  map[ssa.Value]int64 // values assumed to be integer constants
	nilness map[ssa.Value]bool  // value → true: nil, false: non-nil
	stop    map[*ssa.BasicBlock]bool
	paths   int
	over    bool
}

type scpFlowPath struct {
	ret    *ssa.Return // nil when the path reached a stop block (next iteration)
	cycle  bool
	flow   ssa.Value // resolved results of the return (nil = zero value)
	err    ssa.Value
	stores []*ssa.Store
	facts  []scpFlowFact
}

type scpFlowFact struct {
	cond ssa.Value
	val  bool
}

type scpFlowState struct {
	cells  map[*ssa.Alloc]ssa.Value
	phis   map[*ssa.Phi]ssa.Value
	stores []*ssa.Store
	facts  []scpFlowFact
	onPath map[*ssa.BasicBlock]bool
}

func (s *scpFlowState) clone() *scpFlowState {
	n := &scpFlowState{cells: map[*ssa.Alloc]ssa.Value{}, phis: map[*ssa.Phi]ssa.Value{}, onPath: map[*ssa.BasicBlock]bool{}}
	for k, v := range s.cells {
		n.cells[k] = v
	}
	for k, v := range s.phis {
		n.phis[k] = v
	}
	for k, v := range s.onPath {
		n.onPath[k] = v
	}
	n.stores = append([]*ssa.Store(nil), s.stores...)
	n.facts = append([]scpFlowFact(nil), s.facts...)
	return n
}

type scpZeroVal struct{ ssa.Value }

var scpFlowZero ssa.Value = &scpZeroVal{}

func (s *scpFlowState) resolve(v ssa.Value) ssa.Value {
	for i := 0; i < 16; i++ {
		switch x := v.(type) {
		case *ssa.Phi:
			if r, ok := s.phis[x]; ok {
				v = r
				continue
			}
			return v
		case *ssa.UnOp:
			if x.Op == token.MUL {
				if al, ok := x.X.(*ssa.Alloc); ok {
					if r, ok := s.cells[al]; ok {
						v = r
						continue
					}
				}
			}
			return v
		case *ssa.ChangeInterface:
			v = x.X
		case *ssa.Convert:
			if _, ok := x.X.Type().Underlying().(*types.Basic); ok {
				v = x.X
				continue
			}
			return v
		default:
			return v
		}
	}
	return v
}

func (e *scpFlowEval) evalInt(s *scpFlowState, v ssa.Value) (int64, bool) {
	r := s.resolve(v)
	if r == scpFlowZero {
		return 0, true
	}
	if n, ok := e.assume[r]; ok {
		return n, true
	}
	if n, ok := core.ConstInt(r); ok {
		return n, true
	}
	return 0, false
}

func (e *scpFlowEval) evalNil(s *scpFlowState, v ssa.Value) (isNil bool, known bool) {
	r := s.resolve(v)
	if r == scpFlowZero {
		return true, true
	}
	if b, ok := e.nilness[r]; ok {
		return b, true
	}
	if core.IsNilConst(r) {
		return true, true
	}
	switch x := r.(type) {
	case *ssa.MakeInterface, *ssa.Alloc, *ssa.MakeSlice, *ssa.MakeMap:
		return false, true
	case *ssa.Call:
		if f := core.StaticCallee(x); f != nil && core.IsErrorType(x.Type()) && core.AlwaysNonNil(f, 0) {
			return false, true
		}
	}
	return false, false
}

func (e *scpFlowEval) evalBool(s *scpFlowState, v ssa.Value) (bool, bool) {
	if r := s.resolve(v); r != nil && r != scpFlowZero {
		if n, ok := e.assume[r]; ok {
			if b, isB := r.Type().Underlying().(*types.Basic); isB && b.Kind() == types.Bool {
				return n != 0, true
			}
		}
	}
	switch x := v.(type) {
	case *ssa.Const:
		return core.ConstBool(x)
	case *ssa.Call:
		// errors.Is(a, b) on identity classes
		if f := core.StaticCallee(x); f != nil && f.String() == "errors.Is" && len(x.Call.Args) == 2 {
			a, ok1 := e.evalInt(s, x.Call.Args[0])
			b, ok2 := e.evalInt(s, x.Call.Args[1])
			if ok1 && ok2 {
				return a == b, true
			}
		}
	case *ssa.UnOp:
		if x.Op == token.NOT {
			b, ok := e.evalBool(s, x.X)
			return !b, ok
		}
	case *ssa.BinOp:
		if core.IsNilConst(x.X) || core.IsNilConst(x.Y) {
			o := x.X
			if core.IsNilConst(o) {
				o = x.Y
			}
			if n, ok := e.evalNil(s, o); ok {
				switch x.Op {
				case token.EQL:
					return n, true
				case token.NEQ:
					return !n, true
				}
			}
			return false, false
		}
		a, ok1 := e.evalInt(s, x.X)
		b, ok2 := e.evalInt(s, x.Y)
		if ok1 && ok2 {
			switch x.Op {
			case token.EQL:
				return a == b, true
			case token.NEQ:
				return a != b, true
			case token.LSS:
				return a < b, true
			case token.LEQ:
				return a <= b, true
			case token.GTR:
				return a > b, true
			case token.GEQ:
				return a >= b, true
			}
		}
	}
	return false, false
}

// run explores every path from instruction index `from` of block b.
func (e *scpFlowEval) run(b *ssa.BasicBlock, from int, st *scpFlowState) []scpFlowPath {
	var out []scpFlowPath
	var walk func(b *ssa.BasicBlock, from int, st *scpFlowState)
	enter := func(p, b *ssa.BasicBlock, st *scpFlowState) bool {
		if e.stop[b] {
			out = append(out, scpFlowPath{stores: st.stores, facts: st.facts})
			return false
		}
		if st.onPath[b] {
			out = append(out, scpFlowPath{cycle: true, stores: st.stores, facts: st.facts})
			return false
		}
		// parallel copy of the phis
		idx := -1
		for i, q := range b.Preds {
			if q == p {
				idx = i
			}
		}
		vals := map[*ssa.Phi]ssa.Value{}
		for _, in := range b.Instrs {
			phi, ok := in.(*ssa.Phi)
			if !ok {
				break
			}
			if idx >= 0 {
				vals[phi] = st.resolve(phi.Edges[idx])
			}
		}
		for k, v := range vals {
			st.phis[k] = v
		}
		return true
	}
	walk = func(b *ssa.BasicBlock, from int, st *scpFlowState) {
		e.paths++
		if e.paths > 20000 {
			e.over = true
			return
		}
		st.onPath[b] = true
		for i := from; i < len(b.Instrs); i++ {
			switch x := b.Instrs[i].(type) {
			case *ssa.Store:
				st.stores = append(st.stores, x)
				if al, ok := x.Addr.(*ssa.Alloc); ok {
					st.cells[al] = st.resolve(x.Val)
				}
			case *ssa.Return:
				p := scpFlowPath{ret: x, stores: st.stores, facts: st.facts}
				if len(x.Results) >= 2 {
					p.flow = st.resolve(x.Results[0])
				}
				if len(x.Results) >= 1 {
					p.err = st.resolve(x.Results[len(x.Results)-1])
				}
				out = append(out, p)
				return
			case *ssa.Panic:
				return
			case *ssa.Jump:
				if enter(b, b.Succs[0], st) {
					walk(b.Succs[0], 0, st)
				}
				return
			case *ssa.If:
				if v, ok := e.evalBool(st, x.Cond); ok {
					t := b.Succs[1]
					if v {
						t = b.Succs[0]
					}
					if enter(b, t, st) {
						walk(t, 0, st)
					}
					return
				}
				for k, t := range b.Succs {
					s2 := st.clone()
					s2.facts = append(s2.facts, scpFlowFact{x.Cond, k == 0})
					if enter(b, t, s2) {
						walk(t, 0, s2)
					}
				}
				return
			}
		}
	}
	walk(b, from, st)
	return out
}

func scpNewFlowState() *scpFlowState {
	return &scpFlowState{cells: map[*ssa.Alloc]ssa.Value{}, phis: map[*ssa.Phi]ssa.Value{}, onPath: map[*ssa.BasicBlock]bool{}}
}

// scpStateAt reconstructs the contents of the local cells at instruction `at` as
// far as they are decided by stores in blocks that dominate it.
func scpStateAt(at ssa.Instruction) *scpFlowState {
	st := scpNewFlowState()
	fn := at.Parent()
	for _, b := range fn.Blocks {
		for _, in := range b.Instrs {
			al, ok := in.(*ssa.Alloc)
			if !ok {
				continue
			}
			var stores []*ssa.Store
			for _, r := range *al.Referrers() {
				if s, ok := r.(*ssa.Store); ok && s.Addr == al {
					stores = append(stores, s)
				}
			}
			if len(stores) == 0 {
				st.cells[al] = scpFlowZero
			}
		}
	}
	return st
}

type scpFlowConsts struct {
	names map[int64]string
	vals  map[string]int64
	order []int64
}

func scpFlowConstants(c *Ctx) *scpFlowConsts {
	pk := c.P.ByPath["lib/query"]
	if pk == nil {
		return nil
	}
	ft := c.P.Type("lib/query", "StatementFlow")
	if ft == nil {
		return nil
	}
	fc := &scpFlowConsts{names: map[int64]string{}, vals: map[string]int64{}}
	sc := pk.Types.Scope()
	for _, n := range sc.Names() {
		k, ok := sc.Lookup(n).(*types.Const)
		if !ok || !types.Identical(k.Type(), ft) {
			continue
		}
		v, exact := scpConstInt64(k)
		if !exact {
			continue
		}
		fc.names[v] = n
		fc.vals[n] = v
		fc.order = append(fc.order, v)
	}
	sort.Slice(fc.order, func(i, j int) bool { return fc.order[i] < fc.order[j] })
	return fc
}

func scpConstInt64(k *types.Const) (int64, bool) {
	s := k.Val().ExactString()
	var n int64
	_, err := fmt.Sscanf(s, "%d", &n)
	return n, err == nil
}

func (fc *scpFlowConsts) name(v int64) string {
	if n, ok := fc.names[v]; ok {
		return n
	}
	return fmt.Sprintf("StatementFlow(%d)", v)
}

type scpFlowSite struct {
	call *ssa.Call
	flow ssa.Value // extract #0
	err  ssa.Value // extract #1
	role string    // loop | list | pass
	h    *scpHandleInfo
	loop *core.Loop
}

func scpTupleFlowErr(t types.Type) bool {
	tp, ok := t.(*types.Tuple)
	return ok && tp.Len() == 2 && core.NamedOf(tp.At(0).Type()) == scpTFlow && core.IsErrorType(tp.At(1).Type())
}

func scpDescribeOutcome(c *Ctx, fc *scpFlowConsts, e *scpFlowEval, p scpFlowPath, site *scpFlowSite) string {
	if p.cycle {
		return "loops without reaching the loop head"
	}
	if p.ret == nil {
		return "next iteration"
	}
	fl := "an unrecognised flow value"
	if site != nil && p.flow == site.flow {
		fl = "the child's flow unchanged"
	} else if n, ok := e.evalInt(scpNewFlowState(), p.flow); ok {
		fl = fc.name(n)
	}
	er := "an error value"
	if site != nil && p.err == site.err {
		er = "the child's error"
	} else if n, ok := e.evalNil(scpNewFlowState(), p.err); ok {
		if n {
			er = "nil"
		} else {
			er = "a non-nil error"
		}
	}
	return fmt.Sprintf("return (%s, %s) at %s", fl, er, c.Pos(p.ret))
}

func ruleScp5(c *Ctx) {
	start := len(c.Obs)
	m := scopeModelOf(c.P)
	exec := c.Fn("lib/query.(*Processor).execute")
	fc := scpFlowConstants(c)
	if exec == nil {
		return
	}
	if fc == nil || len(fc.order) < 2 {
		c.Unknown("anchor:lib/query.StatementFlow", "-", "cannot-analyse: the StatementFlow constants are not declared in lib/query")
		return
	}
	need := []string{"Terminate", "TerminateWithError", "Exit", "Break", "Continue", "Return"}
	for _, n := range need {
		if _, ok := fc.vals[n]; !ok {
			c.Unknown("anchor:lib/query."+n, "-", "cannot-analyse: StatementFlow constant "+n+" is not declared")
			return
		}
	}
	if len(fc.order) != len(need) {
		var extra []string
		for _, v := range fc.order {
			extra = append(extra, fc.name(v))
		}
		c.Unknown("StatementFlow constants", "-", fmt.Sprintf("the enum now has %d constants (%s); the transfer table specifies %d — extend the table for the new flow", len(fc.order), strings.Join(extra, ", "), len(need)))
	}
	TWE := fc.vals["TerminateWithError"]
	reachExec := func(f *ssa.Function) bool { return f == exec }

	for _, fn := range c.P.FuncsIn(true, "lib/query") {
		var loops []*core.Loop
		loopsDone := false
		var handles []*scpHandleInfo
		handlesDone := false
		nSite := 0
		for _, b := range fn.Blocks {
			for _, in := range b.Instrs {
				call, ok := in.(*ssa.Call)
				if !ok || !scpTupleFlowErr(call.Type()) || !c.P.CallReaches(call, reachExec) {
					continue
				}
				if !scpTupleFlowErr(fn.Signature.Results()) {
					continue // the flow does not leave this function (function bodies, API wrappers)
				}
				site := &scpFlowSite{call: call, role: "pass"}
				for _, r := range *call.Referrers() {
					if ex, ok := r.(*ssa.Extract); ok {
						if ex.Index == 0 {
							site.flow = ex
						} else {
							site.err = ex
						}
					}
				}
				nSite++
				c.Sites++
				c.Touch(fn)
				callee := callDesc(c.P, call)
				callee = callee[strings.LastIndex(callee, ".")+1:]
				keyBase := fmt.Sprintf("flow of %s #%d", callee, nSite)
				if site.flow == nil || site.err == nil {
					c.Bad(c.KeyAt(fn, keyBase), c.Pos(call), "the flow or the error of the executed statements is discarded")
					continue
				}
				if !loopsDone {
					loops, loopsDone = core.NaturalLoops(fn), true
				}
				if !handlesDone {
					for _, hc := range m.handleCalls(fn, kBlock) {
						handles = append(handles, m.analyseHandle(hc, kBlock))
					}
					handlesDone = true
				}
				site.loop = core.InnermostLoop(loops, call.Block())
				if len(call.Call.Args) > 0 {
					for _, h := range handles {
						if _, ok := h.alias[call.Call.Args[0]]; ok {
							site.h = h
						}
					}
				}
				if site.loop != nil {
					if site.h != nil {
						site.role = "loop"
					} else if g := core.StaticCallee(call); g != nil && scpTakesOneStatement(g) {
						site.role = "list"
					}
				}
				scpEvalSite(c, fc, fn, site, keyBase)
			}
		}
		// constant (flow, error) return pairs
		if scpTupleFlowErr(fn.Signature.Results()) && fn.Blocks != nil {
			for i, r := range core.Returns(fn) {
				fv := core.ReturnOperand(r, 0)
				ev := core.ReturnOperand(r, 1)
				if len(fv) != 1 || len(ev) != 1 || fv[0] == nil {
					continue
				}
				n, ok := core.ConstInt(fv[0])
				if !ok {
					continue
				}
				c.Touch(fn)
				key := c.KeyAt(fn, fmt.Sprintf("return #%d (%s, …)", i+1, fc.name(n)))
				kind := core.ClassifyNil(ev[0], r)
				switch {
				case n == TWE && kind == core.IsNil:
					c.Bad(key, c.Pos(r), "returns TerminateWithError together with a nil error: callers test the error, the statement list goes on as if nothing happened while the flow says it failed")
				case n != TWE && kind == core.NonNil:
					c.Bad(key, c.Pos(r), fmt.Sprintf("returns a non-nil error together with the flow %s: callers that dispatch on the flow treat a failed statement as a normal %s", fc.name(n), fc.name(n)))
				default:
					c.Ok(key, c.Pos(r), "flow constant and error agree (TerminateWithError ⇔ error)")
				}
			}
		}
	}
	ruleScp5Generators(c, fc)
	c.negControls(start, "okFlowListEarlyExit", "okFlowPassWithCleanup")
}

// scpTakesOneStatement: the callee executes a single parser.Statement.
func scpTakesOneStatement(g *ssa.Function) bool {
	for _, p := range g.Params {
		if core.NamedOf(p.Type()) == "lib/parser.Statement" {
			return true
		}
	}
	return false
}

func scpEvalSite(c *Ctx, fc *scpFlowConsts, fn *ssa.Function, site *scpFlowSite, keyBase string) {
	call := site.call
	idx := core.InstrIndex(call) + 1
	stop := map[*ssa.BasicBlock]bool{}
	if site.loop != nil {
		stop[site.loop.Header] = true
	}
	TWE, TERM := fc.vals["TerminateWithError"], fc.vals["Terminate"]
	type cell struct {
		name   string
		k      int64
		errNil bool
		anyK   bool
	}
	var cells []cell
	for _, v := range fc.order {
		if v == TWE {
			continue
		}
		cells = append(cells, cell{name: fc.name(v), k: v, errNil: true})
	}
	cells = append(cells, cell{name: "error", errNil: false, anyK: true})
	var proc ssa.Value
	if len(fn.Params) > 0 {
		proc = fn.Params[0]
	}
	for _, cl := range cells {
		key := c.KeyAt(fn, fmt.Sprintf("%s [%s] = %s", keyBase, site.role, cl.name))
		e := &scpFlowEval{assume: map[ssa.Value]int64{}, nilness: map[ssa.Value]bool{site.err: cl.errNil}, stop: stop}
		if !cl.anyK {
			e.assume[site.flow] = cl.k
		}
		paths := e.run(call.Block(), idx, scpStateAt(call))
		if e.over {
			c.Unknown(key, c.Pos(call), "too many paths after the call")
			continue
		}
		if len(paths) == 0 {
			c.Unknown(key, c.Pos(call), "no path after the call reaches a return or the loop head")
			continue
		}
		bad := ""
		for _, p := range paths {
			got := scpDescribeOutcome(c, fc, e, p, site)
			want := ""
			flowConst, flowKnown := int64(0), false
			if p.ret != nil {
				flowConst, flowKnown = e.evalInt(scpNewFlowState(), p.flow)
			}
			same := p.ret != nil && p.flow == site.flow
			errNil, errKnown := false, false
			if p.ret != nil {
				errNil, errKnown = e.evalNil(scpNewFlowState(), p.err)
			}
			if p.cycle {
				want = "a return or the loop head"
			} else if !cl.errNil {
				// a failing child: the error is passed on; where the flow is rewritten it is TerminateWithError
				switch {
				case p.ret == nil:
					want = "return (TerminateWithError, the child's error): the failure of the body is ignored and the loop goes on"
				case p.err != site.err && !(errKnown && !errNil):
					want = "the child's error to be returned"
				case !same && !(flowKnown && flowConst == TWE):
					want = "TerminateWithError (or the child's flow) with the error"
				}
			} else {
				switch site.role {
				case "loop":
					exp := map[string]int64{"Break": TERM, "Exit": fc.vals["Exit"], "Return": fc.vals["Return"]}
					if to, isExit := exp[cl.name]; isExit {
						if p.ret == nil {
							want = fmt.Sprintf("return (%s, nil): %s must leave the loop", fc.name(to), strings.ToUpper(cl.name))
						} else if !flowKnown || flowConst != to || !(errKnown && errNil) {
							want = fmt.Sprintf("return (%s, nil)", fc.name(to))
						} else if cl.name == "Return" && !scpReturnValCopied(p, proc, site.h) {
							want = "the child's returnVal to be copied to the parent processor before returning Return (the function result is lost otherwise)"
						}
					} else if p.ret != nil {
						want = "the next iteration"
					}
				case "list":
					if cl.k == TERM {
						if p.ret != nil {
							want = "the next statement (Terminate means: statement done, go on)"
						}
					} else if p.ret == nil {
						want = fmt.Sprintf("a return of %s: the statements after a %s must not run", cl.name, strings.ToUpper(cl.name))
					} else if !same && !(flowKnown && flowConst == cl.k) {
						want = "the statement's flow unchanged"
					}
				default:
					if p.ret == nil {
						want = "a return of the child's flow"
					} else if !same && !(flowKnown && flowConst == cl.k) {
						want = "the child's flow unchanged"
					} else if site.h != nil && cl.name == "Return" && !scpReturnValCopied(p, proc, site.h) {
						want = "the child's returnVal to be copied to the parent processor (the function result is lost otherwise)"
					}
				}
			}
			if want != "" {
				bad = fmt.Sprintf("when the executed statements yield %s%s, the code after the call does: %s — expected %s", cl.name, scpFactsDesc(c, p), got, want)
				break
			}
		}
		if bad != "" {
			c.Bad(key, c.Pos(call), bad)
		} else {
			c.OkN(key, c.Pos(call), fmt.Sprintf("%d path(s): %s", len(paths), scpDescribeOutcome(c, fc, e, paths[0], site)), len(paths))
		}
	}
}

func scpFactsDesc(c *Ctx, p scpFlowPath) string {
	if len(p.facts) == 0 {
		return ""
	}
	var parts []string
	for _, f := range p.facts {
		pos := "-"
		if in, ok := f.cond.(ssa.Instruction); ok {
			pos = c.Pos(in)
		}
		parts = append(parts, fmt.Sprintf("%s=%v", pos, f.val))
	}
	return " (undecided tests taken as " + strings.Join(parts, ", ") + ")"
}

// scpReturnValCopied: the path stores child.returnVal into proc.returnVal, or it
// passed the test "child.returnVal == nil".
func scpReturnValCopied(p scpFlowPath, proc ssa.Value, h *scpHandleInfo) bool {
	if h == nil {
		return true
	}
	isChildRet := func(v ssa.Value) bool {
		u, ok := v.(*ssa.UnOp)
		if !ok || u.Op != token.MUL {
			return false
		}
		fa, ok := u.X.(*ssa.FieldAddr)
		if !ok || core.FieldOwner(fa) != scpTProcessor+".returnVal" {
			return false
		}
		_, isAlias := h.alias[fa.X]
		return isAlias
	}
	for _, s := range p.stores {
		fa, ok := s.Addr.(*ssa.FieldAddr)
		if !ok || core.FieldOwner(fa) != scpTProcessor+".returnVal" {
			continue
		}
		if scpResolveCell(fa.X) == proc && isChildRet(s.Val) {
			return true
		}
	}
	for _, f := range p.facts {
		if x, neq, ok := core.NilCmp(f.cond); ok && isChildRet(x) && neq != f.val {
			return true // child.returnVal is nil on this path: nothing to copy
		}
	}
	return false
}

// ruleScp5Generators: where flows are produced from the syntax.
func ruleScp5Generators(c *Ctx, fc *scpFlowConsts) {
	fn := c.Fn("lib/query.(*Processor).ExecuteStatement")
	forced := c.Fn("lib/query.NewForcedExit")
	if fn == nil || forced == nil {
		return
	}
	ppk := c.P.ByPath["lib/parser"]
	tok := func(name string) (int64, bool) {
		if ppk == nil {
			return 0, false
		}
		k, ok := ppk.Types.Scope().Lookup(name).(*types.Const)
		if !ok {
			return 0, false
		}
		return scpConstInt64(k)
	}
	// CONTINUE / BREAK
	var tokVal ssa.Value
	for _, b := range fn.Blocks {
		for _, in := range b.Instrs {
			if f, ok := in.(*ssa.Field); ok && core.NamedOf(f.X.Type()) == "lib/parser.FlowControl" && core.FieldName(f) == "Token" {
				tokVal = f
			}
		}
	}
	cont, ok1 := tok("CONTINUE")
	brk, ok2 := tok("BREAK")
	if tokVal == nil || !ok1 || !ok2 {
		c.Unknown(c.KeyAt(fn, "FlowControl token"), c.FnPos(fn), "cannot-analyse: no read of parser.FlowControl.Token / parser.CONTINUE / parser.BREAK")
	} else {
		in := tokVal.(ssa.Instruction)
		for _, tc := range []struct {
			name string
			tok  int64
			want string
		}{{"CONTINUE", cont, "Continue"}, {"BREAK", brk, "Break"}, {"any other token", -1, "Terminate"}} {
			key := c.KeyAt(fn, "FlowControl "+tc.name)
			e := &scpFlowEval{assume: map[ssa.Value]int64{tokVal: tc.tok}, nilness: map[ssa.Value]bool{}, stop: map[*ssa.BasicBlock]bool{}}
			paths := e.run(in.Block(), core.InstrIndex(in)+1, scpStateAt(in))
			bad := ""
			for _, p := range paths {
				n, known := e.evalInt(scpNewFlowState(), p.flow)
				en, eknown := e.evalNil(scpNewFlowState(), p.err)
				if p.ret == nil || !known || n != fc.vals[tc.want] || !eknown || !en {
					bad = fmt.Sprintf("the statement %s produces %s, expected return (%s, nil)", tc.name, scpDescribeOutcome(c, fc, e, p, nil), tc.want)
				}
			}
			if len(paths) == 0 {
				bad = "no path reaches a return"
			}
			if bad != "" {
				c.Bad(key, c.Pos(in), bad)
			} else {
				c.OkN(key, c.Pos(in), "yields ("+tc.want+", nil)", len(paths))
			}
		}
	}
	// EXIT n
	calls := c.P.CallsNamed(fn, "lib/query.NewForcedExit")
	if len(calls) != 1 {
		c.Unknown(c.KeyAt(fn, "EXIT code"), c.FnPos(fn), fmt.Sprintf("cannot-analyse: %d calls of NewForcedExit (expected one)", len(calls)))
		return
	}
	fcall := calls[0].(*ssa.Call)
	code := fcall.Call.Args[0]
	ci, ok := code.(ssa.Instruction)
	if !ok {
		c.Unknown(c.KeyAt(fn, "EXIT code"), c.Pos(fcall), "the exit code is not computed in this function")
		return
	}
	startIdx := core.InstrIndex(ci) + 1
	if _, isPhi := code.(*ssa.Phi); isPhi {
		startIdx = 0
		for i, in := range ci.Block().Instrs {
			if _, ok := in.(*ssa.Phi); !ok {
				startIdx = i
				break
			}
		}
	}
	for _, tc := range []struct {
		name string
		n    int64
		exit bool
	}{{"EXIT -1", -1, true}, {"EXIT 0", 0, true}, {"EXIT 1", 1, false}, {"EXIT 2", 2, false}} {
		key := c.KeyAt(fn, tc.name)
		e := &scpFlowEval{assume: map[ssa.Value]int64{code: tc.n}, nilness: map[ssa.Value]bool{}, stop: map[*ssa.BasicBlock]bool{}}
		st := scpStateAt(ci)
		paths := e.run(ci.Block(), startIdx, st)
		bad := ""
		for _, p := range paths {
			n, known := e.evalInt(scpNewFlowState(), p.flow)
			en, eknown := e.evalNil(scpNewFlowState(), p.err)
			if tc.exit {
				if p.ret == nil || !known || n != fc.vals["Exit"] || !eknown || !en {
					bad = fmt.Sprintf("%s produces %s, expected return (Exit, nil)", tc.name, scpDescribeOutcome(c, fc, e, p, nil))
				}
			} else {
				if p.ret == nil || !known || n != fc.vals["TerminateWithError"] || p.err != ssa.Value(fcall) {
					bad = fmt.Sprintf("%s produces %s, expected return (TerminateWithError, ForcedExit error): a script that exits with a non-zero code must end the process with that code", tc.name, scpDescribeOutcome(c, fc, e, p, nil))
				}
			}
		}
		if len(paths) == 0 {
			bad = "no path reaches a return"
		}
		if bad != "" {
			c.Bad(key, c.Pos(fcall), bad)
		} else if tc.exit {
			c.OkN(key, c.Pos(fcall), "yields (Exit, nil)", len(paths))
		} else {
			c.OkN(key, c.Pos(fcall), "yields (TerminateWithError, NewForcedExit(code))", len(paths))
		}
	}
}
