package rules

import (
	"fmt"
	"go/token"
	"go/types"
	"math"
	"sort"

	"golang.org/x/tools/go/ssa"

	"verif/checker/core"
)

// R-ERR-23 — a position plus a user-supplied integer cannot wrap around before it is compared.
//
// The clause of R-CUR-9 (FETCH RELATIVE) for every site of the kind, decided with the
// interval engine and the taint of R-ERR-11 instead of a table for one function.
//
// Site: an int ADD / SUB in hand-written csvq code with
//   u  an operand that depends on a user-controlled integer (core.Bounds.Tainted) and
//      is unbounded on at least one side where it is used, and
//   p  the other operand, not a constant, with a finite interval (a position: loop
//      index, length, length - 1 …),
// whose result decides a range: followed forward through Phi, conversions, further
// + / -, local cells, struct fields (every load of the field), results (every call
// site) and arguments (the callee's parameter) it reaches an ordering comparison,
// an index, a slice bound or a make size.
// Obligation: (i) the operation cannot overflow: the interval engine, with the branch
// conditions that dominate the site, keeps the result inside int (it answers Top when
// the machine operation may wrap); or (ii) a wrapped result cannot be told from the
// true one: every use of the sum is a two-sided window test of the sum itself against
// finite bounds (lo ≤ s, s < hi) or lies inside that window, both failing edges lead to
// the same block and carry the same values into its Phis (a wrapped sum lands at the
// other end of int, beyond the window on the opposite side; when "too low" and "too
// high" are the same outcome nothing changes).
// Premise, checked: a lib/parser struct field whose every store is the result of
// strconv.Atoi on the Literal of a token, made by the generated parser, is ≥ 0 (the
// scanner builds INTEGER tokens from decimal digits only — the premise R-ERR-11 uses
// for lib/json).

func init() {
	doc := "a position plus a user-supplied integer cannot wrap around before it decides a range: for every int + / - in hand-written csvq code whose one operand depends on a user-controlled integer (strconv.Atoi / ParseInt results, (value.Integer).Raw() — R-ERR-11's taint) and is unbounded where it is used, whose other operand is a non-constant position with a finite interval, and whose result reaches (through Phi, conversions, cells, struct fields, results, arguments) an ordering comparison, an index, a slice bound or a make size: " +
		"(i) the interval engine, with the dominating branch conditions, shows that the operation stays inside int, or (ii) every use of the sum is a two-sided window test of the sum against finite bounds whose two failing edges reach the same block with the same Phi inputs (a wrapped sum and the true one are both outside the window and treated alike). " +
		"`current + Offset` of a window frame wraps for ROWS … 9223372036854775807 FOLLOWING and turns the frame of every row but the first into the empty one. Premise (side condition checked): a lib/parser field stored only from strconv.Atoi(token.Literal) in the generated parser is ≥ 0"
	Register(&Rule{ID: "R-ERR-23", Props: []string{"C17", "C19"}, Floor: 10,
		Doc:      doc,
		Controls: []string{"CtlWrapFrameHigh", "ctlWrapEnd", "CtlWrapTwoOutcomes"},
		Run:      ruleErr23})
}

// e23Premises: lib/parser int fields stored only from Atoi(token.Literal) in the generated parser are ≥ 0.
func e23Premises(c *Ctx, e *core.Bounds) []string {
	var notes []string
	for _, f := range e.StoredFields() {
		if f.Pkg() == nil || core.Short(f.Pkg().Path()) != "lib/parser" {
			continue
		}
		if b, ok := f.Type().Underlying().(*types.Basic); !ok || b.Kind() != types.Int {
			continue
		}
		stores := e.FieldStores(f)
		good := len(stores) > 0
		for _, st := range stores {
			fn := st.Parent()
			if c.P.IsControl(fn) {
				continue
			}
			if !c.P.InPkg(fn, "lib/parser") || !e19IsGeneratedFn(c.P, fn) {
				good = false
				break
			}
			if k, ok := core.ConstInt(st.Val); ok && k >= 0 {
				continue
			}
			ex, ok := st.Val.(*ssa.Extract)
			if !ok || ex.Index != 0 {
				good = false
				break
			}
			call, ok := ex.Tuple.(*ssa.Call)
			if !ok || c.P.CalleeName(call) != "strconv.Atoi" || len(call.Common().Args) != 1 {
				good = false
				break
			}
			// the argument is the Literal of a token
			arg := call.Common().Args[0]
			if ld, ok := arg.(*ssa.UnOp); ok && ld.Op == token.MUL {
				arg = ld.X
			}
			if core.FieldOwner(arg) != "lib/parser.Token.Literal" {
				good = false
				break
			}
		}
		if !good {
			continue
		}
		note := fmt.Sprintf("premise: %s.%s ≥ 0 (every store is strconv.Atoi of a token literal in the generated parser; INTEGER tokens are digit strings)", f.Pkg().Name(), f.Name())
		e.PremiseField(f, core.KInt, core.AV{Lo: 0, Hi: math.Inf(1)}, note)
		notes = append(notes, note)
	}
	return notes
}

type e23Index struct {
	loads map[*types.Var][]ssa.Value // loads of a field anywhere in csvq
}

func e23BuildIndex(c *Ctx) *e23Index {
	ix := &e23Index{loads: map[*types.Var][]ssa.Value{}}
	for _, fn := range c.P.SrcFuncs() {
		for _, b := range fn.Blocks {
			for _, in := range b.Instrs {
				switch x := in.(type) {
				case *ssa.UnOp:
					if x.Op == token.MUL {
						if fa, ok := x.X.(*ssa.FieldAddr); ok {
							if f := core.FieldVarOf(fa); f != nil {
								ix.loads[f] = append(ix.loads[f], x)
							}
						}
					}
				case *ssa.Field:
					if f := core.FieldVarOf(x); f != nil {
						ix.loads[f] = append(ix.loads[f], x)
					}
				}
			}
		}
	}
	return ix
}

func e23IsOrdering(op token.Token) bool {
	return op == token.LSS || op == token.LEQ || op == token.GTR || op == token.GEQ
}

// e23Sink follows v forward and returns the first range-deciding use (description, instruction).
func e23Sink(c *Ctx, ix *e23Index, start ssa.Value) (string, ssa.Instruction) {
	seen := map[ssa.Value]bool{}
	queue := []ssa.Value{start}
	steps := 0
	push := func(v ssa.Value) {
		if v != nil && !seen[v] {
			seen[v] = true
			queue = append(queue, v)
		}
	}
	seen[start] = true
	for len(queue) > 0 && steps < 4000 {
		v := queue[0]
		queue = queue[1:]
		steps++
		refs := v.Referrers()
		if refs == nil {
			continue
		}
		for _, r := range *refs {
			switch x := r.(type) {
			case *ssa.BinOp:
				if e23IsOrdering(x.Op) {
					return "the comparison " + e19ExprLabel(x.X) + " " + x.Op.String() + " " + e19ExprLabel(x.Y), x
				}
				if x.Op == token.ADD || x.Op == token.SUB {
					push(x)
				}
			case *ssa.Phi:
				push(x)
			case *ssa.Convert:
				if e19IsIntType(x.Type()) {
					push(x)
				}
			case *ssa.ChangeType:
				push(x)
			case *ssa.Index:
				if x.Index == v {
					return "the index of " + e19ExprLabel(x.X), x
				}
			case *ssa.IndexAddr:
				if x.Index == v {
					return "the index of " + e19ExprLabel(x.X), x
				}
			case *ssa.Slice:
				if x.Low == v || x.High == v || x.Max == v {
					return "a slice bound of " + e19ExprLabel(x.X), x
				}
			case *ssa.MakeSlice:
				if x.Len == v || x.Cap == v {
					return "a make size", x
				}
			case *ssa.Store:
				if x.Val != v {
					continue
				}
				switch a := x.Addr.(type) {
				case *ssa.Alloc:
					for _, rr := range *a.Referrers() {
						if ld, ok := rr.(*ssa.UnOp); ok && ld.Op == token.MUL {
							push(ld)
						}
					}
				case *ssa.FieldAddr:
					if f := core.FieldVarOf(a); f != nil {
						for _, ld := range ix.loads[f] {
							push(ld)
						}
					}
				}
			case *ssa.Return:
				fn := x.Parent()
				idx := -1
				for i, rv := range x.Results {
					if rv == v {
						idx = i
					}
				}
				if idx < 0 {
					continue
				}
				for _, ed := range c.P.RealCallers(fn) {
					site, ok := ed.Site.(*ssa.Call)
					if !ok {
						continue
					}
					if len(x.Results) == 1 {
						push(site)
						continue
					}
					if site.Referrers() == nil {
						continue
					}
					for _, rr := range *site.Referrers() {
						if ex, ok := rr.(*ssa.Extract); ok && ex.Index == idx {
							push(ex)
						}
					}
				}
			case ssa.CallInstruction:
				g := x.Common().StaticCallee()
				if g == nil || g.Blocks == nil || x.Common().IsInvoke() {
					continue
				}
				if pk := core.FnPkg(g); pk == nil || core.FnPkg(start.Parent()) == nil || !c.P.InPkg(g, "lib/query", "lib/value", "lib/option", "lib/parser", "lib/json", "lib/file", "lib/action", "lib/cli", "lib/terminal", "lib/doc", "lib/excmd", "lib/syntax", "lib/constant", core.ControlPkg) {
					continue
				}
				for i, a := range x.Common().Args {
					if a == v && i < len(g.Params) {
						push(g.Params[i])
					}
				}
			}
		}
	}
	return "", nil
}

type e23Bound struct {
	cmp     *ssa.BinOp
	iff     *ssa.If
	lower   bool // the inside edge states s ≥ / > bound
	inside  *ssa.BasicBlock
	outside *ssa.BasicBlock
}

// e23PureBlock: nothing in b can be observed (loads, arithmetic, comparisons, len, Phi, If).
func e23PureBlock(b *ssa.BasicBlock) bool {
	for _, in := range b.Instrs {
		switch x := in.(type) {
		case *ssa.BinOp, *ssa.UnOp, *ssa.Phi, *ssa.If, *ssa.Convert, *ssa.ChangeType, *ssa.FieldAddr, *ssa.Field, *ssa.IndexAddr, *ssa.Index, *ssa.Extract, *ssa.DebugRef:
		case *ssa.Call:
			bi, ok := x.Common().Value.(*ssa.Builtin)
			if !ok || (bi.Name() != "len" && bi.Name() != "cap") {
				return false
			}
		default:
			return false
		}
	}
	return true
}

// e23Window decides clause (ii) for the sum s.
func e23Window(e *core.Bounds, s *ssa.BinOp) (bool, string) {
	refs := s.Referrers()
	if refs == nil {
		return false, ""
	}
	var bounds []e23Bound
	for _, r := range *refs {
		cmp, ok := r.(*ssa.BinOp)
		if !ok || !e23IsOrdering(cmp.Op) {
			continue
		}
		op := cmp.Op
		other := cmp.Y
		if cmp.Y == ssa.Value(s) {
			other = cmp.X
			switch op { // bound op s  →  s op' bound
			case token.LSS:
				op = token.GTR
			case token.LEQ:
				op = token.GEQ
			case token.GTR:
				op = token.LSS
			case token.GEQ:
				op = token.LEQ
			}
		} else if cmp.X != ssa.Value(s) {
			continue
		}
		if other == ssa.Value(s) {
			continue
		}
		if a := e.Eval(other, cmp, core.KInt); !a.Finite() {
			continue
		}
		crefs := cmp.Referrers()
		if crefs == nil || len(*crefs) != 1 {
			continue
		}
		iff, ok := (*crefs)[0].(*ssa.If)
		if !ok || len(iff.Block().Succs) != 2 {
			continue
		}
		t, f := iff.Block().Succs[0], iff.Block().Succs[1]
		// true edge: s op bound; false edge: the negation. Either edge may be the inside of a window.
		lowerOnTrue := op == token.GTR || op == token.GEQ
		bounds = append(bounds, e23Bound{cmp: cmp, iff: iff, lower: lowerOnTrue, inside: t, outside: f})
		bounds = append(bounds, e23Bound{cmp: cmp, iff: iff, lower: !lowerOnTrue, inside: f, outside: t})
	}
	for _, lo := range bounds {
		for _, hi := range bounds {
			if !lo.lower || hi.lower || lo.cmp == hi.cmp {
				continue
			}
			for _, ord := range [][2]e23Bound{{lo, hi}, {hi, lo}} {
				first, second := ord[0], ord[1]
				if first.inside != second.cmp.Block() || len(first.inside.Preds) != 1 || !e23PureBlock(first.inside) {
					continue
				}
				if first.outside != second.outside {
					continue
				}
				in := second.inside
				if len(in.Preds) != 1 {
					continue
				}
				// same Phi inputs on both failing edges
				out := first.outside
				same := true
				for _, instr := range out.Instrs {
					ph, ok := instr.(*ssa.Phi)
					if !ok {
						break
					}
					var v0, v1 ssa.Value
					for i, p := range out.Preds {
						if p == first.iff.Block() {
							v0 = ph.Edges[i]
						}
						if p == second.iff.Block() {
							v1 = ph.Edges[i]
						}
					}
					if v0 == nil || v1 == nil || v0 != v1 {
						same = false
					}
				}
				if !same {
					continue
				}
				// every other use lies inside the window
				all := true
				for _, r := range *refs {
					if r == ssa.Instruction(first.cmp) || r == ssa.Instruction(second.cmp) {
						continue
					}
					if _, isDbg := r.(*ssa.DebugRef); isDbg {
						continue
					}
					rb := r.Block()
					if ph, ok := r.(*ssa.Phi); ok {
						// a Phi uses the value on the incoming edge
						okEdge := true
						for i, ed := range ph.Edges {
							if ed == ssa.Value(s) {
								p := ph.Block().Preds[i]
								if p != in && !in.Dominates(p) {
									okEdge = false
								}
							}
						}
						if okEdge {
							continue
						}
					}
					if rb != in && !in.Dominates(rb) {
						all = false
					}
				}
				if !all {
					continue
				}
				return true, "every use is the window test " + e19ExprLabel(lo.cmp.X) + " " + lo.cmp.Op.String() + " " + e19ExprLabel(lo.cmp.Y) + " && " + e19ExprLabel(hi.cmp.X) + " " + hi.cmp.Op.String() + " " + e19ExprLabel(hi.cmp.Y) + " or lies inside it; both failing edges reach the same block with the same values"
			}
		}
	}
	return false, ""
}

func ruleErr23(c *Ctx) {
	start := len(c.Obs)
	defer func() {
		c.negControls(start, "okWrapGuardedFollowing", "okWrapWindowOneOutcome", "okWrapPrecedingNonNegative")
	}()
	e := e19NewBounds(c)
	// a field with more writers than the interval engine looks at (it answers Top, "no claim") is run-time
	// state with invariants of its own (Cursor.index: R-CUR-9), not a user-supplied integer
	e.TaintFieldOK = func(f *types.Var) bool { return len(e.FieldStores(f)) <= core.MaxFieldStores }
	notes := e23Premises(c, e)
	ix := e23BuildIndex(c)
	seq := e19SeqKey{}
	real := 0
	fns := e19HandWritten(c, nil)
	for _, fn := range fns {
		for _, b := range fn.Blocks {
			for _, in := range b.Instrs {
				x, ok := in.(*ssa.BinOp)
				if !ok || (x.Op != token.ADD && x.Op != token.SUB) || !e19IsIntType(x.Type()) {
					continue
				}
				// which operand is the user's, which the position: prefer the reading in which the
				// user's operand is unbounded where it is used
				var u, p ssa.Value
				for pass := 0; pass < 2 && u == nil; pass++ {
					for _, pair := range [][2]ssa.Value{{x.X, x.Y}, {x.Y, x.X}} {
						cu, cp := pair[0], pair[1]
						if _, isC := cp.(*ssa.Const); isC {
							continue
						}
						if _, isC := cu.(*ssa.Const); isC {
							continue
						}
						if e.Tainted(cu) == nil {
							continue
						}
						au := e.Eval(cu, x, core.KInt)
						ap := e.Eval(cp, x, core.KInt)
						if au.Bot || ap.Bot || !ap.Finite() || (pass == 0 && au.Finite()) {
							continue
						}
						u, p = cu, cp
						break
					}
				}
				if u == nil {
					continue
				}
				what, at := e23Sink(c, ix, x)
				if at == nil {
					continue
				}
				c.Sites++
				c.Touch(fn)
				if !c.P.IsControl(fn) {
					real++
				}
				kfn := e19KeyFn(c, fn)
				key := seq.key(c, kfn, fmt.Sprintf("%s %s %s cannot wrap around", e19ExprLabel(x.X), x.Op, e19ExprLabel(x.Y)))
				r := e.Eval(x, x, core.KInt)
				if !r.IsTop() {
					c.Ok(key, c.Pos(x), fmt.Sprintf("stays inside int: %s %s %s = %s (decides %s at %s)", e19FmtAV(e.Eval(x.X, x, core.KInt)), x.Op, e19FmtAV(e.Eval(x.Y, x, core.KInt)), e19FmtAV(r), what, c.Pos(at)))
					continue
				}
				if ok, why := e23Window(e, x); ok {
					c.Ok(key, c.Pos(x), "may wrap, but a wrapped result is treated like the true one: "+why)
					continue
				}
				src := e.Tainted(u)
				srcTxt := ""
				if src != nil {
					srcTxt = " (user-controlled through " + valueLabel(src) + " at " + c.P.InstrPos(e19InstrOf(src)) + ")"
				}
				c.Bad(key, c.Pos(x), fmt.Sprintf("%s%s is %s where it is %s the position %s = %s: the machine operation can wrap around, and the result decides %s at %s — a step far past one end of the rows comes out at the other end (ROWS BETWEEN CURRENT ROW AND 9223372036854775807 FOLLOWING gives an empty frame). Bound the operand first (compare it with the distance to the end) or saturate",
					e19ExprLabel(u), srcTxt, e19FmtAV(e.Eval(u, x, core.KInt)), map[token.Token]string{token.ADD: "added to", token.SUB: "combined by - with"}[x.Op], e19ExprLabel(p), e19FmtAV(e.Eval(p, x, core.KInt)), what, c.Pos(at)))
			}
		}
	}
	sort.Strings(notes)
	for _, n := range notes {
		c.Ok("premise: "+n[len("premise: "):], "-", "side condition checked on every store of the field")
	}
	if real == 0 {
		c.Unknown("anchor:position ± user integer", "-", "cannot-analyse: no sum of a position and a user-controlled integer that decides a range was found in hand-written csvq code")
	}
}

// ---------------------------------------------------------------------------
// R-ERR-24 — a counted loop between user-controlled bounds runs over a bounded range.
//
// `for i := frame.Low; i <= frame.High; i++ { if i < 0 || len(p) <= i { continue } … }` is
// correct for every frame and never ends for ROWS BETWEEN 9223372036854775807 PRECEDING AND
// CURRENT ROW: the bounds are user-supplied and only the body looks at the partition.
// Site: a natural loop of hand-written csvq code whose header ends in an ordering comparison of
// an induction variable (Phi with a constant step, ± a constant) with a loop-invariant limit,
// where the initial value or the limit depends on a user-controlled integer.
// Obligation: at the loop entry the interval engine bounds the start from below and the limit
// from above (ascending; mirrored for a descending loop): the trip count is bounded by sizes
// (lengths, clamped positions), not by a number the user wrote.

func init() {
	Register(&Rule{ID: "R-ERR-24", Props: []string{"C19", "C17"}, Floor: 3,
		Doc:      "a counted loop between user-controlled bounds runs over a bounded range: for every natural loop of hand-written csvq code whose header tests an induction variable (constant step) against a loop-invariant limit with <, <=, >, >= and whose start or limit depends on a user-controlled integer (R-ERR-11's taint), the interval engine bounds, where the loop is entered, the start from below and the limit from above (ascending loop; the mirror image for a descending one) — the number of iterations is bounded by sizes and clamped positions, never by a number the user wrote (`for i := frame.Low; i <= frame.High; i++` with a skip for positions outside the partition spins for ROWS BETWEEN 9223372036854775807 PRECEDING AND CURRENT ROW). Same premise as R-ERR-23",
		Controls: []string{"CtlLoopUserBounds"},
		Run:      ruleErr24})
}

func ruleErr24(c *Ctx) {
	start := len(c.Obs)
	defer func() { c.negControls(start, "okLoopClampedBounds") }()
	e := e19NewBounds(c)
	e.TaintFieldOK = func(f *types.Var) bool { return len(e.FieldStores(f)) <= core.MaxFieldStores }
	e23Premises(c, e)
	seq := e19SeqKey{}
	real := 0
	for _, fn := range e19HandWritten(c, nil) {
		for _, l := range core.NaturalLoops(fn) {
			h := l.Header
			if len(h.Instrs) == 0 || len(h.Succs) != 2 {
				continue
			}
			iff, ok := h.Instrs[len(h.Instrs)-1].(*ssa.If)
			if !ok {
				continue
			}
			cmp, ok := iff.Cond.(*ssa.BinOp)
			if !ok || !e23IsOrdering(cmp.Op) {
				continue
			}
			inT, inF := l.Blocks[h.Succs[0]], l.Blocks[h.Succs[1]]
			if inT == inF {
				continue
			}
			// which side is the induction variable
			var phi *ssa.Phi
			var lim ssa.Value
			op := cmp.Op
			for _, pair := range [][2]ssa.Value{{cmp.X, cmp.Y}, {cmp.Y, cmp.X}} {
				base, _ := core.LinearIndex(pair[0])
				ph, ok := base.(*ssa.Phi)
				if !ok || ph.Block() != h {
					continue
				}
				if _, _, _, _, ok := core.Induction(ph); !ok {
					continue
				}
				if !e24Invariant(pair[1], l, 0) {
					continue
				}
				phi, lim = ph, pair[1]
				if pair[0] == cmp.Y {
					switch op {
					case token.LSS:
						op = token.GTR
					case token.LEQ:
						op = token.GEQ
					case token.GTR:
						op = token.LSS
					case token.GEQ:
						op = token.LEQ
					}
				}
				break
			}
			if phi == nil {
				continue
			}
			if !inT { // the loop continues on the false edge: negate
				switch op {
				case token.LSS:
					op = token.GEQ
				case token.LEQ:
					op = token.GTR
				case token.GTR:
					op = token.LEQ
				case token.GEQ:
					op = token.LSS
				}
			}
			initVal, initConst, initIsConst, step, _ := core.Induction(phi)
			asc := step > 0
			if asc != (op == token.LSS || op == token.LEQ) {
				continue // the test does not bound the direction of travel (not a counted loop)
			}
			tainted := e.Tainted(lim) != nil || (initVal != nil && e.Tainted(initVal) != nil)
			if !tainted {
				continue
			}
			// the entry edge
			var pre *ssa.BasicBlock
			for _, p := range h.Preds {
				if !l.Blocks[p] {
					pre = p
				}
			}
			if pre == nil || len(pre.Instrs) == 0 {
				continue
			}
			at := pre.Instrs[len(pre.Instrs)-1]
			ai := core.ExactAV(float64(initConst))
			if !initIsConst {
				ai = e.Eval(initVal, at, core.KInt)
			}
			al := e.Eval(lim, iff, core.KInt)
			c.Sites++
			c.Touch(fn)
			if !c.P.IsControl(fn) {
				real++
			}
			initLbl := fmt.Sprint(initConst)
			if !initIsConst {
				initLbl = e19ExprLabel(initVal)
			}
			key := seq.key(c, e19KeyFn(c, fn), fmt.Sprintf("loop from %s while %s %s %s runs over a bounded range", initLbl, e19ExprLabel(phi), op, e19ExprLabel(lim)))
			var bad []string
			if ai.Bot || al.Bot {
				c.Ok(key, c.Pos(iff), "the loop is never entered")
				continue
			}
			if asc {
				if math.IsInf(ai.Lo, -1) {
					bad = append(bad, fmt.Sprintf("the start %s is %s: not bounded from below", initLbl, e19FmtAV(ai)))
				}
				if math.IsInf(al.Hi, 1) {
					bad = append(bad, fmt.Sprintf("the limit %s is %s: not bounded from above", e19ExprLabel(lim), e19FmtAV(al)))
				}
			} else {
				if math.IsInf(ai.Hi, 1) {
					bad = append(bad, fmt.Sprintf("the start %s is %s: not bounded from above", initLbl, e19FmtAV(ai)))
				}
				if math.IsInf(al.Lo, -1) {
					bad = append(bad, fmt.Sprintf("the limit %s is %s: not bounded from below", e19ExprLabel(lim), e19FmtAV(al)))
				}
			}
			if len(bad) == 0 {
				c.Ok(key, c.Pos(iff), fmt.Sprintf("start %s, limit %s, step %+d: the trip count is bounded by sizes", e19FmtAV(ai), e19FmtAV(al), step))
				continue
			}
			src := e.Tainted(lim)
			if src == nil && initVal != nil {
				src = e.Tainted(initVal)
			}
			srcTxt := ""
			if src != nil {
				srcTxt = " (user-controlled through " + valueLabel(src) + " at " + c.P.InstrPos(e19InstrOf(src)) + ")"
			}
			c.Bad(key, c.Pos(iff), "the number of iterations depends on a number the user wrote"+srcTxt+": "+joinSemi(bad)+" — a loop that merely skips the positions outside the data still visits them all: csvq hangs (ROWS BETWEEN 9223372036854775807 PRECEDING AND CURRENT ROW). Clamp the bounds to the data before the loop")
		}
	}
	if real == 0 {
		c.Unknown("anchor:counted loops over user-controlled bounds", "-", "cannot-analyse: no counted loop whose bounds depend on a user-controlled integer was found")
	}
}

// e24Invariant: v has the same value in every iteration of l.
func e24Invariant(v ssa.Value, l *core.Loop, d int) bool {
	if d > 5 {
		return false
	}
	if _, ok := v.(*ssa.Const); ok {
		return true
	}
	in, ok := v.(ssa.Instruction)
	if !ok || !l.Blocks[in.Block()] {
		return true // parameter, free variable, or defined outside the loop
	}
	switch x := v.(type) {
	case *ssa.Field:
		return e24Invariant(x.X, l, d+1)
	case *ssa.Convert:
		return e24Invariant(x.X, l, d+1)
	case *ssa.BinOp:
		return e24Invariant(x.X, l, d+1) && e24Invariant(x.Y, l, d+1)
	case *ssa.Call:
		if b, ok := x.Common().Value.(*ssa.Builtin); ok && (b.Name() == "len" || b.Name() == "cap") {
			return e24Invariant(x.Common().Args[0], l, d+1)
		}
	case *ssa.UnOp:
		if x.Op != token.MUL {
			return false
		}
		switch a := x.X.(type) {
		case *ssa.FieldAddr:
			if !e24Invariant(a.X, l, d+1) {
				return false
			}
			f := core.FieldVarOf(a)
			for b := range l.Blocks {
				for _, li := range b.Instrs {
					if st, ok := li.(*ssa.Store); ok {
						if fa, ok := st.Addr.(*ssa.FieldAddr); ok && core.FieldVarOf(fa) == f {
							return false
						}
					}
				}
			}
			return true
		case *ssa.Alloc:
			for b := range l.Blocks {
				for _, li := range b.Instrs {
					if st, ok := li.(*ssa.Store); ok && st.Addr == ssa.Value(a) {
						return false
					}
				}
			}
			return true
		}
	}
	return false
}

func joinSemi(xs []string) string {
	out := ""
	for i, x := range xs {
		if i > 0 {
			out += "; "
		}
		out += x
	}
	return out
}
