package rules

import (
	"fmt"
	"go/token"
	"go/types"
	"sort"

	"golang.org/x/tools/go/ssa"

	"verif/checker/core"
)

// R-IDX-1 — an index that is ADVANCED inside a loop body is re-tested before it is used.
//
// `for i := 0; i < len(s); i++ { … i++; … s[i] … }`: the loop's own condition
// speaks about the value of i at the top of the iteration only. After `i++`,
// `i += k` (or a look-ahead `s[i+1]`) inside the body the index is one (k) past
// what was tested, and a text that ends right there ("%Y%", a trailing escape
// character, an unterminated pair) reads past the end: index out of range →
// internal Fatal Error. The state-machine spelling (`escaped = true; continue`)
// has no such read, which is why the conversion to an indexed loop is a change
// of behaviour that no test of well-formed inputs sees.
//
// Decided per element read s[idx] (string or slice) of hand-written code: when
// idx, followed through `± constant` and through the Phis that merge the arms
// of conditionals, is `P + k` with k ≥ 1 on some path, P being the variable of
// an enclosing loop (a Phi at the loop's header; for `for i := range s` the
// range key), then idx < len(s) is PROVEN at the read by the relational prover
// of R-ERR-11 (dominating comparison of that very value or of a value it is
// derived from by ± constant with len() of the same container, early exits,
// Phi clamps, loop induction). The test of the loop header alone proves
// P < len(s), i.e. only P + k ≤ len(s) + k − 1, and does not discharge.

func init() {
	Register(&Rule{ID: "R-IDX-1", Props: []string{"C19"}, Floor: 0, // the clause forbids an unguarded idiom; today the tree has one guarded instance (encodeText, CRLF look-ahead), which a rewrite may legitimately remove — the controls keep the rule alive
		Doc: "in hand-written csvq code every element read s[idx] of a string or slice whose index is a loop variable ADVANCED inside the loop body (idx = P + k, k ≥ 1, on some path to the read, P a Phi at the header of an enclosing loop or the key of an enclosing range loop — `i++; s[i]`, `s[i+1]`, a conditional `i++` merged by a Phi) is re-tested against the length between the advance and the use: idx < len(s) is proven at the read from a dominating comparison of that very value (or of a value it is derived from by ± constant) with the length of the same container, an early exit, a Phi clamp or loop induction (the prover of R-ERR-11). " +
			"The loop's own condition tests the un-advanced variable only: a text ending in the introducer (a bare '%' at the end of a datetime format, a trailing escape character) would index one past the end → index out of range → internal Fatal Error",
		Controls: []string{"CtlAdvIdxVerbAfterPercent", "CtlAdvIdxConditionalSkip"},
		Run:      ruleAdvIdx1})
}

// advIdxOffsets follows idx to the loop variables it is an advance of: the
// result maps a header Phi of a loop enclosing `at` to the largest constant
// offset with which it reaches idx.
func advIdxOffsets(loops []*core.Loop, idx ssa.Value, at *ssa.BasicBlock) map[*ssa.Phi]int64 {
	out := map[*ssa.Phi]int64{}
	type st struct {
		v   ssa.Value
		off int64
	}
	seen := map[st]bool{}
	var walk func(v ssa.Value, off int64, d int)
	walk = func(v ssa.Value, off int64, d int) {
		if d > 12 || off > 64 || off < -64 {
			return
		}
		base, o := core.LinearIndex(v)
		if base == nil {
			return
		}
		off += o
		k := st{base, off}
		if seen[k] {
			return
		}
		seen[k] = true
		switch x := base.(type) {
		case *ssa.Phi:
			isHeader := false
			for _, l := range loops {
				if l.Header == x.Block() && l.Blocks[at] {
					isHeader = true
				}
			}
			if isHeader {
				o := off
				if x.Comment == "rangeindex" {
					o-- // go/ssa: the key of `for i := range s` is Phi + 1, the Phi starts at -1
				}
				if cur, ok := out[x]; !ok || o > cur {
					out[x] = o
				}
				return
			}
			for _, e := range x.Edges {
				walk(e, off, d+1)
			}
		case *ssa.ChangeType:
			walk(x.X, off, d+1)
		}
	}
	walk(idx, 0, 0)
	return out
}

func advIdxContainer(t types.Type) bool {
	switch u := t.Underlying().(type) {
	case *types.Slice:
		return true
	case *types.Basic:
		return u.Info()&types.IsString != 0
	}
	return false
}

// advIdxLoopOf: the loop whose header holds p.
func advIdxLoopOf(loops []*core.Loop, p *ssa.Phi) *core.Loop {
	for _, l := range loops {
		if l.Header == p.Block() {
			return l
		}
	}
	return nil
}

// advIdxCmp normalises a fact to `x op y` with op one of < ≤ == != (ok=false otherwise).
func advIdxCmp(f core.Fact) (x, y ssa.Value, op token.Token, ok bool) {
	b, isB := f.Cond.(*ssa.BinOp)
	if !isB {
		return nil, nil, 0, false
	}
	op = b.Op
	if f.Neg {
		op = e19Neg(op)
	}
	x, y = b.X, b.Y
	switch op {
	case token.GTR, token.GEQ:
		x, y, op = y, x, e19Flip(op)
	}
	switch op {
	case token.LSS, token.LEQ, token.EQL, token.NEQ:
		return x, y, op, true
	}
	return nil, nil, 0, false
}

// advIdxRunsOver: the loop of p is a scan of `base` — one of its exit tests
// compares the loop variable (± constant, or a merge of it) with the length of
// that very container (± constant). For `for i := range base` this is the
// header test of the range loop.
func advIdxRunsOver(loops []*core.Loop, l *core.Loop, p *ssa.Phi, base ssa.Value) bool {
	for b := range l.Blocks {
		if len(b.Instrs) == 0 {
			continue
		}
		iff, ok := b.Instrs[len(b.Instrs)-1].(*ssa.If)
		if !ok || len(b.Succs) != 2 || (l.Blocks[b.Succs[0]] && l.Blocks[b.Succs[1]]) {
			continue
		}
		cmp, ok := iff.Cond.(*ssa.BinOp)
		if !ok {
			continue
		}
		switch cmp.Op {
		case token.LSS, token.LEQ, token.GTR, token.GEQ, token.EQL, token.NEQ:
		default:
			continue
		}
		for _, sides := range [][2]ssa.Value{{cmp.X, cmp.Y}, {cmp.Y, cmp.X}} {
			lb, _ := core.LinearIndex(sides[1])
			if lb == nil || !e19DenotesLen(lb, base) {
				continue
			}
			if _, has := advIdxOffsets(loops, sides[0], b)[p]; has {
				return true
			}
		}
	}
	return false
}

// advIdxLess proves v + k < len(base) from the facts: a comparison
// `v + a  <|≤|==  L + b` with L denoting len(base) gives v + (a − b) < len(base)
// (for ≤ and ==: v + (a − b − 1) < len(base)). A Phi that merges the arms of a
// conditional (not a loop header) is proven edge by edge with the edge's facts.
func advIdxLess(loops []*core.Loop, v ssa.Value, k int64, base ssa.Value, facts []core.Fact, d int) bool {
	if v == nil || d > 6 {
		return false
	}
	// room: the largest r with v + r < len(base) known; ne: the d with v + d != len(base) known
	room, haveRoom := int64(0), false
	var ne []int64
	for _, f := range facts {
		x, y, op, ok := advIdxCmp(f)
		if !ok {
			continue
		}
		xb, xk := core.LinearIndex(x)
		yb, yk := core.LinearIndex(y)
		if xb == nil || yb == nil {
			continue
		}
		var r int64
		switch {
		case core.SameVal(xb, v) && e19DenotesLen(yb, base):
			r = xk - yk // v + r  op  len
		case op != token.LSS && op != token.LEQ && core.SameVal(yb, v) && e19DenotesLen(xb, base):
			r = yk - xk // == and != are symmetric
		default:
			continue
		}
		switch op {
		case token.NEQ:
			ne = append(ne, r)
			continue
		case token.LEQ, token.EQL:
			r--
		}
		if !haveRoom || r > room {
			room, haveRoom = r, true
		}
	}
	// v + d ≤ len and v + d != len give v + d < len (`i++; if i == len(s) { break }`)
	for range ne {
		for _, d := range ne {
			if haveRoom && room == d-1 {
				room = d
			}
		}
	}
	if haveRoom && k <= room {
		return true
	}
	switch x := v.(type) {
	case *ssa.Phi:
		if advIdxLoopOf(loops, x) != nil {
			return false
		}
		for i, ev := range x.Edges {
			pred := x.Block().Preds[i]
			eb, ek := core.LinearIndex(ev)
			if !advIdxLess(loops, eb, ek+k, base, core.EdgeFacts(pred, x.Block()), d+1) {
				return false
			}
		}
		return len(x.Edges) > 0
	case *ssa.ChangeType:
		b, o := core.LinearIndex(x.X)
		return advIdxLess(loops, b, o+k, base, facts, d+1)
	}
	return false
}

func ruleAdvIdx1(c *Ctx) {
	e := e19NewBounds(c)
	pr := &e19Prover{c: c, e: e, busy: map[e19BusyKey]bool{}}
	seq := e19SeqKey{}
	// the interactive completer (lib/terminal) is outside, as for R-ERR-9: it scans
	// the token list with look-aheads guarded by the field invariant lastIdx = len(tokens) − 1
	for _, fn := range e19HandWritten(c, nil, "lib/terminal") {
		var loops []*core.Loop
		loopsDone := false
		for _, b := range fn.Blocks {
			for _, in := range b.Instrs {
				var base, idx ssa.Value
				switch x := in.(type) {
				case *ssa.Index:
					base, idx = x.X, x.Index
				case *ssa.IndexAddr:
					base, idx = x.X, x.Index
				case *ssa.Lookup:
					base, idx = x.X, x.Index
				default:
					continue
				}
				if !advIdxContainer(base.Type()) {
					continue
				}
				if _, isConst := idx.(*ssa.Const); isConst {
					continue
				}
				if !loopsDone {
					loops, loopsDone = core.NaturalLoops(fn), true
				}
				if len(loops) == 0 {
					continue
				}
				offs := advIdxOffsets(loops, idx, b)
				var adv []*ssa.Phi
				for p, o := range offs {
					if o >= 1 && advIdxRunsOver(loops, advIdxLoopOf(loops, p), p, base) {
						adv = append(adv, p)
					}
				}
				if len(adv) == 0 {
					continue
				}
				sort.Slice(adv, func(i, j int) bool {
					return adv[i].Block().Index < adv[j].Block().Index || (adv[i].Block().Index == adv[j].Block().Index && adv[i].Name() < adv[j].Name())
				})
				p := adv[0]
				c.Sites++
				c.Touch(fn)
				kfn := e19KeyFn(c, fn)
				key := seq.key(c, kfn, fmt.Sprintf("%s[%s] with the loop variable advanced in the body", e19ExprLabel(base), e19ExprLabel(idx)))
				facts := core.FactsAt(b)
				ib, ik := core.LinearIndex(idx)
				if advIdxLess(loops, ib, ik, base, facts, 0) || pr.le(idx, e19Term{base: base}, true, facts, in, 0) {
					c.Ok(key, c.Pos(in), fmt.Sprintf("index = loop variable %s + %d: shown < len(%s) at the read", e19ExprLabel(p), offs[p], e19ExprLabel(base)))
					continue
				}
				c.Bad(key, c.Pos(in), fmt.Sprintf("the index of %s[…] is the loop variable %s advanced by %d inside the body of the loop that scans %s, and it is not re-tested against len(%s) between the advance and the read: the loop condition covers the un-advanced variable only, so a text that ends right after the introducer indexes one past the end — index out of range → internal Fatal Error",
					e19ExprLabel(base), e19ExprLabel(p), offs[p], e19ExprLabel(base), e19ExprLabel(base)))
			}
		}
	}
}
