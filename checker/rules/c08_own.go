package rules

import (
	"fmt"
	"go/token"
	"sort"
	"strings"

	"golang.org/x/tools/go/ssa"

	"verif/checker/core"
)

// R-ISO-7 — a scratch view that is rewritten in place owns its records.
//
// Evaluation functions build private views (NewView() / &View{…}) and run them
// through pipeline stages (Select, Fix, ExtendRecordCapacity, joins …). Several of
// those stages write the elements of view.RecordSet[i] in place. That is harmless
// only while every Record of the scratch view is its own allocation; a record that
// was merely loaded from another view's RecordSet — re-sliced or capped with a
// full slice expression or not — still shares its backing array with that view,
// so the stage rewrites the cells of the row the outer query is evaluating.
//
// Which callees write record elements in place is taken from the code (taint
// engine of R-ISO-1: a store through, an append to or a copy into a slice of type
// query.Record reached from the view parameter, bottom-up through all callees).
// Cells stay shared by design: the writers store Record elements, never Cell
// elements (R-ISO-4).

func init() {
	Register(&Rule{ID: "R-ISO-7", Props: []string{"C14", "C08", "C20"}, Floor: 12,
		Doc:      "for every view object created inside a lib/query function (NewView()/&View{…} or another constructor whose every return is a new View) that receives records: if the function (or a closure of it) writes elements of that view's records in place or hands the view to a callee whose bottom-up summary does (store through / append to / copy into a query.Record reached from the view), then every Record stored into its RecordSet is owned — a slice made here, a Record.Copy / RecordSet.Copy result, the result of a function whose every returned record is owned, or a record moved from a RecordSet that is itself owned; a record loaded from another view's RecordSet, a parameter, or any re-slicing of one (slicing does not create ownership) is foreign. Views that share foreign records but are only read (the per-goroutine windows of EvaluateSequentially) are listed as discharged",
		Controls: []string{"CtlScratchViewSharesRecord", "CtlScratchViewSharesRecordSet"},
		Run:      ruleIso7})
}

type ownEngine struct {
	p       *core.Prog
	recMemo map[*ssa.Function]int // 0 unknown, 1 computing, 2 owned, 3 not
	rsMemo  map[*ssa.Function]int
	fresh   map[*ssa.Function]int // view constructors
}

// freshViewCtor: every returned value is a new View object (or nil).
func (oe *ownEngine) freshViewCtor(f *ssa.Function) bool {
	if f == nil || f.Blocks == nil || !inModule(f) {
		return false
	}
	switch oe.fresh[f] {
	case 1, 2:
		return true
	case 3:
		return false
	}
	res := f.Signature.Results()
	if res.Len() == 0 || !isViewPtr(res.At(0).Type()) {
		oe.fresh[f] = 3
		return false
	}
	oe.fresh[f] = 1
	ok := true
	n := 0
	for _, o := range core.ReturnedValues(f, 0) {
		switch x := o.(type) {
		case *ssa.Const:
		case *ssa.Alloc:
			n++
			if !x.Heap {
				ok = false
			}
		case *ssa.Call, *ssa.Extract:
			call, idx, _ := core.ExtractOf(x)
			if call == nil || idx != 0 || !oe.freshViewCtor(core.StaticCallee(call)) {
				ok = false
			}
			n++
		default:
			ok = false
		}
	}
	if ok && n > 0 {
		oe.fresh[f] = 2
		return true
	}
	oe.fresh[f] = 3
	return false
}

// recordOwned classifies a Record value: "" when owned, else why it is foreign.
func (oe *ownEngine) recordOwned(v ssa.Value, seen map[ssa.Value]bool) string {
	if v == nil || seen[v] {
		return ""
	}
	seen[v] = true
	switch x := v.(type) {
	case *ssa.Const:
		return ""
	case *ssa.MakeSlice:
		return ""
	case *ssa.Phi:
		for _, e := range x.Edges {
			if w := oe.recordOwned(e, seen); w != "" {
				return w
			}
		}
		return ""
	case *ssa.ChangeType:
		return oe.recordOwned(x.X, seen)
	case *ssa.Convert:
		return oe.recordOwned(x.X, seen)
	case *ssa.Slice:
		// slicing (with or without a capacity bound) shares the backing array
		if w := oe.recordOwned(x.X, seen); w != "" {
			return "a re-slicing of " + strings.TrimPrefix(w, "a re-slicing of ")
		}
		return ""
	case *ssa.TypeAssert:
		return oe.recordOwned(x.X, seen)
	case *ssa.Extract:
		if call, ok := x.Tuple.(*ssa.Call); ok {
			return oe.callRecordOwned(call, x.Index, seen)
		}
		if ta, ok := x.Tuple.(*ssa.TypeAssert); ok {
			return oe.recordOwned(ta.X, seen)
		}
		return "a tuple element"
	case *ssa.Call:
		return oe.callRecordOwned(x, 0, seen)
	case *ssa.Alloc:
		// array backing a composite literal Record{…}
		return ""
	case *ssa.UnOp:
		if x.Op != token.MUL {
			return valueLabel(v)
		}
		switch a := x.X.(type) {
		case *ssa.Alloc, *ssa.FreeVar:
			vals, complete := core.StoresTo(rootCellOf(a))
			if !complete || len(vals) == 0 {
				return "variable " + valueLabel(v)
			}
			for _, s := range vals {
				if w := oe.recordOwned(s, seen); w != "" {
					return w
				}
			}
			return ""
		case *ssa.IndexAddr:
			// an element of a record set: owned iff that record set owns its records
			if isQueryNamed(a.X.Type(), "RecordSet") || isSlice(a.X.Type()) {
				if w := oe.recordSetOwned(a.X, map[ssa.Value]bool{}); w != "" {
					return "a record loaded from " + w
				}
				return ""
			}
		}
		return "a record loaded from " + addrDesc(x.X)
	case *ssa.Parameter:
		return "parameter " + x.Name()
	}
	return valueLabel(v)
}

func (oe *ownEngine) callRecordOwned(call *ssa.Call, idx int, seen map[ssa.Value]bool) string {
	p := oe.p
	if bi, ok := call.Common().Value.(*ssa.Builtin); ok {
		if bi.Name() == "append" && len(call.Common().Args) > 0 {
			return oe.recordOwned(call.Common().Args[0], seen) // growing keeps or replaces the first operand's array
		}
		return "builtin " + bi.Name()
	}
	name := p.CalleeName(call)
	if name == "lib/query.(Record).Copy" {
		return ""
	}
	if name == "(*sync.Pool).Get" {
		return "" // scratch records handed out by a pool are not part of any view
	}
	f := core.StaticCallee(call)
	if f == nil || f.Blocks == nil || !inModule(f) {
		return "the result of " + callDesc(p, call)
	}
	if idx != 0 {
		return "result #" + fmt.Sprint(idx) + " of " + p.FnRef(f)
	}
	switch oe.recMemo[f] {
	case 1, 2:
		return ""
	case 3:
		return "the result of " + p.FnRef(f) + ", which can return a record it did not allocate"
	}
	oe.recMemo[f] = 1
	why := ""
	for _, o := range core.ReturnedValues(f, 0) {
		if w := oe.recordOwned(o, map[ssa.Value]bool{}); w != "" {
			why = w
		}
	}
	if why == "" {
		oe.recMemo[f] = 2
		return ""
	}
	oe.recMemo[f] = 3
	return "the result of " + p.FnRef(f) + ", which can return " + why
}

// recordSetOwned classifies a RecordSet (or []Record) value: "" when every record in it is owned.
func (oe *ownEngine) recordSetOwned(v ssa.Value, seen map[ssa.Value]bool) string {
	if v == nil || seen[v] {
		return ""
	}
	seen[v] = true
	switch x := v.(type) {
	case *ssa.Const:
		return ""
	case *ssa.MakeSlice, *ssa.Alloc:
		elems, spreads, ok := rsContents(v)
		if !ok {
			return "a record set filled by copy()"
		}
		for _, e := range elems {
			if w := oe.recordOwned(e, map[ssa.Value]bool{}); w != "" {
				return "a record set holding " + w
			}
		}
		for _, sp := range spreads {
			if w := oe.recordSetOwned(sp, seen); w != "" {
				return "a record set that received all records of " + w
			}
		}
		return ""
	case *ssa.Extract:
		if call, ok := x.Tuple.(*ssa.Call); ok && x.Index == 0 {
			return oe.recordSetOwned(call, seen)
		}
		return "a tuple element"
	case *ssa.Phi:
		for _, e := range x.Edges {
			if w := oe.recordSetOwned(e, seen); w != "" {
				return w
			}
		}
		return ""
	case *ssa.ChangeType:
		return oe.recordSetOwned(x.X, seen)
	case *ssa.Slice:
		return oe.recordSetOwned(x.X, seen)
	case *ssa.Call:
		p := oe.p
		if bi, ok := x.Common().Value.(*ssa.Builtin); ok {
			if bi.Name() == "append" {
				for _, a := range x.Common().Args {
					if w := oe.recordSetOwned(a, seen); w != "" {
						return w
					}
				}
				return ""
			}
			return "builtin " + bi.Name()
		}
		if p.CalleeName(x) == "lib/query.(RecordSet).Copy" {
			return ""
		}
		f := core.StaticCallee(x)
		if f == nil || f.Blocks == nil || !inModule(f) {
			return "the record set returned by " + callDesc(p, x)
		}
		switch oe.rsMemo[f] {
		case 1, 2:
			return ""
		case 3:
			return "the record set returned by " + p.FnRef(f) + ", whose records are not copies"
		}
		oe.rsMemo[f] = 1
		why := ""
		for _, o := range core.ReturnedValues(f, 0) {
			if w := oe.recordSetOwned(o, map[ssa.Value]bool{}); w != "" {
				why = w
			}
		}
		if why == "" {
			oe.rsMemo[f] = 2
			return ""
		}
		oe.rsMemo[f] = 3
		return "the record set returned by " + p.FnRef(f) + " (" + why + ")"
	case *ssa.UnOp:
		if x.Op != token.MUL {
			return valueLabel(v)
		}
		switch a := x.X.(type) {
		case *ssa.Alloc, *ssa.FreeVar:
			vals, complete := core.StoresTo(rootCellOf(a))
			if !complete || len(vals) == 0 {
				// a slice variable also grown through its address (e.g. append in a closure)
				return "variable " + valueLabel(v)
			}
			for _, s := range vals {
				if w := oe.recordSetOwned(s, seen); w != "" {
					return w
				}
			}
			return ""
		case *ssa.FieldAddr:
			if core.FieldName(a) == "RecordSet" && isQueryNamed(a.X.Type(), "View") {
				return "the RecordSet of another view (" + valueLabel(a.X) + ")"
			}
		case *ssa.IndexAddr:
			return oe.recordSetOwned(a.X, seen) // element of a list of record sets
		}
		return "the record set loaded from " + addrDesc(x.X)
	case *ssa.Parameter:
		return "parameter " + x.Name()
	}
	return valueLabel(v)
}

func ruleIso7(c *Ctx) {
	p := c.P
	e := engineFor(p)
	oe := &ownEngine{p: p, recMemo: map[*ssa.Function]int{}, rsMemo: map[*ssa.Function]int{}, fresh: map[*ssa.Function]int{}}
	for _, fn := range p.FuncsIn(true, "lib/query") {
		// fresh view objects of fn
		var roots []ssa.Value
		for _, b := range fn.Blocks {
			for _, in := range b.Instrs {
				switch x := in.(type) {
				case *ssa.Alloc:
					if x.Heap && isQueryNamed(x.Type(), "View") && isViewPtr(x.Type()) {
						roots = append(roots, x)
					}
				case *ssa.Call:
					if isViewPtr(x.Type()) && oe.freshViewCtor(core.StaticCallee(x)) {
						roots = append(roots, x)
					}
				}
			}
		}
		n := 0
		for _, w := range roots {
			r := e.analyse(fn, map[ssa.Value]tk{w: tkRaw})
			// records put into W's RecordSet
			var foreign []string
			nsrc := 0
			for v := range r.vals {
				switch x := v.(type) {
				case *ssa.FieldAddr:
					if core.FieldName(x) != "RecordSet" || !isQueryNamed(x.X.Type(), "View") || r.vals[v] != tkRaw {
						continue
					}
					for _, rr := range *x.Referrers() {
						st, ok := rr.(*ssa.Store)
						if !ok || st.Addr != x {
							continue
						}
						// self-assignment (view.RecordSet = view.RecordSet[:n]) adds nothing
						if ld := fxFieldLoad(core.Strip(stripSlices(st.Val))); ld != nil && r.vals[ld] != tkNone && core.FieldName(ld) == "RecordSet" {
							continue
						}
						if core.IsNilConst(st.Val) {
							continue
						}
						nsrc++
						if why := oe.recordSetOwned(st.Val, map[ssa.Value]bool{}); why != "" {
							foreign = append(foreign, fmt.Sprintf("%s: RecordSet = %s", c.Pos(st), why))
						}
					}
				case *ssa.IndexAddr:
					if !isQueryNamed(x.X.Type(), "RecordSet") || r.vals[v] != tkRaw {
						continue
					}
					for _, rr := range *x.Referrers() {
						st, ok := rr.(*ssa.Store)
						if !ok || st.Addr != x {
							continue
						}
						nsrc++
						if why := oe.recordOwned(st.Val, map[ssa.Value]bool{}); why != "" {
							foreign = append(foreign, fmt.Sprintf("%s: RecordSet[i] = %s", c.Pos(st), why))
						}
					}
				}
			}
			if nsrc == 0 {
				continue // a view that never receives records here
			}
			n++
			c.Touch(fn)
			c.Sites++
			key := c.KeyAt(fn, fmt.Sprintf("records of scratch view #%d", n))
			pos := c.Pos(w.(ssa.Instruction))
			var writers []string
			for _, s := range r.recs {
				writers = append(writers, fmt.Sprintf("%s: %s", c.Pos(s.in), s.what))
			}
			sort.Strings(writers)
			sort.Strings(foreign)
			switch {
			case len(foreign) == 0 && len(writers) == 0:
				c.Ok(key, pos, fmt.Sprintf("%d record source(s), all owned; nothing here writes its record elements in place", nsrc))
			case len(foreign) == 0:
				c.Ok(key, pos, fmt.Sprintf("%d record source(s), all owned (made here or copies); %d in-place writer(s) work on private records", nsrc, len(writers)))
			case len(writers) == 0:
				c.Ok(key, pos, "its records are not (provably) its own ("+strings.Join(dedup(foreign), "; ")+") but neither this function nor any callee it hands the view to writes elements of its records in place: a read-only window")
			default:
				c.Bad(key, pos, "the view built here does not own its records — "+strings.Join(dedup(foreign), "; ")+" — and is rewritten in place: "+strings.Join(dedup(writers), "; ")+" — the cells of the row the surrounding query is evaluating (or of the source view) are overwritten although the expression only reads them")
			}
		}
	}
}

// stripSlices removes re-slicing.
func stripSlices(v ssa.Value) ssa.Value {
	for {
		s, ok := v.(*ssa.Slice)
		if !ok {
			return v
		}
		v = s.X
	}
}

// rsContents collects what is put into the record set made by `base`: single
// records (element stores, appended elements) and whole record sets appended
// with append(x, y...); ok=false when copy() fills it.
func rsContents(base ssa.Value) (elems, spreads []ssa.Value, ok bool) {
	ok = true
	seen := map[ssa.Value]bool{}
	var scan func(v ssa.Value)
	scan = func(v ssa.Value) {
		if seen[v] {
			return
		}
		seen[v] = true
		refs := v.Referrers()
		if refs == nil {
			return
		}
		for _, r := range *refs {
			switch y := r.(type) {
			case *ssa.IndexAddr:
				if y.X != v {
					continue
				}
				for _, rr := range *y.Referrers() {
					if st, isSt := rr.(*ssa.Store); isSt && st.Addr == y {
						elems = append(elems, st.Val)
					}
				}
			case *ssa.Slice:
				if y.X == v {
					scan(y)
				}
			case *ssa.Phi:
				scan(y)
			case *ssa.ChangeType:
				scan(y)
			case *ssa.Store:
				if y.Val == v {
					if a, isA := y.Addr.(*ssa.Alloc); isA {
						var visit func(c ssa.Value)
						visit = func(c ssa.Value) {
							for _, rr := range *c.Referrers() {
								switch z := rr.(type) {
								case *ssa.UnOp:
									if z.Op == token.MUL {
										scan(z)
									}
								case *ssa.MakeClosure:
									fn, _ := z.Fn.(*ssa.Function)
									for i, b := range z.Bindings {
										if b == c && fn != nil && i < len(fn.FreeVars) {
											visit(fn.FreeVars[i])
										}
									}
								}
							}
						}
						visit(a)
					}
				}
			case ssa.CallInstruction:
				b, isB := y.Common().Value.(*ssa.Builtin)
				if !isB {
					continue
				}
				args := y.Common().Args
				switch b.Name() {
				case "append":
					if len(args) == 2 && args[0] == v {
						if sl, isSl := args[1].(*ssa.Slice); isSl {
							if arr, isArr := sl.X.(*ssa.Alloc); isArr {
								for _, rr := range *arr.Referrers() {
									if ia, isIA := rr.(*ssa.IndexAddr); isIA {
										for _, r3 := range *ia.Referrers() {
											if st, isSt := r3.(*ssa.Store); isSt && st.Addr == ia {
												elems = append(elems, st.Val)
											}
										}
									}
								}
							} else {
								spreads = append(spreads, args[1])
							}
						} else if !core.IsNilConst(args[1]) {
							spreads = append(spreads, args[1])
						}
						if cv, isV := y.(ssa.Value); isV {
							scan(cv)
						}
					}
				case "copy":
					if len(args) == 2 && args[0] == v {
						spreads = append(spreads, args[1]) // every record of the source moves in
					}
				}
			}
		}
	}
	scan(base)
	return
}
