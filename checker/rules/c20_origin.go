package rules

import (
	"fmt"
	"go/token"
	"go/types"
	"sort"
	"strings"

	"golang.org/x/tools/go/ssa"

	"verif/checker/core"
)

// R-LOCK-9 — forUpdate is not invented (C20: a table the transaction loaded with a
// plain SELECT is re-read from disk only when the transaction is about to change
// it; C09: nothing is locked exclusively that the statement did not ask for).
//
// R-LOCK-8 decides that the flag is never weakened on its way down. This rule
// decides the other direction: the flag is never strengthened. The decision "load
// for update" has exactly two sources — the text of the statement (FOR UPDATE,
// kept by the parser in SelectQuery.Context and asked by query.Select) and being
// the table a data-changing statement is about to write (the DML / DDL functions
// that pass the constant true to the loaders). Added after seeded change C20-14
// (DESIGN §8): the helper behind INSERT … SELECT marked its by-value copy of the
// source query FOR UPDATE before evaluating it.

func init() {
	Register(&Rule{ID: "R-LOCK-9", Props: []string{"C20", "C09"}, Floor: 28,
		Doc:      "forUpdate is not invented: (1) in every lib/query function that has a bool parameter forUpdate, each call of a function with such a parameter passes a value that is false whenever the caller's own forUpdate is false — the parameter itself (also through a cell only it is stored into), constant false, a conjunction with it, or a phi whose other edges are taken only when the parameter is true; (2) a function without the parameter that calls one with it is an origin: it passes constant false (read-only load), or the result of (parser.SelectQuery).IsForUpdate() applied to a query value that the function has not written to, and only in the listed function that evaluates a statement's own text (query.Select), or constant true, and only in the frozen table of data-changing functions, each of which loads the table it is going to write (Insert, Update, Replace, Delete, AddColumns, DropColumns, RenameColumn, SetTableAttribute); (3) who-may-store: the field SelectQuery.Context (what IsForUpdate reads) is stored only by the grammar actions of lib/parser — outside them a store into it, or into a part of it, is accepted only when the value is a copy of another query's Context; no function of lib/query marks a query it evaluates FOR UPDATE",
		Controls: []string{"CtlLock9MarksSourceQuery", "CtlLock9OriginTrue", "CtlLock9ChainForcesTrue", "CtlLock9AsksModifiedQuery"},
		Run:      ruleLock9})
}

// lock9TrueOrigins: who may pass the constant true to a loader, and why.
var lock9TrueOrigins = map[string]string{
	"lib/query.Insert":            "INSERT appends to its target table: the target is loaded under the update lock",
	"lib/query.Update":            "UPDATE rewrites tables of its own FROM clause: they are loaded under the update lock",
	"lib/query.Replace":           "REPLACE rewrites its target table",
	"lib/query.Delete":            "DELETE rewrites tables of its own FROM clause",
	"lib/query.AddColumns":        "ALTER TABLE ADD rewrites its target table",
	"lib/query.DropColumns":       "ALTER TABLE DROP rewrites its target table",
	"lib/query.RenameColumn":      "ALTER TABLE RENAME rewrites its target table",
	"lib/query.SetTableAttribute": "ALTER TABLE SET rewrites the attributes of its target table at COMMIT",
}

// lock9TextOrigins: who may turn the statement's own FOR UPDATE into the flag.
var lock9TextOrigins = map[string]string{
	"lib/query.Select": "evaluates one SELECT query and asks that query's own text",
}

// lock9ContextWriters: who may store SelectQuery.Context.
var lock9ContextWriters = map[string]string{
	"lib/parser.(*yyParserImpl).Parse": "the grammar actions build the query from the statement text",
}

const lock9CtxField = "lib/parser.SelectQuery.Context"

// lock9NotStronger: value v is false whenever param is false.
func lock9NotStronger(v ssa.Value, param *ssa.Parameter, seen map[ssa.Value]bool) bool {
	if v == nil {
		return false
	}
	if seen[v] {
		return true
	}
	seen[v] = true
	if lock8IsParam(v, param) {
		return true
	}
	if b, ok := core.ConstBool(v); ok {
		return !b
	}
	switch x := v.(type) {
	case *ssa.Phi:
		for i, e := range x.Edges {
			if lock9NotStronger(e, param, seen) {
				continue
			}
			// the edge is taken only when the parameter is true
			pred := x.Block().Preds[i]
			onlyTrue := false
			for _, f := range core.EdgeFacts(pred, x.Block()) {
				if lock8IsParam(f.Cond, param) && !f.Neg {
					onlyTrue = true
				}
			}
			if !onlyTrue {
				return false
			}
		}
		return true
	case *ssa.UnOp:
		if x.Op == token.MUL {
			switch cell := x.X.(type) {
			case *ssa.Alloc, *ssa.FreeVar:
				vals, complete := core.StoresTo(cell)
				if !complete || len(vals) == 0 {
					return false
				}
				for _, s := range vals {
					if pa, ok := s.(*ssa.Parameter); ok && pa.Name() == "forUpdate" {
						continue
					}
					if !lock9NotStronger(s, param, seen) {
						return false
					}
				}
				return true
			}
		}
	case *ssa.BinOp:
		if x.Op == token.AND || x.Op == token.LAND {
			return lock9NotStronger(x.X, param, seen) || lock9NotStronger(x.Y, param, seen)
		}
		if x.Op == token.OR || x.Op == token.LOR {
			return lock9NotStronger(x.X, param, seen) && lock9NotStronger(x.Y, param, seen)
		}
	}
	return false
}

// lock9IsForUpdateCalls: the IsForUpdate calls v is computed from; only = v is nothing
// but such a call (or the constant false).
// lock9OwnOrText: v is a φ each of whose edges is no stronger than the function's own flag, or the
// constant true arriving over an edge that is taken only under the true branch of IsForUpdate asked of
// a pristine query value (`if query.IsForUpdate() { forUpdate = true }`).
func lock9OwnOrText(p *core.Prog, v ssa.Value, param *ssa.Parameter) bool {
	phi, ok := v.(*ssa.Phi)
	if !ok {
		return false
	}
	text := false
	for i, e := range phi.Edges {
		if lock9NotStronger(e, param, map[ssa.Value]bool{}) {
			continue
		}
		if b, isConst := core.ConstBool(e); !isConst || !b {
			return false
		}
		asked := false
		for _, f := range core.EdgeFacts(phi.Block().Preds[i], phi.Block()) {
			call, isCall := f.Cond.(*ssa.Call)
			if isCall && !f.Neg && p.CalleeName(call) == "lib/parser.(SelectQuery).IsForUpdate" && len(call.Call.Args) > 0 && lock9Pristine(call.Call.Args[0]) {
				asked = true
			}
		}
		if !asked {
			return false
		}
		text = true
	}
	return text
}

func lock9IsForUpdateCalls(p *core.Prog, v ssa.Value) (out []*ssa.Call, only bool) {
	only = true
	for _, o := range core.Origins(v, false) {
		if call, ok := o.(*ssa.Call); ok && p.CalleeName(call) == "lib/parser.(SelectQuery).IsForUpdate" {
			out = append(out, call)
			continue
		}
		if b, isConst := core.ConstBool(o); isConst && !b {
			continue
		}
		only = false
	}
	return
}

// lock9Pristine: the query value asked is not a local copy the function writes to:
// none of its origins is a load of a local cell (a by-value parameter or variable is
// spilled into a cell exactly when a part of it is assigned or its address is taken).
func lock9Pristine(v ssa.Value) bool {
	for _, o := range core.Origins(v, false) {
		if u, ok := o.(*ssa.UnOp); ok && u.Op == token.MUL {
			switch cell := u.X.(type) {
			case *ssa.Alloc, *ssa.FreeVar:
				if lock9CellWritten(cell, map[ssa.Value]bool{}) {
					return false
				}
			}
		}
	}
	return true
}

// lock9CellWritten: something other than the spill of a parameter is stored into the
// local cell or into a part of it, or its address leaves the function (a struct that
// lives in a cell is also READ through FieldAddr, which is not a write).
func lock9CellWritten(cell ssa.Value, seen map[ssa.Value]bool) bool {
	if seen[cell] {
		return false
	}
	seen[cell] = true
	if fv, ok := cell.(*ssa.FreeVar); ok {
		// the variable of an enclosing function: decide on the root cell
		fn := fv.Parent()
		for i, x := range fn.FreeVars {
			if x != fv || fn.Parent() == nil {
				continue
			}
			for _, b := range fn.Parent().Blocks {
				for _, in := range b.Instrs {
					if mc, ok := in.(*ssa.MakeClosure); ok && mc.Fn == ssa.Value(fn) && i < len(mc.Bindings) {
						if lock9CellWritten(mc.Bindings[i], seen) {
							return true
						}
					}
				}
			}
		}
	}
	refs := cell.Referrers()
	if refs == nil {
		return true
	}
	for _, r := range *refs {
		switch x := r.(type) {
		case *ssa.Store:
			if x.Addr != cell {
				return true // the address itself is stored
			}
			if _, isParam := x.Val.(*ssa.Parameter); !isParam {
				if _, isAlloc := cell.(*ssa.Alloc); isAlloc && x.Val.Type() == cell.Type().Underlying().(*types.Pointer).Elem() && lock9Pristine(x.Val) && !lock9HasFieldParent(cell) {
					continue // a whole-value copy of an untouched query
				}
				return true
			}
		case *ssa.UnOp, *ssa.DebugRef:
		case *ssa.FieldAddr:
			if lock9CellWritten(x, seen) {
				return true
			}
		case *ssa.IndexAddr:
			if lock9CellWritten(x, seen) {
				return true
			}
		case *ssa.MakeClosure:
			fn, _ := x.Fn.(*ssa.Function)
			for i, b := range x.Bindings {
				if b == cell && fn != nil && i < len(fn.FreeVars) {
					if lock9CellWritten(fn.FreeVars[i], seen) {
						return true
					}
				}
			}
		default:
			return true // address passed to a call, converted, …
		}
	}
	return false
}

func lock9HasFieldParent(v ssa.Value) bool {
	switch v.(type) {
	case *ssa.FieldAddr, *ssa.IndexAddr:
		return true
	}
	return false
}

// lock9ThroughContext: the address written by a store lies in the Context field of
// a SelectQuery (the field itself, or a field / element of it).
func lock9ThroughContext(addr ssa.Value) bool {
	for i := 0; i < 6 && addr != nil; i++ {
		switch x := addr.(type) {
		case *ssa.FieldAddr:
			if core.FieldOwner(x) == lock9CtxField {
				return true
			}
			addr = x.X
		case *ssa.IndexAddr:
			addr = x.X
		default:
			return false
		}
	}
	return false
}

// lock9IsContextCopy: the stored value is read from the Context of a SelectQuery.
func lock9IsContextCopy(v ssa.Value) bool {
	os := core.Origins(v, false)
	if len(os) == 0 {
		return false
	}
	for _, o := range os {
		switch x := o.(type) {
		case *ssa.Field:
			if core.FieldOwner(x) != lock9CtxField {
				return false
			}
		case *ssa.UnOp:
			fa, ok := x.X.(*ssa.FieldAddr)
			if !ok || x.Op != token.MUL || core.FieldOwner(fa) != lock9CtxField {
				return false
			}
		default:
			return false
		}
	}
	return true
}

func lock9Outer(fn *ssa.Function) *ssa.Function {
	for fn.Parent() != nil {
		fn = fn.Parent()
	}
	return fn
}

func ruleLock9(c *Ctx) {
	p := c.P
	if c.Fn(lock7Prim) == nil {
		return
	}
	start := len(c.Obs)
	var fns []*ssa.Function
	fns = append(fns, p.FuncsIn(false, "lib/query")...)
	fns = append(fns, txnCtl(c, "Lock9")...)

	type origin struct {
		fn   *ssa.Function
		call *ssa.Call
		arg  ssa.Value
		k    *ssa.Function
	}
	var origins []origin
	nChain := 0
	seenText := map[string]bool{}
	// textBody: fn is a listed statement-text origin or the function such an origin hands all its work to
	textBody := func(fn *ssa.Function) string {
		if _, ok := lock9TextOrigins[p.Name(fn)]; ok {
			return p.Name(fn)
		}
		for _, n := range sortedKeys(lock9TextOrigins) {
			if lf := p.Func(n); lf != nil && thinDelegate(lf) == fn {
				return n
			}
		}
		return ""
	}
	for _, fn := range fns {
		own := lock8OwnParam(fn)
		ord := map[string]int{}
		for _, call := range core.Calls(fn) {
			cc, ok := call.(*ssa.Call)
			if !ok {
				continue
			}
			k := core.StaticCallee(cc)
			if k == nil || !txnIsSrc(p, k) {
				continue
			}
			j := lock7ForUpdateParam(k)
			if j < 0 || j >= len(cc.Call.Args) {
				continue
			}
			arg := cc.Call.Args[j]
			if own == nil {
				origins = append(origins, origin{fn, cc, arg, k})
				continue
			}
			// (1) the chain does not strengthen the flag
			nChain++
			c.Sites++
			c.Touch(fn)
			key := txnOrd(ord, c.KeyAt(fn, "forUpdate handed to "+p.FnRef(k)+" is not invented"))
			if lock9NotStronger(arg, own, map[ssa.Value]bool{}) {
				c.Ok(key, c.Pos(cc), "passes its own forUpdate, the constant false, or a value that is false whenever its own forUpdate is false")
			} else if n := textBody(fn); n != "" && lock9OwnOrText(p, arg, own) {
				seenText[n] = true
				c.Ok(key, c.Pos(cc), "statement-text origin with a flag of its own ("+lock9TextOrigins[n]+"): the value is the function's own forUpdate, made true only under the true branch of IsForUpdate of a query value this function does not write to")
			} else {
				c.Bad(key, c.Pos(cc), fmt.Sprintf("the function is called with forUpdate but hands %s to %s: this value can be true when the caller asked for a plain read, so a table that the transaction only reads is opened for update — a copy cached by an earlier SELECT is disposed and re-read from disk (the transaction sees what another process committed in between) and the file stays exclusively locked until COMMIT / ROLLBACK", lock8ValueLabel(arg), p.FnRef(k)))
			}
		}
	}
	if nChain == 0 {
		c.Unknown("forUpdate chain", "-", "cannot-analyse: no lib/query function with a forUpdate parameter calls another one any more")
		return
	}

	// a private helper of listed functions: every static call site (at least one) lies in a function of
	// the table or in such a helper — extracting "load the target" out of Insert makes no new origin
	callers := map[*ssa.Function][]*ssa.Function{}
	for _, fn := range p.SrcFuncs() {
		for _, call := range core.Calls(fn) {
			if g := call.Common().StaticCallee(); g != nil {
				callers[g] = append(callers[g], lock9Outer(fn))
			}
		}
	}
	var listedVia func(table map[string]string, fn *ssa.Function, depth int) string
	listedVia = func(table map[string]string, fn *ssa.Function, depth int) string {
		fn = lock9Outer(fn)
		if _, ok := table[p.Name(fn)]; ok {
			return p.Name(fn)
		}
		// the function a listed function hands all its work to (`func Select(…) { return selectQuery(…, false) }`)
		// is that function's body, whoever else enters it
		for _, n := range sortedKeys(table) {
			if lf := p.Func(n); lf != nil && thinDelegate(lf) == fn {
				return n
			}
		}
		if depth > 3 || len(callers[fn]) == 0 || p.IsControl(fn) {
			return ""
		}
		var via []string
		for _, k := range callers[fn] {
			if k == fn {
				continue
			}
			e := listedVia(table, k, depth+1)
			if e == "" {
				return ""
			}
			via = append(via, e)
		}
		sort.Strings(via)
		if len(via) == 0 {
			return ""
		}
		return via[0]
	}

	// (2) origins
	sort.SliceStable(origins, func(i, j int) bool { return p.Name(origins[i].fn) < p.Name(origins[j].fn) })
	ord := map[string]int{}
	seenTrue := map[string]bool{}
	for _, o := range origins {
		c.Sites++
		c.Touch(o.fn)
		outer := p.Name(lock9Outer(o.fn))
		key := txnOrd(ord, c.KeyAt(o.fn, "origin of forUpdate for "+p.FnRef(o.k)))
		if b, isConst := core.ConstBool(o.arg); isConst {
			if !b {
				c.Ok(key, c.Pos(o.call), "read-only origin: constant false")
				continue
			}
			if e := listedVia(lock9TrueOrigins, o.fn, 0); e != "" {
				for _, k := range append(callers[lock9Outer(o.fn)], lock9Outer(o.fn)) {
					if _, ok := lock9TrueOrigins[p.Name(k)]; ok {
						seenTrue[p.Name(k)] = true
					}
				}
				why := lock9TrueOrigins[e]
				if e != outer {
					why = "private helper of the listed functions (" + e + " …): " + why
				}
				c.Ok(key, c.Pos(o.call), "listed data-changing origin: "+why)
				continue
			}
			c.Bad(key, c.Pos(o.call), fmt.Sprintf("%s passes the constant true to %s but is not one of the data-changing functions that load the table they are going to write (%s): a table the statement only reads is opened for update — if an earlier SELECT of the transaction cached it, the copy is disposed and the file re-read (the transaction sees another process's commit in the middle), and the file stays exclusively locked until the transaction ends", outer, p.FnRef(o.k), lock9Names(lock9TrueOrigins)))
			continue
		}
		if asks, only := lock9IsForUpdateCalls(p, o.arg); len(asks) > 0 {
			if !only {
				c.Bad(key, c.Pos(o.call), fmt.Sprintf("%s combines the query's own FOR UPDATE with something else into the value %s it passes to %s: the flag can be true although neither the statement text asks for it nor a data-changing statement is about to write the table", outer, o.arg.Name(), p.FnRef(o.k)))
				continue
			}
			via := listedVia(lock9TextOrigins, o.fn, 0)
			why, listed := lock9TextOrigins[via]
			if !listed && !p.IsControl(o.fn) {
				c.Bad(key, c.Pos(o.call), fmt.Sprintf("%s decides forUpdate from a query's FOR UPDATE context but is not the listed evaluator of a statement's own text (%s)", outer, lock9Names(lock9TextOrigins)))
				continue
			}
			pristine := true
			for _, a := range asks {
				if len(a.Call.Args) == 0 || !lock9Pristine(a.Call.Args[0]) {
					pristine = false
				}
			}
			if !pristine {
				c.Bad(key, c.Pos(o.call), "IsForUpdate is asked of a local copy of the query that this function writes to: the answer is no longer what the statement's text says")
				continue
			}
			seenText[via] = true
			if why == "" {
				why = "control"
			}
			c.Ok(key, c.Pos(o.call), "statement-text origin ("+why+"): IsForUpdate of a query value this function does not write to")
			continue
		}
		c.Bad(key, c.Pos(o.call), fmt.Sprintf("%s has no forUpdate parameter and passes the computed value %s to %s: the decision to load for update has two sources only — the statement's own FOR UPDATE (query.Select) and being the target of a data-changing statement (constant true in %s)", outer, o.arg.Name(), p.FnRef(o.k), lock9Names(lock9TrueOrigins)))
	}
	for _, n := range sortedKeys(lock9TrueOrigins) {
		if !seenTrue[n] {
			c.Unknown("table:"+n, "-", "cannot-analyse: the listed data-changing origin "+n+" no longer passes the constant true to a loader (table entry is stale)")
		}
	}
	for _, n := range sortedKeys(lock9TextOrigins) {
		if !seenText[n] {
			c.Unknown("table:"+n, "-", "cannot-analyse: the listed statement-text origin "+n+" no longer derives forUpdate from IsForUpdate (table entry is stale)")
		}
	}

	// (3) who may store SelectQuery.Context
	var all []*ssa.Function
	all = append(all, p.SrcFuncs()...)
	nStores := 0
	for _, fn := range all {
		if p.IsControl(fn) && !strings.Contains(p.Name(fn), "Lock9") {
			continue
		}
		ord := map[string]int{}
		for _, b := range fn.Blocks {
			for _, in := range b.Instrs {
				st, ok := in.(*ssa.Store)
				if !ok || !lock9ThroughContext(st.Addr) {
					continue
				}
				nStores++
				c.Touch(fn)
				key := txnOrd(ord, c.KeyAt(fn, "store into SelectQuery.Context"))
				outer := p.Name(lock9Outer(fn))
				if why, listed := lock9ContextWriters[outer]; listed {
					c.Ok(key, c.Pos(st), "listed writer: "+why)
					continue
				}
				if lock9IsContextCopy(st.Val) {
					c.Ok(key, c.Pos(st), "copies the Context of another query value")
					continue
				}
				c.Bad(key, c.Pos(st), fmt.Sprintf("%s stores into SelectQuery.Context, which is what IsForUpdate reads: only the parser sets it, from the statement text. A query marked FOR UPDATE here makes query.Select open every table of its FROM clause for update although the statement did not ask for it and the transaction does not change them — a copy that an earlier SELECT cached is disposed and re-read from disk (cacheViewFromFile: forUpdate && !cachedForUpdate), so the table changes in the middle of the transaction, and it stays exclusively locked until COMMIT / ROLLBACK", outer))
			}
		}
	}
	if nStores == 0 {
		c.Unknown("SelectQuery.Context writers", "-", "cannot-analyse: no store into lib/parser.SelectQuery.Context found (not even in the grammar actions)")
	}
	c.negControls(start, "okLock9CopiesContext", "okLock9Propagates", "okLock9ReadOnlyOrigin", "okLock9AsksOwnQuery")
}

func sortedKeys(m map[string]string) []string {
	out := make([]string, 0, len(m))
	for k := range m {
		out = append(out, k)
	}
	sort.Strings(out)
	return out
}

func lock9Names(m map[string]string) string {
	ks := sortedKeys(m)
	for i, k := range ks {
		ks[i] = strings.TrimPrefix(k, "lib/query.")
	}
	return strings.Join(ks, ", ")
}
