package rules

// R-UTF-1 (seventh round, D80): a byte is not a character.

import (
	"fmt"
	"go/types"
	"strings"

	"golang.org/x/tools/go/ssa"

	"verif/checker/core"
)

func init() {
	Register(&Rule{ID: "R-UTF-1", Props: []string{"C06", "C03"}, Floor: 0,
		Doc:      "a byte is not a character: in the hand-written packages of csvq no character-class predicate of package unicode (IsSpace, IsLetter, IsDigit, IsUpper, …, In, Is) is applied to a value that is a single byte of a string or []byte converted to rune (rune(s[i])): the leading byte of a multi-byte character is classified as some Latin-1 letter, a continuation byte as a control or space character — a text that begins with a no-break or ideographic space is then treated differently from one that ends with it (trimming decides what counts as a number). The expected count on a healthy tree is zero; the positive control keeps the rule alive",
		Controls: []string{"ctlUtfByteAsRune"},
		Run:      ruleUtf1})
}

func ruleUtf1(c *Ctx) {
	isByteElem := func(v ssa.Value) bool {
		cv, ok := v.(*ssa.Convert)
		if !ok {
			return false
		}
		bt, ok := cv.X.Type().Underlying().(*types.Basic)
		if !ok || (bt.Kind() != types.Uint8 && bt.Kind() != types.Byte) {
			return false
		}
		switch x := cv.X.(type) {
		case *ssa.Lookup: // s[i] on a string
			return true
		case *ssa.UnOp: // *(&b[i]) on a []byte / array
			_, isIdx := x.X.(*ssa.IndexAddr)
			return isIdx
		case *ssa.Index:
			return true
		}
		return false
	}
	n := 0
	for _, fn := range c.P.FuncsIn(true, "lib/option", "lib/value", "lib/query", "lib/json", "lib/file", "lib/action", "lib/cli") {
		if strings.HasSuffix(c.P.Pos(fn.Pos()), "parser.go") {
			continue
		}
		k := 0
		for _, call := range core.Calls(fn) {
			f := core.StaticCallee(call)
			if f == nil || f.Pkg == nil || f.Pkg.Pkg.Path() != "unicode" || !strings.HasPrefix(f.Name(), "Is") && f.Name() != "In" {
				continue
			}
			n++
			args := call.Common().Args
			if len(args) == 0 {
				continue
			}
			r := args[len(args)-1]
			if f.Name() == "In" || f.Name() == "IsOneOf" {
				r = args[0]
			}
			if f.Name() == "Is" && len(args) == 2 {
				r = args[1]
			}
			if !isByteElem(r) {
				continue
			}
			k++
			c.Touch(fn)
			c.Bad(c.KeyAt(fn, fmt.Sprintf("unicode.%s on a byte #%d", f.Name(), k)), c.Pos(call.(ssa.Instruction)),
				"unicode."+f.Name()+" is applied to rune(<one byte of a string>): that is the byte's Latin-1 reading, not the character — the first byte of a no-break space (C2 A0) or an ideographic space (E3 80 80) is 'no space', its last byte is one; decode the character (utf8.DecodeRuneInString / DecodeLastRuneInString, or range over the string)")
		}
	}
	c.Ok("lib: unicode predicates examined", "-", fmt.Sprintf("%d call(s) of unicode.Is… examined", n))
	if n < 5 {
		c.Unknown("anchor:unicode predicates of csvq", "-", fmt.Sprintf("cannot-analyse: expected at least 5 calls of unicode.Is… in the hand-written packages, found %d", n))
	}
}
