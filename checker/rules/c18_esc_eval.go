package rules

import (
	"fmt"
	"go/constant"
	"go/token"
	"go/types"
	"sort"

	"golang.org/x/tools/go/ssa"

	"verif/checker/absint"
	"verif/checker/core"
)

// Cell evaluation of the rune tables of R-ESC-1 / R-ESC-4.
//
// A cell of a switch / if-chain table is the text written between the head of
// the chain and its join block when the key rune is k. It is obtained by running
// that region in the finite-domain interpreter (absint, engine E6) with the key
// bound to the constant k and the parameters of a followed helper bound to what
// the call site passes: constants (the quote rune of `escape(s, '`')`) and
// function values (the predicate of `unescape(s, quote, func(r rune) bool {…})`,
// a named function, a closure over constants). Functions of the package called
// inside the region are executed too, so an arm may compute its text
// ("\\" + string(quote)) or ask a predicate (isQuotationMark(r)) and is read
// exactly like the arm that spells the constant out. A cell is decided only when
// the run needs no decision at all: every condition on the path is a function of
// the key and the bound constants.

// fxEnv is what is known about the parameters (and free variables) of the
// function whose table is read.
type fxEnv struct {
	vals  map[ssa.Value]absint.Val
	notes *[]string // why a candidate table was rejected (diagnostics only)
}

func (e *fxEnv) note(format string, a ...any) {
	if e != nil && e.notes != nil {
		*e.notes = append(*e.notes, fmt.Sprintf(format, a...))
	}
}

func fxEnvOf(bind fxBind) *fxEnv {
	e := &fxEnv{vals: map[ssa.Value]absint.Val{}}
	for p, r := range bind {
		e.vals[p] = absint.Const(constant.MakeInt64(int64(r)), p.Type())
	}
	return e
}

// fxStaticVal: the value of v when it is fixed by the program text and env — an
// integer constant, a bound parameter, a function, a closure (its captured
// values resolved alike; an unresolved one stays opaque, so that a condition
// depending on it is a decision and the cell undecided).
func fxStaticVal(v ssa.Value, env *fxEnv) (absint.Val, bool) {
	for {
		ct, ok := v.(*ssa.ChangeType)
		if !ok {
			break
		}
		v = ct.X
	}
	switch x := v.(type) {
	case *ssa.Const:
		if x.Value != nil && x.Value.Kind() == constant.Int {
			return absint.Const(x.Value, x.Type()), true
		}
	case *ssa.Function:
		if x.Blocks != nil {
			return absint.Val{K: absint.KFunc, Fn: x, T: x.Type()}, true
		}
	case *ssa.MakeClosure:
		f, ok := x.Fn.(*ssa.Function)
		if !ok || f.Blocks == nil {
			return absint.Val{}, false
		}
		var b []absint.Val
		for i, bv := range x.Bindings {
			if r, ok := fxStaticVal(bv, env); ok {
				b = append(b, r)
			} else {
				b = append(b, absint.Sym(fmt.Sprintf("captured:%s#%d", f.Name(), i), bv.Type()))
			}
		}
		return absint.Val{K: absint.KFunc, Fn: f, Bind: b, T: x.Type()}, true
	case *ssa.Parameter, *ssa.FreeVar:
		if env != nil {
			if r, ok := env.vals[v]; ok {
				return r, true
			}
		}
	}
	return absint.Val{}, false
}

// fxCalleeEnv binds the parameters of g to the statically known arguments of call.
func fxCalleeEnv(call ssa.CallInstruction, g *ssa.Function, bound []absint.Val, env *fxEnv) *fxEnv {
	inner := &fxEnv{vals: map[ssa.Value]absint.Val{}}
	if env != nil {
		inner.notes = env.notes
	}
	for i, a := range call.Common().Args {
		if i >= len(g.Params) {
			break
		}
		if r, ok := fxStaticVal(a, env); ok {
			inner.vals[g.Params[i]] = r
		}
	}
	for i, fv := range g.FreeVars {
		if i < len(bound) && (bound[i].K == absint.KConst || bound[i].K == absint.KFunc) {
			inner.vals[fv] = bound[i]
		}
	}
	return inner
}

// fxResolveCallee: the function a call executes, when the text and env fix it.
func fxResolveCallee(call ssa.CallInstruction, env *fxEnv) (*ssa.Function, []absint.Val) {
	com := call.Common()
	if com.IsInvoke() {
		return nil, nil
	}
	if r, ok := fxStaticVal(com.Value, env); ok && r.K == absint.KFunc {
		return r.Fn, r.Bind
	}
	return nil, nil
}

// fxVet reads, without executing anything, how the key is used in the code the
// interpreter is going to run: which runes it is compared with (the keys of the
// table) and whether one ordinary rune can stand for all the others — the key may
// only be tested for (in)equality, converted, written, concatenated into a text
// and handed to functions vetted alike. Functions of the package that pass are
// the ones the interpreter may execute; the others stay opaque.
type fxVet struct {
	pkg    *ssa.Package
	keys   map[rune]bool
	inline map[*ssa.Function]bool
	refuse map[*ssa.Function]bool
	busy   map[*ssa.Function]bool
}

func (v *fxVet) scan(c *Ctx, blocks []*ssa.BasicBlock, isSeed func(ssa.Value) bool, env *fxEnv, depth int) (ok bool, why string) {
	keyish := map[ssa.Value]bool{}
	isK := func(x ssa.Value) bool { return x != nil && (keyish[x] || isSeed(x)) }
	for changed := true; changed; {
		changed = false
		for _, b := range blocks {
			for _, in := range b.Instrs {
				var src ssa.Value
				switch x := in.(type) {
				case *ssa.Convert:
					if bt, isB := x.Type().Underlying().(*types.Basic); isB && bt.Info()&types.IsInteger != 0 {
						src = x.X // byte(r), int(r): still the key
					}
				case *ssa.ChangeType:
					src = x.X
				}
				if val, isV := in.(ssa.Value); isV && src != nil && isK(src) && !keyish[val] {
					keyish[val] = true
					changed = true
				}
			}
		}
	}
	ok = true
	for _, b := range blocks {
		for _, in := range b.Instrs {
			switch x := in.(type) {
			case *ssa.BinOp:
				kx, ky := isK(x.X), isK(x.Y)
				if !kx && !ky {
					continue
				}
				switch x.Op {
				case token.EQL, token.NEQ:
					other := x.Y
					if ky && !kx {
						other = x.X
					}
					if r, isS := fxStaticVal(other, env); isS && r.K == absint.KConst {
						if i, isI := r.IntVal(); isI {
							v.keys[rune(i)] = true
						}
					}
				default:
					return false, fmt.Sprintf("the key is an operand of `%s` at %s: the runes that are not compared with it are not all treated alike", x.Op, c.Pos(x))
				}
			case *ssa.UnOp:
				if x.Op != token.MUL && isK(x.X) {
					return false, fmt.Sprintf("the key is an operand of `%s` at %s", x.Op, c.Pos(x))
				}
			case *ssa.Index:
				if isK(x.Index) {
					return false, "the key indexes a table at " + c.Pos(x)
				}
			case *ssa.IndexAddr:
				if isK(x.Index) {
					return false, "the key indexes a table at " + c.Pos(x)
				}
			case *ssa.Lookup:
				if isK(x.Index) {
					return false, "the key indexes a map at " + c.Pos(x)
				}
			case *ssa.Call:
				g, bound := fxResolveCallee(x, env)
				if g == nil || g.Blocks == nil || core.FnPkg(g) != v.pkg || v.busy[g] || v.refuse[g] {
					continue
				}
				if depth == 0 {
					v.refuse[g] = true
					delete(v.inline, g)
					continue
				}
				args := x.Common().Args
				seeds := map[ssa.Value]bool{}
				for i, a := range args {
					if i < len(g.Params) && isK(a) {
						seeds[g.Params[i]] = true
					}
				}
				v.busy[g] = true
				gok, _ := v.scan(c, g.Blocks, func(p ssa.Value) bool { return seeds[p] }, fxCalleeEnv(x, g, bound, env), depth-1)
				delete(v.busy, g)
				if gok {
					v.inline[g] = true
				} else {
					// executed nowhere: its result is opaque, a condition on it a decision
					v.refuse[g] = true
					delete(v.inline, g)
				}
			}
		}
	}
	return ok, ""
}

type fxCell struct {
	out    string // text written, fxKeyMark where the key itself is written
	pos    string // first write on the path
	nconst int    // writes of something other than the key itself
	ok     bool
	why    string
}

var fxWriteModels = []string{
	"(*bytes.Buffer).WriteString", "(*bytes.Buffer).WriteRune", "(*bytes.Buffer).WriteByte", "(*bytes.Buffer).Write",
	"(*strings.Builder).WriteString", "(*strings.Builder).WriteRune", "(*strings.Builder).WriteByte", "(*strings.Builder).Write",
}

// fxCellRunner prepares the evaluation of the region [head, join) of fn for a
// given key rune; also returns the runes the key is compared with.
func fxCellRunner(c *Ctx, fn *ssa.Function, head, join *ssa.BasicBlock, region map[*ssa.BasicBlock]bool, key ssa.Value, env *fxEnv) (run func(k rune) fxCell, keys []rune, ok bool, why string) {
	isKey := func(v ssa.Value) bool { return v == key || core.SameCell(v, key) }
	var blocks []*ssa.BasicBlock
	for _, b := range fn.Blocks {
		if region[b] {
			blocks = append(blocks, b)
		}
	}
	vet := &fxVet{pkg: core.FnPkg(fn), keys: map[rune]bool{}, inline: map[*ssa.Function]bool{}, refuse: map[*ssa.Function]bool{}, busy: map[*ssa.Function]bool{fn: true}}
	if ok, why = vet.scan(c, blocks, isKey, env, 3); !ok {
		return nil, nil, false, why
	}
	if al := fxCellsReadAndAddressed(region); al != nil {
		return nil, nil, false, fmt.Sprintf("the local variable %s is read between the head and the join and also handed out by address there", al.Comment)
	}
	for k := range vet.keys {
		keys = append(keys, k)
	}
	sort.Slice(keys, func(i, j int) bool { return keys[i] < keys[j] })
	var inl []*ssa.Function
	for g := range vet.inline {
		inl = append(inl, g)
	}
	sort.Slice(inl, func(i, j int) bool { return c.P.Name(inl[i]) < c.P.Name(inl[j]) })
	for _, g := range inl {
		c.Touch(g)
	}
	run = func(k rune) fxCell {
		var cell fxCell
		kv := absint.Const(constant.MakeInt64(int64(k)), key.Type())
		n, err := absint.Enumerate(1, func(w *absint.World) {
			cell = fxCell{ok: true}
			write := func(it *absint.Interp, call ssa.CallInstruction, args []absint.Val) (absint.Val, bool) {
				if cell.pos == "" {
					cell.pos = c.Pos(call)
				}
				sargs := call.Common().Args
				if len(args) != 2 || len(sargs) != 2 {
					cell.ok, cell.why = false, "write of an unexpected shape at "+c.Pos(call)
					return absint.Val{K: absint.KTuple}, true
				}
				a := sargs[1]
				if cv, isConv := a.(*ssa.Convert); isConv { // string(r), byte(r)
					a = cv.X
				}
				if call.Parent() == fn && isKey(a) {
					cell.out += fxKeyMark
					return absint.Val{K: absint.KTuple}, true
				}
				v := args[1]
				switch {
				case v.K == absint.KConst && v.C != nil && v.C.Kind() == constant.String:
					cell.out += constant.StringVal(v.C)
					cell.nconst++
				case v.K == absint.KConst && v.C != nil && v.C.Kind() == constant.Int:
					i, _ := constant.Int64Val(v.C)
					cell.out += string(rune(i))
					cell.nconst++
				default:
					cell.ok, cell.why = false, "the text written at "+c.Pos(call)+" is neither a constant nor the key"
				}
				return absint.Val{K: absint.KTuple}, true
			}
			it := &absint.Interp{
				W:          w,
				Name:       func(ci ssa.CallInstruction) string { return c.P.CalleeName(ci) },
				Models:     map[string]absint.Model{},
				InlinePred: func(f *ssa.Function) bool { return vet.inline[f] },
				Fixed: func(v ssa.Value) (absint.Val, bool) {
					if isKey(v) {
						return kv, true
					}
					return absint.Val{}, false
				},
				Unbound: func(v ssa.Value) (absint.Val, bool) {
					if isKey(v) {
						return kv, true
					}
					if r, ok := fxStaticVal(v, env); ok {
						return r, true
					}
					if al, isAl := v.(*ssa.Alloc); isAl {
						return absint.Obj("outer:"+al.Name(), al.Type()), true
					}
					return absint.Sym("outer:"+v.Name(), v.Type()), true
				},
			}
			for _, n := range fxWriteModels {
				it.Models[n] = write
			}
			it.RunRegion(fn, head, func(b *ssa.BasicBlock) bool { return b == join })
			if it.Err != nil && cell.ok {
				cell.ok, cell.why = false, it.Err.Error()
			}
		})
		if (n != 1 || err != nil) && cell.ok {
			cell.ok, cell.why = false, "a condition between the head of the chain and its join does not depend on the key and the bound constants alone"
		}
		return cell
	}
	return run, keys, true, ""
}

// fxCellsReadAndAddressed: a local cell of fn that the region both reads and
// hands out by address cannot be given a content from outside the region.
func fxCellsReadAndAddressed(blocks map[*ssa.BasicBlock]bool) *ssa.Alloc {
	loaded, addressed := map[*ssa.Alloc]bool{}, map[*ssa.Alloc]bool{}
	var order []*ssa.Alloc
	for b := range blocks {
		for _, in := range b.Instrs {
			if u, ok := in.(*ssa.UnOp); ok && u.Op == token.MUL {
				if al, ok := u.X.(*ssa.Alloc); ok {
					loaded[al] = true
					order = append(order, al)
				}
				continue
			}
			if st, ok := in.(*ssa.Store); ok {
				if al, ok := st.Val.(*ssa.Alloc); ok {
					addressed[al] = true
				}
				continue
			}
			for _, op := range in.Operands(nil) {
				if al, ok := (*op).(*ssa.Alloc); ok {
					if _, isFA := in.(*ssa.FieldAddr); isFA {
						continue
					}
					addressed[al] = true
				}
			}
		}
	}
	sort.Slice(order, func(i, j int) bool { return order[i].Pos() < order[j].Pos() })
	for _, al := range order {
		if addressed[al] && !blocks[al.Block()] {
			return al
		}
	}
	return nil
}
