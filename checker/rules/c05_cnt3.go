package rules

import (
	"fmt"
	"go/token"
	"go/types"

	"golang.org/x/tools/go/ssa"

	"verif/checker/core"
)

// R-CNT-3 — a record whose cells are overwritten is counted (C05: the reported
// count is the number of records the statement changed; C01: ExecuteStatement
// marks a table as uncommitted from that count, so an under-count makes the
// session's view and the file diverge without anything being committed).

func init() {
	Register(&Rule{ID: "R-CNT-3", Props: []string{"C05", "C01"}, Floor: 1,
		Doc:      "stored means counted: in every data-changing entry function of lib/query (those that load with forUpdate = true) that keeps an incremental per-table counter (a map[string]int element or int variable incremented by 1), each store into a cell of a record of a view (`view.RecordSet[id][field] = …`) is dominated by a first-seen test on the record id (a map lookup keyed by the same id value); on the path where the id was not seen yet, the id is inserted into that map and the counter is incremented before the store is reached — no other condition decides whether a stored record is counted; and every increment of the counter lies behind the not-yet-seen edge of such a test (a record is counted once, not once per field). A function that derives its count otherwise (len of a set, len of the inserted rows: Insert, Replace, Delete today) has nothing to check here; today the clause is decided for Update only",
		Controls: []string{"CtlCnt3CountsOnlyChangedValues"},
		Run:      ruleCnt3})
}

// cnt3SameExpr: two values denote the same map/element expression: identical,
// loads of the same cell, or lookups of the same map with the same key.
func cnt3SameExpr(a, b ssa.Value) bool {
	if a == b || core.SameCell(a, b) {
		return true
	}
	la, ok1 := a.(*ssa.Lookup)
	lb, ok2 := b.(*ssa.Lookup)
	if ok1 && ok2 && !la.CommaOk && !lb.CommaOk {
		return cnt3SameExpr(la.X, lb.X) && cnt3SameExpr(la.Index, lb.Index)
	}
	return false
}

// cnt3IsIncrement: in is `m[k] = m[k] + 1` on a map with int values, or a store
// of `*p + 1` into an int cell p.
func cnt3IsIncrement(in ssa.Instruction) bool {
	plusOne := func(v ssa.Value, isOld func(ssa.Value) bool) bool {
		b, ok := v.(*ssa.BinOp)
		if !ok || b.Op != token.ADD {
			return false
		}
		if k, isK := core.ConstInt(b.Y); isK && k == 1 && isOld(b.X) {
			return true
		}
		if k, isK := core.ConstInt(b.X); isK && k == 1 && isOld(b.Y) {
			return true
		}
		return false
	}
	switch x := in.(type) {
	case *ssa.MapUpdate:
		mt, ok := x.Map.Type().Underlying().(*types.Map)
		if !ok {
			return false
		}
		if bt, isB := mt.Elem().Underlying().(*types.Basic); !isB || bt.Kind() != types.Int {
			return false
		}
		return plusOne(x.Value, func(o ssa.Value) bool {
			l, isL := o.(*ssa.Lookup)
			return isL && cnt3SameExpr(l.X, x.Map) && cnt3SameExpr(l.Index, x.Key)
		})
	case *ssa.Store:
		if bt, isB := x.Val.Type().Underlying().(*types.Basic); !isB || bt.Kind() != types.Int {
			return false
		}
		return plusOne(x.Val, func(o ssa.Value) bool { return core.Addr(o) != nil && core.SameAddr(core.Addr(o), x.Addr) })
	}
	return false
}

// cnt3CellStore: in stores into view.RecordSet[id][field]; returns the record id value.
func cnt3CellStore(in ssa.Instruction) (id ssa.Value, ok bool) {
	st, isSt := in.(*ssa.Store)
	if !isSt {
		return nil, false
	}
	cell, isIA := st.Addr.(*ssa.IndexAddr)
	if !isIA {
		return nil, false
	}
	rec, isIA2 := core.Addr(cell.X).(*ssa.IndexAddr) // record = *(&recordSet[id])
	if !isIA2 || rec == nil {
		return nil, false
	}
	if core.FieldOwner(core.Addr(rec.X)) != "lib/query.View.RecordSet" {
		return nil, false
	}
	return rec.Index, true
}

func ruleCnt3(c *Ctx) {
	p := c.P
	if c.Fn(lock7Prim) == nil {
		return
	}
	readers := p.CanReach([]string{lock7Prim}, txnBarrier)
	fns := p.FuncsIn(false, "lib/query")
	fns = append(fns, txnCtl(c, "Cnt3")...)
	entries, decided := 0, 0
	for _, fn := range fns {
		if fn.Parent() != nil {
			continue
		}
		if !p.IsControl(fn) {
			// data-changing entry function: loads with forUpdate = true
			isEntry := false
			for _, call := range core.Calls(fn) {
				cc, ok := call.(*ssa.Call)
				if !ok {
					continue
				}
				k := core.StaticCallee(cc)
				if k == nil || !readers[k] {
					continue
				}
				if j := lock7ForUpdateParam(k); j >= 0 && j < len(cc.Call.Args) {
					if b, isConst := core.ConstBool(cc.Call.Args[j]); isConst && b {
						isEntry = true
					}
				}
			}
			if !isEntry || lock7ForUpdateParam(fn) >= 0 {
				continue
			}
			entries++
		}
		var incs []ssa.Instruction
		type storeT struct {
			in ssa.Instruction
			id ssa.Value
		}
		var stores []storeT
		for _, b := range fn.Blocks {
			for _, in := range b.Instrs {
				if cnt3IsIncrement(in) {
					incs = append(incs, in)
				}
				if id, ok := cnt3CellStore(in); ok {
					stores = append(stores, storeT{in, id})
				}
			}
		}
		if len(stores) == 0 || len(incs) == 0 {
			continue // no record is overwritten in place here, or the count is not kept incrementally
		}
		c.Touch(fn)
		isInc := func(in ssa.Instruction) bool {
			for _, x := range incs {
				if x == in {
					return true
				}
			}
			return false
		}
		ord := map[string]int{}
		var allAbsent []func(from, to *ssa.BasicBlock) bool
		for _, s := range stores {
			decided++
			c.Sites++
			key := txnOrd(ord, c.KeyAt(fn, "a record whose cell is stored is counted"))
			// first-seen tests on the same id that dominate the store
			type testT struct {
				lk     *ssa.Lookup
				absent func(from, to *ssa.BasicBlock) bool // the edge on which the id was not seen yet
				iff    *ssa.If
			}
			var tests []testT
			for _, b := range fn.Blocks {
				iff := core.IfOf(b)
				if iff == nil {
					continue
				}
				cond, neg := core.UnNot(iff.Cond)
				var lk *ssa.Lookup
				if ex, ok := cond.(*ssa.Extract); ok && ex.Index == 1 {
					lk, _ = ex.Tuple.(*ssa.Lookup)
				} else if l, ok := cond.(*ssa.Lookup); ok && !l.CommaOk {
					lk = l
				}
				if lk == nil || !cnt3SameExpr(lk.Index, s.id) || !core.Dominates(iff, s.in) {
					continue
				}
				if _, isMap := lk.X.Type().Underlying().(*types.Map); !isMap {
					continue
				}
				blk, negated := b, neg
				tests = append(tests, testT{lk: lk, iff: iff, absent: func(from, to *ssa.BasicBlock) bool {
					if from != blk {
						return false
					}
					// cond true = present; the absent edge is the false edge (true edge if negated)
					if negated {
						return to == blk.Succs[0]
					}
					return to == blk.Succs[1]
				}})
			}
			for _, t := range tests {
				allAbsent = append(allAbsent, t.absent)
			}
			if len(tests) == 0 {
				c.Bad(key, c.Pos(s.in), "the store into the record's cell is not dominated by a first-seen test on the record id, although the function keeps an incremental count: stored records may be counted twice or not at all")
				continue
			}
			okTest := false
			why := ""
			for _, t := range tests {
				// on the absent edge: insertion into the same map and the increment both precede the store
				var start *ssa.BasicBlock
				for _, sc := range t.iff.Block().Succs {
					if t.absent(t.iff.Block(), sc) {
						start = sc
					}
				}
				if start == nil {
					continue
				}
				isInsert := func(in ssa.Instruction) bool {
					mu, ok := in.(*ssa.MapUpdate)
					return ok && cnt3SameExpr(mu.Map, t.lk.X) && cnt3SameExpr(mu.Key, s.id)
				}
				reach := func(stop func(ssa.Instruction) bool) bool {
					found := false
					core.WalkPruned(start, 0, func(in ssa.Instruction) bool {
						if in == s.in {
							found = true
							return false
						}
						if found || stop(in) || in == ssa.Instruction(t.iff) {
							return false
						}
						return true
					}, nil)
					return found
				}
				switch {
				case reach(isInc):
					why = fmt.Sprintf("when the record id is seen for the first time (test at %s) the store can be reached without the counter having been incremented: the record is changed but not counted, so the statement under-reports and ExecuteStatement may not mark the table as uncommitted", c.Pos(t.iff))
				case reach(isInsert):
					why = fmt.Sprintf("when the record id is seen for the first time (test at %s) the store can be reached without the id having been entered into the seen-set: the record would be counted again for its next field", c.Pos(t.iff))
				default:
					okTest = true
				}
				if okTest {
					break
				}
			}
			if okTest {
				c.Ok(key, c.Pos(s.in), "dominated by a first-seen test on the record id; on the not-yet-seen edge the id is inserted and the counter incremented before the store")
			} else {
				c.Bad(key, c.Pos(s.in), why)
			}
		}
		// counted at most once: every increment lies behind the not-yet-seen edge of such a test
		for i, inc := range incs {
			key := c.KeyAt(fn, fmt.Sprintf("counter increment #%d happens only for a record seen for the first time", i+1))
			cut := func(from, to *ssa.BasicBlock) bool {
				for _, a := range allAbsent {
					if a(from, to) {
						return true
					}
				}
				return false
			}
			if len(allAbsent) > 0 && !core.ReachesFromEntry(fn, inc, nil, cut) {
				c.Ok(key, c.Pos(inc), "reachable only through the not-yet-seen edge of a first-seen test on the record id")
			} else {
				c.Bad(key, c.Pos(inc), "the per-table counter is incremented on a path that has not established that the record id is new: a record with several assigned fields is counted once per field and the statement over-reports")
			}
		}
	}
	if entries == 0 {
		c.Unknown("data-changing entry functions", "-", "cannot-analyse: no lib/query function loads with forUpdate = true any more")
		return
	}
	if decided == 0 {
		c.Unknown("in-place cell stores", "-", "cannot-analyse: no data-changing entry function both overwrites record cells in place and keeps an incremental count any more (Update did): the rule no longer sees the code it is about")
	}
}
