package rules

import (
	"fmt"
	"go/token"
	"strings"

	"golang.org/x/tools/go/ssa"

	"verif/checker/core"
)

// R-PAR-18 — only the statement-level processor stores results in the transaction.
//
// The fields of the shared Transaction that hold the results of one Execute call
// (SelectedViews, AffectedRows: the fields the top-level entry resets) are written by
// the statement interpreter without a common mutex. That is race-free for one reason
// only: the writes are guarded by Processor.storeResults, and that flag is true in
// no processor but the one the application called Execute on — the processors that
// run function bodies on worker goroutines (UserDefinedFunction.execute →
// NewProcessorWithScope) and the child processors they create always have it false.
// E5's regions do not follow Evaluate into function bodies (no points-to, DESIGN §6),
// so the sound part is decided as two who-may-write tables. Added after seeded
// change C13-14 (DESIGN §8): the check of the context flag was moved from Execute
// into execute, which is also the entry of every user-defined function.

func init() {
	Register(&Rule{ID: "R-PAR-18", Props: []string{"C13"}, Floor: 8,
		Doc:      "only the statement-level processor stores results in the transaction: (i) who-may-write Processor.storeResults — a value other than constant false is stored only by the listed top-level entry (*Processor).Execute, and that function is reachable neither from a concurrent region nor from the statement interpreter (static calls, go/defer operands and closures), so no processor that runs a function body, a block body or a sourced file on behalf of an expression ever has the flag; (ii) the result fields of Transaction (found by role: the fields the listed entry stores directly — SelectedViews, AffectedRows) are stored, anywhere in csvq, only by that entry or at a place dominated by the true edge of a test of Processor.storeResults — the interpreter's INSERT / UPDATE / REPLACE / DELETE arms write AffectedRows after the statement has released Tx.operationMutex, so an unguarded write, or a flag that a function's processor can see, is a write/write race between the workers of a parallel stage that call a function containing such a statement",
		Controls: []string{"CtlPar18ChildAsksContext", "CtlPar18UnguardedResult"},
		Run:      rulePar18})
}

// par18FlagWriters: who may set the flag, and why.
var par18FlagWriters = map[string]string{
	"lib/query.(*Processor).Execute": "the entry the application calls once per statement list, on the processor it owns",
}

const par18Flag = "lib/query.Processor.storeResults"

// par18IsFlag: the field is Processor.storeResults (or the field of that name of a
// mimic type in the control package — the real one is unexported).
func par18IsFlag(v ssa.Value) bool {
	owner := core.FieldOwner(v)
	if owner == par18Flag {
		return true
	}
	return strings.HasPrefix(owner, core.ControlPkg+".") && core.FieldName(v) == "storeResults"
}

// par18IsFlagLoad: v reads the flag.
func par18IsFlagLoad(v ssa.Value) bool {
	switch x := v.(type) {
	case *ssa.Field:
		return par18IsFlag(x)
	case *ssa.UnOp:
		if x.Op == token.MUL {
			if fa, ok := x.X.(*ssa.FieldAddr); ok {
				return par18IsFlag(fa)
			}
		}
	case *ssa.Call:
		// an accessor: every result of the (static) callee reads the flag
		if g := core.StaticCallee(x); g != nil && g.Blocks != nil && g != x.Parent() {
			rs := core.ReturnedValues(g, 0)
			if len(rs) == 0 {
				return false
			}
			for _, r := range rs {
				if _, isCall := r.(*ssa.Call); isCall || !par18IsFlagLoad(r) {
					return false
				}
			}
			return true
		}
	}
	return false
}

func rulePar18(c *Ctx) {
	p := c.P
	start := len(c.Obs)
	stmt := c.Fn(txnExecStmt)
	if stmt == nil {
		return
	}
	var fns []*ssa.Function
	for _, fn := range p.SrcFuncs() {
		if p.IsControl(fn) && !strings.Contains(p.Name(fn), "Par18") {
			continue
		}
		fns = append(fns, fn)
	}

	// what concurrent regions and the interpreter reach
	e := parAnalysis(p)
	reached := map[*ssa.Function]string{}
	mark := func(root *ssa.Function, label string) {
		for f := range staticReach(root) {
			if _, ok := reached[f]; !ok {
				reached[f] = label
			}
		}
	}
	nRegions := 0
	for _, fam := range e.families {
		for _, r := range fam.regions {
			nRegions++
			mark(r.fn, "a concurrent region")
		}
	}
	mark(stmt, "the statement interpreter")
	if nRegions == 0 {
		c.Unknown("concurrent regions", "-", "cannot-analyse: no concurrent region found")
		return
	}

	// private helpers of a listed entry: every static call site (at least one) is in a listed entry or
	// in such a helper — extracting the context test out of Execute does not make a new writer
	callers := map[*ssa.Function][]*ssa.Function{}
	for _, fn := range p.SrcFuncs() {
		for _, call := range core.Calls(fn) {
			if g := call.Common().StaticCallee(); g != nil {
				callers[g] = append(callers[g], lock9Outer(fn))
			}
		}
	}
	var entryOf func(fn *ssa.Function, depth int) string
	entryOf = func(fn *ssa.Function, depth int) string {
		fn = lock9Outer(fn)
		if _, listed := par18FlagWriters[p.Name(fn)]; listed {
			return p.Name(fn)
		}
		if depth > 3 || len(callers[fn]) == 0 || p.IsControl(fn) {
			return ""
		}
		via := ""
		for _, k := range callers[fn] {
			if k == fn {
				continue
			}
			e := entryOf(k, depth+1)
			if e == "" {
				return ""
			}
			via = e
		}
		return via
	}

	// (i) who may write the flag
	entries := map[*ssa.Function]bool{}
	nFlag := 0
	for _, fn := range fns {
		ord := map[string]int{}
		for _, b := range fn.Blocks {
			for _, in := range b.Instrs {
				st, ok := in.(*ssa.Store)
				if !ok {
					continue
				}
				fa, ok := st.Addr.(*ssa.FieldAddr)
				if !ok || !par18IsFlag(fa) {
					continue
				}
				nFlag++
				c.Touch(fn)
				key := txnOrd(ord, c.KeyAt(fn, "store into Processor.storeResults"))
				if b, isConst := core.ConstBool(st.Val); isConst && !b {
					c.Ok(key, c.Pos(st), "stores the constant false")
					continue
				}
				outer := lock9Outer(fn)
				entry := entryOf(outer, 0)
				why, listed := par18FlagWriters[entry]
				if listed && entry != p.Name(outer) {
					why = "private helper of " + entry + ", " + why
				}
				if !listed {
					c.Bad(key, c.Pos(st), fmt.Sprintf("%s sets Processor.storeResults, which only the top-level entry (%s) may do: the flag is what keeps the interpreter's unguarded writes of Transaction.SelectedViews / AffectedRows on the statement-level goroutine. A processor that runs a function body (UserDefinedFunction.execute → NewProcessorWithScope → execute), or a child of it, that can see the flag true writes those fields from every worker goroutine of a parallel stage that calls the function — a write/write data race on the shared Transaction", p.Name(outer), strings.Join(sortedKeys(par18FlagWriters), ", ")))
					continue
				}
				entries[outer] = true
				if f := p.Func(entry); f != nil {
					entries[f] = true
				}
				if by, isReached := reached[outer]; isReached {
					c.Bad(key, c.Pos(st), fmt.Sprintf("the listed entry %s is reachable from %s: it is no longer a top-level-only entry, so processors running on worker goroutines can get the flag", p.Name(outer), by))
					continue
				}
				c.Ok(key, c.Pos(st), "listed entry ("+why+"); reachable neither from a concurrent region nor from the statement interpreter")
			}
		}
	}
	// the listed entries, whether or not they still set the flag: (ii) is decided against them
	var entryFns []*ssa.Function
	badFlag := false
	for _, o := range c.Obs[start:] {
		if o.Status == Violated && !o.Control {
			badFlag = true
		}
	}
	for _, n := range sortedKeys(par18FlagWriters) {
		f := c.Fn(n)
		if f == nil {
			continue
		}
		if !entries[f] && !badFlag {
			c.Unknown("table:"+n, "-", "cannot-analyse: the listed entry "+n+" no longer sets Processor.storeResults and nobody else does (table entry is stale; who decides that results are stored?)")
		}
		entries[f] = true
		entryFns = append(entryFns, f)
	}
	if len(entryFns) == 0 {
		return
	}
	_ = nFlag

	// (ii) the result fields: what the entry stores directly into the Transaction
	result := map[string]bool{}
	var resetters []*ssa.Function
	for _, f := range p.FuncsIn(false, "lib/query") {
		if entryOf(f, 0) != "" {
			resetters = append(resetters, f)
		}
	}
	for _, f := range resetters {
		for _, b := range f.Blocks {
			for _, in := range b.Instrs {
				if st, ok := in.(*ssa.Store); ok {
					if fa, ok := st.Addr.(*ssa.FieldAddr); ok && strings.HasPrefix(core.FieldOwner(fa), "lib/query.Transaction.") {
						result[core.FieldOwner(fa)] = true
					}
				}
			}
		}
	}
	if len(result) == 0 {
		c.Unknown("result fields", "-", "cannot-analyse: the top-level entry stores no field of Transaction any more (the per-call results are no longer reset there)")
		return
	}
	for _, fn := range fns {
		ord := map[string]int{}
		for _, b := range fn.Blocks {
			for _, in := range b.Instrs {
				st, ok := in.(*ssa.Store)
				if !ok {
					continue
				}
				fa, ok := st.Addr.(*ssa.FieldAddr)
				if !ok || !result[core.FieldOwner(fa)] {
					continue
				}
				c.Touch(fn)
				field := strings.TrimPrefix(core.FieldOwner(fa), "lib/query.")
				key := txnOrd(ord, c.KeyAt(fn, "store into "+field))
				if entries[lock9Outer(fn)] || entryOf(fn, 0) != "" {
					c.Ok(key, c.Pos(st), "the top-level entry (or a private helper of it) resets the results of the previous call")
					continue
				}
				if al, isAlloc := fa.X.(*ssa.Alloc); isAlloc && al.Parent() == fn {
					c.Ok(key, c.Pos(st), "initialises a Transaction allocated in this function (not shared yet)")
					continue
				}
				guarded := false
				for _, f := range core.FactsAt(b) {
					if !f.Neg && par18IsFlagLoad(f.Cond) {
						guarded = true
					}
				}
				if guarded {
					c.Ok(key, c.Pos(st), "dominated by the true edge of a test of Processor.storeResults")
				} else {
					c.Bad(key, c.Pos(st), fmt.Sprintf("%s is written outside the top-level entry without the guard `if proc.storeResults`: this code also runs in the processors of user-defined functions, which worker goroutines of a parallel stage (WHERE, SELECT list, …) execute concurrently — after the data-changing statement has released Tx.operationMutex — so the shared Transaction field is written by several goroutines at once", field))
				}
			}
		}
	}
	c.negControls(start, "okPar18GuardedResult", "okPar18FreshProcessor", "okPar18GuardViaAccessor")
}
