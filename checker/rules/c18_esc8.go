package rules

import (
	"fmt"
	"go/token"
	"go/types"
	"sort"
	"strings"

	"golang.org/x/tools/go/ssa"

	"verif/checker/core"
)

// R-ESC-8 — a printer treats the text of a child as opaque.
//
// The String() method of a syntax-tree node composes the texts of its children.
// Which syntax it emits (parentheses, separators, keywords) must follow from the
// node — its type, its tokens, whether a child is present — never from what the
// child's text happens to look like: "(a + b) * (c + d)" begins with '(' and ends
// with ')' without being one group, so a printer that looks at the text to decide
// whether it "already has parentheses" drops the grouping pair and the printed
// query parses to another tree.
//
// Decided per printer P (String() of a lib/parser type implementing
// QueryExpression) by a taint analysis over P and the lib/parser functions it
// reaches (other nodes' String() excluded — they are printers of their own):
//   source      the result of String() of a value whose type implements
//               parser.QueryExpression (interface invoke or static call);
//   transparent string concatenation, φ, conversions between string types,
//               stores into / loads from slices, arrays, structs and maps
//               (a container holding child text is itself tainted), append,
//               strings.Join, fmt.Sprint*/Fprint*, Write* of strings.Builder /
//               bytes.Buffer and their String(), passing to and returning from
//               lib/parser functions (parameters tainted per printer);
//   emptiness   s == "" / s != "" / len(s) compared with 0 (or `< 1`, `>= 1`): an
//               empty text carries no token, the test says "the child printed
//               nothing" and cannot tell two non-empty texts apart — tolerated
//               and counted (0 on today's tree);
//   inspection  everything else applied to a tainted string: comparison, len used
//               otherwise, indexing, slicing, range, conversion to []byte/[]rune,
//               use as a map key, and every call outside the transparent list
//               (strings.HasPrefix/HasSuffix/Contains/Index/Trim*/Replace*/
//               ToUpper/EqualFold/Fields/Split…, regexp, utf8, strconv …).
// A printer with an inspection is reported.
//
// In addition the two nodes whose whole purpose is a pair of parentheses are
// evaluated symbolically (helpers followed, parameters bound at the call): every
// return of Parentheses.String is "(" + Expr.String() + ")" and every return of
// Subquery.String is "(" + Query.String() + ")", on every path.

func init() {
	Register(&Rule{ID: "R-ESC-8", Props: []string{"C18"}, Floor: 66,
		Doc:      "a printer never looks into the text of a child to decide what to emit: in every String() method of a lib/parser syntax-tree node and in the lib/parser functions it reaches, the result of a child's String() (any value implementing parser.QueryExpression) flows only through concatenation, φ, containers, append, strings.Join, fmt.Sprint*, Builder/Buffer writes and lib/parser helpers (parameters tainted per printer) into the returned text — the only test tolerated is emptiness (== \"\", len against 0); any other comparison, len, index, slice, range, []byte/[]rune conversion, map lookup or foreign call (strings.HasPrefix/HasSuffix/Trim*/Contains/…) on such a text is reported; in addition, by symbolic evaluation through helpers, every return of Parentheses.String is \"(\" + Expr.String() + \")\" and of Subquery.String is \"(\" + Query.String() + \")\"",
		Controls: []string{"CtlPrinterPeeksAtChildText", "CtlPrinterTrimsChildText", "CtlPrinterParenthesesByNodeType"},
		Run:      ruleEsc8})
}

// ---------------------------------------------------------------------------
// syntax-tree types and printers (shared with R-ESC-9)

type fxAst struct {
	c     *Ctx
	iface *types.Interface
}

func fxNewAst(c *Ctx) *fxAst {
	t := c.P.Type("lib/parser", "QueryExpression")
	if t == nil {
		c.Unknown("anchor:lib/parser.QueryExpression", "-", "cannot-analyse: lib/parser declares no type QueryExpression")
		return nil
	}
	it, ok := t.Underlying().(*types.Interface)
	if !ok {
		c.Unknown("anchor:lib/parser.QueryExpression", "-", "cannot-analyse: lib/parser.QueryExpression is not an interface")
		return nil
	}
	return &fxAst{c: c, iface: it}
}

// isNode: values of type t are syntax-tree nodes (t implements QueryExpression).
func (a *fxAst) isNode(t types.Type) bool {
	if t == nil {
		return false
	}
	if types.Implements(t, a.iface) {
		return true
	}
	if _, isPtr := t.Underlying().(*types.Pointer); !isPtr {
		if _, isI := t.Underlying().(*types.Interface); !isI {
			return types.Implements(types.NewPointer(t), a.iface)
		}
	}
	return false
}

// isNodeStringFn: f is the String() method of a syntax-tree type.
func (a *fxAst) isNodeStringFn(f *ssa.Function) bool {
	if f == nil || f.Name() != "String" || f.Signature.Recv() == nil || f.Signature.Params().Len() != 0 || !fxIsStringResult(f) {
		return false
	}
	return a.isNode(f.Signature.Recv().Type())
}

// childStringCall: call is String() of a syntax-tree value; the value is returned.
func (a *fxAst) childStringCall(call *ssa.Call) ssa.Value {
	com := call.Common()
	if com.IsInvoke() {
		if com.Method.Name() == "String" && len(com.Args) == 0 && a.isNode(com.Value.Type()) {
			return com.Value
		}
		return nil
	}
	if f := core.StaticCallee(call); a.isNodeStringFn(f) && len(com.Args) == 1 {
		return com.Args[0]
	}
	return nil
}

type fxPrinter struct {
	fn   *ssa.Function
	node *ssa.Parameter // the node being printed (receiver / first parameter of a control)
	name string         // node type, "lib/parser.Join"
	ctl  bool
}

// printers: the String() methods of lib/parser node types, and the control
// functions `<ctlPrefix>… / <okPrefix>…(node parser.T, …) string`.
func (a *fxAst) printers(ctlPrefix, okPrefix string) []fxPrinter {
	var out []fxPrinter
	for _, fn := range a.c.P.FuncsIn(true, "lib/parser") {
		if fn.Blocks == nil || len(fn.Params) == 0 {
			continue
		}
		if a.c.P.IsControl(fn) {
			if !(strings.HasPrefix(fn.Name(), ctlPrefix) || strings.HasPrefix(fn.Name(), okPrefix)) || !a.isNode(fn.Params[0].Type()) {
				continue
			}
			out = append(out, fxPrinter{fn, fn.Params[0], core.NamedOf(fn.Params[0].Type()), true})
			continue
		}
		if a.isNodeStringFn(fn) {
			out = append(out, fxPrinter{fn, fn.Params[0], core.NamedOf(fn.Signature.Recv().Type()), false})
		}
	}
	sort.SliceStable(out, func(i, j int) bool { return a.c.P.Name(out[i].fn) < a.c.P.Name(out[j].fn) })
	return out
}

// helperOf: g is a function with a body in lib/parser (or the control package)
// that a printer may hand values to — anything but another node's printer.
func (a *fxAst) helperOf(g *ssa.Function) bool {
	return g != nil && g.Blocks != nil && a.c.P.InPkg(g, "lib/parser", core.ControlPkg) && !a.isNodeStringFn(g)
}

// reach: fn and the helpers it reaches through static calls and closures.
func (a *fxAst) reach(fn *ssa.Function) []*ssa.Function {
	seen := map[*ssa.Function]bool{fn: true}
	order := []*ssa.Function{fn}
	for i := 0; i < len(order); i++ {
		f := order[i]
		add := func(g *ssa.Function) {
			if a.helperOf(g) && !seen[g] {
				seen[g] = true
				order = append(order, g)
			}
		}
		for _, an := range f.AnonFuncs {
			add(an)
		}
		for _, ci := range core.Calls(f) {
			add(core.StaticCallee(ci))
		}
	}
	return order
}

// ---------------------------------------------------------------------------
// taint

type fxInspection struct {
	fn   *ssa.Function
	at   ssa.Instruction
	what string
}

type fxOpaque struct {
	a       *fxAst
	scope   map[*ssa.Function]bool
	taint   map[ssa.Value]bool
	length  map[ssa.Value]bool // len(tainted string)
	retT    map[*ssa.Function]bool
	insp    map[ssa.Instruction]fxInspection
	empties map[ssa.Instruction]bool
	changed bool
}

func (o *fxOpaque) mark(v ssa.Value) {
	if v != nil && !o.taint[v] {
		o.taint[v] = true
		o.changed = true
	}
}

func (o *fxOpaque) inspect(fn *ssa.Function, at ssa.Instruction, what string) {
	if _, ok := o.insp[at]; !ok {
		o.insp[at] = fxInspection{fn, at, what}
	}
}

// chain: the address / container values an element address is derived from.
func fxAddrChain(v ssa.Value) []ssa.Value {
	var out []ssa.Value
	for i := 0; i < 16 && v != nil; i++ {
		out = append(out, v)
		switch x := v.(type) {
		case *ssa.IndexAddr:
			v = x.X
		case *ssa.FieldAddr:
			v = x.X
		case *ssa.Slice:
			v = x.X
		default:
			return out
		}
	}
	return out
}

func (o *fxOpaque) anyTainted(vs []ssa.Value) bool {
	for _, v := range vs {
		if o.taint[v] {
			return true
		}
	}
	return false
}

// transparent foreign callees: the text passes through unchanged and unread.
var fxOpaqueTransparent = map[string]bool{
	"strings.Join": true, "fmt.Sprintf": true, "fmt.Sprint": true, "fmt.Sprintln": true,
}

// writers into a buffer given as first argument
var fxOpaqueWriters = map[string]bool{
	"(*strings.Builder).WriteString": true, "(*bytes.Buffer).WriteString": true,
	"fmt.Fprintf": true, "fmt.Fprint": true, "fmt.Fprintln": true,
}

var fxOpaqueBufferString = map[string]bool{
	"(*strings.Builder).String": true, "(*bytes.Buffer).String": true,
}

// lenCmpIsEmptiness: `len OP k` (len on the left after normalisation) only
// separates the empty text from all others.
func fxLenCmpIsEmptiness(op token.Token, k int64, lenLeft bool) bool {
	if !lenLeft { // k OP len  ≡  len OP' k
		switch op {
		case token.LSS:
			op = token.GTR
		case token.GTR:
			op = token.LSS
		case token.LEQ:
			op = token.GEQ
		case token.GEQ:
			op = token.LEQ
		}
	}
	switch k {
	case 0:
		return op == token.EQL || op == token.NEQ || op == token.GTR || op == token.LEQ
	case 1:
		return op == token.LSS || op == token.GEQ
	}
	return false
}

func fxIsCmp(op token.Token) bool {
	switch op {
	case token.EQL, token.NEQ, token.LSS, token.GTR, token.LEQ, token.GEQ:
		return true
	}
	return false
}

func (o *fxOpaque) step(fn *ssa.Function) {
	a := o.a
	P := a.c.P
	for _, b := range fn.Blocks {
		for _, in := range b.Instrs {
			switch x := in.(type) {
			case *ssa.Call:
				com := x.Common()
				if a.childStringCall(x) != nil {
					o.mark(x)
					continue
				}
				var targs []ssa.Value // tainted arguments (incl. receiver of an invoke)
				all := append([]ssa.Value(nil), com.Args...)
				if com.IsInvoke() {
					all = append(all, com.Value)
				}
				for _, v := range all {
					if o.taint[v] || o.length[v] {
						targs = append(targs, v)
					}
				}
				if bi, ok := com.Value.(*ssa.Builtin); ok {
					switch bi.Name() {
					case "len":
						if len(com.Args) == 1 && o.taint[com.Args[0]] && fxIsStringType(com.Args[0].Type()) && !o.length[x] {
							o.length[x] = true
							o.changed = true
						}
					case "append":
						if len(targs) > 0 {
							o.mark(x)
						}
					case "cap", "print", "println":
					default:
						if len(targs) > 0 { // copy, min, max …
							o.inspect(fn, x, "builtin "+bi.Name()+" applied to it")
						}
					}
					continue
				}
				g := core.StaticCallee(x)
				if g != nil && o.scope[g] {
					for i, v := range com.Args {
						if i < len(g.Params) {
							if o.taint[v] {
								o.mark(g.Params[i])
							}
							if o.length[v] && !o.length[g.Params[i]] {
								o.length[g.Params[i]] = true
								o.changed = true
							}
						}
					}
					if o.retT[g] {
						o.mark(x)
					}
					continue
				}
				if len(targs) == 0 {
					// String() of a tainted buffer
					continue
				}
				name := P.CalleeName(x)
				switch {
				case fxOpaqueTransparent[name]:
					o.mark(x)
				case fxOpaqueWriters[name]:
					if len(com.Args) > 0 && !o.taint[com.Args[0]] {
						for _, v := range fxAddrChain(com.Args[0]) {
							o.mark(v)
						}
					}
				case fxOpaqueBufferString[name]:
					o.mark(x)
				case strings.HasPrefix(name, "(*strings.Builder).") || strings.HasPrefix(name, "(*bytes.Buffer)."):
					// Len, Reset, Grow, Write… on a buffer that holds child text: only the
					// receiver is tainted, nothing is read from the text
					onlyRecv := true
					for _, v := range targs {
						if len(com.Args) == 0 || v != com.Args[0] {
							onlyRecv = false
						}
					}
					if !onlyRecv {
						o.inspect(fn, x, "passed to "+name)
					}
				default:
					if name == "" {
						name = "a dynamic call"
					}
					o.inspect(fn, x, "passed to "+name)
					if fxIsStringType(x.Type()) {
						o.mark(x) // what the call makes of it is still child text
					}
				}
			case *ssa.BinOp:
				tx, ty := o.taint[x.X], o.taint[x.Y]
				lx, ly := o.length[x.X], o.length[x.Y]
				switch {
				case x.Op == token.ADD && (tx || ty) && fxIsStringType(x.Type()):
					o.mark(x)
				case fxIsCmp(x.Op) && (tx || ty):
					other := x.Y
					if ty && !tx {
						other = x.X
					}
					if s, ok := core.ConstString(other); ok && s == "" && (x.Op == token.EQL || x.Op == token.NEQ) && !(tx && ty) {
						o.empties[x] = true
					} else {
						o.inspect(fn, x, fmt.Sprintf("compared (%s) with another text", x.Op))
					}
				case fxIsCmp(x.Op) && (lx || ly):
					other, left := x.Y, true
					if ly && !lx {
						other, left = x.X, false
					}
					if k, ok := core.ConstInt(other); ok && !(lx && ly) && fxLenCmpIsEmptiness(x.Op, k, left) {
						o.empties[x] = true
					} else {
						o.inspect(fn, x, fmt.Sprintf("its length is compared (%s) with something other than 0", x.Op))
					}
				case lx || ly:
					o.inspect(fn, x, "its length is used in arithmetic")
				case tx || ty:
					o.inspect(fn, x, "used as an operand of "+x.Op.String())
				}
			case *ssa.Phi:
				for _, e := range x.Edges {
					if o.taint[e] {
						o.mark(x)
					}
					if o.length[e] && !o.length[x] {
						o.length[x] = true
						o.changed = true
					}
				}
			case *ssa.UnOp:
				if x.Op == token.MUL {
					if o.anyTainted(fxAddrChain(x.X)) {
						o.mark(x)
					}
				} else if o.taint[x.X] {
					o.mark(x)
				}
			case *ssa.Store:
				if o.taint[x.Val] {
					for _, v := range fxAddrChain(x.Addr) {
						o.mark(v)
					}
				}
			case *ssa.MapUpdate:
				if o.taint[x.Key] && fxIsStringType(x.Key.Type()) {
					o.inspect(fn, x, "used as a map key")
				}
				if o.taint[x.Value] {
					for _, v := range fxAddrChain(x.Map) {
						o.mark(v)
					}
				}
			case *ssa.Slice:
				if o.taint[x.X] {
					if fxIsStringType(x.X.Type()) {
						o.inspect(fn, x, "a substring of it is taken")
					}
					o.mark(x)
				}
			case *ssa.Index:
				if o.taint[x.X] {
					if fxIsStringType(x.X.Type()) {
						o.inspect(fn, x, "a byte of it is read")
					}
					o.mark(x)
				}
			case *ssa.IndexAddr:
				if o.taint[x.X] {
					o.mark(x)
				}
			case *ssa.Lookup:
				if fxIsStringType(x.X.Type()) {
					if o.taint[x.X] {
						o.inspect(fn, x, "a byte of it is read")
					}
					continue
				}
				if o.taint[x.Index] && fxIsStringType(x.Index.Type()) {
					o.inspect(fn, x, "used as a map key")
				}
				if o.taint[x.X] {
					o.mark(x)
				}
			case *ssa.Range:
				if o.taint[x.X] {
					if fxIsStringType(x.X.Type()) {
						o.inspect(fn, x, "its runes are ranged over")
					}
					o.mark(x)
				}
			case *ssa.Next:
				if o.taint[x.Iter] {
					o.mark(x)
				}
			case *ssa.Convert:
				if o.taint[x.X] {
					if fxIsStringType(x.X.Type()) && !fxIsStringType(x.Type()) {
						o.inspect(fn, x, "converted to "+x.Type().String())
					}
					o.mark(x)
				}
			case *ssa.ChangeType:
				if o.taint[x.X] {
					o.mark(x)
				}
			case *ssa.MakeInterface:
				if o.taint[x.X] {
					o.mark(x)
				}
			case *ssa.ChangeInterface:
				if o.taint[x.X] {
					o.mark(x)
				}
			case *ssa.TypeAssert:
				if o.taint[x.X] {
					o.mark(x)
				}
			case *ssa.Extract:
				if o.taint[x.Tuple] {
					o.mark(x)
				}
			case *ssa.Field:
				if o.taint[x.X] {
					o.mark(x)
				}
			case *ssa.FieldAddr:
				if o.taint[x.X] {
					o.mark(x)
				}
			case *ssa.MakeClosure:
				if f, ok := x.Fn.(*ssa.Function); ok && o.scope[f] {
					for i, bv := range x.Bindings {
						if o.taint[bv] && i < len(f.FreeVars) {
							o.mark(f.FreeVars[i])
						}
					}
				}
			case *ssa.Return:
				for _, r := range x.Results {
					if o.taint[r] && !o.retT[fn] {
						o.retT[fn] = true
						o.changed = true
					}
				}
			case *ssa.Send:
				if o.taint[x.X] {
					o.inspect(fn, x, "sent on a channel")
				}
			case *ssa.Go, *ssa.Defer:
				ci := in.(ssa.CallInstruction)
				for _, v := range ci.Common().Args {
					if o.taint[v] {
						o.inspect(fn, in, "passed to a go / defer call")
					}
				}
			}
		}
	}
}

// analyse: the inspections and emptiness tests in the functions a printer reaches.
func (a *fxAst) opaque(fn *ssa.Function) (insp []fxInspection, empties int, fns []*ssa.Function, sources int) {
	fns = a.reach(fn)
	o := &fxOpaque{a: a, scope: map[*ssa.Function]bool{}, taint: map[ssa.Value]bool{}, length: map[ssa.Value]bool{},
		retT: map[*ssa.Function]bool{}, insp: map[ssa.Instruction]fxInspection{}, empties: map[ssa.Instruction]bool{}}
	for _, f := range fns {
		o.scope[f] = true
	}
	for round := 0; round < 64; round++ {
		o.changed = false
		for _, f := range fns {
			o.step(f)
		}
		if !o.changed {
			break
		}
	}
	for _, f := range fns {
		for _, ci := range core.Calls(f) {
			if call, ok := ci.(*ssa.Call); ok && a.childStringCall(call) != nil {
				sources++
			}
		}
	}
	for _, i := range o.insp {
		insp = append(insp, i)
	}
	sort.Slice(insp, func(i, j int) bool {
		pi, pj := a.c.Pos(insp[i].at), a.c.Pos(insp[j].at)
		if pi != pj {
			return pi < pj
		}
		return insp[i].what < insp[j].what
	})
	return insp, len(o.empties), fns, sources
}

// ---------------------------------------------------------------------------
// symbolic text of a return value

type fxPiece struct {
	lit   string // constant text
	child string // String() of this field of the node ("?" when not a field of it)
	opq   bool   // anything else
}

type fxShape []fxPiece

func (s fxShape) String() string {
	var b strings.Builder
	for i, p := range s {
		if i > 0 {
			b.WriteString(" + ")
		}
		switch {
		case p.opq:
			b.WriteString("…")
		case p.child != "":
			b.WriteString(p.child + ".String()")
		default:
			fmt.Fprintf(&b, "%q", p.lit)
		}
	}
	if len(s) == 0 {
		return `""`
	}
	return b.String()
}

func fxShapeCat(x, y fxShape) fxShape {
	out := append(fxShape(nil), x...)
	for _, p := range y {
		if n := len(out); n > 0 && p.child == "" && !p.opq && out[n-1].child == "" && !out[n-1].opq {
			out[n-1].lit += p.lit
			continue
		}
		if p.child == "" && !p.opq && p.lit == "" {
			continue
		}
		out = append(out, p)
	}
	return out
}

const fxShapeMax = 32

type fxShaper struct {
	a    *fxAst
	node ssa.Value
}

// fieldOfNode: v is (a load of) field F of the printed node.
func fxFieldOfNode(v ssa.Value, node ssa.Value) string {
	v = core.Strip(v)
	switch x := v.(type) {
	case *ssa.Field:
		if fxIsNodeRoot(x.X, node) {
			return core.FieldName(x)
		}
	case *ssa.UnOp:
		if fa, ok := x.X.(*ssa.FieldAddr); ok && x.Op == token.MUL && fxIsNodeRoot(fa.X, node) {
			return core.FieldName(fa)
		}
	}
	return ""
}

// fxIsNodeRoot: v is the printed node itself: the parameter, the cell it was
// spilled into, or a load of that cell / of a pointer receiver.
func fxIsNodeRoot(v ssa.Value, node ssa.Value) bool {
	if v == node {
		return true
	}
	switch x := v.(type) {
	case *ssa.Alloc:
		if node == nil {
			return false
		}
		for _, r := range *x.Referrers() {
			if st, ok := r.(*ssa.Store); ok && st.Addr == v && st.Val == node {
				// the parameter's own cell: nothing else may be stored into it
				n := 0
				for _, r2 := range *x.Referrers() {
					if st2, ok := r2.(*ssa.Store); ok && st2.Addr == v {
						n++
					}
				}
				return n == 1
			}
		}
	case *ssa.UnOp:
		if x.Op == token.MUL {
			return fxIsNodeRoot(x.X, node)
		}
	}
	return false
}

func (s *fxShaper) eval(v ssa.Value, bind map[*ssa.Parameter][]fxShape, root ssa.Value, depth int) []fxShape {
	opq := []fxShape{{{opq: true}}}
	switch x := v.(type) {
	case *ssa.Const:
		if str, ok := core.ConstString(x); ok {
			if str == "" {
				return []fxShape{{}}
			}
			return []fxShape{{{lit: str}}}
		}
	case *ssa.BinOp:
		if x.Op != token.ADD {
			return opq
		}
		var out []fxShape
		for _, l := range s.eval(x.X, bind, root, depth) {
			for _, r := range s.eval(x.Y, bind, root, depth) {
				out = append(out, fxShapeCat(l, r))
			}
		}
		if len(out) > fxShapeMax {
			return opq
		}
		return out
	case *ssa.Phi:
		var out []fxShape
		for _, e := range x.Edges {
			if e == v {
				return opq
			}
			out = append(out, s.eval(e, bind, root, depth)...)
		}
		if len(out) > fxShapeMax {
			return opq
		}
		return out
	case *ssa.Parameter:
		if b, ok := bind[x]; ok {
			return b
		}
	case *ssa.Call:
		if recv := s.a.childStringCall(x); recv != nil {
			name := "?"
			if root != nil {
				if f := fxFieldOfNode(recv, root); f != "" {
					name = f
				}
			}
			return []fxShape{{{child: name}}}
		}
		g := core.StaticCallee(x)
		if depth == 0 || !s.a.helperOf(g) || !fxIsStringResult(g) {
			return opq
		}
		inner := map[*ssa.Parameter][]fxShape{}
		for i, arg := range x.Common().Args {
			if i < len(g.Params) && fxIsStringType(arg.Type()) {
				inner[g.Params[i]] = s.eval(arg, bind, root, depth)
			}
		}
		var out []fxShape
		for _, r := range core.Returns(g) {
			if len(r.Results) == 1 {
				out = append(out, s.eval(r.Results[0], inner, nil, depth-1)...)
			}
		}
		if len(out) == 0 || len(out) > fxShapeMax {
			return opq
		}
		return out
	}
	return opq
}

// the nodes that are nothing but one pair of parentheses around one child
var fxAlwaysWrapped = map[string]string{
	"lib/parser.Parentheses": "Expr",
	"lib/parser.Subquery":    "Query",
}

func (a *fxAst) checkWrapped(p fxPrinter, child string) {
	c := a.c
	key := c.KeyAt(p.fn, fmt.Sprintf("always \"(\" + %s.String() + \")\"", child))
	sh := &fxShaper{a: a}
	bad := ""
	n := 0
	for _, r := range core.Returns(p.fn) {
		if len(r.Results) != 1 {
			continue
		}
		for _, alt := range sh.eval(r.Results[0], nil, p.node, 3) {
			n++
			ok := len(alt) == 3 && alt[0].lit == "(" && !alt[0].opq && alt[0].child == "" &&
				alt[1].child == child && alt[2].lit == ")" && !alt[2].opq && alt[2].child == ""
			if !ok && bad == "" {
				bad = fmt.Sprintf("the return at %s can yield %s", c.Pos(r), alt)
			}
		}
	}
	switch {
	case n == 0:
		c.Unknown(key, c.FnPos(p.fn), "cannot-analyse: no return value found")
	case bad != "":
		c.Bad(key, c.FnPos(p.fn), bad+fmt.Sprintf(" instead of \"(\" + %s.String() + \")\": a %s stands for exactly one pair of parentheses in the query — printed without it (or with other text) the operand regroups with its neighbours, e.g. 12 / ((1 + 2) * (1 + 1)) becomes 12 / (1 + 2) * (1 + 1)", child, p.name[strings.LastIndex(p.name, ".")+1:]))
	default:
		c.Ok(key, c.FnPos(p.fn), fmt.Sprintf("%d return value(s), each \"(\" + %s.String() + \")\"", n, child))
	}
	if bad != "" && p.ctl && strings.HasPrefix(p.fn.Name(), "ok") {
		c.Unknown("negative-control:"+key, "-", "the rule reports "+p.fn.Name()+", which spells an accepted idiom correctly: "+bad)
	}
}

// ---------------------------------------------------------------------------

func ruleEsc8(c *Ctx) {
	a := fxNewAst(c)
	if a == nil {
		return
	}
	ps := a.printers("CtlPrinter", "okPrinter")
	if len(ps) == 0 {
		c.Unknown("printers", "-", "cannot-analyse: no String() method of a syntax-tree type found in lib/parser")
		return
	}
	wrapped := map[string]bool{}
	for _, p := range ps {
		c.Touch(p.fn)
		insp, empties, fns, sources := a.opaque(p.fn)
		key := c.KeyAt(p.fn, "child text is opaque")
		if len(insp) == 0 {
			why := fmt.Sprintf("%d String() call(s) on children followed through the printer and the %d lib/parser function(s) it reaches: none of the texts is inspected", sources, len(fns)-1)
			if empties > 0 {
				why += fmt.Sprintf(" (%d emptiness test(s) tolerated)", empties)
			}
			c.Ok(key, c.FnPos(p.fn), why)
		} else {
			i := insp[0]
			where := ""
			if i.fn != p.fn {
				where = " in " + c.P.Name(i.fn) + ", which the printer hands the text to,"
			}
			why := fmt.Sprintf("the text returned by a child's String()%s is inspected at %s (%s; %d such use(s) in all): what is printed then depends on how the child's text looks, not on the tree — a text such as \"(a + b) * (c + d)\" starts with '(' and ends with ')' without being one group, so the printed query parses to another tree", where, c.Pos(i.at), i.what, len(insp))
			c.Bad(key, c.Pos(i.at), why)
			if p.ctl && strings.HasPrefix(p.fn.Name(), "ok") {
				c.Unknown("negative-control:"+key, "-", "the rule reports "+p.fn.Name()+", which spells an accepted idiom correctly: "+why)
			}
		}
		if child, ok := fxAlwaysWrapped[p.name]; ok {
			if !p.ctl {
				wrapped[p.name] = true
			}
			if !p.ctl || strings.Contains(p.fn.Name(), "Parentheses") {
				a.checkWrapped(p, child)
			}
		}
	}
	var names []string
	for n := range fxAlwaysWrapped {
		names = append(names, n)
	}
	sort.Strings(names)
	for _, n := range names {
		if !wrapped[n] {
			c.Unknown("anchor:"+n+".String", "-", "cannot-analyse: no String() method of "+n+" in the current tree")
		}
	}
}
