package rules

import (
	"fmt"
	"go/token"
	"go/types"
	"sort"
	"strings"

	"golang.org/x/tools/go/ssa"

	"verif/checker/core"
)

// C14 — evaluation never changes what it only reads.
//
//	R-INPL-1  a list of values is rewritten in place only by the function that made it — or on behalf of it
//
// R-ISO-4 decides the same clause for values whose *type* is query.Cell inside one function. A cell is a
// []value.Primary, and most of the evaluator handles lists of values under that plain type: the moment a cell
// is returned by a helper, converted or handed on as []value.Primary the type name is gone while the backing
// array is still the one of the record. This rule goes by provenance instead of by type name: every in-place
// write of a value list (element store, copy into, in-place sort, the filter idiom `append(p[:k], …)`) is traced —
// through φ, conversions, re-slicings, local cells, append and the results of csvq functions (return
// summaries with parameter substitution) — to where the backing array comes from. A parameter moves the
// obligation to every caller ("mutates its slice argument" summary, fixpoint, dynamic call sites included);
// an allocation made on the way (make, literal, nil) discharges it; anything read out of a field, an
// element, a map, a global or returned by a function without a body is foreign.

func init() {
	Register(&Rule{ID: "R-INPL-1", Props: []string{"C14", "C08", "C17"}, Floor: 20,
		Doc:      "every in-place write of a []value.Primary (a named type over it included: query.Cell) — element store, copy into it, in-place sort, append to a shortened re-slicing of it (`p[:k]`, the filter idiom) — and every call that hands such a list to a parameter through which the callee does one of these (interprocedural 'mutates its slice argument' summary; static, closure and dynamic call sites) concerns a backing array that was allocated on the way (make / literal / nil, possibly inside a csvq function whose result it is); a list read out of a field, an element of a record, a map or a package variable, or returned by a function that did not allocate it, is never rewritten",
		Controls: []string{"CtlInplFilterCellViaHelper", "CtlInplSortGroupColumn", "CtlInplDynamicMutator", "CtlInplInterfaceMutator"},
		Run:      ruleInpl1})
}

func isValueList(t types.Type) bool {
	s, ok := t.Underlying().(*types.Slice)
	if !ok {
		return false
	}
	return isValueNamed(s.Elem(), "Primary") && !isPtr(s.Elem())
}

type inplInfo struct {
	p   *core.Prog
	mut map[*ssa.Function]map[int]string // parameter index → how the function rewrites the list it receives there
	ret map[inplSlot][]ssa.Value         // roots of result #idx in the callee's own terms
	run map[inplSlot]bool
	// address-taken csvq functions by signature (dynamic call sites the call graph does not resolve)
}

type inplSlot struct {
	fn  *ssa.Function
	idx int
}

// roots expands a list value to where its backing array comes from.
func (ii *inplInfo) roots(v ssa.Value) []ssa.Value {
	var out []ssa.Value
	seen := map[ssa.Value]bool{}
	var walk func(v ssa.Value)
	walk = func(v ssa.Value) {
		if v == nil || seen[v] {
			return
		}
		seen[v] = true
		switch x := v.(type) {
		case *ssa.Phi:
			for _, e := range x.Edges {
				walk(e)
			}
			return
		case *ssa.ChangeType:
			walk(x.X)
			return
		case *ssa.ChangeInterface:
			walk(x.X)
			return
		case *ssa.MakeInterface:
			walk(x.X)
			return
		case *ssa.TypeAssert:
			walk(x.X)
			return
		case *ssa.Slice:
			walk(x.X)
			return
		case *ssa.UnOp:
			if x.Op == token.MUL {
				switch c := x.X.(type) {
				case *ssa.Alloc, *ssa.FreeVar:
					vals, complete := core.StoresTo(c)
					if complete && len(vals) > 0 {
						for _, s := range vals {
							walk(s)
						}
						return
					}
				}
			}
		case *ssa.Extract:
			if ta, ok := x.Tuple.(*ssa.TypeAssert); ok && x.Index == 0 {
				walk(ta.X)
				return
			}
			if call, ok := x.Tuple.(*ssa.Call); ok {
				if ii.throughCall(call, x.Index, walk) {
					return
				}
			}
		case *ssa.Call:
			if b, ok := x.Common().Value.(*ssa.Builtin); ok {
				if b.Name() == "append" && len(x.Common().Args) > 0 {
					walk(x.Common().Args[0])
					return
				}
			}
			if ii.throughCall(x, 0, walk) {
				return
			}
		}
		out = append(out, v)
	}
	walk(v)
	return out
}

// throughCall substitutes the result of a call of a csvq function with a body by the roots of what it returns.
func (ii *inplInfo) throughCall(call *ssa.Call, idx int, walk func(ssa.Value)) bool {
	f := core.StaticCallee(call)
	if f == nil || f.Blocks == nil || !ii.isSrc(f) {
		return false
	}
	args := call.Common().Args
	for _, r := range ii.retRoots(f, idx) {
		if prm, ok := r.(*ssa.Parameter); ok && prm.Parent() == f {
			for k, q := range f.Params {
				if q == prm && k < len(args) {
					walk(args[k])
				}
			}
			continue
		}
		walk(r)
	}
	return true
}

func (ii *inplInfo) isSrc(f *ssa.Function) bool {
	for f.Parent() != nil {
		f = f.Parent()
	}
	if o := f.Origin(); o != nil {
		f = o
	}
	return f.Pkg != nil && strings.HasPrefix(f.Pkg.Pkg.Path(), core.ModPath)
}

func (ii *inplInfo) retRoots(f *ssa.Function, idx int) []ssa.Value {
	sl := inplSlot{f, idx}
	if r, ok := ii.ret[sl]; ok {
		return r
	}
	if ii.run[sl] {
		return nil // recursion: what the other returns yield
	}
	ii.run[sl] = true
	var out []ssa.Value
	seen := map[ssa.Value]bool{}
	for _, r := range core.Returns(f) {
		if idx >= len(r.Results) {
			continue
		}
		for _, o := range ii.roots(r.Results[idx]) {
			if !seen[o] {
				seen[o] = true
				out = append(out, o)
			}
		}
	}
	delete(ii.run, sl)
	ii.ret[sl] = out
	return out
}

// shortened: does the first operand of an append derive from a re-slicing that cuts the length of its
// operand (x[:k], x[i:k]) without limiting the capacity to the same bound? Then the appended elements land
// on elements the holder of x still sees.
func shortenedBase(v ssa.Value) *ssa.Slice {
	seen := map[ssa.Value]bool{}
	var found *ssa.Slice
	var walk func(v ssa.Value)
	walk = func(v ssa.Value) {
		if v == nil || seen[v] || found != nil {
			return
		}
		seen[v] = true
		switch x := v.(type) {
		case *ssa.Phi:
			for _, e := range x.Edges {
				walk(e)
			}
		case *ssa.ChangeType:
			walk(x.X)
		case *ssa.Slice:
			if _, isSl := x.X.Type().Underlying().(*types.Slice); isSl && x.High != nil && (x.Max == nil || !inplSameBound(x.Max, x.High)) {
				found = x
				return
			}
			if x.Max == nil {
				walk(x.X)
			}
		case *ssa.UnOp:
			if x.Op == token.MUL {
				switch c := x.X.(type) {
				case *ssa.Alloc, *ssa.FreeVar:
					vals, complete := core.StoresTo(c)
					if complete {
						for _, s := range vals {
							walk(s)
						}
					}
				}
			}
		case *ssa.Call:
			if b, ok := x.Common().Value.(*ssa.Builtin); ok && b.Name() == "append" && len(x.Common().Args) > 0 {
				walk(x.Common().Args[0])
			}
		}
	}
	walk(v)
	return found
}

func inplSameBound(a, b ssa.Value) bool {
	if a == b {
		return true
	}
	x, okx := core.ConstInt(a)
	y, oky := core.ConstInt(b)
	return okx && oky && x == y
}

type inplSink struct {
	fn   *ssa.Function
	in   ssa.Instruction
	list ssa.Value
	what string
}

// sinks enumerates the in-place writes of value lists in fn: direct ones and calls handing a list to a
// parameter that the summary says is rewritten.
func (ii *inplInfo) sinks(fn *ssa.Function) []inplSink {
	var out []inplSink
	for _, b := range fn.Blocks {
		for _, in := range b.Instrs {
			switch x := in.(type) {
			case *ssa.Store:
				if ia, ok := x.Addr.(*ssa.IndexAddr); ok && isValueList(ia.X.Type()) {
					out = append(out, inplSink{fn, in, ia.X, "element store"})
				}
			case ssa.CallInstruction:
				com := x.Common()
				if bi, ok := com.Value.(*ssa.Builtin); ok {
					switch bi.Name() {
					case "append":
						if len(com.Args) > 0 && isValueList(com.Args[0].Type()) {
							if sl := shortenedBase(com.Args[0]); sl != nil {
								out = append(out, inplSink{fn, in, sl.X, "append to a shortened re-slicing"})
							}
						}
					case "copy":
						if len(com.Args) > 0 && isValueList(com.Args[0].Type()) {
							out = append(out, inplSink{fn, in, com.Args[0], "copy into"})
						}
					}
					continue
				}
				if name := ii.p.CalleeName(x); strings.HasPrefix(name, "sort.") && len(com.Args) > 0 {
					if a := core.Strip(com.Args[0]); isValueList(a.Type()) {
						out = append(out, inplSink{fn, in, a, "in-place " + name})
					}
					continue
				}
				off := 0
				if com.IsInvoke() {
					off = 1 // the receiver is parameter 0 of every implementation
				}
				callees := ii.p.Callees(x)
				sort.Slice(callees, func(i, j int) bool { return ii.p.FnRef(callees[i]) < ii.p.FnRef(callees[j]) })
				for j, a := range com.Args {
					if !isValueList(a.Type()) {
						continue
					}
					for _, f := range callees {
						if how, ok := ii.mut[f][j+off]; ok {
							out = append(out, inplSink{fn, in, a, "passed to " + ii.p.FnRef(f) + " (" + how + ")"})
							break
						}
					}
				}
			}
		}
	}
	return out
}

func inplace(p *core.Prog) *inplInfo {
	ii := &inplInfo{p: p, mut: map[*ssa.Function]map[int]string{}, ret: map[inplSlot][]ssa.Value{}, run: map[inplSlot]bool{}}
	for changed := true; changed; {
		changed = false
		for _, fn := range p.SrcFuncs() {
			for _, s := range ii.sinks(fn) {
				for _, r := range ii.roots(s.list) {
					prm, ok := r.(*ssa.Parameter)
					if !ok {
						continue
					}
					owner := prm.Parent()
					for k, q := range owner.Params {
						if q != prm {
							continue
						}
						if ii.mut[owner] == nil {
							ii.mut[owner] = map[int]string{}
						}
						if _, have := ii.mut[owner][k]; !have {
							how := s.what
							if i := strings.Index(how, " ("); i > 0 && strings.HasPrefix(how, "passed to ") {
								how = how[:i]
							}
							ii.mut[owner][k] = how
							changed = true
						}
					}
				}
			}
		}
	}
	return ii
}

func inplRootDesc(p *core.Prog, r ssa.Value) (string, bool) {
	switch x := r.(type) {
	case *ssa.MakeSlice:
		return "make", true
	case *ssa.Alloc:
		return "literal", true
	case *ssa.Const:
		if x.IsNil() {
			return "nil", true
		}
	case *ssa.Parameter:
		return "parameter " + x.Name(), true
	case *ssa.Call:
		return "the result of " + callDesc(p, x) + " (no body to look into)", false
	case *ssa.Extract:
		if c, ok := x.Tuple.(*ssa.Call); ok {
			return "a result of " + callDesc(p, c) + " (no body to look into)", false
		}
	case *ssa.UnOp:
		if x.Op == token.MUL {
			switch a := x.X.(type) {
			case *ssa.FieldAddr:
				return "read from field " + core.FieldOwner(a), false
			case *ssa.IndexAddr:
				return "read from an element of a " + types.TypeString(a.X.Type(), shortQual), false
			case *ssa.Global:
				return "read from package variable " + a.Name(), false
			}
		}
	case *ssa.Field:
		return "read from field " + core.FieldOwner(x), false
	case *ssa.Index:
		return "read from an element of a " + types.TypeString(x.X.Type(), shortQual), false
	case *ssa.Lookup:
		return "read from a map", false
	}
	return valueLabel(r), false
}

func shortQual(p *types.Package) string { return p.Name() }

func ruleInpl1(c *Ctx) {
	ii := inplace(c.P)
	// the summary is part of the evidence
	var mfs []*ssa.Function
	for f := range ii.mut {
		mfs = append(mfs, f)
	}
	sort.Slice(mfs, func(i, j int) bool { return c.P.FnRef(mfs[i]) < c.P.FnRef(mfs[j]) })
	for _, f := range mfs {
		if c.P.IsControl(f) || f.Parent() != nil && c.P.IsControl(f.Parent()) {
			continue
		}
		var ks []int
		for k := range ii.mut[f] {
			ks = append(ks, k)
		}
		sort.Ints(ks)
		for _, k := range ks {
			name := fmt.Sprintf("#%d", k)
			if k < len(f.Params) {
				name = f.Params[k].Name()
			}
			callers := 0
			for _, e := range c.P.Callers(f) {
				if e.Site != nil {
					callers++
				}
			}
			c.Touch(f)
			c.OkN(c.KeyAt(f, "rewrites the list it receives as "+name), c.FnPos(f),
				fmt.Sprintf("%s; the obligation is decided at its %d call site(s)", ii.mut[f][k], callers), callers)
		}
	}
	for _, fn := range c.P.SrcFuncs() {
		count := map[string]int{}
		for _, s := range ii.sinks(fn) {
			roots := ii.roots(s.list)
			var foreign, own []string
			params := 0
			for _, r := range roots {
				d, ok := inplRootDesc(c.P, r)
				if _, isPrm := r.(*ssa.Parameter); isPrm {
					params++
					continue
				}
				if ok {
					own = append(own, d)
				} else {
					foreign = append(foreign, d)
				}
			}
			if len(foreign) == 0 && len(own) == 0 {
				continue // only parameters: decided at the callers
			}
			c.Touch(fn)
			c.Sites++
			what := s.what
			if i := strings.Index(what, " ("); i > 0 && strings.HasPrefix(what, "passed to ") {
				what = what[:i]
			}
			count[what]++
			key := c.KeyAt(fn, fmt.Sprintf("value list %s #%d", what, count[what]))
			if len(foreign) == 0 {
				c.Ok(key, c.Pos(s.in), "the backing array is allocated on the way: "+strings.Join(dedup(own), ", "))
				continue
			}
			sort.Strings(foreign)
			c.Bad(key, c.Pos(s.in), "a list of values this function did not allocate is rewritten in place ("+s.what+"): the list is "+strings.Join(dedup(foreign), "; ")+
				" — whoever else holds that backing array (the record of the view, the group an aggregate only reads, a cursor, a restore point) sees other values afterwards")
		}
	}
}
