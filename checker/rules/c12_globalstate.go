package rules

import (
	"fmt"
	"go/token"
	"sort"
	"strings"

	"golang.org/x/tools/go/ssa"

	"verif/checker/core"
)

// R-DET-2: evaluation keeps no hidden state in package-level variables.
//
// "Results are a function of the inputs" (C12) fails as soon as an evaluator
// remembers something from one row, statement or goroutine in a package-level
// variable and lets it influence the next: a "last matched format" hint makes
// the reading of an ambiguous date depend on the rows before it and on which
// worker ran last. Atomic types make such a variable race-free (so C13's rules
// accept it) — not deterministic.

func init() {
	Register(&Rule{ID: "R-DET-2", Props: []string{"C12", "C14"}, Floor: 8,
		Doc:      "package-level variables are written only where listed: for every package-level variable of csvq, every run-time write — a store to it or through it (field, element), an update of a map it holds, a mutating method of sync/atomic, sync.Map or a csvq type applied to it — outside package initialisation must be one of the variables listed in the rule with the reason why its content cannot influence a result (pure memo of a deterministic function, object pool, terminal / colour configuration set before the run, version string); any other variable written at run time is reported with the writing function. A mutable package-level variable that evaluation code reads back makes a value depend on earlier rows, earlier statements or the interleaving of workers. Decides who writes, per variable; that the listed memos are pure is argued in the table, not decided",
		Controls: []string{"CtlLastMatchHint"},
		Run:      ruleDet2})
}

// run-time written package-level variables and why their content never changes a result
var det2Allowed = map[string]string{
	"lib/action.CurrentVersion": "version of the binary, set once by cli.Run before any statement runs",
	"lib/query.Version":         "version string, set once by cli.Run before any statement runs",
	"lib/file.randForLock":      "lazily created (sync.Once) generator of the random part of .rlock file names — control-file names are not results",
	"lib/option.random":         "lazily created (sync.Once) generator behind RAND / RANDOM_STRING — C12 excludes programs that call them; its use is serialised by R-PAR-8",
	"lib/parser.yyDebug":        "goyacc debug switch, written by SetDebugLevel only (a development aid, not reachable from a statement)",
	"lib/parser.yyErrorVerbose": "goyacc debug switch, written by SetDebugLevel only",
	"lib/query.gm":              "goroutine manager singleton created once (sync.Once); holds the worker budget, not data",
}

func ruleDet2(c *Ctx) {
	type write struct {
		fn  *ssa.Function
		in  ssa.Instruction
		how string
	}
	writes := map[*ssa.Global][]write{}
	globalOf := func(v ssa.Value) *ssa.Global {
		for i := 0; i < 8 && v != nil; i++ {
			switch x := v.(type) {
			case *ssa.Global:
				return x
			case *ssa.FieldAddr:
				v = x.X
			case *ssa.IndexAddr:
				v = x.X
			case *ssa.UnOp:
				if x.Op != token.MUL {
					return nil
				}
				v = x.X
			case *ssa.Slice:
				v = x.X
			case *ssa.ChangeType:
				v = x.X
			case *ssa.MakeInterface:
				v = x.X
			default:
				return nil
			}
		}
		return nil
	}
	mutators := map[string]bool{
		"Store": true, "Swap": true, "CompareAndSwap": true, "Add": true, "And": true, "Or": true,
		"Delete": true, "LoadOrStore": true, "LoadAndDelete": true, "CompareAndDelete": true, "Clear": true,
		"Set": true, "Put": true, "Reset": true, "Push": true, "Append": true, "Remove": true, "Insert": true, "Seed": true,
	}
	for _, fn := range c.P.SrcFuncs() {
		if c.P.IsControl(fn) && fn.Name() == "init" {
			continue
		}
		if fn.Name() == "init" || strings.HasPrefix(fn.Name(), "init#") || fn.Synthetic != "" {
			continue
		}
		for _, b := range fn.Blocks {
			for _, in := range b.Instrs {
				switch x := in.(type) {
				case *ssa.Store:
					if g := globalOf(x.Addr); g != nil && inModuleGlobal(g) {
						writes[g] = append(writes[g], write{fn, in, "store"})
					}
				case *ssa.MapUpdate:
					if g := globalOf(x.Map); g != nil && inModuleGlobal(g) {
						writes[g] = append(writes[g], write{fn, in, "map update"})
					}
				case ssa.CallInstruction:
					com := x.Common()
					if bi, ok := com.Value.(*ssa.Builtin); ok {
						if bi.Name() == "delete" && len(com.Args) > 0 {
							if g := globalOf(com.Args[0]); g != nil && inModuleGlobal(g) {
								writes[g] = append(writes[g], write{fn, in, "delete"})
							}
						}
						continue
					}
					name := ""
					var recv ssa.Value
					if com.IsInvoke() {
						name, recv = com.Method.Name(), com.Value
					} else if f := com.StaticCallee(); f != nil && f.Signature.Recv() != nil && len(com.Args) > 0 {
						name, recv = f.Name(), com.Args[0]
					}
					if recv == nil || !mutators[name] {
						continue
					}
					if g := globalOf(recv); g != nil && inModuleGlobal(g) {
						writes[g] = append(writes[g], write{fn, in, "method " + name})
					}
				}
			}
		}
	}
	var gs []*ssa.Global
	for g := range writes {
		gs = append(gs, g)
	}
	sort.Slice(gs, func(i, j int) bool { return det2GlobalName(gs[i]) < det2GlobalName(gs[j]) })
	for _, g := range gs {
		name := det2GlobalName(g)
		ws := writes[g]
		sort.Slice(ws, func(i, j int) bool { return c.Pos(ws[i].in) < c.Pos(ws[j].in) })
		var by []string
		for _, w := range ws {
			by = append(by, fmt.Sprintf("%s (%s at %s)", c.P.Name(w.fn), w.how, c.Pos(w.in)))
			c.Touch(w.fn)
		}
		key := "package-level variable " + name + " written at run time"
		if strings.HasSuffix(strings.TrimPrefix(g.Type().String(), "*"), "sync.Pool") {
			c.Ok(key, c.Pos(ws[0].in), "an object pool: what comes out of it is reinitialised by its taker (decided by R-POOL-1 … 5); written by "+strings.Join(dedup(by), ", "))
			continue
		}
		if why, ok := det2Allowed[name]; ok {
			c.Ok(key, c.Pos(ws[0].in), "listed: "+why+"; written by "+strings.Join(dedup(by), ", "))
			continue
		}
		c.Bad(key, c.Pos(ws[0].in), "the variable is written outside package initialisation by "+strings.Join(dedup(by), ", ")+" and is not listed as result-neutral: what one row, statement or worker stores there is seen by the next — results depend on the history and, with --cpu > 1, on the schedule")
	}
	c.Sites += len(gs)
}

func inModuleGlobal(g *ssa.Global) bool {
	return g.Pkg != nil && g.Pkg.Pkg != nil && (strings.HasPrefix(g.Pkg.Pkg.Path(), core.ModPath))
}

func det2GlobalName(g *ssa.Global) string {
	return core.Short(g.Pkg.Pkg.Path()) + "." + g.Name()
}
