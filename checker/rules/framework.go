// Package rules holds the repository-specific static rules, one file per
// property (shared rules are registered for several properties).
package rules

import (
	"fmt"
	"sort"
	"strings"

	"golang.org/x/tools/go/ssa"

	"verif/checker/core"
)

const (
	Discharged = "discharged"
	Violated   = "violated"
	Undecided  = "undecided"
)

// Obligation is one thing a rule had to establish about one construct.
type Obligation struct {
	Rule    string `json:"rule"`
	Key     string `json:"key"` // construct: function / callee / variable — never a line number
	Pos     string `json:"pos"`
	Status  string `json:"status"`
	Why     string `json:"why"`
	Control bool   `json:"control,omitempty"`
	Cells   int    `json:"cells,omitempty"` // table cells / abstract states enumerated for it
}

// Rule is one static rule.
type Rule struct {
	ID    string
	Props []string // properties it is evidence for
	Doc   string   // what clause it decides
	Floor int      // minimal number of non-control obligations confirmed by hand
	// Controls are keys (substrings of obligation keys) in the control package
	// that must be reported as violated on every run.
	Controls []string
	Run      func(c *Ctx)
}

var registry []*Rule

func Register(r *Rule) { registry = append(registry, r) }

// All returns the registered rules sorted by id.
func All() []*Rule {
	out := append([]*Rule(nil), registry...)
	sort.Slice(out, func(i, j int) bool { return out[i].ID < out[j].ID })
	return out
}

// ForProperty returns the rules serving a property.
func ForProperty(id string) []*Rule {
	var out []*Rule
	for _, r := range All() {
		for _, p := range r.Props {
			if p == id {
				out = append(out, r)
			}
		}
	}
	return out
}

// Ctx is what a rule sees while it runs.
type Ctx struct {
	P    *core.Prog
	Tier string
	rule *Rule
	Obs  []Obligation
	// Anchors resolved by the rule (for the evidence)
	Anchors map[string]bool
	Funcs   map[string]bool // functions analysed
	Sites   int             // call sites examined
}

func NewCtx(p *core.Prog, tier string) *Ctx {
	return &Ctx{P: p, Tier: tier, Anchors: map[string]bool{}, Funcs: map[string]bool{}}
}

func (c *Ctx) SetRule(r *Rule) { c.rule = r }

func (c *Ctx) add(status, key, pos, why string, control bool, cells int) {
	c.Obs = append(c.Obs, Obligation{Rule: c.rule.ID, Key: key, Pos: pos, Status: status, Why: why, Control: control, Cells: cells})
}

func (c *Ctx) isCtlPos(pos string) bool { return strings.Contains(pos, core.ControlPkg) }

// Ok records a discharged obligation.
func (c *Ctx) Ok(key, pos, why string) { c.add(Discharged, key, pos, why, c.isCtlPos(pos), 0) }

// OkN records a discharged obligation that enumerated n table cells.
func (c *Ctx) OkN(key, pos, why string, n int) {
	c.add(Discharged, key, pos, why, c.isCtlPos(pos), n)
}

// Bad records a violated obligation.
func (c *Ctx) Bad(key, pos, why string) { c.add(Violated, key, pos, why, c.isCtlPos(pos), 0) }

// Unknown records an obligation the rule could not decide (counts as failure).
func (c *Ctx) Unknown(key, pos, why string) { c.add(Undecided, key, pos, why, c.isCtlPos(pos), 0) }

// Check records Ok or Bad.
func (c *Ctx) Check(cond bool, key, pos, okWhy, badWhy string) bool {
	if cond {
		c.Ok(key, pos, okWhy)
	} else {
		c.Bad(key, pos, badWhy)
	}
	return cond
}

// Fn resolves an anchor; a missing anchor is an undecided obligation
// ("cannot-analyse"), never a silent pass.
func (c *Ctx) Fn(name string) *ssa.Function {
	f := c.P.Func(name)
	if f == nil || f.Blocks == nil {
		c.Unknown("anchor:"+name, "-", "cannot-analyse: anchor "+name+" does not resolve to a function with a body in the current tree")
		return nil
	}
	c.Anchors[name] = true
	c.Funcs[name] = true
	return f
}

// FnOpt resolves an anchor that may legitimately be absent (e.g. a control).
func (c *Ctx) FnOpt(name string) *ssa.Function {
	f := c.P.Func(name)
	if f == nil || f.Blocks == nil {
		return nil
	}
	c.Anchors[name] = true
	c.Funcs[name] = true
	return f
}

// Ctl resolves a control function of the overlay package by bare name.
func (c *Ctx) Ctl(name string) *ssa.Function {
	return c.FnOpt(core.ControlPkg + "." + name)
}

func (c *Ctx) Touch(fn *ssa.Function) { c.Funcs[c.P.Name(fn)] = true }

func (c *Ctx) Pos(in ssa.Instruction) string { return c.P.InstrPos(in) }

func (c *Ctx) FnPos(fn *ssa.Function) string { return c.P.Pos(fn.Pos()) }

// KeyAt builds "function: detail" keys.
func (c *Ctx) KeyAt(fn *ssa.Function, detail string) string {
	return fmt.Sprintf("%s: %s", c.P.Name(fn), detail)
}
