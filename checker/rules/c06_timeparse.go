package rules

import (
	"fmt"
	"sort"
	"strings"

	"golang.org/x/tools/go/ssa"

	"verif/checker/core"
)

// R-CONV-2 — zone-less datetime texts are read in the session's time zone.

func init() {
	Register(&Rule{ID: "R-CONV-2", Props: []string{"C06", "C04"}, Floor: 17,
		Doc: "a text without a zone is read in the session's location: every call of time.Parse in csvq (all packages; time.Parse reads a zone-less text as UTC) has a layout that is a constant string — or a φ of constant strings — and every such constant carries a zone element (contains \"Z07\", \"-07\" or \"MST\": Z07:00, -07:00, Z0700, -0700, Z07, -07, MST); " +
			"layouts without a zone element and layouts that are not constants (a user-supplied format converted by a helper) go through time.ParseInLocation. These are the only idioms of today's tree (conv.go StrToTime: RFC3339Nano only after the text was seen to end in a zone, the ' Z07:00' / ' -0700' / ' MST' fallbacks, RFC822 / RFC822Z; action/update.go: RFC3339); anything else is reported. " +
			"At least one time.ParseInLocation site must exist, and none of them may pass the constant location time.UTC / time.Local",
		Controls: []string{"CtlTimeParseZonelessLayout", "CtlTimeParseUserLayout"},
		Run:      ruleConv2})
}

func conv2HasZone(layout string) bool {
	return strings.Contains(layout, "Z07") || strings.Contains(layout, "-07") || strings.Contains(layout, "MST")
}

// conv2Layouts: the constant strings a layout operand can be (ok=false when
// some origin is not a constant).
func conv2Layouts(v ssa.Value, seen map[ssa.Value]bool) ([]string, bool) {
	if seen[v] {
		return nil, true
	}
	seen[v] = true
	if s, ok := core.ConstString(v); ok {
		return []string{s}, true
	}
	if p, ok := v.(*ssa.Phi); ok {
		var out []string
		for _, e := range p.Edges {
			s, ok := conv2Layouts(e, seen)
			if !ok {
				return nil, false
			}
			out = append(out, s...)
		}
		return out, true
	}
	return nil, false
}

func ruleConv2(c *Ctx) {
	count := map[string]int{}
	inLoc := 0
	for _, fn := range c.P.SrcFuncs() {
		negative := c.P.IsControl(fn) && strings.HasPrefix(fn.Name(), "Ok")
		if c.P.IsControl(fn) && !strings.HasPrefix(fn.Name(), "CtlTimeParse") && !strings.HasPrefix(fn.Name(), "OkTimeParse") {
			continue
		}
		for _, call := range core.Calls(fn) {
			name := c.P.CalleeName(call)
			args := call.Common().Args
			switch name {
			case "time.ParseInLocation":
				if c.P.IsControl(fn) || len(args) != 3 {
					continue
				}
				inLoc++
				c.Sites++
				if ld, ok := args[2].(*ssa.UnOp); ok {
					if g, ok := ld.X.(*ssa.Global); ok && g.Pkg != nil && g.Pkg.Pkg.Path() == "time" && (g.Name() == "UTC" || g.Name() == "Local") {
						key := c.KeyAt(fn, "time.ParseInLocation in time."+g.Name())
						count[key]++
						if count[key] > 1 {
							key = fmt.Sprintf("%s #%d", key, count[key])
						}
						c.Bad(key, c.Pos(call), "a zone-less text is read in the fixed location time."+g.Name()+" instead of the session's location")
					}
				}
			case "time.Parse":
				if len(args) != 2 {
					continue
				}
				c.Sites++
				c.Touch(fn)
				layouts, isConst := conv2Layouts(args[0], map[ssa.Value]bool{})
				label := "a computed layout"
				if isConst {
					sort.Strings(layouts)
					layouts = dedup(layouts)
					var q []string
					for _, l := range layouts {
						q = append(q, fmt.Sprintf("%q", l))
					}
					label = strings.Join(q, " | ")
				}
				key := c.KeyAt(fn, "time.Parse("+label+")")
				count[key]++
				if count[key] > 1 {
					key = fmt.Sprintf("%s #%d", key, count[key])
				}
				why := ""
				if !isConst {
					why = "the layout is not a constant (a user-supplied or converted format): it may lack a zone, and time.Parse reads a zone-less text as UTC; use time.ParseInLocation with the session's location"
				} else {
					var zoneless []string
					for _, l := range layouts {
						if !conv2HasZone(l) {
							zoneless = append(zoneless, fmt.Sprintf("%q", l))
						}
					}
					if len(zoneless) > 0 {
						why = "layout " + strings.Join(zoneless, ", ") + " has no zone element (Z07:00, -0700, MST …): time.Parse reads such a text as UTC, while every other zone-less spelling is read in the session's location; use time.ParseInLocation"
					}
				}
				if why == "" {
					c.Ok(key, c.Pos(call), "every layout carries a zone element")
					continue
				}
				c.Bad(key, c.Pos(call), why)
				if negative {
					c.Unknown("negative-control:"+key, "-", "the rule reports "+fn.Name()+", an accepted idiom: "+why)
				}
			}
		}
	}
	c.Check(inLoc > 0, "time.ParseInLocation sites", "-", fmt.Sprintf("%d site(s) read zone-less texts in a given location", inLoc),
		"no call of time.ParseInLocation is left in csvq: zone-less datetime texts cannot be read in the session's location any more")
}
