package rules

import (
	"fmt"
	"go/token"
	"go/types"
	"sort"
	"strings"

	"golang.org/x/tools/go/ssa"

	"verif/checker/core"
)

// C14 — evaluation never changes what it only reads.
//
//	R-PROG-1  a stored program is written only while it is built
//
// R-AST-1 keeps the slices of lib/parser nodes read-only. The objects that *hold* a stored program between
// its declaration and its executions — lib/query.UserDefinedFunction (DECLARE FUNCTION / AGGREGATE),
// lib/query.PreparedStatement (PREPARE) and the query / statement a Cursor was declared with — are lib/query
// structs with maps and slices of parser nodes in their fields. Executing a function or a prepared statement
// reads them; a store into one of them (constant folding of a default, caching a rewritten statement, shifting a
// parameter list) edits the program every later execution — and SHOW — reads.

func init() {
	Register(&Rule{ID: "R-PROG-1", Props: []string{"C14", "C15"}, Floor: 3,
		Doc:      "who-may-write table for stored programs: a field of lib/query.UserDefinedFunction or lib/query.PreparedStatement (and Cursor.query / Cursor.statement) is stored — directly, through a nested field, or by overwriting the whole object — only on an object allocated in the same function (its constructor); a map or slice read out of such a field (through φ, conversions, re-slicings, local cells and the results of csvq functions) is never the target of a map update, delete/clear, element store, append, copy, in-place sort, nor handed to a callee that writes its map / slice parameter; the address of such a field is only loaded from or stored through",
		Controls: []string{"CtlProgFoldDefault", "CtlProgStoreField", "CtlProgShiftParameters", "CtlProgDefaultsViaHelper", "CtlProgFieldAddrEscapes", "CtlProgWriteAfterPublish"},
		Run:      ruleProg1})
}

var progTypes = []string{"UserDefinedFunction", "PreparedStatement"}

// fields of other lib/query types that hold a declared program
var progFields = map[string][]string{"Cursor": {"query", "statement"}}

// progField: is the field selected by fa / f (FieldAddr / Field) part of a stored program?
func progFieldOf(x ssa.Value, field int) (string, bool) {
	t := x.Type()
	if p, ok := t.Underlying().(*types.Pointer); ok {
		t = p.Elem()
	}
	n, ok := t.(*types.Named)
	if !ok || n.Obj().Pkg() == nil {
		return "", false
	}
	if n.Obj().Pkg().Path() != queryPkg {
		return "", false
	}
	st, ok := n.Underlying().(*types.Struct)
	if !ok || field >= st.NumFields() {
		return "", false
	}
	name := n.Obj().Name() + "." + st.Field(field).Name()
	for _, pt := range progTypes {
		if n.Obj().Name() == pt {
			return name, true
		}
	}
	for _, f := range progFields[n.Obj().Name()] {
		if st.Field(field).Name() == f {
			return name, true
		}
	}
	return "", false
}

// progLoad: v is a value read out of a field of a stored program held by somebody else.
func progLoad(v ssa.Value) (string, bool) {
	switch x := v.(type) {
	case *ssa.Field:
		return progFieldOf(x.X, x.Field)
	case *ssa.UnOp:
		if x.Op != token.MUL {
			return "", false
		}
		if fa, ok := x.X.(*ssa.FieldAddr); ok {
			if name, ok := progFieldOf(fa.X, fa.Field); ok {
				if !builtHere(fa.X) {
					return name, true
				}
			}
		}
	}
	return "", false
}

// builtHere: the object is under construction — every root of the pointer is an allocation of this function
// (&T{…} / new(T) / var x T), or an allocation inside a csvq function whose result it is and which does nothing
// with the new object but fill and return it (a constructor helper: the object is not published yet).
func builtHere(obj ssa.Value) bool {
	ii := progRoots
	var here *ssa.Function
	if in, ok := obj.(ssa.Instruction); ok {
		here = in.Parent()
	}
	var roots []ssa.Value
	if ii != nil {
		roots = ii.roots(obj)
	} else {
		roots = core.Origins(obj, false)
	}
	if len(roots) == 0 {
		return false
	}
	for _, o := range roots {
		if core.IsNilConst(o) {
			continue // the failing return of a constructor helper
		}
		al, ok := o.(*ssa.Alloc)
		if !ok {
			return false
		}
		if here != nil && al.Parent() != here && !onlyFilledAndReturned(al) {
			return false
		}
	}
	return true
}

var progRoots *inplInfo

// onlyFilledAndReturned: inside its function the allocation is only initialised (stores through it or through
// the addresses of its fields), read, and returned.
func onlyFilledAndReturned(al *ssa.Alloc) bool {
	seen := map[ssa.Value]bool{}
	var ok func(v ssa.Value) bool
	ok = func(v ssa.Value) bool {
		if seen[v] {
			return true
		}
		seen[v] = true
		refs := v.Referrers()
		if refs == nil {
			return false
		}
		for _, r := range *refs {
			switch y := r.(type) {
			case *ssa.FieldAddr, *ssa.UnOp, *ssa.DebugRef, *ssa.Return:
			case *ssa.Store:
				if y.Addr != v {
					if cell, isCell := y.Addr.(*ssa.Alloc); isCell && !cell.Heap {
						// kept in a local variable: follow its loads
						for _, rr := range *cell.Referrers() {
							if u, isLoad := rr.(*ssa.UnOp); isLoad && !ok(u) {
								return false
							}
						}
						continue
					}
					return false
				}
			case *ssa.Phi:
				if !ok(y) {
					return false
				}
			default:
				return false
			}
		}
		return true
	}
	return ok(al)
}

// mapParamWriters: parameters through which a function updates / deletes from / clears a map. Fixpoint.
func mapParamWriters(p *core.Prog) map[*ssa.Function]map[int]bool {
	w := map[*ssa.Function]map[int]bool{}
	mark := func(v ssa.Value) bool {
		ch := false
		for _, o := range core.Origins(v, true) {
			prm, ok := o.(*ssa.Parameter)
			if !ok {
				continue
			}
			fn := prm.Parent()
			for i, q := range fn.Params {
				if q == prm {
					if w[fn] == nil {
						w[fn] = map[int]bool{}
					}
					if !w[fn][i] {
						w[fn][i] = true
						ch = true
					}
				}
			}
		}
		return ch
	}
	isMap := func(t types.Type) bool { _, ok := t.Underlying().(*types.Map); return ok }
	for changed := true; changed; {
		changed = false
		for _, fn := range p.SrcFuncs() {
			for _, b := range fn.Blocks {
				for _, in := range b.Instrs {
					switch x := in.(type) {
					case *ssa.MapUpdate:
						if mark(x.Map) {
							changed = true
						}
					case ssa.CallInstruction:
						com := x.Common()
						if bi, ok := com.Value.(*ssa.Builtin); ok {
							if (bi.Name() == "delete" || bi.Name() == "clear") && len(com.Args) > 0 && isMap(com.Args[0].Type()) && mark(com.Args[0]) {
								changed = true
							}
							continue
						}
						f := core.StaticCallee(x)
						if f == nil || w[f] == nil {
							continue
						}
						for j, a := range com.Args {
							if w[f][j] && isMap(a.Type()) && mark(a) {
								changed = true
							}
						}
					}
				}
			}
		}
	}
	return w
}

func ruleProg1(c *Ctx) {
	for _, tn := range progTypes {
		if c.P.Type("lib/query", tn) == nil {
			c.Unknown("anchor:type lib/query."+tn, "-", "cannot-analyse: the type that holds a stored program does not exist in the current tree")
		}
	}
	for tn, fs := range progFields {
		st, _ := typeStruct(c.P.Type("lib/query", tn))
		for _, f := range fs {
			found := false
			for i := 0; st != nil && i < st.NumFields(); i++ {
				found = found || st.Field(i).Name() == f
			}
			if !found {
				c.Unknown("anchor:field lib/query."+tn+"."+f, "-", "cannot-analyse: the field that holds a declared program does not exist in the current tree")
			}
		}
	}
	ii := inplace(c.P) // return summaries (roots through the results of csvq functions)
	progRoots = ii
	defer func() { progRoots = nil }()
	sliceW := sliceParamWriters(c.P)
	mapW := mapParamWriters(c.P)

	taint := func(v ssa.Value) (string, bool) {
		for _, r := range ii.roots(v) {
			if s, ok := progLoad(r); ok {
				return s, true
			}
		}
		return "", false
	}
	isContainer := func(t types.Type) bool {
		switch t.Underlying().(type) {
		case *types.Map, *types.Slice:
			return true
		}
		return false
	}
	sinks, loads := 0, 0
	ctors := map[string]int{}
	ctorPos := map[string]string{}
	for _, fn := range c.P.SrcFuncs() {
		n := map[string]int{}
		bad := func(in ssa.Instruction, what, why string) {
			n[what]++
			key := c.KeyAt(fn, what)
			if n[what] > 1 {
				key = c.KeyAt(fn, fmt.Sprintf("%s #%d", what, n[what]))
			}
			c.Touch(fn)
			c.Bad(key, c.Pos(in), why)
		}
		const after = ": every later execution of the declared function / prepared statement / cursor (and SHOW) reads the edited program"
		for _, b := range fn.Blocks {
			for _, in := range b.Instrs {
				switch x := in.(type) {
				case *ssa.FieldAddr:
					name, ok := progFieldOf(x.X, x.Field)
					if !ok {
						continue
					}
					loads++
					for _, r := range *x.Referrers() {
						switch y := r.(type) {
						case *ssa.UnOp, *ssa.FieldAddr, *ssa.IndexAddr, *ssa.DebugRef:
						case *ssa.Store:
							if y.Addr != x {
								bad(y, "address of "+name+" stored", "the address of a field of a stored program is kept: whoever reads it later can write the program"+after)
							}
						default:
							if builtHere(x.X) {
								continue
							}
							bad(r, "address of "+name+" handed on", "the address of a field of a stored program leaves the function ("+strings.TrimPrefix(fmt.Sprintf("%T", r), "*ssa.")+"): the who-may-write table cannot be closed"+after)
						}
					}
				case *ssa.Store:
					// walk the address up to its base object
					addr := x.Addr
					var through []string
					for {
						if fa, ok := addr.(*ssa.FieldAddr); ok {
							if name, ok := progFieldOf(fa.X, fa.Field); ok {
								sinks++
								if builtHere(fa.X) {
									ctors[c.P.Name(fn)]++
									ctorPos[c.P.Name(fn)] = c.FnPos(fn)
								} else {
									through = append(through, name)
								}
							}
							addr = fa.X
							continue
						}
						if ia, ok := addr.(*ssa.IndexAddr); ok {
							if _, isSl := ia.X.Type().Underlying().(*types.Slice); isSl {
								sinks++
								if s, ok := taint(ia.X); ok {
									bad(in, "element store into "+s, "an element of a slice of a stored program is overwritten"+after)
								}
								break
							}
							addr = ia.X
							continue
						}
						break
					}
					if len(through) > 0 {
						bad(in, "store to "+through[len(through)-1], "a field of an existing stored program is assigned outside its constructor"+after)
					}
					// the whole object
					if pt, ok := x.Addr.Type().Underlying().(*types.Pointer); ok && isQueryNamed(pt.Elem(), progTypes...) && !isPtr(pt.Elem()) {
						sinks++
						if !builtHere(x.Addr) {
							bad(in, "overwrite of a whole "+core.NamedOf(pt.Elem()), "an existing stored program is replaced in place"+after)
						}
					}
				case *ssa.MapUpdate:
					sinks++
					if s, ok := taint(x.Map); ok {
						bad(in, "map update of "+s, "an entry of a map of a stored program is set"+after)
					}
				case ssa.CallInstruction:
					com := x.Common()
					if bi, ok := com.Value.(*ssa.Builtin); ok {
						switch bi.Name() {
						case "delete", "clear", "append", "copy":
							if len(com.Args) > 0 && isContainer(com.Args[0].Type()) {
								sinks++
								if s, ok := taint(com.Args[0]); ok {
									bad(in, bi.Name()+" on "+s, "a container of a stored program is changed by "+bi.Name()+after)
								}
							}
						}
						continue
					}
					if name := c.P.CalleeName(x); strings.HasPrefix(name, "sort.") && len(com.Args) > 0 {
						sinks++
						if s, ok := taint(core.Strip(com.Args[0])); ok {
							bad(in, "in-place sort of "+s, "a slice of a stored program is reordered"+after)
						}
						continue
					}
					off := 0
					if com.IsInvoke() {
						off = 1 // the receiver is parameter 0 of every implementation
					}
					callees := c.P.Callees(x)
					sort.Slice(callees, func(i, j int) bool { return c.P.FnRef(callees[i]) < c.P.FnRef(callees[j]) })
					for j, a := range com.Args {
						if !isContainer(a.Type()) {
							continue
						}
						for _, f := range callees {
							if sliceW[f][j+off] || mapW[f][j+off] {
								sinks++
								if s, ok := taint(a); ok {
									bad(in, "pass "+s+" to "+c.P.FnRef(f)+", which writes it", "a callee writes into a container of a stored program"+after)
								}
								break
							}
						}
					}
				}
			}
		}
	}
	var names []string
	for k := range ctors {
		names = append(names, k)
	}
	sort.Strings(names)
	for _, k := range names {
		c.Funcs[k] = true
		c.OkN(k+": fills the fields of a stored program it allocates itself", ctorPos[k], fmt.Sprintf("constructor: %d field store(s), all on an object allocated in this function", ctors[k]), ctors[k])
	}
	c.OkN("all stores, map updates, delete / append / copy / sort and container-writing calls", "-",
		fmt.Sprintf("%d sinks and %d field addresses of stored-program types examined; those not reported do not reach a stored program held by somebody else", sinks, loads), sinks)
}

func typeStruct(t types.Type) (*types.Struct, bool) {
	if t == nil {
		return nil, false
	}
	st, ok := t.Underlying().(*types.Struct)
	return st, ok
}
