package rules

import (
	"fmt"
	"go/token"
	"go/types"
	"sort"
	"strings"

	"golang.org/x/tools/go/ssa"

	"verif/checker/core"
)

// C09 — concurrent processes never write together / lose an update. The
// mutual-exclusion claim itself needs interleavings (model checking); decided
// here: presence and order of the protocol steps in the real code.

const (
	fnLockPath    = "lib/file.LockFilePath"
	fnRLockPath   = "lib/file.RLockFilePath"
	fnTempPath    = "lib/file.TempFilePath"
	fnLockExists  = "lib/file.LockExists"
	fnRLockExists = "lib/file.RLockExists"
	fnNewCtl      = "lib/file.NewControlFile"
	fnTryLock     = "lib/file.TryCreateLockFile"
	fnTryRLock    = "lib/file.TryCreateRLockFile"
	fnTryTemp     = "lib/file.TryCreateTempFile"
	fnCCFC        = "lib/file.CreateControlFileContext"
	fnTimeoutCtx  = "lib/file.GetTimeoutContext"
)

func init() {
	Register(&Rule{ID: "R-LOCK-1", Props: []string{"C09"}, Floor: 12,
		Doc:      "lib/file creates files only through go-file Create (O_CREATE|O_EXCL + flock) and opens existing ones only through go-file's Open*; no os.Create/OpenFile/WriteFile/CreateTemp, no generic go-file Open with caller-chosen flags; every ControlFile is built by NewControlFile from the descriptor and the path of one go-file Create call",
		Controls: []string{"CtlControlFileViaOpenFile"},
		Run:      ruleLock1})
	Register(&Rule{ID: "R-LOCK-2", Props: []string{"C09", "C11"}, Floor: 4,
		Doc:      "writer protocol (functions that create the LockFilePath file and no read-lock file): the create is reachable only through the not-exists edges of a LockExists and of an RLockExists test; after the create every return that is not an error has passed a second RLockExists test; the exists edge of that test releases the new lock file and returns an error",
		Controls: []string{"CtlLockWithoutRecheck"},
		Run:      ruleLock2})
	Register(&Rule{ID: "R-LOCK-3", Props: []string{"C09", "C11"}, Floor: 3,
		Doc:      "reader protocol (functions that create an RLockFilePath file): the create is preceded by a LockExists test whose exists edge cannot reach it, it executes only where the create of the LockFilePath file is known to have succeeded, and every exit after that create releases the transient lock file (directly or by a defer)",
		Controls: []string{"CtlRLockWithoutLock"},
		Run:      ruleLock3})
	Register(&Rule{ID: "R-LOCK-4", Props: []string{"C09", "C11", "C20"}, Floor: 12,
		Doc: "acquire before access, per constructor: NewHandlerForUpdate lock ≺ flock-open and lock ≺ temp; NewHandlerForRead rlock ≺ open; NewHandlerForCreate lock ≺ exclusive create — each later step executes only where the earlier one is known to have succeeded; Handler.fp is assigned only the descriptor of a successful open; a success return is dominated by the success of every required step",
		Run: ruleLock4})
	Register(&Rule{ID: "R-LOCK-5", Props: []string{"C09", "C19"}, Floor: 10,
		Doc:      "bounded retry: every cycle through a call that can create a control file crosses a select on ctx.Done() — directly, or as the call of a helper that waits on such a select on every path and returns a non-nil error of those types when the context is done, the error being branched on — whose done edge leaves the loop and returns *TimeoutError/*ContextCanceled/*ContextDone; every context handed to a retrying callee by a Handler constructor is result #0 of GetTimeoutContext, which returns a context with a deadline (or an already cancelled one) on every path; ParseError and ConvertFileHandlerError map the timeout types to the lock-timeout error",
		Controls: []string{"CtlRetryForever", "CtlRetryIgnoresWaitHelper"},
		Run:      ruleLock5})
	Register(&Rule{ID: "R-LOCK-6", Props: []string{"C09", "C11"}, Floor: 25,
		Doc:      "handler lifetime: the result of Container.CreateHandlerForUpdate/ForCreate is stored in FileInfo.Handler before any return and, in the creating function, closed only on paths that end in an error return; Container.Close/Commit/CloseWithErrors/CloseAll*, Handler.close/commit/closeWithErrors and closeIsolatedHandler are called only from the frozen list of commit/rollback/release functions and creators' error paths",
		Controls: []string{"CtlForeignClose"},
		Run:      ruleLock6})
}

// ---------------------------------------------------------------------------
// R-LOCK-1

var forbiddenCreators = map[string]string{
	"os.Create":             "no O_EXCL: two processes both succeed in creating the control file",
	"os.OpenFile":           "caller-chosen flags: O_EXCL is not guaranteed",
	"os.WriteFile":          "creates or truncates without O_EXCL",
	"os.CreateTemp":         "creates a file outside the control-file naming protocol",
	"os.NewFile":            "wraps an arbitrary descriptor",
	"os.Link":               "creates a directory entry outside the protocol",
	"os.Symlink":            "creates a directory entry outside the protocol",
	"io/ioutil.WriteFile":   "creates or truncates without O_EXCL",
	"io/ioutil.TempFile":    "creates a file outside the control-file naming protocol",
	goFile + ".Open":        "caller-chosen flags and lock function: O_EXCL is not guaranteed",
	goFile + ".OpenContext": "caller-chosen flags and lock function: O_EXCL is not guaranteed",
}

var allowedOpeners = map[string]string{
	fnGoCreate:                      "O_CREATE|O_EXCL|O_RDWR with a non-blocking exclusive flock",
	goFile + ".OpenToReadContext":   "opens an existing file, shared flock with bounded retry",
	goFile + ".OpenToUpdateContext": "opens an existing file, exclusive flock with bounded retry",
	goFile + ".OpenToRead":          "opens an existing file, shared flock",
	goFile + ".OpenToUpdate":        "opens an existing file, exclusive flock",
	goFile + ".TryOpenToRead":       "opens an existing file, shared flock",
	goFile + ".TryOpenToUpdate":     "opens an existing file, exclusive flock",
}

func ruleLock1(c *Ctx) {
	p := c.P
	// (a) every file-creating / opening call of lib/file
	for _, fn := range p.FuncsIn(true, "lib/file") {
		cnt := map[string]int{}
		for _, k := range core.Calls(fn) {
			n := p.CalleeName(k)
			why, bad := forbiddenCreators[n]
			okWhy, good := allowedOpeners[n]
			if !bad && !good {
				continue
			}
			c.Sites++
			c.Touch(fn)
			short := n[strings.LastIndex(n, "/")+1:]
			cnt[short]++
			key := c.KeyAt(fn, "opens a file through "+short)
			if cnt[short] > 1 {
				key += " " + ordinal(cnt[short])
			}
			if bad {
				c.Bad(key, c.Pos(k), "lib/file must create its files through go-file Create only; "+short+": "+why)
			} else {
				c.Ok(key, c.Pos(k), okWhy)
			}
		}
	}
	// (b) provenance of every ControlFile
	newCtl := c.Fn(fnNewCtl)
	for _, fn := range p.SrcFuncs() {
		n := 0
		for _, b := range fn.Blocks {
			for _, in := range b.Instrs {
				switch x := in.(type) {
				case *ssa.Alloc:
					if core.NamedOf(x.Type()) == "lib/file.ControlFile" && fn != newCtl {
						if _, pp := x.Type().(*types.Pointer).Elem().(*types.Pointer); !pp {
							c.Bad(c.KeyAt(fn, "builds a ControlFile without NewControlFile"), c.Pos(x), "a ControlFile literal bypasses the provenance check of its descriptor")
						}
					}
				case ssa.CallInstruction:
					if !calleeIn(p, x, fnNewCtl) || len(x.Common().Args) != 2 {
						continue
					}
					n++
					c.Sites++
					c.Touch(fn)
					key := c.KeyAt(fn, "ControlFile "+ordinal(n)+" built from a go-file Create")
					path, fp := x.Common().Args[0], x.Common().Args[1]
					var cr *ssa.Call
					okAll := true
					for _, o := range core.Origins(fp, false) {
						call, idx, ok := core.ExtractOf(o)
						if !ok || idx != 0 || !calleeIn(p, call, fnGoCreate) {
							okAll = false
							continue
						}
						cr = call
					}
					switch {
					case !okAll || cr == nil:
						c.Bad(key, c.Pos(x), "the descriptor passed to NewControlFile is not result #0 of go-file Create: the control file may have been opened without O_EXCL, so two processes can both believe they hold it")
					case cr.Call.Args[0] != path && !sameStringValue(cr.Call.Args[0], path):
						c.Bad(key, c.Pos(x), "the path passed to NewControlFile is not the path that was created: Close would remove a different file than the one held")
					default:
						c.Ok(key, c.Pos(x), "descriptor and path come from the same go-file Create call")
					}
				}
			}
		}
	}
}

func sameStringValue(a, b ssa.Value) bool {
	oa, ob := core.Origins(a, false), core.Origins(b, false)
	return len(oa) == 1 && len(ob) == 1 && oa[0] == ob[0]
}

// ---------------------------------------------------------------------------
// R-LOCK-2 / R-LOCK-3: protocol functions by role

// createsOfPathFn lists go-file Create calls of fn whose path is produced by
// the named path function.
func createsOfPathFn(p *core.Prog, fn *ssa.Function, pathFn string) []*ssa.Call {
	var out []*ssa.Call
	for _, k := range core.Calls(fn) {
		call, ok := k.(*ssa.Call)
		if !ok || !calleeIn(p, k, fnGoCreate) || len(call.Call.Args) != 1 {
			continue
		}
		for _, o := range core.Origins(call.Call.Args[0], false) {
			if oc, ok := o.(*ssa.Call); ok && calleeIn(p, oc, pathFn) {
				out = append(out, call)
				break
			}
		}
	}
	return out
}

// testOf decomposes a branch condition into a (possibly negated) call that
// reaches one of the named functions.
func testOf(p *core.Prog, cond ssa.Value, names ...string) (call *ssa.Call, negated bool) {
	if u, ok := cond.(*ssa.UnOp); ok && u.Op == token.NOT {
		call, negated = testOf(p, u.X, names...)
		return call, !negated
	}
	if k, ok := cond.(*ssa.Call); ok && callReachesNamed(p, k, names...) {
		return k, false
	}
	return nil, false
}

// existsEdges returns, for the tests of the named predicate in fn, the successor
// blocks taken when the predicate is true, and the predicate calls whose result
// is not branched on.
func existsEdges(p *core.Prog, fn *ssa.Function, name string) (succs []*ssa.BasicBlock, tested map[*ssa.Call]bool) {
	tested = map[*ssa.Call]bool{}
	for _, b := range fn.Blocks {
		if len(b.Instrs) == 0 {
			continue
		}
		iff, ok := b.Instrs[len(b.Instrs)-1].(*ssa.If)
		if !ok {
			continue
		}
		if call, neg := testOf(p, iff.Cond, name); call != nil {
			tested[call] = true
			if neg {
				succs = append(succs, b.Succs[1])
			} else {
				succs = append(succs, b.Succs[0])
			}
		}
	}
	return
}

// guardedByNotExists: target executes only after a test of `name` and cannot be
// reached from the exists edge of such a test without another test.
func guardedByNotExists(p *core.Prog, fn *ssa.Function, target ssa.Instruction, name string) (bool, string) {
	isTest := func(in ssa.Instruction) bool {
		k, ok := in.(*ssa.Call)
		return ok && k != target && callReachesNamed(p, k, name)
	}
	short := name[strings.LastIndex(name, ".")+1:]
	if reachFromEntry(fn, target, isTest, nil) {
		return false, "a path reaches the create without any " + short + " test"
	}
	succs, tested := existsEdges(p, fn, name)
	for _, k := range core.Calls(fn) {
		if call, ok := k.(*ssa.Call); ok && isTest(call) && !tested[call] && reachAfter(call, target, nil, nil) {
			return false, "the result of " + short + " at " + p.InstrPos(call) + " is not used as a branch condition"
		}
	}
	for _, s := range succs {
		if reachFromBlock(s, target, isTest, nil) {
			return false, "the create is reachable from the edge on which " + short + " reported an existing file"
		}
	}
	return true, ""
}

// builtFrom: v originates in a NewControlFile call fed by the descriptor of cr,
// or is cr's path.
func builtFrom(p *core.Prog, v ssa.Value, cr *ssa.Call) bool {
	for _, o := range core.Origins(v, false) {
		if o == cr.Call.Args[0] {
			return true
		}
		if nc, ok := o.(*ssa.Call); ok && calleeIn(p, nc, fnNewCtl) && len(nc.Call.Args) == 2 {
			for _, fo := range core.Origins(nc.Call.Args[1], false) {
				if call, idx, ok := core.ExtractOf(fo); ok && idx == 0 && call == cr {
					return true
				}
			}
		}
	}
	return false
}

// releasesCreated: the instruction (call or defer, possibly of a closure)
// removes the control file created by cr.
func releasesCreated(p *core.Prog, in ssa.Instruction, cr *ssa.Call, depth int) bool {
	k, ok := in.(ssa.CallInstruction)
	if !ok {
		return false
	}
	if _, isGo := in.(*ssa.Go); isGo {
		return false
	}
	// closure invoked or deferred
	var clo *ssa.Function
	if mc, ok := k.Common().Value.(*ssa.MakeClosure); ok {
		clo, _ = mc.Fn.(*ssa.Function)
	}
	if clo != nil && depth < 2 {
		for _, ik := range core.Calls(clo) {
			if releasesCreated(p, ik, cr, depth+1) {
				return true
			}
		}
		return false
	}
	if len(removalsAt(p, k)[roleControl]) == 0 && !isRemoveCall(p, k) {
		return false
	}
	for _, a := range callArgs(k) {
		if builtFrom(p, a, cr) {
			return true
		}
	}
	return false
}

func protocolFuncs(c *Ctx) (writers, readers []*ssa.Function) {
	for _, fn := range c.P.FuncsIn(true, "lib/file") {
		l := createsOfPathFn(c.P, fn, fnLockPath)
		r := createsOfPathFn(c.P, fn, fnRLockPath)
		switch {
		case len(r) > 0:
			readers = append(readers, fn)
		case len(l) > 0:
			writers = append(writers, fn)
		}
	}
	return
}

func ruleLock2(c *Ctx) {
	p := c.P
	writers, _ := protocolFuncs(c)
	n := 0
	for _, fn := range writers {
		if !p.IsControl(fn) {
			n++
		}
		c.Touch(fn)
		for i, cr := range createsOfPathFn(p, fn, fnLockPath) {
			c.Sites++
			sfx := ""
			if i > 0 {
				sfx = " " + ordinal(i+1)
			}
			// (i) both existence tests guard the create
			for _, t := range []struct{ fn, what string }{{fnLockExists, "lock file"}, {fnRLockExists, "read-lock files"}} {
				ok, why := guardedByNotExists(p, fn, cr, t.fn)
				c.Check(ok, c.KeyAt(fn, "existing "+t.what+" tested before the lock file is created"+sfx), c.Pos(cr),
					"the create is reachable only through the not-exists edge of the test",
					why+": the writer can take the lock while another process holds the "+t.what)
			}
			// (ii) second look for readers after the create
			isRecheck := func(in ssa.Instruction) bool {
				k, ok := in.(*ssa.Call)
				return ok && callReachesNamed(p, k, fnRLockExists)
			}
			var bad []string
			for _, r := range returnsWithout(fn, cr, isRecheck, failureEdgeOf(cr)) {
				if _, nonNil := errOperandKinds(c, r); !nonNil {
					bad = append(bad, c.Pos(r))
				}
			}
			c.Check(len(bad) == 0, c.KeyAt(fn, "read locks re-tested after the lock file is created"+sfx), c.Pos(cr),
				"every non-error return after the create has passed a second RLockExists test",
				"the return at "+strings.Join(bad, ", ")+" hands out the lock without looking for readers again: a reader that passed its LockExists test just before the lock file appeared reads while the writer writes")
			// (iii) the exists edge of the second test releases the lock and fails
			key := c.KeyAt(fn, "a reader found by the re-test releases the lock file and fails"+sfx)
			var after []*ssa.BasicBlock
			for _, b := range fn.Blocks {
				if len(b.Instrs) == 0 {
					continue
				}
				iff, ok := b.Instrs[len(b.Instrs)-1].(*ssa.If)
				if !ok {
					continue
				}
				if call, neg := testOf(p, iff.Cond, fnRLockExists); call != nil && reachAfter(cr, call, nil, nil) {
					if neg {
						after = append(after, b.Succs[1])
					} else {
						after = append(after, b.Succs[0])
					}
				}
			}
			if len(after) == 0 {
				c.Bad(key, c.Pos(cr), "no branch on an RLockExists result follows the create")
				continue
			}
			why := ""
			for _, s := range after {
				walkCFG(s, 0, nil, func(in ssa.Instruction) bool {
					if releasesCreated(p, in, cr, 0) {
						return false
					}
					if r, ok := in.(*ssa.Return); ok {
						why = "the return at " + c.Pos(r) + " is reached from the exists edge without removing the new lock file: the stale lock blocks everyone"
					}
					return true
				})
				walkCFG(s, 0, nil, func(in ssa.Instruction) bool {
					if r, ok := in.(*ssa.Return); ok {
						if _, nonNil := errOperandKinds(c, r); !nonNil {
							why = "the return at " + c.Pos(r) + " is reached from the exists edge and may report success although a reader is active"
						}
					}
					return true
				})
			}
			c.Check(why == "", key, c.Pos(cr), "every return reachable from the exists edge is an error return behind a release of the lock file", why)
		}
	}
	if n == 0 {
		c.Unknown("anchor:writer protocol", "-", "cannot-analyse: no function of lib/file creates the LockFilePath file (without a read-lock file) any more")
	}
}

func ruleLock3(c *Ctx) {
	p := c.P
	_, readers := protocolFuncs(c)
	n := 0
	for _, fn := range readers {
		if !p.IsControl(fn) {
			n++
		}
		c.Touch(fn)
		locks := createsOfPathFn(p, fn, fnLockPath)
		for i, cr := range createsOfPathFn(p, fn, fnRLockPath) {
			c.Sites++
			sfx := ""
			if i > 0 {
				sfx = " " + ordinal(i+1)
			}
			var cl *ssa.Call
			for _, l := range locks {
				if succeededAt(l, cr) {
					cl = l
				}
			}
			first := ssa.Instruction(cr)
			if cl != nil {
				first = cl
			}
			ok, why := guardedByNotExists(p, fn, first, fnLockExists)
			c.Check(ok, c.KeyAt(fn, "existing lock file tested before the read lock is taken"+sfx), c.Pos(first),
				"the creates are reachable only through the not-exists edge of a LockExists test",
				why+": a reader can start while a writer holds the lock")
			keyHold := c.KeyAt(fn, "read-lock file created only while holding the lock file"+sfx)
			keyRel := c.KeyAt(fn, "transient lock file released on every exit"+sfx)
			if cl == nil {
				c.Bad(keyHold, c.Pos(cr), "the read-lock file is created at a point where no successful create of the LockFilePath file is known: a writer that has just passed its RLockExists tests does not see this reader (the lock file is what serialises the two checks)")
				c.Bad(keyRel, c.Pos(cr), "no transient lock file is taken")
				continue
			}
			c.Ok(keyHold, c.Pos(cr), "dominated by the success edge of the lock-file create at "+c.Pos(cl))
			esc := core.EscapeWithout(cl, func(in ssa.Instruction) bool { return releasesCreated(p, in, cl, 0) }, failureEdgeOf(cl))
			if esc != nil {
				c.Bad(keyRel, c.Pos(cl), "the exit at "+c.Pos(esc)+" is reachable after the lock file was created without removing it (no direct Close and no defer registered yet): readers keep the writers' lock forever")
			} else {
				c.Ok(keyRel, c.Pos(cl), "every exit after the create passes a release (or a defer of it) of that control file")
			}
		}
	}
	if n == 0 {
		c.Unknown("anchor:reader protocol", "-", "cannot-analyse: no function of lib/file creates an RLockFilePath file any more")
	}
}

// ---------------------------------------------------------------------------
// R-LOCK-4

type acqKind int

const (
	acqNone acqKind = iota
	acqRLock
	acqLock
	acqTemp
	acqOpen   // go-file open of an existing file
	acqCreate // go-file Create of the data path
)

var acqNames = map[acqKind]string{acqRLock: "read-lock acquisition", acqLock: "lock acquisition", acqTemp: "temp-file creation", acqOpen: "flock-open of the table", acqCreate: "exclusive create of the table"}

// classifyAcq classifies a call of a Handler constructor.
func classifyAcq(c *Ctx, fn *ssa.Function, k ssa.CallInstruction) (acqKind, bool) {
	p := c.P
	if _, isDefer := k.(*ssa.Defer); isDefer {
		return acqNone, true
	}
	if f := core.StaticCallee(k); f != nil && isGoFileOpener(f) {
		if calleeIn(p, k, fnGoCreate) {
			for _, d := range dataCreateCalls(p, fn) {
				if d == k {
					return acqCreate, true
				}
			}
			return acqNone, false
		}
		return acqOpen, true
	}
	rl, l, t := callReachesNamed(p, k, fnTryRLock), callReachesNamed(p, k, fnTryLock), callReachesNamed(p, k, fnTryTemp)
	if !rl && !l && !t {
		return acqNone, true
	}
	// a ControlFileType argument selects the kind
	for _, a := range k.Common().Args {
		if core.NamedOf(a.Type()) != "lib/file.ControlFileType" {
			continue
		}
		v, ok := core.ConstInt(a)
		if !ok {
			return acqNone, false
		}
		for nm, kd := range map[string]acqKind{"RLock": acqRLock, "Lock": acqLock, "Temporary": acqTemp} {
			if cv, ok := enumConst(c, "lib/file", nm); ok && cv == v {
				return kd, true
			}
		}
		return acqNone, false
	}
	switch {
	case l && !rl && !t:
		return acqLock, true
	case rl && !l && !t:
		return acqRLock, true
	case t && !l && !rl:
		return acqTemp, true
	}
	return acqNone, false
}

func ruleLock4(c *Ctx) {
	type spec struct {
		name     string
		required []acqKind
		order    [][2]acqKind
	}
	specs := []spec{
		{"lib/file.NewHandlerForUpdate", []acqKind{acqLock, acqOpen, acqTemp}, [][2]acqKind{{acqLock, acqOpen}, {acqLock, acqTemp}}},
		{"lib/file.NewHandlerForRead", []acqKind{acqRLock, acqOpen}, [][2]acqKind{{acqRLock, acqOpen}}},
		{"lib/file.NewHandlerForCreate", []acqKind{acqLock, acqCreate}, [][2]acqKind{{acqLock, acqCreate}}},
		{"lib/file.NewHandlerWithoutLock", []acqKind{acqOpen}, nil},
	}
	bySpec := map[*ssa.Function]bool{}
	for _, sp := range specs {
		fn := c.Fn(sp.name)
		if fn == nil {
			continue
		}
		bySpec[fn] = true
		lock4For(c, fn, sp.required, sp.order)
	}
	// constructors that are not in the table still must not assign an unlocked descriptor
	for _, fn := range handlerCtors(c) {
		if !bySpec[fn] && !c.P.IsControl(fn) {
			c.Bad(c.KeyAt(fn, "constructor without a protocol entry"), c.FnPos(fn), "a new function of lib/file builds a Handler; its acquisition order is not specified in R-LOCK-4's table")
		}
	}
}

func lock4For(c *Ctx, fn *ssa.Function, required []acqKind, order [][2]acqKind) {
	by := map[acqKind][]ssa.CallInstruction{}
	for _, k := range core.Calls(fn) {
		kd, ok := classifyAcq(c, fn, k)
		if !ok {
			c.Unknown(c.KeyAt(fn, "classification of "+describeCall(c.P, k)), c.Pos(k), "the call can create control files of several kinds (or creates an unrelated file) and no constant ControlFileType selects one")
			continue
		}
		if kd != acqNone {
			by[kd] = append(by[kd], k)
		}
	}
	for _, o := range order {
		key := c.KeyAt(fn, acqNames[o[0]]+" precedes "+acqNames[o[1]])
		if len(by[o[0]]) == 0 || len(by[o[1]]) == 0 {
			missing := o[0]
			if len(by[o[0]]) > 0 {
				missing = o[1]
			}
			c.Bad(key, c.FnPos(fn), "the constructor has no "+acqNames[missing]+" any more")
			continue
		}
		bad := ""
		for _, later := range by[o[1]] {
			ok := false
			for _, first := range by[o[0]] {
				if succeededAt(first, later) {
					ok = true
				}
			}
			if !ok {
				bad = fmt.Sprintf("%s at %s executes where no successful %s is known: the table is accessed (or its temp file created) without holding the control file that serialises writers and readers", acqNames[o[1]], c.Pos(later), acqNames[o[0]])
			}
		}
		c.Check(bad == "", key, c.Pos(by[o[1]][0]), "the later step is dominated by the success edge of the earlier one", bad)
	}
	// Handler.fp receives only the descriptor of a successful open/create
	h := handlerAlloc(fn)
	key := c.KeyAt(fn, "Handler.fp assigned from a successful open")
	nStores, bad := 0, ""
	for _, b := range fn.Blocks {
		for _, in := range b.Instrs {
			st, ok := in.(*ssa.Store)
			if !ok {
				continue
			}
			fa, ok := st.Addr.(*ssa.FieldAddr)
			if !ok || core.FieldOwner(fa) != fldHFp || (h != nil && !originIs(fa.X, h)) {
				continue
			}
			if core.IsNilConst(st.Val) {
				continue
			}
			nStores++
			okStore := false
			for _, kd := range []acqKind{acqOpen, acqCreate} {
				for _, k := range by[kd] {
					if st.Val == resultOf(k, 0) && succeededAt(k, st) {
						okStore = true
					}
				}
			}
			if !okStore {
				bad = "the store at " + c.Pos(st) + " assigns a descriptor that is not result #0 of a go-file open/create known to have succeeded"
			}
		}
	}
	if nStores == 0 {
		c.Bad(key, c.FnPos(fn), "the constructor never assigns Handler.fp")
	} else {
		c.Check(bad == "", key, c.FnPos(fn), fmt.Sprintf("%d store(s), each of the descriptor of a successful go-file open/create", nStores), bad)
	}
	// success returns require every step
	key = c.KeyAt(fn, "success return only after every required step succeeded")
	nRet, badRet := 0, ""
	for _, r := range realReturns(fn) {
		if _, nonNil := errOperandKinds(c, r); nonNil {
			continue // provably an error return
		}
		nRet++
		for _, kd := range required {
			ok := false
			for _, k := range by[kd] {
				// dominated by the step's success edge, or the returned error *is* the
				// step's error (single `return h, err`: nil exactly when the step succeeded)
				if succeededAt(k, r) || returnsErrOf(r, k) {
					ok = true
				}
			}
			if !ok {
				badRet = "the return at " + c.Pos(r) + " can report success although no successful " + acqNames[kd] + " is known there"
			}
		}
	}
	if nRet == 0 {
		c.Unknown(key, c.FnPos(fn), "no return that can report success")
	} else {
		c.Check(badRet == "", key, c.FnPos(fn), fmt.Sprintf("%d return(s) that can report success, each only where every required step has succeeded", nRet), badRet)
	}
}

// originIs: every origin of v (through cells and phis) is want.
func originIs(v, want ssa.Value) bool {
	if v == want {
		return true
	}
	os := core.Origins(v, false)
	if len(os) == 0 {
		return false
	}
	for _, o := range os {
		if o != want {
			return false
		}
	}
	return true
}

// returnsErrOf: the error operand of r is exactly the error result of call k.
func returnsErrOf(r *ssa.Return, k ssa.CallInstruction) bool {
	idx := core.ErrorResultIndex(r.Parent())
	ev := errValueOf(k)
	if idx < 0 || ev == nil {
		return false
	}
	vals := returnOperandDeep(r, idx)
	if len(vals) == 0 {
		return false
	}
	for _, v := range vals {
		if v == nil || !isValueOf(v, ev) {
			return false
		}
	}
	return core.Dominates(k, r)
}

// ---------------------------------------------------------------------------
// R-LOCK-5

func isCtxType(t types.Type) bool {
	return types.TypeString(t, nil) == "context.Context"
}

// isCtxDone: v is `<context>.Done()`.
func isCtxDone(v ssa.Value) bool {
	call, ok := v.(*ssa.Call)
	return ok && call.Call.IsInvoke() && call.Call.Method.Name() == "Done" && isCtxType(call.Call.Value.Type())
}

var typeSetMemo = map[*ssa.Function]map[string]bool{}

// errTypeSet: concrete types an error value can have ("?" when unknown).
func errTypeSet(v ssa.Value, depth int) map[string]bool {
	out := map[string]bool{}
	for _, o := range core.Origins(v, false) {
		switch x := o.(type) {
		case *ssa.MakeInterface:
			out[types.TypeString(x.X.Type(), func(p *types.Package) string { return core.Short(p.Path()) })] = true
		case *ssa.Alloc:
			out[types.TypeString(x.Type(), func(p *types.Package) string { return core.Short(p.Path()) })] = true
		case *ssa.Const:
			if x.Value == nil {
				out["nil"] = true
			} else {
				out["?"] = true
			}
		case *ssa.Call:
			f := core.StaticCallee(x)
			if f == nil || f.Blocks == nil || depth > 4 {
				out["?"] = true
				continue
			}
			for t := range fnErrTypeSet(f, depth+1) {
				out[t] = true
			}
		default:
			out["?"] = true
		}
	}
	return out
}

func fnErrTypeSet(f *ssa.Function, depth int) map[string]bool {
	if m, ok := typeSetMemo[f]; ok {
		return m
	}
	m := map[string]bool{}
	typeSetMemo[f] = m
	idx := core.ErrorResultIndex(f)
	if idx < 0 {
		m["?"] = true
		return m
	}
	for _, r := range core.Returns(f) {
		for _, v := range core.ReturnOperand(r, idx) {
			if v == nil {
				m["nil"] = true
				continue
			}
			for t := range errTypeSet(v, depth) {
				m[t] = true
			}
		}
	}
	return m
}

func setString(m map[string]bool) string {
	var l []string
	for k := range m {
		l = append(l, k)
	}
	sort.Strings(l)
	return strings.Join(l, ", ")
}

func ruleLock5(c *Ctx) {
	p := c.P
	creates := func(k ssa.CallInstruction) bool {
		if _, isDefer := k.(*ssa.Defer); isDefer {
			return false
		}
		return callReachesNamed(p, k, fnGoCreate)
	}
	allowed := map[string]bool{"*lib/file.TimeoutError": true, "*lib/file.ContextCanceled": true, "*lib/file.ContextDone": true}
	// (a) retry loops
	nLoops := 0
	for _, fn := range p.FuncsIn(true, "lib/file") {
		idx := 0
		for _, k := range core.Calls(fn) {
			if !creates(k) || !reachAfter(k, k, nil, nil) {
				continue
			}
			idx++
			c.Sites++
			c.Touch(fn)
			if !p.IsControl(fn) {
				nLoops++
			}
			key := c.KeyAt(fn, "retry loop around "+acqLabel(c, k))
			// gates: selects with a ctx.Done() case, and calls of helpers that wait
			// on such a select on every path and fail exactly when the context is done
			gates := doneGates(c, fn, allowed)
			isGate := func(in ssa.Instruction) bool {
				for _, g := range gates {
					if in == g.at {
						return true
					}
				}
				return false
			}
			if reachAfter(k, k, isGate, nil) {
				c.Bad(key, c.Pos(k), "a cycle through this call crosses no select with a `<-ctx.Done()` case (neither directly nor in a helper that always waits on one): when the lock is never released (stale .lock file, crashed process) the statement retries forever instead of failing with the lock-timeout error")
				continue
			}
			bad := ""
			for _, g := range gates {
				if g.doneSucc == nil {
					bad = "the branch taken when ctx.Done() fires cannot be identified at " + c.Pos(g.at)
					continue
				}
				if reachFromBlock(g.doneSucc, k, nil, nil) {
					bad = "after ctx.Done() fired the loop can still retry (the done case does not leave the loop)"
				}
				if why := doneReturnsOK(c, fn, g.doneSucc, allowed); why != "" {
					bad = why
				}
			}
			c.Check(bad == "", key, c.Pos(k), "every cycle crosses a select on ctx.Done() (directly or in a wait helper); its done edge leaves the loop with *TimeoutError / *ContextCanceled / *ContextDone", bad)
		}
	}
	if nLoops == 0 {
		c.Unknown("anchor:retry loop", "-", "cannot-analyse: no loop of lib/file retries the creation of a control file any more")
	}
	// (b) contexts handed to retrying callees by the constructors
	retries := func(f *ssa.Function) bool {
		n := p.FnRef(f)
		return n == fnCCFC || n == goFile+".lockContext"
	}
	for _, fn := range handlerCtors(c) {
		if p.IsControl(fn) {
			continue
		}
		n := 0
		for _, k := range core.Calls(fn) {
			if _, isDefer := k.(*ssa.Defer); isDefer {
				continue
			}
			var ctxArg ssa.Value
			for _, a := range k.Common().Args {
				if isCtxType(a.Type()) {
					ctxArg = a
				}
			}
			if ctxArg == nil || !callReachesSet(p, k, reachers(p, "retry loops", retries)) {
				continue
			}
			n++
			c.Sites++
			key := c.KeyAt(fn, "context of "+acqLabel(c, k))
			ok := true
			for _, o := range core.Origins(ctxArg, false) {
				call, idx, isEx := core.ExtractOf(o)
				if !isEx || idx != 0 || !calleeIn(p, call, fnTimeoutCtx) {
					ok = false
				}
			}
			c.Check(ok, key, c.Pos(k), "result #0 of GetTimeoutContext",
				"the context passed to the retrying callee is not the one produced by GetTimeoutContext: without a deadline the wait for a lock is unbounded (--wait-timeout is ignored)")
		}
	}
	if fn := c.Fn(fnTimeoutCtx); fn != nil {
		key := c.KeyAt(fn, "returns a context that ends")
		bad := ""
		for _, r := range core.Returns(fn) {
			ok := false
			for _, o := range core.Origins(r.Results[0], false) {
				if call, idx, isEx := core.ExtractOf(o); isEx && idx == 0 && (calleeIn(p, call, "context.WithTimeout") || calleeIn(p, call, "context.WithDeadline")) {
					ok = true
					continue
				}
				if par, isPar := o.(*ssa.Parameter); isPar && isCtxType(par.Type()) {
					// returned unchanged only when it is already done or has a deadline
					for _, f := range core.FactsAt(r.Block()) {
						if f.Neg {
							continue
						}
						if x, neq, isCmp := core.NilCmp(f.Cond); isCmp && neq {
							if call, isCall := x.(*ssa.Call); isCall && call.Call.IsInvoke() && call.Call.Method.Name() == "Err" && call.Call.Value == par {
								ok = true
							}
						}
						if ex, isEx := f.Cond.(*ssa.Extract); isEx && ex.Index == 1 {
							if call, isCall := ex.Tuple.(*ssa.Call); isCall && call.Call.IsInvoke() && call.Call.Method.Name() == "Deadline" && call.Call.Value == par {
								ok = true
							}
						}
					}
				}
			}
			if !ok {
				bad = "the return at " + c.Pos(r) + " hands back a context that is neither derived by context.WithTimeout nor known to be done / to have a deadline"
			}
		}
		c.Check(bad == "", key, c.FnPos(fn), "every return yields WithTimeout(ctx) or a ctx whose Err() != nil / Deadline() ok was tested", bad)
	}
	// (c) the error tables
	typeArm(c, "lib/file.ParseError", "*"+goFile+".TimeoutError", func(v ssa.Value) (bool, string) {
		ts := errTypeSet(v, 0)
		return len(ts) == 1 && ts["*lib/file.TimeoutError"], setString(ts)
	}, "*lib/file.TimeoutError")
	c.Fn("lib/query.NewFileLockTimeoutError")
	typeArm(c, "lib/query.ConvertFileHandlerError", "*"+core.ModPath+"/lib/file.TimeoutError", func(v ssa.Value) (bool, string) {
		call, ok := v.(*ssa.Call)
		return ok && calleeIn(p, call, "lib/query.NewFileLockTimeoutError"), valueLabel(v)
	}, "NewFileLockTimeoutError")
}

// doneGate is a point of a function where execution waits on ctx.Done(): a
// select instruction, or the call of a wait helper. doneSucc is the block
// entered when the context was done.
type doneGate struct {
	at       ssa.Instruction
	doneSucc *ssa.BasicBlock
}

// selectGates lists the selects of fn that have a `<-ctx.Done()` case.
func selectGates(fn *ssa.Function) []doneGate {
	var out []doneGate
	for _, b := range fn.Blocks {
		for _, in := range b.Instrs {
			s, ok := in.(*ssa.Select)
			if !ok {
				continue
			}
			for i, st := range s.States {
				if st.Dir != types.RecvOnly || !isCtxDone(st.Chan) {
					continue
				}
				g := doneGate{at: s}
				idxV := extractOfSelect(s, 0)
				for _, b2 := range fn.Blocks {
					if len(b2.Instrs) == 0 {
						continue
					}
					iff, ok := b2.Instrs[len(b2.Instrs)-1].(*ssa.If)
					if !ok {
						continue
					}
					bo, ok := iff.Cond.(*ssa.BinOp)
					if !ok || bo.Op != token.EQL || bo.X != idxV {
						continue
					}
					if v, ok := core.ConstInt(bo.Y); ok && int(v) == i {
						g.doneSucc = b2.Succs[0]
					}
				}
				out = append(out, g)
			}
		}
	}
	return out
}

// doneReturnsOK: every return reachable from the done edge is an error of one
// of the allowed types. Returns a description of the first offender or "".
func doneReturnsOK(c *Ctx, fn *ssa.Function, from *ssa.BasicBlock, allowed map[string]bool) string {
	bad := ""
	walkCFG(from, 0, nil, func(in ssa.Instruction) bool {
		r, ok := in.(*ssa.Return)
		if !ok {
			return true
		}
		if _, nonNil := errOperandKinds(c, r); !nonNil {
			bad = "the return at " + c.Pos(r) + " after ctx.Done() may report success"
			return true
		}
		ei := core.ErrorResultIndex(fn)
		for _, v := range returnOperandDeep(r, ei) {
			if v == nil {
				continue
			}
			for t := range errTypeSet(v, 0) {
				if t == "nil" {
					continue // shown non-nil at this return
				}
				if !allowed[t] {
					bad = "the return at " + c.Pos(r) + " after ctx.Done() yields " + t + ", which the callers do not map to the lock-timeout / cancellation errors"
				}
			}
		}
		return true
	})
	return bad
}

var waitHelperMemo = map[*ssa.Function]int{}

// isWaitHelper: a csvq function with a context parameter and an error result
// that crosses a select on that context's Done() on every path to a return,
// and whose returns behind the done edge are errors of the allowed types: it
// returns non-nil whenever the context is done.
func isWaitHelper(c *Ctx, w *ssa.Function, allowed map[string]bool) bool {
	if w == nil || w.Blocks == nil || c.P.Name(w) == w.String() || core.ErrorResultIndex(w) < 0 {
		return false
	}
	switch waitHelperMemo[w] {
	case 1:
		return true
	case 2:
		return false
	}
	waitHelperMemo[w] = 2
	var ctxPar ssa.Value
	for _, par := range w.Params {
		if isCtxType(par.Type()) {
			ctxPar = par
		}
	}
	if ctxPar == nil {
		return false
	}
	var gates []doneGate
	for _, g := range selectGates(w) {
		sel := g.at.(*ssa.Select)
		onParam := false
		for _, st := range sel.States {
			if call, ok := st.Chan.(*ssa.Call); ok && isCtxDone(st.Chan) && hasOrigin(call.Call.Value, ctxPar) {
				onParam = true
			}
		}
		if onParam {
			gates = append(gates, g)
		}
	}
	if len(gates) == 0 {
		return false
	}
	isSel := func(in ssa.Instruction) bool {
		for _, g := range gates {
			if in == g.at {
				return true
			}
		}
		return false
	}
	if len(returnsWithout(w, nil, isSel, nil)) > 0 {
		return false // a path returns without having waited
	}
	for _, g := range gates {
		if g.doneSucc == nil || doneReturnsOK(c, w, g.doneSucc, allowed) != "" {
			return false
		}
	}
	waitHelperMemo[w] = 1
	return true
}

// doneGates lists the selects of fn plus the calls of wait helpers whose error
// result is branched on; for those the done edge is the error edge.
func doneGates(c *Ctx, fn *ssa.Function, allowed map[string]bool) []doneGate {
	gates := selectGates(fn)
	for _, k := range core.Calls(fn) {
		call, ok := k.(*ssa.Call)
		if !ok || !isWaitHelper(c, core.StaticCallee(k), allowed) {
			continue
		}
		hasCtx := false
		for _, a := range call.Call.Args {
			if isCtxType(a.Type()) {
				hasCtx = true
			}
		}
		if !hasCtx {
			continue
		}
		g := doneGate{at: call}
		for _, b := range fn.Blocks {
			for _, s := range b.Succs {
				if errKnown(edgeFactOnly(b, s), k, false) {
					g.doneSucc = s
				}
			}
		}
		gates = append(gates, g)
	}
	return gates
}

func extractOfSelect(s *ssa.Select, idx int) ssa.Value {
	for _, r := range *s.Referrers() {
		if e, ok := r.(*ssa.Extract); ok && e.Index == idx {
			return e
		}
	}
	return nil
}

// typeArm checks the arm of a type switch on parameter #0 of fnName for the
// asserted type: every value returned through that arm satisfies want.
func typeArm(c *Ctx, fnName, asserted string, want func(ssa.Value) (bool, string), wantDesc string) {
	fn := c.Fn(fnName)
	if fn == nil {
		return
	}
	short := asserted[strings.LastIndex(asserted, "/")+1:]
	key := c.KeyAt(fn, "arm "+short)
	idx := core.ErrorResultIndex(fn)
	found := false
	for _, b := range fn.Blocks {
		if len(b.Instrs) == 0 {
			continue
		}
		iff, ok := b.Instrs[len(b.Instrs)-1].(*ssa.If)
		if !ok {
			continue
		}
		ex, ok := iff.Cond.(*ssa.Extract)
		if !ok || ex.Index != 1 {
			continue
		}
		ta, ok := ex.Tuple.(*ssa.TypeAssert)
		if !ok || !ta.CommaOk || types.TypeString(ta.AssertedType, nil) != asserted {
			continue
		}
		found = true
		t := b.Succs[0]
		region := core.RegionFrom(t)
		bad := ""
		n := 0
		for _, r := range core.Returns(fn) {
			if !region[r.Block()] || idx < 0 {
				continue
			}
			for _, v := range core.ValuesOnPathsFrom(b, t, r.Results[idx], r) {
				n++
				if v == nil {
					bad = "nil"
					continue
				}
				if ok, got := want(v); !ok {
					bad = got
				}
			}
		}
		if n == 0 {
			c.Unknown(key, c.Pos(iff), "no returned value found on the arm")
		} else {
			c.Check(bad == "", key, c.Pos(iff), "maps to "+wantDesc, "the arm yields "+bad+" instead of "+wantDesc+": a lock wait that times out is reported as a generic I/O error instead of the lock-timeout error")
		}
	}
	if !found {
		c.Bad(key, c.FnPos(fn), "no arm for "+short+" any more: a lock wait that times out is reported as a generic error")
	}
}

// ---------------------------------------------------------------------------
// R-LOCK-6

// lifetimeCallers is the frozen who-may-call table: callee → allowed top-level
// callers, one line of reason each.
var lifetimeCallers = map[string]map[string]string{
	fnCCommit: {
		"lib/query.(*Transaction).Commit": "the commit protocol (after every encode, R-TXN-3)",
	},
	fnCClose: {
		"lib/query.(ViewMap).Dispose":        "release of one cached view (rollback, commit release, reload for update)",
		"lib/query.cacheViewFromFile":        "read handlers are closed right after loading; the update handler on the creator's error path",
		"lib/query.loadInlineObjectFromFile": "read handler of an inline table, closed right after loading",
		"lib/query.CreateTable":              "creator's error paths (R-ISO-6)",
		"lib/query.LoadContentsFromFile":     "unlocked handler of a source file, closed right after reading",
		"lib/file.(*Container).CloseAll":     "release of everything",
		"lib/option.(*Environment).Load":     "private container for configuration files",
	},
	fnCCloseErrs: {
		"lib/query.(ViewMap).CleanWithErrors":      "forced release (signals, deferred release)",
		"lib/file.(*Container).CloseAllWithErrors": "forced release of everything",
	},
	fnCCloseAll: {
		"lib/query.(*Transaction).ReleaseResources": "end of commit / rollback",
		"lib/option.(*Environment).Load":            "private container for configuration files",
	},
	fnCCloseAllE: {
		"lib/query.(*Transaction).ReleaseResourcesWithErrors": "forced release (signals, deferred release)",
	},
	fnHClose:     {fnCClose: "the container is the only owner of handlers"},
	fnHCommit:    {fnCCommit: "the container is the only owner of handlers"},
	fnHCloseErrs: {fnCCloseErrs: "the container is the only owner of handlers", "lib/file.closeIsolatedHandler": "handler that never reached a container"},
	"lib/file.closeIsolatedHandler": {
		"lib/file.NewHandlerWithoutLock": "failed acquisition", "lib/file.NewHandlerForRead": "failed acquisition",
		"lib/file.NewHandlerForCreate": "failed acquisition", "lib/file.NewHandlerForUpdate": "failed acquisition",
		fnCreateHdl: "handler that could not be registered",
	},
}

func ruleLock6(c *Ctx) {
	p := c.P
	// (b) who may call
	var callees []string
	for k := range lifetimeCallers {
		callees = append(callees, k)
	}
	sort.Strings(callees)
	for _, callee := range callees {
		if c.Fn(callee) == nil {
			continue
		}
	}
	for _, fn := range p.SrcFuncs() {
		top := topLevel(p.Name(fn))
		cnt := map[string]int{}
		for _, k := range core.Calls(fn) {
			n := p.CalleeName(k)
			allowedBy, watched := lifetimeCallers[n]
			if !watched {
				continue
			}
			c.Sites++
			c.Touch(fn)
			short := n[strings.LastIndex(n, "/")+1:]
			cnt[short]++
			key := fmt.Sprintf("%s: calls %s", top, short)
			if cnt[short] > 1 || strings.Contains(p.Name(fn), "$") {
				key = fmt.Sprintf("%s: calls %s %s", p.Name(fn), short, ordinal(cnt[short]))
			}
			if why, ok := allowedBy[top]; ok {
				c.Ok(key, c.Pos(k), why)
			} else if ok, _ := calledOnlyFrom(p, fn, func(t string) bool { _, is := allowedBy[t]; return is }); ok {
				c.Ok(key, c.Pos(k), "helper every caller of which (recursively) is one of the permitted functions")
			} else {
				c.Bad(key, c.Pos(k), short+" ends the life of a handler (releases its lock / swaps its temp file); it may be called only from the commit / rollback / release functions and from creators' error paths — a call here releases the lock while the transaction still relies on it (lost update) or commits half a transaction")
			}
		}
	}
	// method values / function values of the watched functions would escape the table
	for _, fn := range p.SrcFuncs() {
		for _, b := range fn.Blocks {
			for _, in := range b.Instrs {
				if _, isCall := in.(ssa.CallInstruction); isCall {
					continue
				}
				for _, op := range in.Operands(nil) {
					if f, ok := (*op).(*ssa.Function); ok {
						if _, watched := lifetimeCallers[p.FnRef(f)]; watched {
							c.Bad(c.KeyAt(fn, "takes "+f.Name()+" as a function value"), c.Pos(in), "the who-may-call table cannot follow a handler-terminating function used as a value")
						}
					}
				}
			}
		}
	}
	// (a) creators of long-lived handlers
	for _, fn := range p.SrcFuncs() {
		if p.InPkg(fn, "lib/file") {
			continue
		}
		n := 0
		for _, k := range core.Calls(fn) {
			if !calleeIn(p, k, "lib/file.(*Container).CreateHandlerForUpdate", "lib/file.(*Container).CreateHandlerForCreate") {
				continue
			}
			n++
			c.Sites++
			c.Touch(fn)
			h := resultOf(k, 0)
			short := p.CalleeName(k)
			short = short[strings.LastIndex(short, ".")+1:]
			// stored into FileInfo.Handler before any return on the success edge
			isStore := func(in ssa.Instruction) bool {
				st, ok := in.(*ssa.Store)
				if !ok || st.Val != h {
					return false
				}
				fa, ok := st.Addr.(*ssa.FieldAddr)
				return ok && core.FieldOwner(fa) == "lib/query.FileInfo.Handler"
			}
			esc := core.EscapeWithout(k, isStore, failureEdgeOf(k))
			keyS := c.KeyAt(fn, "result of "+short+" stored in FileInfo.Handler")
			if c.P.IsControl(fn) {
				keyS = c.KeyAt(fn, "result of "+short+" stored in FileInfo.Handler")
			}
			if esc != nil {
				c.Bad(keyS, c.Pos(k), "the exit at "+c.Pos(esc)+" is reachable after the handler was created without storing it in FileInfo.Handler: COMMIT cannot find the handler (the update is never written) and only the final forced release removes the lock")
			} else {
				c.Ok(keyS, c.Pos(k), "stored on every path from the success edge")
			}
			// closes in the creating function lie on error paths only
			keyC := c.KeyAt(fn, "handler of "+short+" stays open on the success path")
			bad := ""
			for _, f := range funcAndClosures(fn) {
				for _, ck := range core.Calls(f) {
					if !calleeIn(p, ck, fnCClose, fnCCommit, fnCCloseErrs) || len(ck.Common().Args) < 2 {
						continue
					}
					arg := ck.Common().Args[1]
					mine := arg == h || lastField(arg) == "lib/query.FileInfo.Handler"
					for _, o := range core.Origins(arg, false) {
						if o == h {
							mine = true
						}
					}
					if !mine {
						continue
					}
					if _, isDefer := ck.(*ssa.Defer); isDefer {
						bad = "close deferred at " + c.Pos(ck) + ": it runs on the success path too"
						continue
					}
					// the points of the creating function at which this close executes:
					// the call itself, or — for a close inside a local closure that is
					// only ever called directly — the calls of that closure
					points := []ssa.CallInstruction{ck}
					if f != fn {
						sites, ok := localClosureCalls(fn, f)
						if !ok {
							bad = "closed inside a closure at " + c.Pos(ck) + " that is deferred, started, stored or passed on (deferred closes run on the success path too)"
							continue
						}
						points = sites
					}
					for _, pt := range points {
						walkAfter(pt, nil, func(in ssa.Instruction) bool {
							if r, ok := in.(*ssa.Return); ok {
								if allNil, _ := errOperandKinds(c, r); allNil {
									bad = "after the close at " + c.Pos(pt) + " the success return at " + c.Pos(r) + " is reachable: the lock is released while the transaction continues, so another process can update the file before COMMIT (lost update)"
								}
							}
							return true
						})
					}
				}
			}
			c.Check(bad == "", keyC, c.Pos(k), "every close of this handler in the creating function is followed by error returns only", bad)
		}
	}
}

// localClosureCalls returns the call sites in fn of its local closure clo when
// every use of the closure value is a direct call (`f := func(){…}; … f()`).
// ok=false when the closure is deferred, started with go, stored, passed as an
// argument, or nested deeper than one level.
func localClosureCalls(fn, clo *ssa.Function) (sites []ssa.CallInstruction, ok bool) {
	if clo.Parent() != fn {
		return nil, false
	}
	ok = true
	var visit func(v ssa.Value)
	seen := map[ssa.Value]bool{}
	visit = func(v ssa.Value) {
		if seen[v] || v.Referrers() == nil {
			return
		}
		seen[v] = true
		for _, r := range *v.Referrers() {
			switch x := r.(type) {
			case *ssa.Call:
				if x.Call.Value == v && x.Parent() == fn {
					sites = append(sites, x)
				} else {
					ok = false
				}
			case *ssa.DebugRef:
			case *ssa.Store:
				// `var f func(); f = func(){…}`: follow the loads of a purely local cell
				al, isAlloc := x.Addr.(*ssa.Alloc)
				if !isAlloc || x.Val != v || cellWrittenElsewhere(al) {
					ok = false
					continue
				}
				for _, ar := range *al.Referrers() {
					switch y := ar.(type) {
					case *ssa.UnOp:
						visit(y)
					case *ssa.Store, *ssa.DebugRef:
					default:
						ok = false
					}
				}
			default:
				ok = false // defer, go, argument, phi, capture …
			}
		}
	}
	found := false
	for _, b := range fn.Blocks {
		for _, in := range b.Instrs {
			if mc, isMC := in.(*ssa.MakeClosure); isMC && mc.Fn == clo {
				found = true
				visit(mc)
			}
		}
	}
	return sites, ok && found && len(sites) > 0
}
