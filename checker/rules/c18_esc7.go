package rules

import (
	"fmt"
	"go/constant"
	"go/token"
	"go/types"
	"sort"
	"strings"

	"golang.org/x/tools/go/ssa"

	"verif/checker/core"
)

// R-ESC-7 — a name is scanned from quoted text only for the token kinds whose
// printer can write it quoted.
//
// After `@` the scanner produces VARIABLE, FLAG (@@), RUNTIME_INFORMATION (@#)
// and ENVIRONMENT_VARIABLE (@%). The printers Variable.String, Flag.String and
// RuntimeInformation.String write sigil + name as they are; only
// EnvironmentVariable.String passes the name through QuoteIdentifier. A
// back-quoted name may contain anything (`a-1`), so it survives print → parse
// only for the kind whose printer quotes. Writer/reader agreement, decided from
// both sides: the set Q of quoting kinds is computed from the printers (which
// String() reaches option.QuoteIdentifier); every call of the quoted-text scanner
// scanString must then be justified — its branch yields a STRING or IDENTIFIER
// token (the two literal kinds, whose printers quote: R-ESC-2), or it is dominated
// by a test `kind == K` with K ∈ Q; and for every K ∈ Q such a guarded call exists.

// syntax-tree type ↔ token kind (grammar: lib/parser/parser.y, rules variable,
// flag, runtime_information, environment_variable)
var fxSigilKinds = []struct{ Node, Token string }{
	{"Variable", "VARIABLE"},
	{"Flag", "FLAG"},
	{"RuntimeInformation", "RUNTIME_INFORMATION"},
	{"EnvironmentVariable", "ENVIRONMENT_VARIABLE"},
}

func init() {
	Register(&Rule{ID: "R-ESC-7", Props: []string{"C18"}, Floor: 7,
		Doc:      "writer/reader agreement for names after a sigil: with Q = the token kinds among VARIABLE, FLAG, RUNTIME_INFORMATION, ENVIRONMENT_VARIABLE whose syntax-tree printer (Variable/Flag/RuntimeInformation/EnvironmentVariable.String) reaches option.QuoteIdentifier, (i) every call of (*Scanner).scanString in lib/parser is either in a branch that yields the token STRING or IDENTIFIER or dominated by the true edge of a comparison `kind == K` with K ∈ Q — a quoted name is never accepted for a kind printed unquoted — and (ii) for every kind: K ∈ Q iff such a guarded call exists",
		Controls: []string{"CtlSigilQuotedForAnyKind"},
		Run:      ruleEsc7})
}

func ruleEsc7(c *Ctx) {
	pk := c.P.ByPath["lib/parser"]
	read := c.Fn("lib/parser.(*Scanner).scanString")
	if pk == nil || read == nil {
		return
	}
	tok := func(name string) constant.Value {
		if k, ok := pk.Types.Scope().Lookup(name).(*types.Const); ok {
			return k.Val()
		}
		c.Unknown("anchor:lib/parser."+name, "-", "cannot-analyse: token constant "+name+" not declared")
		return nil
	}
	// the printers decide which kinds may be scanned from quoted text
	quoting := map[string]bool{}
	kindVal := map[string]constant.Value{}
	quoters := c.P.ReachersOfNames("lib/option.QuoteIdentifier")
	for _, sk := range fxSigilKinds {
		v := tok(sk.Token)
		if v == nil {
			return
		}
		kindVal[sk.Token] = v
		pf := c.FnOpt("lib/parser.(" + sk.Node + ").String")
		if pf == nil {
			pf = c.Fn("lib/parser.(*" + sk.Node + ").String")
		}
		if pf == nil {
			return
		}
		quoting[sk.Token] = quoters[pf]
	}
	literalKinds := []constant.Value{tok("STRING"), tok("IDENTIFIER")}
	if literalKinds[0] == nil || literalKinds[1] == nil {
		return
	}
	fxCheckQuotedNameSites(c, read, c.P.FuncsIn(false, "lib/parser"), quoting, kindVal, literalKinds, true)
	// controls: the miniature scanner of the R-ESC-6 controls
	var cread *ssa.Function
	var cfns []*ssa.Function
	for _, fn := range fxCtlFuncs(c) {
		if fn.Name() == "ctlScanString" {
			cread = fn
		}
		if strings.HasPrefix(fn.Name(), "CtlSigil") || strings.HasPrefix(fn.Name(), "okSigil") {
			cfns = append(cfns, fn)
		}
	}
	if cread != nil && len(cfns) > 0 {
		fxCheckQuotedNameSites(c, cread, cfns, quoting, kindVal, literalKinds, false)
	}
}

func fxCheckQuotedNameSites(c *Ctx, read *ssa.Function, callers []*ssa.Function, quoting map[string]bool, kindVal map[string]constant.Value, literalKinds []constant.Value, agreement bool) {
	isConst := func(v ssa.Value, k constant.Value) bool {
		cv, ok := v.(*ssa.Const)
		return ok && cv.Value != nil && cv.Value.Kind() == constant.Int && constant.Compare(cv.Value, token.EQL, k)
	}
	guarded := map[string]bool{} // kinds for which a guarded quoted scan exists
	var qnames []string
	for k, q := range quoting {
		if q {
			qnames = append(qnames, k)
		}
	}
	sort.Strings(qnames)
	for _, fn := range callers {
		n := 0
		for _, ci := range core.Calls(fn) {
			if core.StaticCallee(ci) != read {
				continue
			}
			n++
			c.Touch(fn)
			site := ci.(ssa.Instruction)
			key := c.KeyAt(fn, fmt.Sprintf("quoted text scanned by %s call #%d only for a kind printed quoted", read.Name(), n))
			// (b) dominated by `kind == K`
			var kinds []string
			for _, f := range fxFactsDeep(site.Block(), 3) {
				bin, ok := f.Cond.(*ssa.BinOp)
				if !ok || f.Neg || bin.Op != token.EQL {
					continue
				}
				for _, sk := range fxSigilKinds {
					if isConst(bin.X, kindVal[sk.Token]) || isConst(bin.Y, kindVal[sk.Token]) {
						kinds = append(kinds, sk.Token)
					}
				}
			}
			// (a) the branch yields a literal token: a phi receives STRING / IDENTIFIER
			// from a block the call's block dominates
			literal := false
			for _, b := range fn.Blocks {
				for _, in := range b.Instrs {
					phi, ok := in.(*ssa.Phi)
					if !ok {
						break
					}
					for i, e := range phi.Edges {
						p := b.Preds[i]
						if (p == site.Block() || site.Block().Dominates(p)) && (isConst(e, literalKinds[0]) || isConst(e, literalKinds[1])) {
							literal = true
						}
					}
				}
			}
			switch {
			case len(kinds) > 0:
				bad := ""
				for _, k := range kinds {
					guarded[k] = true
					if !quoting[k] {
						bad = k
					}
				}
				if bad != "" {
					c.Bad(key, c.Pos(site), fmt.Sprintf("a quoted name is accepted for token kind %s, whose printer writes the name unquoted: `a-1` after the sigil prints as a-1 and re-parses as an expression", bad))
				} else {
					c.Ok(key, c.Pos(site), "dominated by kind == "+strings.Join(kinds, "/")+", whose printer quotes the name when needed")
				}
			case literal:
				c.Ok(key, c.Pos(site), "the branch yields a STRING / IDENTIFIER token, whose printers quote (R-ESC-2)")
			default:
				c.Bad(key, c.Pos(site), fmt.Sprintf("this call reads a quoted name but is neither in a branch that yields a STRING / IDENTIFIER token nor guarded by a test for a token kind whose printer quotes (%s): a back-quoted name is accepted for kinds that are printed as sigil + bare name (Variable, Flag, RuntimeInformation), so `@`+\"`a-1`\" prints as @a-1 and re-parses as @a - 1", strings.Join(qnames, ", ")))
			}
		}
	}
	if !agreement {
		return
	}
	for _, sk := range fxSigilKinds {
		key := fmt.Sprintf("lib/parser token %s: quoted scanning agrees with %s.String", sk.Token, sk.Node)
		switch {
		case quoting[sk.Token] && !guarded[sk.Token]:
			c.Bad(key, c.FnPos(read), fmt.Sprintf("%s.String quotes the name when needed, but no call of %s is guarded by kind == %s: the printed form is not accepted by the scanner", sk.Node, read.Name(), sk.Token))
		case quoting[sk.Token]:
			c.Ok(key, c.FnPos(read), "printer quotes, scanner accepts quoted text for this kind")
		default:
			c.Ok(key, c.FnPos(read), "printer writes the bare name, scanner takes the name from the identifier scanner only (no quoted scan guarded by this kind)")
		}
	}
}

// fxFactsDeep is core.FactsAt that also looks through the value form of `a && b`
// (a tagless `switch { case a && b: … }`): a boolean phi known to be true can only
// have arrived over an edge whose value is not the constant false, so when exactly
// one such edge exists the facts of that predecessor hold as well.
func fxFactsDeep(b *ssa.BasicBlock, depth int) []core.Fact {
	out := core.FactsAt(b)
	if depth == 0 {
		return out
	}
	for _, f := range out {
		phi, ok := f.Cond.(*ssa.Phi)
		if !ok || f.Neg {
			continue
		}
		var via *ssa.BasicBlock
		n := 0
		for i, e := range phi.Edges {
			if v, isC := core.ConstBool(e); isC && !v {
				continue
			}
			via = phi.Block().Preds[i]
			n++
		}
		if n == 1 {
			out = append(out, fxFactsDeep(via, depth-1)...)
		}
	}
	return out
}
