package rules

import (
	"fmt"
	"go/types"
	"sort"
	"strings"

	"golang.org/x/tools/go/ssa"

	"verif/checker/core"
)

// R-SCAN-5 — the token scanner does not recurse.
//
// The tokens of csvq are a regular language: the scanner needs loops, never a
// stack. A scanner function that calls itself (or a caller of itself) to "go on
// with the next token" — after a comment, after white space, after a skipped
// character — uses one Go stack frame per skipped item, so the depth of the
// stack grows with the length of the program text, and a text that is long
// enough (6,000,000 × "/**/" before "select 1") ends in the runtime's
// `fatal error: stack overflow`, which no recover() catches: the parser is no
// longer total. Go does not eliminate tail calls, `return s.Scan()` is a real
// call.
//
// Decided on the call graph: the set S is every method of lib/parser.Scanner
// and lib/parser.Lexer (the yyLexer the generated parser pulls tokens from)
// plus every lib/parser function they reach (static callees, VTA targets of
// dynamic calls, closures they create). Each function of S gets one obligation:
// it lies on no call cycle inside S (no self-call, no mutual recursion). The
// generated parser itself is not in S (the scanner never calls it), so the
// recursion of the grammar is not judged here.

func init() {
	Register(&Rule{ID: "R-SCAN-5", Props: []string{"C18"}, Floor: 30,
		Doc: "the scanner's stack depth does not depend on the length of the input: no method of lib/parser.Scanner or lib/parser.Lexer, and no lib/parser function they reach (static callees, VTA targets, closures), lies on a call cycle among these functions — neither a self-call (`return s.Scan()` after a comment: one frame per comment, fatal stack overflow on a long run of comments, which recover() cannot catch) nor a mutual recursion; one obligation per function of the set. " +
			"Skipping must be a loop. The generated parser is outside the set (the scanner does not call it)",
		Controls: []string{"CtlScanCallsItselfAfterSkip", "CtlScanMutualSkipA"},
		Run:      ruleScan5})
}

// scan5Role: fn is a method of (a type named) Scanner or Lexer of lib/parser,
// or a control of this rule (a function of the control package whose first
// parameter is such a type or a struct embedding parser.Scanner).
func scan5Role(c *Ctx, fn *ssa.Function) bool {
	if fn.Parent() != nil || len(fn.Params) == 0 {
		return false
	}
	t := fn.Params[0].Type()
	if pt, ok := t.Underlying().(*types.Pointer); ok {
		t = pt.Elem()
	}
	isScannerT := func(t types.Type) bool {
		n := core.NamedOf(t)
		return n == "lib/parser.Scanner" || n == "lib/parser.Lexer"
	}
	if c.P.IsControl(fn) {
		if isScannerT(t) {
			return true
		}
		if st, ok := t.Underlying().(*types.Struct); ok {
			for i := 0; i < st.NumFields(); i++ {
				if f := st.Field(i); f.Embedded() && isScannerT(f.Type()) {
					return true
				}
			}
		}
		return false
	}
	return fn.Signature.Recv() != nil && isScannerT(t)
}

func ruleScan5(c *Ctx) {
	inScope := func(f *ssa.Function) bool {
		return f != nil && f.Blocks != nil && (c.P.InPkg(f, "lib/parser") || c.P.IsControl(f))
	}
	// roots
	var roots []*ssa.Function
	for _, fn := range c.P.FuncsIn(true, "lib/parser") {
		if scan5Role(c, fn) {
			roots = append(roots, fn)
		}
	}
	for _, fn := range c.P.SrcFuncs() {
		if c.P.IsControl(fn) && scan5Role(c, fn) {
			roots = append(roots, fn)
		}
	}
	real := 0
	for _, r := range roots {
		if !c.P.IsControl(r) {
			real++
		}
	}
	if real == 0 {
		c.Unknown("anchor:lib/parser.Scanner", "-", "cannot-analyse: lib/parser declares no method of a type Scanner or Lexer")
		return
	}
	// the set S and its call edges
	succ := map[*ssa.Function][]*ssa.Function{}
	site := map[[2]*ssa.Function]ssa.Instruction{}
	inS := map[*ssa.Function]bool{}
	var order []*ssa.Function
	var visit func(f *ssa.Function)
	visit = func(f *ssa.Function) {
		if inS[f] {
			return
		}
		inS[f] = true
		order = append(order, f)
		add := func(g *ssa.Function, at ssa.Instruction) {
			if !inScope(g) {
				return
			}
			k := [2]*ssa.Function{f, g}
			if _, ok := site[k]; !ok {
				site[k] = at
				succ[f] = append(succ[f], g)
			}
			visit(g)
		}
		for _, b := range f.Blocks {
			for _, in := range b.Instrs {
				if call, ok := in.(ssa.CallInstruction); ok {
					c.Sites++
					for _, g := range c.P.Callees(call) {
						add(g, in)
					}
				}
				if mc, ok := in.(*ssa.MakeClosure); ok {
					if g, ok := mc.Fn.(*ssa.Function); ok {
						add(g, in)
					}
				}
			}
		}
	}
	sort.Slice(roots, func(i, j int) bool { return c.P.Name(roots[i]) < c.P.Name(roots[j]) })
	for _, r := range roots {
		visit(r)
	}
	// cycle through f: shortest path f → … → f inside S
	cycleOf := func(f *ssa.Function) []*ssa.Function {
		prev := map[*ssa.Function]*ssa.Function{}
		queue := []*ssa.Function{f}
		for len(queue) > 0 {
			x := queue[0]
			queue = queue[1:]
			for _, y := range succ[x] {
				if y == f {
					var back []*ssa.Function // x, prev[x], … up to (excluding) f
					for z := x; z != f; z = prev[z] {
						back = append(back, z)
					}
					out := []*ssa.Function{f}
					for i := len(back) - 1; i >= 0; i-- {
						out = append(out, back[i])
					}
					return append(out, f)
				}
				if _, ok := prev[y]; !ok && y != f {
					prev[y] = x
					queue = append(queue, y)
				}
			}
		}
		return nil
	}
	sort.Slice(order, func(i, j int) bool { return c.P.Name(order[i]) < c.P.Name(order[j]) })
	for _, f := range order {
		c.Touch(f)
		key := c.KeyAt(f, "not on a call cycle of the scanner")
		cyc := cycleOf(f)
		if cyc == nil {
			c.Ok(key, c.FnPos(f), "no call path inside the scanner leads back to the function: its stack depth is bounded independently of the input")
			continue
		}
		var names []string
		for _, g := range cyc {
			names = append(names, g.Name())
		}
		at := site[[2]*ssa.Function{cyc[len(cyc)-2], f}]
		pos := c.FnPos(f)
		if at != nil && !c.P.IsControl(f) {
			pos = c.Pos(at)
		}
		why := fmt.Sprintf("call cycle %s: every skipped item (comment, blank, ignored character) costs one Go stack frame, so the stack depth grows with the program text and a long enough run ends in `fatal error: stack overflow` (not recoverable) — skip in a loop instead", strings.Join(names, " → "))
		c.Bad(key, pos, why)
		if c.P.IsControl(f) && strings.HasPrefix(f.Name(), "ok") {
			c.Unknown("negative-control:"+key, "-", "the rule reports "+f.Name()+", which skips in a loop: "+why)
		}
	}
}
