package rules

import (
	"fmt"
	"go/token"
	"go/types"
	"sort"

	"golang.org/x/tools/go/ssa"

	"verif/checker/core"
)

// R-LOCK-21 — the lock pass of a data-changing statement is effective on every
// path (C09: no lost update).
//
// R-LOCK-7 / R-LOCK-13 demand that a call that only locks precedes the loader.
// They look at the call, not into it: a lock-only helper that returns early
// ("nothing to do without a WITH clause"), that leaves its loop over the tables
// before the last table, or that completes an iteration without the locking
// call satisfies them and locks nothing. The sub-query of the FROM clause that
// reads the target is then evaluated under a read lock again.
//
// Decided here, inside every lock-only callee k that a data-changing entry
// function (role of R-LOCK-7) hands a table list (a slice argument):
//
//   - k has a lock step for that parameter: a loop `for … range param` (header
//     test idx < len(param), idx an induction variable that starts at 0 with
//     step 1) whose body calls something that reaches the lock primitive with
//     the loop element as an argument — or a call that forwards the parameter
//     to a callee with such a step (helper extraction);
//   - every path from the entry of k to a return that can be a success (error
//     result not known to be non-nil) passes a lock step; a branch whose
//     condition is computed from the table list alone (len(tables) == 0) may
//     leave towards a place from which no step is reachable;
//   - every iteration of the loop passes the locking call (same exemption for
//     conditions computed from the element alone);
//   - the loop is left before exhaustion only towards returns of an error.

func init() {
	Register(&Rule{ID: "R-LOCK-21", Props: []string{"C09"}, Floor: 1,
		Doc:      "the lock pass is effective on every path: in every lock-only callee (it reaches lib/file.(*Container).CreateHandlerForUpdate, cannot reach lib/query.loadView, has no forUpdate parameter) that a data-changing entry function of lib/query (role of R-LOCK-7) hands a slice of table expressions, (1) the slice parameter has a lock step — a loop over exactly that parameter (header test idx < len(param), idx an induction variable from 0 with step 1) whose body calls a function that reaches the lock primitive with the loop element as argument, or a call forwarding the parameter to a callee that has such a step; (2) every path from the entry to a return whose error result is not known to be non-nil passes a lock step (must-pass-through); an edge of a branch whose condition is computed from the table list alone and from which no step is reachable is exempt, a branch on anything else (the WITH clause, a flag, the scope) is not; (3) every path through the loop body from the header back to the header passes the locking call (conditions computed from the element alone exempt); (4) every edge that leaves the loop from a block other than the header leads only to returns of a non-nil error",
		Controls: []string{"CtlLock21FastPathWithoutWith", "CtlLock21LoopLeftOnError", "CtlLock21IterationSkipsLock", "CtlLock21PassFromSecondTable"},
		Run:      ruleLock21})
}

// lockpassStep is one lock step of a function for a slice parameter.
type lockpassStep struct {
	loop  *core.Loop        // a loop over the parameter, or
	fwd   *ssa.Call         // a call that forwards the parameter
	locks []ssa.Instruction // the locking calls in the loop body
	why   string            // set when the step is defective
	pos   ssa.Instruction   // where
}

type lockpassCtx struct {
	c       *Ctx
	lockers map[*ssa.Function]bool
	readers map[*ssa.Function]bool
	memo    map[string]*lockpassResult
}

type lockpassResult struct {
	ok  bool
	why string
	pos ssa.Instruction
	n   int // lock steps found
}

func lockpassLenOf(v ssa.Value) ssa.Value {
	call, ok := v.(*ssa.Call)
	if !ok {
		return nil
	}
	b, ok := call.Call.Value.(*ssa.Builtin)
	if !ok || b.Name() != "len" || len(call.Call.Args) != 1 {
		return nil
	}
	return call.Call.Args[0]
}

// lockpassIsElem: v is a load of an element of param.
func lockpassIsElem(v ssa.Value, param ssa.Value) bool {
	u, ok := v.(*ssa.UnOp)
	if !ok || u.Op != token.MUL {
		return false
	}
	ia, ok := u.X.(*ssa.IndexAddr)
	return ok && ia.X == param
}

// lockpassOnly: v is computed from the table list (and its elements) alone.
func lockpassOnly(v ssa.Value, param ssa.Value, depth int) bool {
	if depth > 12 {
		return false
	}
	if v == param {
		return true
	}
	switch x := v.(type) {
	case *ssa.Const:
		return true
	case *ssa.BinOp:
		return lockpassOnly(x.X, param, depth+1) && lockpassOnly(x.Y, param, depth+1)
	case *ssa.UnOp:
		if x.Op == token.MUL {
			return lockpassIsElem(x, param)
		}
		return lockpassOnly(x.X, param, depth+1)
	case *ssa.Call:
		if b, ok := x.Call.Value.(*ssa.Builtin); ok && (b.Name() == "len" || b.Name() == "cap") {
			return lockpassOnly(x.Call.Args[0], param, depth+1)
		}
		return false
	case *ssa.TypeAssert:
		return lockpassOnly(x.X, param, depth+1)
	case *ssa.Extract:
		if _, ok := x.Tuple.(*ssa.TypeAssert); ok {
			return lockpassOnly(x.Tuple, param, depth+1)
		}
		return false
	case *ssa.Field:
		return lockpassOnly(x.X, param, depth+1)
	case *ssa.ChangeInterface:
		return lockpassOnly(x.X, param, depth+1)
	case *ssa.ChangeType:
		return lockpassOnly(x.X, param, depth+1)
	case *ssa.MakeInterface:
		return lockpassOnly(x.X, param, depth+1)
	}
	return false
}

// lockpassErrIdx: the index of the last result of fn when it is an error, else -1.
func lockpassErrIdx(fn *ssa.Function) int {
	res := fn.Signature.Results()
	if res.Len() == 0 {
		return -1
	}
	t := res.At(res.Len() - 1).Type()
	if n, ok := t.(*types.Named); ok && n.Obj().Pkg() == nil && n.Obj().Name() == "error" {
		return res.Len() - 1
	}
	return -1
}

// lockpassMaySucceed: return r can hand back a nil error (or fn has no error result).
func lockpassMaySucceed(fn *ssa.Function, r *ssa.Return) bool {
	idx := lockpassErrIdx(fn)
	if idx < 0 {
		return true
	}
	for _, v := range core.ReturnOperand(r, idx) {
		if v == nil || core.ClassifyNil(v, r) != core.NonNil {
			return true
		}
	}
	return false
}

// lockpassCallLocks: the call may invoke a function that reaches the lock primitive.
func (lc *lockpassCtx) callLocks(call ssa.CallInstruction) bool {
	for _, f := range lc.c.P.Callees(call) {
		if lc.lockers[f] {
			return true
		}
	}
	return false
}

// lockpassLoopOver recognises `for idx … < len(param)` at the header of l and
// returns "" when the loop visits every element, else the reason.
func lockpassLoopOver(l *core.Loop, param ssa.Value) (over bool, defect string) {
	h := l.Header
	if len(h.Instrs) == 0 {
		return false, ""
	}
	iff, ok := h.Instrs[len(h.Instrs)-1].(*ssa.If)
	if !ok {
		return false, ""
	}
	cmp, ok := iff.Cond.(*ssa.BinOp)
	if !ok || cmp.Op != token.LSS || lockpassLenOf(cmp.Y) != param {
		return false, ""
	}
	if len(h.Succs) != 2 || !l.Blocks[h.Succs[0]] || l.Blocks[h.Succs[1]] {
		return false, ""
	}
	base, off := core.LinearIndex(cmp.X)
	phi, ok := base.(*ssa.Phi)
	if !ok || phi.Block() != h {
		return true, "the index of the loop is not an induction variable of its header"
	}
	_, init, isConst, step, ok := core.Induction(phi)
	if !ok || !isConst || step != 1 || init+off != 0 {
		return true, "the loop does not start at the first element with step 1"
	}
	return true, ""
}

// lockpassReachIn: the blocks from which a block of targets is reachable
// (targets included) without entering a block of barrier.
func lockpassBackReach(fn *ssa.Function, targets map[*ssa.BasicBlock]bool, within map[*ssa.BasicBlock]bool, barrier *ssa.BasicBlock) map[*ssa.BasicBlock]bool {
	out := map[*ssa.BasicBlock]bool{}
	var st []*ssa.BasicBlock
	for _, b := range fn.Blocks {
		if targets[b] {
			out[b] = true
			st = append(st, b)
		}
	}
	for len(st) > 0 {
		b := st[len(st)-1]
		st = st[:len(st)-1]
		if b == barrier {
			continue
		}
		for _, pr := range b.Preds {
			if within != nil && !within[pr] {
				continue
			}
			if !out[pr] {
				out[pr] = true
				st = append(st, pr)
			}
		}
	}
	return out
}

// lockpassWalk walks the CFG from (b, start). stop(in) ends a path; an edge out
// of an If whose condition is computed from the table list alone and whose
// target is not in canStep is not followed. enter(b) == false keeps the walk
// out of b. It returns the first Return for which bad holds.
func lockpassWalk(b *ssa.BasicBlock, start int, param ssa.Value, stop func(ssa.Instruction) bool, canStep map[*ssa.BasicBlock]bool, enter func(*ssa.BasicBlock) (bool, bool), bad func(*ssa.Return) bool) (ssa.Instruction, *ssa.BasicBlock) {
	seen := map[*ssa.BasicBlock]bool{}
	var found ssa.Instruction
	var hit *ssa.BasicBlock
	var walk func(b *ssa.BasicBlock, start int)
	walk = func(b *ssa.BasicBlock, start int) {
		if found != nil || hit != nil {
			return
		}
		for i := start; i < len(b.Instrs); i++ {
			in := b.Instrs[i]
			if stop != nil && stop(in) {
				return
			}
			if r, ok := in.(*ssa.Return); ok {
				if bad(r) {
					found = r
				}
				return
			}
		}
		var cond ssa.Value
		if len(b.Instrs) > 0 {
			if iff, ok := b.Instrs[len(b.Instrs)-1].(*ssa.If); ok {
				cond = iff.Cond
			}
		}
		exempt := cond != nil && lockpassOnly(cond, param, 0)
		for _, s := range b.Succs {
			if exempt && !canStep[s] {
				continue
			}
			if enter != nil {
				go_, isHit := enter(s)
				if isHit {
					hit = s
					return
				}
				if !go_ {
					continue
				}
			}
			if !seen[s] {
				seen[s] = true
				walk(s, 0)
			}
		}
	}
	walk(b, start)
	return found, hit
}

// analyse decides (1)–(4) for parameter #j of k.
func (lc *lockpassCtx) analyse(k *ssa.Function, j int, stack map[string]bool) *lockpassResult {
	p := lc.c.P
	key := fmt.Sprintf("%s#%d", p.Name(k), j)
	if r, ok := lc.memo[key]; ok {
		return r
	}
	if stack[key] {
		return &lockpassResult{ok: false, why: "the parameter is forwarded in a cycle"}
	}
	stack[key] = true
	defer delete(stack, key)
	res := &lockpassResult{}
	lc.memo[key] = res
	if j >= len(k.Params) || len(k.Blocks) == 0 {
		res.why = "the callee has no body"
		return res
	}
	param := ssa.Value(k.Params[j])

	// the steps
	var steps []*lockpassStep
	for _, l := range core.NaturalLoops(k) {
		over, defect := lockpassLoopOver(l, param)
		if !over {
			continue
		}
		st := &lockpassStep{loop: l, why: defect}
		if len(l.Header.Instrs) > 0 {
			st.pos = l.Header.Instrs[len(l.Header.Instrs)-1]
		}
		var blocks []*ssa.BasicBlock
		for b := range l.Blocks {
			blocks = append(blocks, b)
		}
		sort.Slice(blocks, func(a, b int) bool { return blocks[a].Index < blocks[b].Index })
		for _, b := range blocks {
			for _, in := range b.Instrs {
				call, ok := in.(*ssa.Call)
				if !ok {
					continue
				}
				elem := false
				for _, a := range call.Call.Args {
					if lockpassIsElem(core.Strip(a), param) {
						elem = true
					}
					// the element kept in a local cell (a loop variable a closure captures)
					for _, o := range core.Origins(a, false) {
						if lockpassIsElem(o, param) {
							elem = true
						}
					}
				}
				if !elem {
					continue
				}
				if lc.callLocks(call) {
					st.locks = append(st.locks, call)
					continue
				}
			}
		}
		if len(st.locks) == 0 {
			continue // a loop over the tables that does not lock: not a step
		}
		steps = append(steps, st)
	}
	for _, call := range core.Calls(k) {
		cc, ok := call.(*ssa.Call)
		if !ok {
			continue
		}
		g := core.StaticCallee(cc)
		if g == nil || !lc.lockers[g] || lc.readers[g] || g == k {
			continue
		}
		for i, a := range cc.Call.Args {
			if a != param {
				continue
			}
			sub := lc.analyse(g, i, stack)
			st := &lockpassStep{fwd: cc, pos: cc}
			if !sub.ok {
				st.why = fmt.Sprintf("it forwards the table list to %s, whose lock pass is not effective: %s", p.Name(g), sub.why)
			}
			steps = append(steps, st)
		}
	}
	res.n = len(steps)
	if len(steps) == 0 {
		res.why = fmt.Sprintf("no loop over parameter %s (idx < len(%s)) calls a function that reaches %s with the loop element, and no call forwards %s to a callee that does: the table list is not locked element by element", k.Params[j].Name(), k.Params[j].Name(), lock7LockPrim, k.Params[j].Name())
		if len(k.Blocks[0].Instrs) > 0 {
			res.pos = k.Blocks[0].Instrs[0]
		}
		return res
	}
	for _, st := range steps {
		if st.why != "" {
			res.why, res.pos = st.why, st.pos
			return res
		}
	}

	// (2) must-pass-through from the entry
	headers := map[*ssa.BasicBlock]bool{}
	stepBlocks := map[*ssa.BasicBlock]bool{}
	fwd := map[ssa.Instruction]bool{}
	for _, st := range steps {
		if st.loop != nil {
			headers[st.loop.Header] = true
			stepBlocks[st.loop.Header] = true
		} else {
			fwd[st.fwd] = true
			stepBlocks[st.fwd.Block()] = true
		}
	}
	canStep := lockpassBackReach(k, stepBlocks, nil, nil)
	maySucceed := func(r *ssa.Return) bool { return lockpassMaySucceed(k, r) }
	if r, _ := lockpassWalk(k.Blocks[0], 0, param, func(in ssa.Instruction) bool { return fwd[in] }, canStep,
		func(b *ssa.BasicBlock) (bool, bool) { return !headers[b], false }, maySucceed); r != nil {
		res.why = fmt.Sprintf("a path from the entry reaches the return at %s, which can report success, without passing the lock step (%s), and the branch that selects it is not computed from the table list alone: on that path no file of the statement is opened for update before its queries are evaluated", lc.c.Pos(r), lc.c.Pos(steps[0].pos))
		res.pos = r
		return res
	}

	// (3) and (4) for every loop
	for _, st := range steps {
		if st.loop == nil {
			continue
		}
		l := st.loop
		h := l.Header
		isLock := map[ssa.Instruction]bool{}
		lockBlocks := map[*ssa.BasicBlock]bool{}
		for _, in := range st.locks {
			isLock[in] = true
			lockBlocks[in.Block()] = true
		}
		canLock := lockpassBackReach(k, lockBlocks, l.Blocks, h)
		delete(canLock, h) // coming back to the header is the end of the iteration
		_, hit := lockpassWalk(h.Succs[0], 0, param, func(in ssa.Instruction) bool { return isLock[in] }, canLock,
			func(b *ssa.BasicBlock) (bool, bool) {
				if b == h {
					return false, true
				}
				return l.Blocks[b], false
			}, func(*ssa.Return) bool { return false })
		if hit != nil {
			res.why = fmt.Sprintf("an iteration of the loop over %s can come back to the loop header without the locking call (%s), on a branch that is not computed from the element alone: that table is left unlocked", k.Params[j].Name(), lc.c.Pos(st.locks[0]))
			res.pos = st.pos
			return res
		}
		for _, e := range l.ExitEdges(false) {
			if r, _ := lockpassWalk(e[1], 0, param, nil, map[*ssa.BasicBlock]bool{},
				func(b *ssa.BasicBlock) (bool, bool) { return !l.Blocks[b], false }, maySucceed); r != nil {
				res.why = fmt.Sprintf("the loop over %s is left before the last element towards the return at %s, which can report success: the remaining tables are not locked", k.Params[j].Name(), lc.c.Pos(r))
				res.pos = r
				return res
			}
		}
	}
	res.ok = true
	return res
}

func ruleLock21(c *Ctx) {
	p := c.P
	if c.Fn(lock7Prim) == nil || c.Fn(lock7LockPrim) == nil {
		return
	}
	all, readers := lock7Entries(c, "Lock21")
	lc := &lockpassCtx{c: c, readers: readers, lockers: p.CanReach([]string{lock7LockPrim}, txnBarrier), memo: map[string]*lockpassResult{}}
	done := map[string]bool{}
	n := 0
	for _, e := range all {
		for _, cc := range e.pure {
			k := core.StaticCallee(cc)
			if k == nil || lock7ForUpdateParam(k) >= 0 || len(k.Blocks) == 0 {
				continue // a loader called with forUpdate = true opens the one file it is given
			}
			for j, a := range cc.Call.Args {
				if _, ok := a.Type().Underlying().(*types.Slice); !ok || j >= len(k.Params) {
					continue
				}
				key := c.KeyAt(k, "the lock pass over "+k.Params[j].Name()+" is effective on every path")
				if done[key] {
					continue
				}
				done[key] = true
				c.Touch(k)
				c.Sites++
				if !p.IsControl(k) {
					n++
				}
				r := lc.analyse(k, j, map[string]bool{})
				pos := c.FnPos(k)
				if r.pos != nil {
					pos = c.Pos(r.pos)
				}
				if r.ok {
					c.Ok(key, c.FnPos(k), fmt.Sprintf("%d lock step(s); every path to a success return passes one, every iteration passes the locking call, the loop is left early only with an error (called at %s)", r.n, c.Pos(cc)))
				} else {
					c.Bad(key, pos, fmt.Sprintf("%s is the call that only locks on which R-LOCK-7 / R-LOCK-13 rely at %s, but %s; a sub-query or WITH query that reads the target is then evaluated under a read lock that is released again, and the statement writes values computed from that read over what another process committed before the update lock was taken (lost update)", p.Name(k), c.Pos(cc), r.why))
				}
			}
		}
	}
	if n == 0 {
		c.Unknown("lock-only callees of the data-changing entry functions", "-", "cannot-analyse: no data-changing entry function of lib/query hands a table list to a call that only locks any more")
	}
}
