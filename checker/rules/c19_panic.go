package rules

import (
	"fmt"
	"go/token"
	"go/types"
	"sort"
	"strings"

	"golang.org/x/tools/go/ssa"

	"verif/checker/core"
)

// C19 — panic sources decided structurally (R-ERR-3, R-ERR-4, R-ERR-6).
// R-ERR-5/7/9/10 (numeric preconditions) are in c19_bounds.go.

func init() {
	Register(&Rule{ID: "R-ERR-3", Props: []string{"C19"}, Floor: 10,
		Doc: "every function started by a `go` statement in lib/query (a closure, a function, a method started on a struct value or pointer; the wrapper of a method value is looked through) registers, before any instruction that can panic — allocations, stores to local cells, and reads of a field of its own struct parameter/receiver when that is held by value or is a pointer that is provably non-nil at every call and go statement that reaches the function do not count — a deferred function that calls recover() itself on every path from its entry to its exit; " +
			"a recover() that is reached only under a condition (`if !gm.HasError()`, `if err == nil`) leaves a second failing worker unrecovered: the process dies with a Go panic instead of a csvq error",
		Controls: []string{"CtlConditionalRecover", "CtlNoRecover", "CtlReceiverReadBeforeRecover"},
		Run:      ruleErr3})
	Register(&Rule{ID: "R-ERR-4", Props: []string{"C19"}, Floor: 18,
		Doc: "for every call of a field-lookup function of lib/query (result (int, error), reaches Header.FieldIndex/FieldNumberIndex; the int is -1 on failure): each use of the int other than passing it on in a return is dominated by the `err == nil` outcome of that call, " +
			"or — when the error is discarded — by a successful (error-checked) lookup of the same reference expression; otherwise -1 is used as an index",
		Controls: []string{"CtlLookupErrorDiscarded"},
		Run:      ruleErr4})
	Register(&Rule{ID: "R-ERR-6", Props: []string{"C19"}, Floor: 300,
		Doc: "error → exit code: (a) every type of lib/query that implements error also implements query.Error (has Code()); (b) every allocation of such a type stores a provably non-nil *BaseError into the embedded field; " +
			"(c) every code given to NewBaseError/NewBaseErrorWithPrefix/a BaseError literal is a non-zero value (frozen exceptions: the user-chosen codes of EXIT and TRIGGER ERROR); " +
			"(d) lib/cli.Exit returns nil only for a nil error or a ForcedExit with code 0, and otherwise the result of urfave cli.Exit whose code is the non-zero application code or Error.Code()",
		Controls: []string{"CtlErrorWithoutCode"},
		Run:      ruleErr6})
}

// ---------------------------------------------------------------------------
// R-ERR-3

func e19IsBuiltinCall(c ssa.CallInstruction, name string) bool {
	b, ok := c.Common().Value.(*ssa.Builtin)
	return ok && b.Name() == name
}

// e19CannotPanic: instructions that may precede the registration of the recovering defer.
func e19CannotPanic(in ssa.Instruction) bool {
	switch x := in.(type) {
	case *ssa.Alloc, *ssa.MakeClosure, *ssa.DebugRef, *ssa.MakeInterface, *ssa.ChangeType, *ssa.Phi, *ssa.ChangeInterface:
		return true
	case *ssa.Store:
		_, ok := x.Addr.(*ssa.Alloc)
		return ok
	}
	return false
}

// e19Unwrap replaces the synthetic wrappers the compiler puts around a method value or method expression
// (`f := x.m; go f()`) by the method they call: the wrapper only forwards, the goroutine body is the method.
func e19Unwrap(fns []*ssa.Function) []*ssa.Function {
	var out []*ssa.Function
	for _, f := range fns {
		for i := 0; i < 3 && f.Synthetic != "" && f.Blocks != nil; i++ {
			var inner []*ssa.Function
			for _, call := range core.Calls(f) {
				if g := call.Common().StaticCallee(); g != nil {
					inner = append(inner, g)
				}
			}
			if len(inner) != 1 {
				break
			}
			f = inner[0]
		}
		out = append(out, f)
	}
	return out
}

// e19HarmlessPrefix: the instructions that may precede the registration of the recovering defer in body —
// those of e19CannotPanic and reads of the goroutine's own inputs that cannot fault: a field of a struct
// parameter or receiver held by value, a field read through a pointer parameter or receiver that is non-nil
// at every place body is called or started from (`gm := e.gm` in a method started as `go e.routine(…)` on a
// struct the spawner has just built), loads of local cells and captured variables.
func e19HarmlessPrefix(c *Ctx, body *ssa.Function) func(ssa.Instruction) bool {
	valid := map[ssa.Value]bool{} // addresses known to be dereferenceable
	// a parameter that a nested closure captures lives in a cell: its loads stand for the parameter
	paramOf := func(v ssa.Value) *ssa.Parameter {
		if p, ok := v.(*ssa.Parameter); ok {
			return p
		}
		u, ok := v.(*ssa.UnOp)
		if !ok || u.Op != token.MUL {
			return nil
		}
		al, ok := u.X.(*ssa.Alloc)
		if !ok {
			return nil
		}
		vals, complete := core.StoresTo(al)
		if !complete || len(vals) != 1 {
			return nil
		}
		p, _ := vals[0].(*ssa.Parameter)
		return p
	}
	return func(in ssa.Instruction) bool {
		if e19CannotPanic(in) {
			return true
		}
		switch x := in.(type) {
		case *ssa.Field:
			return true
		case *ssa.FieldAddr:
			ok := false
			if _, isCell := x.X.(*ssa.Alloc); isCell {
				ok = true
			} else if prm := paramOf(x.X); prm != nil {
				ok = e19ParamNeverNil(c, body, prm)
			} else {
				ok = valid[x.X]
			}
			if ok {
				valid[x] = true
			}
			return ok
		case *ssa.UnOp:
			if x.Op != token.MUL {
				return false
			}
			switch x.X.(type) {
			case *ssa.Alloc, *ssa.FreeVar:
				return true
			}
			return valid[x.X]
		}
		return false
	}
}

// e19ParamNeverNil: every call and go statement that reaches body binds a provably non-nil value to prm.
func e19ParamNeverNil(c *Ctx, body *ssa.Function, prm *ssa.Parameter) bool {
	idx := -1
	for i, p := range body.Params {
		if p == prm {
			idx = i
		}
	}
	if idx < 0 {
		return false
	}
	edges := c.P.RealCallers(body)
	if len(edges) == 0 {
		return false
	}
	for _, e := range edges {
		if e.Site == nil || e.Site.Common().StaticCallee() != body || idx >= len(e.Site.Common().Args) {
			return false
		}
		arg := e.Site.Common().Args[idx]
		caller := e.Caller.Func
		if fv, ok := arg.(*ssa.FreeVar); ok && caller.Synthetic != "" {
			// a bound-method wrapper: the receiver is what the method value was made from
			k := -1
			for i, x := range caller.FreeVars {
				if x == fv {
					k = i
				}
			}
			made := 0
			for _, fn := range c.P.SrcFuncs() {
				for _, b := range fn.Blocks {
					for _, in := range b.Instrs {
						mc, ok := in.(*ssa.MakeClosure)
						if !ok || mc.Fn != caller {
							continue
						}
						if k < 0 || k >= len(mc.Bindings) || core.ClassifyNil(mc.Bindings[k], mc) != core.NonNil {
							return false
						}
						made++
					}
				}
			}
			if made == 0 {
				return false
			}
			continue
		}
		if core.ClassifyNil(arg, e.Site) != core.NonNil {
			return false
		}
	}
	return true
}

// e19RecoverVerdict classifies a deferred function: "" = recovers on every path.
func e19RecoverVerdict(c *Ctx, d *ssa.Function) (kind, why string) {
	if d == nil || d.Blocks == nil {
		return "no deferred recover", "the deferred callee cannot be resolved to a function with a body"
	}
	has := false
	for _, call := range core.Calls(d) {
		if e19IsBuiltinCall(call, "recover") {
			has = true
		}
	}
	if !has {
		return "no deferred recover", fmt.Sprintf("the deferred function %s does not call recover() itself (recover only stops a panic when called directly by the deferred function)", c.P.Name(d))
	}
	esc := core.EscapeFromEntry(d, func(in ssa.Instruction) bool {
		call, ok := in.(ssa.CallInstruction)
		return ok && e19IsBuiltinCall(call, "recover")
	}, nil)
	if esc != nil {
		return "recover is conditional", fmt.Sprintf("the deferred function %s reaches its exit at %s on a path that does not call recover(): when the guard is false (another worker already failed / err already set) a panic in this goroutine is not recovered and kills the process", c.P.Name(d), c.Pos(esc))
	}
	return "", ""
}

func ruleErr3(c *Ctx) {
	start := len(c.Obs)
	defer func() {
		c.negControls(start, "okUnconditionalRecover", "okRecoverInMethodOfFreshStruct", "okRecoverInMethodByValue", "okRecoverInMethodValue:", "okRecoverInMethodValueOfPointer")
	}()
	for _, fn := range c.P.FuncsIn(true, "lib/query") {
		for _, call := range core.Calls(fn) {
			g, ok := call.(*ssa.Go)
			if !ok {
				continue
			}
			c.Sites++
			c.Touch(fn)
			targets := c.P.Callees(g)
			if len(targets) == 0 {
				c.Unknown(c.KeyAt(fn, "go <unresolved>"), c.Pos(g), "the operand of the go statement does not resolve to a function")
				continue
			}
			targets = e19Unwrap(targets)
			sortFuncs(c.P, targets)
			for _, body := range targets {
				name := c.P.FnRef(body)
				if body.Blocks == nil {
					c.Unknown(c.KeyAt(fn, "go "+name), c.Pos(g), "goroutine body has no source")
					continue
				}
				c.Touch(body)
				// candidate defers: registered in the entry block before anything that can panic
				bestKind, bestWhy := "no deferred recover", fmt.Sprintf("goroutine body %s registers no defer before its first instruction that can panic", name)
				harmless := e19HarmlessPrefix(c, body)
				for _, in := range body.Blocks[0].Instrs {
					if d, ok := in.(*ssa.Defer); ok {
						kind, why := e19RecoverVerdict(c, d.Common().StaticCallee())
						if kind == "" {
							bestKind, bestWhy = "", ""
							break
						}
						if kind == "recover is conditional" || bestKind != "recover is conditional" {
							bestKind, bestWhy = kind, why
						}
						continue
					}
					if !harmless(in) {
						break
					}
				}
				if bestKind == "" {
					c.Ok(c.KeyAt(fn, "go "+name), c.Pos(g), "entry-block defer calls recover() on every path")
				} else {
					c.Bad(c.KeyAt(fn, "go "+name+": "+bestKind), c.Pos(g), bestWhy)
				}
			}
		}
	}
}

// ---------------------------------------------------------------------------
// R-ERR-4

// e19LookupFuncs: functions of lib/query with results (int, error) that reach the
// header search primitives.
func e19LookupFuncs(c *Ctx) map[*ssa.Function]bool {
	prim := []string{"lib/query.(Header).FieldIndex", "lib/query.(Header).FieldNumberIndex"}
	var prims []*ssa.Function
	for _, n := range prim {
		if f := c.Fn(n); f != nil {
			prims = append(prims, f)
		}
	}
	if len(prims) == 0 {
		return nil
	}
	isPrim := func(f *ssa.Function) bool {
		for _, p := range prims {
			if f == p {
				return true
			}
		}
		return false
	}
	out := map[*ssa.Function]bool{}
	for _, fn := range c.P.FuncsIn(false, "lib/query") {
		res := fn.Signature.Results()
		if res.Len() != 2 || !core.IsErrorType(res.At(1).Type()) {
			continue
		}
		if b, ok := res.At(0).Type().Underlying().(*types.Basic); !ok || b.Kind() != types.Int {
			continue
		}
		if fn.Parent() != nil {
			continue
		}
		if c.P.FnReaches(fn, isPrim) && e19LookupReturnsIndex(fn, isPrim, map[*ssa.Function]bool{}) {
			out[fn] = true
		}
	}
	return out
}

// e19LookupReturnsIndex: some return of fn yields, as its int result, the int
// result of a primitive or of another lookup function, or the constant -1 next
// to a non-nil error (so View.InternalRecordId, which returns a record id, is
// included only through its -1 arm; functions that merely call a lookup
// internally and return an unrelated int are not lookups).
func e19LookupReturnsIndex(fn *ssa.Function, isPrim func(*ssa.Function) bool, seen map[*ssa.Function]bool) bool {
	if isPrim(fn) {
		return true
	}
	if seen[fn] || fn.Blocks == nil {
		return false
	}
	seen[fn] = true
	for _, r := range core.Returns(fn) {
		if len(r.Results) != 2 {
			continue
		}
		for _, v := range core.ReturnOperand(r, 0) {
			if v == nil {
				continue
			}
			for _, o := range core.Origins(v, false) {
				if k, ok := core.ConstInt(o); ok && k == -1 {
					return true
				}
				if call, idx, ok := core.ExtractOf(o); ok && idx == 0 {
					if f := call.Common().StaticCallee(); f != nil && f != fn {
						res := f.Signature.Results()
						if res.Len() == 2 && core.IsErrorType(res.At(1).Type()) && e19LookupReturnsIndex(f, isPrim, seen) {
							return true
						}
					}
				}
			}
		}
	}
	return false
}

func e19NonDebugRefs(v ssa.Value) []ssa.Instruction {
	var out []ssa.Instruction
	if v == nil || v.Referrers() == nil {
		return nil
	}
	for _, r := range *v.Referrers() {
		if _, ok := r.(*ssa.DebugRef); ok {
			continue
		}
		out = append(out, r)
	}
	return out
}

// e19ErrNilAt: the error value e is known to be nil where `use` executes (for a
// Phi use: on the incoming edge that carries v).
func e19ErrNilAt(e ssa.Value, v ssa.Value, use ssa.Instruction) bool {
	holdsNil := func(facts []core.Fact) bool {
		for _, f := range facts {
			x, neq, ok := core.NilCmp(f.Cond)
			if !ok || x != e {
				continue
			}
			if neq == f.Neg { // (x != nil) is false, or (x == nil) is true
				return true
			}
		}
		return false
	}
	if ph, ok := use.(*ssa.Phi); ok {
		all := true
		for i, ev := range ph.Edges {
			if ev != v {
				continue
			}
			if !holdsNil(core.EdgeFacts(ph.Block().Preds[i], ph.Block())) {
				all = false
			}
		}
		return all
	}
	return holdsNil(core.FactsAt(use.Block()))
}

func ruleErr4(c *Ctx) {
	lookups := e19LookupFuncs(c)
	if len(lookups) == 0 {
		return
	}
	var names []string
	for f := range lookups {
		names = append(names, c.P.Name(f))
	}
	sort.Strings(names)
	for _, n := range names {
		c.Anchors[n] = true
	}
	isLookup := func(f *ssa.Function) bool { return lookups[f] }
	seq := map[string]int{}
	for _, fn := range c.P.FuncsIn(true, "lib/query") {
		for _, ci := range core.Calls(fn) {
			call, ok := ci.(*ssa.Call)
			if !ok {
				continue
			}
			callee := call.Common().StaticCallee()
			if callee == nil || !lookups[callee] {
				continue
			}
			c.Sites++
			var idxV, errV ssa.Value
			for _, r := range *call.Referrers() {
				if ex, ok := r.(*ssa.Extract); ok {
					if ex.Index == 0 {
						idxV = ex
					} else {
						errV = ex
					}
				}
			}
			uses := e19NonDebugRefs(idxV)
			if len(uses) == 0 {
				continue // only the error is of interest to the caller
			}
			c.Touch(fn)
			ref := call.Common().Args[len(call.Common().Args)-1]
			base := fmt.Sprintf("%s(%s)", e19ShortFn(c.P.Name(callee)), e19ExprLabel(ref))
			seq[c.P.Name(fn)+base]++
			key := c.KeyAt(fn, "index from "+base)
			if n := seq[c.P.Name(fn)+base]; n > 1 {
				key = fmt.Sprintf("%s #%d", key, n)
			}
			errUses := e19NonDebugRefs(errV)
			if len(errUses) > 0 {
				// error consumed: every non-return use of the index must be under err == nil
				bad := ""
				for _, u := range uses {
					if _, isRet := u.(*ssa.Return); isRet {
						continue
					}
					if e19ErrNilAt(errV, idxV, u) || core.ErrKnownNilAt(errV, u) {
						continue
					}
					// assignment to a local variable (a captured one lives in a cell): not a use
					// itself — every read of the variable, and the creation of every closure
					// that captures it, must lie where the error is known nil
					if st, isSt := u.(*ssa.Store); isSt && st.Val == idxV {
						if cell, isCell := st.Addr.(*ssa.Alloc); isCell {
							okCell := true
							for _, r := range *cell.Referrers() {
								switch x := r.(type) {
								case *ssa.Store, *ssa.DebugRef:
								case *ssa.UnOp:
									if len(e19NonDebugRefs(x)) > 0 && !core.ErrKnownNilAt(errV, x) {
										okCell = false
										bad = fmt.Sprintf("the variable holding the index is read at %s where the lookup's error is not known to be nil", c.Pos(x))
									}
								case *ssa.MakeClosure:
									if !core.ErrKnownNilAt(errV, x) {
										okCell = false
										bad = fmt.Sprintf("a closure capturing the index is created at %s where the lookup's error is not known to be nil", c.Pos(x))
									}
								default:
									okCell = false
									bad = fmt.Sprintf("the address of the variable holding the index escapes at %s", c.Pos(r))
								}
							}
							if okCell {
								continue
							}
							break
						}
					}
					bad = fmt.Sprintf("the index is used at %s where the lookup's error is not known to be nil", c.Pos(u))
				}
				if bad != "" {
					c.Bad(key, c.Pos(call), bad+": on failure the index is -1")
				} else {
					c.Ok(key, c.Pos(call), "every use of the index is a pass-through return or dominated by err == nil")
				}
				continue
			}
			// error discarded: look for a dominating successful lookup of the same reference
			var val ssa.Instruction
			for _, other := range core.Calls(fn) {
				oc, ok := other.(*ssa.Call)
				if !ok || oc == call || !core.Dominates(oc, call) {
					continue
				}
				if !c.P.CallReaches(oc, isLookup) {
					continue
				}
				same := false
				for _, a := range oc.Common().Args {
					if core.SameVal(core.Strip(a), core.Strip(ref)) {
						same = true
					}
				}
				if !same {
					continue
				}
				// its error result must be known nil at the discarded site
				var oe ssa.Value
				if core.IsErrorType(oc.Type()) {
					oe = oc
				} else if oc.Referrers() != nil {
					for _, r := range *oc.Referrers() {
						if ex, ok := r.(*ssa.Extract); ok && core.IsErrorType(ex.Type()) {
							oe = ex
						}
					}
				}
				if oe != nil && e19ErrNilAt(oe, nil, call) {
					val = oc
				}
			}
			if val != nil {
				c.Ok(key, c.Pos(call), fmt.Sprintf("error discarded, but the same reference was resolved successfully by the error-checked call at %s on every path to this site", c.Pos(val)))
				continue
			}
			first := uses[0]
			c.Bad(key, c.Pos(call), fmt.Sprintf("the error of %s is discarded and no error-checked lookup of the same reference dominates this site; when the field is unknown or ambiguous the result is -1 and is used at %s (index out of range → internal Fatal Error)", e19ShortFn(c.P.Name(callee)), c.Pos(first)))
		}
	}
}

func e19ShortFn(n string) string {
	if i := strings.LastIndex(n, "/"); i >= 0 {
		n = n[i+1:]
	}
	return n
}

// e19ExprLabel: a stable, line-free label for an argument expression.
func e19ExprLabel(v ssa.Value) string {
	v = core.Strip(v)
	switch x := v.(type) {
	case *ssa.Parameter:
		return x.Name()
	case *ssa.Field:
		return e19ExprLabel(x.X) + "." + core.FieldName(x)
	case *ssa.UnOp:
		switch a := x.X.(type) {
		case *ssa.FieldAddr:
			return e19ExprLabel(a.X) + "." + core.FieldName(a)
		case *ssa.IndexAddr:
			return e19ExprLabel(a.X) + "[]"
		case *ssa.Alloc:
			if a.Comment != "" {
				return a.Comment
			}
		case *ssa.FreeVar:
			return a.Name()
		}
	case *ssa.Phi:
		if x.Comment != "" {
			return x.Comment
		}
	case *ssa.Extract:
		if n, ok := x.Tuple.(*ssa.Next); ok {
			_ = n
			return "range-element"
		}
		if call, ok := x.Tuple.(*ssa.Call); ok {
			return fmt.Sprintf("%s#%d", calleeLabel(call), x.Index)
		}
	case *ssa.IndexAddr:
		return e19ExprLabel(x.X) + "[]"
	case *ssa.Alloc:
		if x.Comment != "" {
			return x.Comment
		}
	case *ssa.Call:
		return "result of " + calleeLabel(x)
	}
	return types.TypeString(v.Type(), func(p *types.Package) string { return p.Name() })
}

// ---------------------------------------------------------------------------
// R-ERR-6

var err6Exceptions = map[string]string{
	"lib/query.TableAttributeUnchangedError": "a notice returned by the FileInfo setters and consumed by SetTableAttribute / the ALTER TABLE processor arm; if it ever escaped, cli.Exit's default arm maps it to the application code",
}

// e19Asserted: some function of lib/query contains a comma-ok type assertion to *T or T.
func e19Asserted(c *Ctx, named *types.Named) bool {
	for _, fn := range c.P.FuncsIn(false, "lib/query") {
		for _, b := range fn.Blocks {
			for _, in := range b.Instrs {
				ta, ok := in.(*ssa.TypeAssert)
				if !ok || !ta.CommaOk {
					continue
				}
				t := ta.AssertedType
				if p, isP := t.(*types.Pointer); isP {
					t = p.Elem()
				}
				if types.Identical(t, named) {
					return true
				}
			}
		}
	}
	return false
}

func ruleErr6(c *Ctx) {
	qpk := c.P.ByPath["lib/query"]
	if qpk == nil {
		c.Unknown("anchor:lib/query", "-", "cannot-analyse: package lib/query not loaded")
		return
	}
	errObj := qpk.Types.Scope().Lookup("Error")
	baseObj := qpk.Types.Scope().Lookup("BaseError")
	if errObj == nil || baseObj == nil {
		c.Unknown("anchor:lib/query.Error", "-", "cannot-analyse: lib/query.Error / BaseError not declared")
		return
	}
	qErr, ok := errObj.Type().Underlying().(*types.Interface)
	if !ok {
		c.Unknown("anchor:lib/query.Error", "-", "cannot-analyse: lib/query.Error is not an interface")
		return
	}
	basePtr := types.NewPointer(baseObj.Type())
	errIface := types.Universe.Lookup("error").Type().Underlying().(*types.Interface)

	// (a) types
	errTypes := map[*types.Named]bool{}
	pkgs := []string{"lib/query"}
	for _, pk := range c.P.Pkgs {
		if strings.HasSuffix(pk.PkgPath, core.ControlPkg) {
			pkgs = append(pkgs, core.Short(pk.PkgPath))
		}
	}
	for _, short := range pkgs {
		pk := c.P.ByPath[short]
		if pk == nil {
			continue
		}
		sc := pk.Types.Scope()
		for _, n := range sc.Names() {
			tn, ok := sc.Lookup(n).(*types.TypeName)
			if !ok || tn.IsAlias() {
				continue
			}
			named, ok := tn.Type().(*types.Named)
			if !ok {
				continue
			}
			if _, isI := named.Underlying().(*types.Interface); isI {
				continue
			}
			ptr := types.NewPointer(named)
			if !types.Implements(named, errIface) && !types.Implements(ptr, errIface) {
				continue
			}
			if short != "lib/query" && !strings.HasPrefix(n, "Ctl") {
				continue
			}
			key := short + "." + n + ": has Code()"
			pos := c.P.Pos(tn.Pos())
			if types.Implements(named, qErr) || types.Implements(ptr, qErr) {
				errTypes[named] = true
				c.Ok(key, pos, "implements query.Error")
			} else if why, ok := err6Exceptions[short+"."+n]; ok {
				// side condition: the type never reaches cli.Exit as the top-level error — every function
				// that calls its constructor's callers type-asserts it; checked as: each constructor of
				// the type is called only inside lib/query and some function of lib/query asserts *T
				if e19Asserted(c, named) {
					c.Ok(key, pos, "frozen exception: "+why+" — side condition checked: the type is consumed by a type assertion inside lib/query")
				} else {
					c.Bad(key, pos, "frozen exception ("+why+") no longer holds: no function of lib/query type-asserts this notice")
				}
			} else {
				c.Bad(key, pos, "implements error but not query.Error: cli.Exit would map it to the generic application code and Number()/Code() are unavailable to callers")
			}
		}
	}

	// (b) allocations of error types set a non-nil *BaseError
	embeddedIdx := func(named *types.Named) int {
		st, ok := named.Underlying().(*types.Struct)
		if !ok {
			return -1
		}
		for i := 0; i < st.NumFields(); i++ {
			if st.Field(i).Embedded() && types.Identical(st.Field(i).Type(), basePtr) {
				return i
			}
		}
		return -1
	}
	newBase := map[string]bool{"lib/query.NewBaseError": true, "lib/query.NewBaseErrorWithPrefix": true}
	for n := range newBase {
		c.Fn(n)
	}
	cnt := map[string]int{}
	for _, fn := range c.P.FuncsIn(false, "lib/query", "lib/cli", "lib/action", "main") {
		for _, b := range fn.Blocks {
			for _, in := range b.Instrs {
				al, ok := in.(*ssa.Alloc)
				if !ok {
					continue
				}
				named, ok := al.Type().Underlying().(*types.Pointer).Elem().(*types.Named)
				if !ok || !errTypes[named] {
					continue
				}
				idx := embeddedIdx(named)
				if idx < 0 {
					continue // BaseError itself or a type that implements Error by hand
				}
				c.Sites++
				c.Touch(fn)
				cnt[c.P.Name(fn)+named.Obj().Name()]++
				key := c.KeyAt(fn, "new "+named.Obj().Name()+": BaseError set")
				if n := cnt[c.P.Name(fn)+named.Obj().Name()]; n > 1 {
					key = fmt.Sprintf("%s #%d", key, n)
				}
				var stored ssa.Value
				var at ssa.Instruction
				whole := false
				for _, r := range *al.Referrers() {
					switch x := r.(type) {
					case *ssa.FieldAddr:
						if x.Field == idx {
							for _, r2 := range *x.Referrers() {
								if st, ok := r2.(*ssa.Store); ok && st.Addr == x {
									stored, at = st.Val, st
								}
							}
						}
					case *ssa.Store:
						if x.Addr == al {
							whole = true
						}
					}
				}
				switch {
				case whole:
					c.Ok(key, c.Pos(al), "copy of an existing error value")
				case stored == nil:
					c.Bad(key, c.Pos(al), "the embedded *BaseError is left nil: Error()/Code() on this value dereference nil")
				default:
					nonNil := false
					switch s := stored.(type) {
					case *ssa.Alloc:
						nonNil = true
					case *ssa.Call:
						if f := s.Common().StaticCallee(); f != nil && core.AlwaysNonNil(f, 0) {
							nonNil = true
						}
					}
					if !nonNil && core.NonNilAt(stored, at) {
						nonNil = true
					}
					c.Check(nonNil, key, c.Pos(al), "embedded *BaseError is a fresh allocation / result of an always-non-nil constructor", "the value stored into the embedded *BaseError ("+valueLabel(stored)+") is not provably non-nil")
				}
			}
		}
	}

	// (c) codes are non-zero
	userCode := map[string]string{
		"lib/query.NewForcedExit":         "EXIT <n>: the user chooses the code, 0 is a clean exit by definition",
		"lib/query.NewUserTriggeredError": "TRIGGER ERROR <n>: the user chooses the code",
		"lib/query.NewSignalReceived":     "128 + signal number (signal numbers are positive)",
	}
	bounds := core.NewBounds(c.P)
	codeField := (*types.Var)(nil)
	if st, ok := baseObj.Type().Underlying().(*types.Struct); ok {
		for i := 0; i < st.NumFields(); i++ {
			if st.Field(i).Name() == "code" {
				codeField = st.Field(i)
			}
		}
	}
	if codeField == nil {
		c.Unknown("anchor:lib/query.BaseError.code", "-", "cannot-analyse: BaseError has no field `code`")
	}
	cnt = map[string]int{}
	checkCode := func(fn *ssa.Function, v ssa.Value, at ssa.Instruction, what string) {
		c.Sites++
		c.Touch(fn)
		cnt[c.P.Name(fn)+what]++
		key := c.KeyAt(fn, what+": code ≠ 0")
		if n := cnt[c.P.Name(fn)+what]; n > 1 {
			key = fmt.Sprintf("%s #%d", key, n)
		}
		if k, ok := core.ConstInt(v); ok {
			c.Check(k != 0, key, c.Pos(at), fmt.Sprintf("constant %d", k), "the error code is the constant 0: the process would exit 0 on this error")
			return
		}
		a := bounds.Eval(v, at, core.KInt)
		if a.ExcludesZero() {
			c.Ok(key, c.Pos(at), fmt.Sprintf("code ∈ [%g, %g]", a.Lo, a.Hi))
			return
		}
		root := fn
		for root.Parent() != nil {
			root = root.Parent()
		}
		if why, ok := userCode[c.P.Name(root)]; ok {
			c.Ok(key, c.Pos(at), "frozen exception: "+why)
			return
		}
		// a parameter handed on by a wrapper: the wrapper's callers are checked instead
		if p, ok := v.(*ssa.Parameter); ok && newBase[c.P.Name(p.Parent())] {
			c.Ok(key, c.Pos(at), "constructor parameter; every call site of the constructor is checked")
			return
		}
		c.Bad(key, c.Pos(at), "the error code "+valueLabel(v)+" is not provably non-zero: an error could end the process with exit code 0")
	}
	for _, fn := range c.P.FuncsIn(false, "lib/query", "lib/cli", "lib/action", "main") {
		for _, b := range fn.Blocks {
			for _, in := range b.Instrs {
				switch x := in.(type) {
				case *ssa.Call:
					if f := x.Common().StaticCallee(); f != nil && newBase[c.P.Name(f)] && len(x.Common().Args) == 4 {
						checkCode(fn, x.Common().Args[2], x, e19ShortFn(c.P.Name(f)))
					}
				case *ssa.Store:
					if fa, ok := x.Addr.(*ssa.FieldAddr); ok && codeField != nil {
						if st := fa.X.Type().Underlying().(*types.Pointer).Elem().Underlying().(*types.Struct); fa.Field < st.NumFields() && st.Field(fa.Field) == codeField {
							checkCode(fn, x.Val, x, "BaseError{code}")
						}
					}
				}
			}
		}
	}

	// (d) lib/cli.Exit
	exit := c.Fn("lib/cli.Exit")
	if exit == nil {
		return
	}
	errParam := exit.Params[0]
	nRet := 0
	for _, r := range core.Returns(exit) {
		nRet++
		key := c.KeyAt(exit, fmt.Sprintf("return #%d", nRet))
		for _, v := range core.ReturnOperand(r, 0) {
			if v == nil || core.IsNilConst(v) {
				okNil := false
				for _, f := range core.FactsAt(r.Block()) {
					if x, neq, ok := core.NilCmp(f.Cond); ok && x == errParam && neq == f.Neg {
						okNil = true // err == nil
					}
					if b, ok := f.Cond.(*ssa.BinOp); ok && !f.Neg && b.Op.String() == "==" {
						if k, isK := core.ConstInt(b.Y); isK && k == 0 {
							if call, ok := b.X.(*ssa.Call); ok && call.Common().IsInvoke() && call.Common().Method.Name() == "Code" {
								okNil = true // ForcedExit with code 0
							}
							if call, ok := b.X.(*ssa.Call); ok {
								if f := call.Common().StaticCallee(); f != nil && f.Name() == "Code" {
									okNil = true
								}
							}
						}
					}
				}
				c.Check(okNil, key, c.Pos(r), "nil only for a nil error / an exit with code 0", "Exit returns nil (exit code 0) although the error is non-nil and not an EXIT 0")
				continue
			}
			call, ok := core.Strip(v).(*ssa.Call)
			if !ok || c.P.CalleeName(call) != "github.com/urfave/cli/v2.Exit" {
				c.Bad(key, c.Pos(r), "Exit returns "+valueLabel(v)+" instead of the result of urfave cli.Exit(message, code)")
				continue
			}
			codeOK, why := true, ""
			for _, o := range core.Origins(call.Common().Args[1], false) {
				if k, isK := core.ConstInt(o); isK {
					if k == 0 {
						codeOK, why = false, "constant 0"
					}
					continue
				}
				if oc, ok := o.(*ssa.Call); ok && oc.Common().IsInvoke() && oc.Common().Method.Name() == "Code" {
					continue
				}
				codeOK, why = false, valueLabel(o)
			}
			c.Check(codeOK, key, c.Pos(r), "exit code is the non-zero application code or Error.Code()", "exit code may be "+why)
		}
	}
}
