package rules

import (
	"fmt"
	"go/token"
	"go/types"
	"sort"
	"strings"

	"golang.org/x/tools/go/ssa"

	"verif/checker/core"
)

// R-SET-3 — the left-hand result of a set operation goes through the operator.
//
// UNION / EXCEPT / INTERSECT without ALL are also what removes the duplicates of the LEFT-hand
// rows. A shortcut that returns the left-hand view as it is because the right-hand result is
// empty (the recursion of a recursive CTE ends on an empty step — if that is the first step, the
// result of the base query has never been through the operator) splits the bucket of two equal
// base rows: 'WITH RECURSIVE r(n) AS (SELECT n FROM d UNION SELECT n+1 FROM r WHERE n > 100)'
// over 1, 1, 2 returned 1, 1, 2.

func init() {
	Register(&Rule{ID: "R-SET-3", Props: []string{"C04", "C03"}, Floor: 2,
		Doc: "in every lib/query function that receives a parser.SelectSet and combines two views by it (it calls (*View).Union, Except or Intersect, or hands its set to a function that does — the operator switch may live in a helper: selectSet, selectSetForRecursion — found by role), every path from the entry to a return that may report success passes the dispatch on set.Operator.Token (a comparison of that field: the switch whose arms call the operators; that each arm calls the right operator with the right ALL flag is R-REL-2) or a call that hands the set to another such function (which is judged on its own). " +
			"No test on the number of rows of an operand may route a successful return around the operator: with an empty right-hand side UNION and EXCEPT still remove the duplicates of the left-hand rows and INTERSECT returns none. Returns that certainly report an error (dominated by err != nil, or returning a freshly constructed error) are not success returns",
		Controls: []string{"CtlSetAnchorSkipsOperator"},
		Run:      ruleSet3})
}

func ruleSet3(c *Ctx) {
	setT := c.P.Type("lib/parser", "SelectSet")
	if setT == nil {
		c.Unknown("anchor: lib/parser.SelectSet", "-", "cannot-analyse: type not found")
		return
	}
	ops := map[string]bool{"lib/query.(*View).Union": true, "lib/query.(*View).Except": true, "lib/query.(*View).Intersect": true}
	n := 0
	setParam := func(fn *ssa.Function) *ssa.Parameter {
		for _, p := range fn.Params {
			if types.Identical(p.Type(), setT) {
				return p
			}
		}
		return nil
	}
	cands := map[*ssa.Function]bool{}
	var order []*ssa.Function
	for _, fn := range c.P.FuncsIn(true, "lib/query") {
		if fn.Parent() != nil || fn.Blocks == nil || setParam(fn) == nil {
			continue
		}
		for _, call := range core.Calls(fn) {
			if ops[c.P.CalleeName(call)] {
				cands[fn] = true
			}
		}
		if cands[fn] {
			order = append(order, fn)
		}
	}
	// passesSet: the call hands the function's set parameter (or the local cell it was spilled to) to the callee
	passesSet := func(call ssa.CallInstruction, set *ssa.Parameter) bool {
		for _, a := range call.Common().Args {
			for _, o := range core.Origins(a, false) {
				if o == ssa.Value(set) {
					return true
				}
				if u, ok := o.(*ssa.UnOp); ok {
					if al, ok := u.X.(*ssa.Alloc); ok && al.Referrers() != nil {
						for _, r := range *al.Referrers() {
							if st, ok := r.(*ssa.Store); ok && st.Addr == ssa.Value(al) && st.Val == ssa.Value(set) {
								return true
							}
						}
					}
				}
			}
		}
		return false
	}
	// a function that hands its set to a function that combines by it combines by it too (the operator
	// switch extracted into a helper)
	for changed := true; changed; {
		changed = false
		for _, fn := range c.P.FuncsIn(true, "lib/query") {
			if cands[fn] || fn.Parent() != nil || fn.Blocks == nil || setParam(fn) == nil {
				continue
			}
			for _, call := range core.Calls(fn) {
				if g := core.StaticCallee(call); g != nil && g != fn && cands[g] && passesSet(call, setParam(fn)) {
					cands[fn] = true
					order = append(order, fn)
					changed = true
					break
				}
			}
		}
	}
	sort.Slice(order, func(i, j int) bool { return c.P.Name(order[i]) < c.P.Name(order[j]) })
	for _, fn := range order {
		set := setParam(fn)
		n++
		c.Touch(fn)
		key := c.KeyAt(fn, "the left-hand result passes the set operator on every success path")
		// the dispatch: a comparison of set.Operator.Token
		isToken := func(v ssa.Value) bool {
			for _, o := range core.Origins(v, false) {
				if l := valuePathLabel(o); strings.HasPrefix(l, set.Name()+".") && strings.HasSuffix(l, "Operator.Token") {
					return true
				}
			}
			return false
		}
		dispatch := 0
		isTarget := func(in ssa.Instruction) bool {
			switch x := in.(type) {
			case *ssa.BinOp:
				if (x.Op == token.EQL || x.Op == token.NEQ) && (isToken(x.X) || isToken(x.Y)) {
					dispatch++
					return true
				}
			case ssa.CallInstruction:
				// the set is handed to another function that combines by it: that function is judged on its own
				if g := core.StaticCallee(x); g != nil && g != fn && cands[g] && passesSet(x, set) {
					return true
				}
			case *ssa.Return:
				// a return that cannot report success is no exit of interest
				k := len(x.Results) - 1
				if k < 0 || !core.IsErrorType(x.Results[k].Type()) {
					return false
				}
				return errorExit(c, x.Block()) || !errMayBeNil(x, k)
			}
			return false
		}
		for _, b := range fn.Blocks {
			for _, in := range b.Instrs {
				if _, isRet := in.(*ssa.Return); !isRet {
					isTarget(in)
				}
			}
		}
		delegates := false
		for _, call := range core.Calls(fn) {
			if g := core.StaticCallee(call); g != nil && g != fn && cands[g] && passesSet(call, set) {
				delegates = true
			}
		}
		if dispatch == 0 && !delegates {
			c.Unknown(key, c.FnPos(fn), "cannot-analyse: the function calls a set operator but never compares "+set.Name()+".Operator.Token")
			continue
		}
		if leak := core.EscapeFromEntry(fn, isTarget, nil); leak != nil {
			c.Bad(key, c.Pos(leak), fmt.Sprintf("the return at %s can report success although the set operator was never reached: the left-hand rows are returned as they are — UNION / EXCEPT without ALL do not remove their duplicates, INTERSECT does not empty them (a recursive CTE whose first recursive step is empty returns the duplicates of its base query)", c.Pos(leak)))
		} else {
			c.Ok(key, c.FnPos(fn), "every path to a return that may report success passes the dispatch on the operator")
		}
	}
	c.Sites += n
}
