package rules

import (
	"fmt"
	"go/constant"
	"go/token"
	"go/types"
	"strings"

	"golang.org/x/tools/go/ssa"

	"verif/checker/core"
)

// R-GRP-1 — the implicit single group of a query without GROUP BY exists for
// every input, also the empty one. Without GROUP BY an aggregate in the select
// list or in the HAVING condition makes all records one group; over an input
// without records that group still exists (COUNT = 0, SUM/MIN/MAX = NULL, and
// HAVING is evaluated on those values). Two clauses are decided at every site
// that forms the implicit group (a call of (*View).group with the constant nil
// as its items, or of the function group dispatches to for that case):
//
//	formed:  the site is not reached only through "the evaluation complained that
//	         the records are not grouped" (the ok-edge of a type assertion of an
//	         error to *NotGroupingRecordsError): over an empty input nothing is
//	         evaluated, nothing complains, and no group is formed at all;
//	record:  after the site the view holds at least one record on every path to a
//	         successful return — the grouping function creates the record of the
//	         empty group itself, or the caller does (a store of an append into
//	         view.RecordSet) on every path that is not known to have records.
//
// No overlay control is possible: the grouping functions and View.isGrouped are
// unexported (as for R-LOCK-4); the rule is guarded by its floor, anchors and mutants.

const (
	igGroup    = "lib/query.(*View).group"
	igItems    = "[]github.com/mithrandie/csvq/lib/parser.QueryExpression"
	igNotGroup = "lib/query.NotGroupingRecordsError"
)

func init() {
	Register(&Rule{ID: "R-GRP-1", Props: []string{"C04", "C03"}, Floor: 4,
		Doc: "the implicit group of a query without GROUP BY exists for every input, also the empty one. At every site of lib/query that forms the implicit group (a call of (*View).group whose items argument is the constant nil, or a direct call of a *View method that sets isGrouped and takes no grouping items) two obligations: (formed) the site is not dominated by the ok-edge of a type assertion of an error to *NotGroupingRecordsError — a grouping that is decided by an evaluation error never happens on an input without records, where nothing is evaluated; (record) after the site the view has at least one record on every path to a return whose error can be nil: either the grouping function guarantees it (evaluated under the hypothesis items == nil: every successful path passes the true edge of a `0 < RecordLen()`-like test or a store of an append into the receiver's RecordSet), or the caller passes such a store on every path that does not leave by an edge on which the record set is known not to be empty",
		Run: ruleGrp1})
}

// igLenOfView: v is view.RecordLen() or len(view.RecordSet).
func igLenOfView(c *Ctx, v ssa.Value) bool {
	call, ok := v.(*ssa.Call)
	if !ok {
		return false
	}
	if b, ok := call.Call.Value.(*ssa.Builtin); ok && b.Name() == "len" && len(call.Call.Args) == 1 {
		fa := fxFieldLoad(call.Call.Args[0])
		return fa != nil && core.FieldOwner(fa) == "lib/query.View.RecordSet"
	}
	return c.P.CalleeName(call) == "lib/query.(*View).RecordLen"
}

// igNonEmptyFact: the condition (negated when neg) says the view has a record.
func igNonEmptyFact(c *Ctx, cond ssa.Value, neg bool) bool {
	b, ok := cond.(*ssa.BinOp)
	if !ok {
		return false
	}
	op := b.Op
	var k ssa.Value
	switch {
	case igLenOfView(c, b.X):
		k = b.Y
	case igLenOfView(c, b.Y):
		k = b.X
		switch op { // k op L  ==  L op' k
		case token.LSS:
			op = token.GTR
		case token.GTR:
			op = token.LSS
		case token.LEQ:
			op = token.GEQ
		case token.GEQ:
			op = token.LEQ
		}
	default:
		return false
	}
	kc, ok := k.(*ssa.Const)
	if !ok || kc.Value == nil || kc.Value.Kind() != constant.Int {
		return false
	}
	n, _ := constant.Int64Val(kc.Value)
	if neg {
		switch op {
		case token.LSS:
			op = token.GEQ
		case token.GTR:
			op = token.LEQ
		case token.LEQ:
			op = token.GTR
		case token.GEQ:
			op = token.LSS
		case token.EQL:
			op = token.NEQ
		case token.NEQ:
			op = token.EQL
		}
	}
	switch op {
	case token.GTR:
		return n >= 0
	case token.GEQ:
		return n >= 1
	case token.NEQ:
		return n == 0
	}
	return false
}

func igNonEmptyEdge(c *Ctx, from, to *ssa.BasicBlock) bool {
	if len(from.Instrs) == 0 || len(from.Succs) != 2 || from.Succs[0] == from.Succs[1] {
		return false
	}
	iff, ok := from.Instrs[len(from.Instrs)-1].(*ssa.If)
	if !ok {
		return false
	}
	return igNonEmptyFact(c, iff.Cond, to == from.Succs[1])
}

// igCreatesRecord: a store of an append into the RecordSet of the view.
func igCreatesRecord(in ssa.Instruction, view []ssa.Value) bool {
	st, ok := in.(*ssa.Store)
	if !ok {
		return false
	}
	fa, ok := st.Addr.(*ssa.FieldAddr)
	if !ok || core.FieldOwner(fa) != "lib/query.View.RecordSet" {
		return false
	}
	same := false
	for _, o := range core.Origins(fa.X, false) {
		for _, v := range view {
			if o == v {
				same = true
			}
		}
	}
	if !same {
		return false
	}
	for _, o := range core.Origins(st.Val, false) {
		if call, ok := o.(*ssa.Call); ok {
			if b, ok := call.Call.Value.(*ssa.Builtin); ok && b.Name() == "append" {
				return true
			}
		}
	}
	return false
}

// igEscape: a return whose error can be nil that is reachable from (b, start)
// without crossing a target; edges refuted by prune are not taken.
func igEscape(fn *ssa.Function, b *ssa.BasicBlock, start int, target func(ssa.Instruction) bool, prune func(from, to *ssa.BasicBlock) bool) ssa.Instruction {
	errIdx := core.ErrorResultIndex(fn)
	seen := map[*ssa.BasicBlock]bool{}
	var found ssa.Instruction
	var walk func(b *ssa.BasicBlock, start int)
	walk = func(b *ssa.BasicBlock, start int) {
		for i := start; i < len(b.Instrs) && found == nil; i++ {
			in := b.Instrs[i]
			if target(in) {
				return
			}
			if r, ok := in.(*ssa.Return); ok {
				if errIdx < 0 {
					found = r
					return
				}
				for _, v := range core.ReturnOperand(r, errIdx) {
					if core.ClassifyNil(v, r) != core.NonNil {
						found = r
					}
				}
				return
			}
			if _, ok := in.(*ssa.Panic); ok {
				return
			}
		}
		for _, s := range b.Succs {
			if found != nil || seen[s] || (prune != nil && prune(b, s)) {
				continue
			}
			seen[s] = true
			walk(s, 0)
		}
	}
	walk(b, start)
	return found
}

// igDeadWhenNil: the edge cannot be taken when the parameter is nil — the block ends in a
// test of the parameter (also through the cell it is hoisted into when a closure captures it,
// provided the parameter itself is the only value ever stored there) against nil.
func igDeadWhenNil(param *ssa.Parameter, from, to *ssa.BasicBlock) bool {
	if len(from.Instrs) == 0 || len(from.Succs) != 2 || from.Succs[0] == from.Succs[1] {
		return false
	}
	iff, ok := from.Instrs[len(from.Instrs)-1].(*ssa.If)
	if !ok {
		return false
	}
	b, ok := iff.Cond.(*ssa.BinOp)
	if !ok || (b.Op != token.EQL && b.Op != token.NEQ) {
		return false
	}
	x := b.X
	if core.IsNilConst(x) {
		x = b.Y
	} else if !core.IsNilConst(b.Y) {
		return false
	}
	os := core.Origins(x, false)
	if len(os) != 1 || os[0] != ssa.Value(param) {
		return false
	}
	isNil := b.Op == token.EQL // the condition holds when the parameter is nil
	if isNil {
		return to == from.Succs[1]
	}
	return to == from.Succs[0]
}

func igHasItemsParam(fn *ssa.Function) *ssa.Parameter {
	for _, p := range fn.Params {
		if types.TypeString(p.Type(), nil) == igItems {
			return p
		}
	}
	return nil
}

func ruleGrp1(c *Ctx) {
	grp := c.Fn(igGroup)
	if grp == nil {
		return
	}
	items := igHasItemsParam(grp)
	if items == nil || len(grp.Params) == 0 {
		c.Unknown("anchor:"+igGroup+" items parameter", c.FnPos(grp), "cannot-analyse: (*View).group has no parameter of type []parser.QueryExpression: the rule cannot tell the implicit grouping (items == nil) from GROUP BY")
		return
	}
	// the functions group dispatches to for the implicit group: *View methods that set isGrouped and take no items
	direct := map[*ssa.Function]bool{}
	for _, fn := range c.P.FuncsIn(false, "lib/query") {
		if fn == grp || fn.Signature.Recv() == nil || core.NamedOf(fn.Signature.Recv().Type()) != "lib/query.View" || igHasItemsParam(fn) != nil || len(fn.Params) == 0 {
			continue
		}
		for _, b := range fn.Blocks {
			for _, in := range b.Instrs {
				st, ok := in.(*ssa.Store)
				if !ok {
					continue
				}
				fa, ok := st.Addr.(*ssa.FieldAddr)
				if !ok || core.FieldOwner(fa) != "lib/query.View.isGrouped" {
					continue
				}
				if v, isConst := core.ConstBool(st.Val); isConst && v {
					for _, o := range core.Origins(fa.X, false) {
						if o == ssa.Value(fn.Params[0]) {
							direct[fn] = true
						}
					}
				}
			}
		}
	}
	// does the grouping function itself guarantee a record?
	guaranteed := map[*ssa.Function]bool{}
	calleeTarget := func(in ssa.Instruction) bool {
		ci, ok := in.(ssa.CallInstruction)
		if !ok {
			return false
		}
		f := core.StaticCallee(ci)
		return f != nil && guaranteed[f]
	}
	var directList []*ssa.Function
	for fn := range direct {
		directList = append(directList, fn)
	}
	sortFuncs(c.P, directList)
	for _, fn := range directList {
		c.Touch(fn)
		recv := []ssa.Value{fn.Params[0]}
		esc := igEscape(fn, fn.Blocks[0], 0,
			func(in ssa.Instruction) bool { return igCreatesRecord(in, recv) },
			func(from, to *ssa.BasicBlock) bool { return igNonEmptyEdge(c, from, to) })
		guaranteed[fn] = esc == nil
	}
	{
		recv := []ssa.Value{grp.Params[0]}
		esc := igEscape(grp, grp.Blocks[0], 0,
			func(in ssa.Instruction) bool { return igCreatesRecord(in, recv) || calleeTarget(in) },
			func(from, to *ssa.BasicBlock) bool {
				return igDeadWhenNil(items, from, to) || igNonEmptyEdge(c, from, to)
			})
		guaranteed[grp] = esc == nil
	}

	// a site: a call that forms the implicit group
	itemsIdx := -1
	for i, p := range grp.Params {
		if p == items {
			itemsIdx = i
		}
	}
	wrapper := map[*ssa.Function]bool{}
	isSite := func(ci ssa.CallInstruction) bool {
		callee := core.StaticCallee(ci)
		if callee == nil {
			return false
		}
		args := ci.Common().Args
		switch {
		case callee == grp:
			// GROUP BY hands over the items of its clause
			return itemsIdx >= 0 && itemsIdx < len(args) && core.IsNilConst(args[itemsIdx])
		case direct[callee], wrapper[callee]:
			return true
		}
		return false
	}
	// helper extraction: a *View method that forms the implicit group of its receiver on every
	// successful path IS an implicit grouping (its callers are sites too); it guarantees the record
	// when every successful path creates it or passes a grouping that does
	viewFns := c.P.FuncsIn(false, "lib/query")
	for round := 0; round < 4; round++ {
		changed := false
		for _, fn := range viewFns {
			if fn == grp || direct[fn] || wrapper[fn] || fn.Blocks == nil || len(fn.Params) == 0 || fn.Signature.Recv() == nil || core.NamedOf(fn.Signature.Recv().Type()) != "lib/query.View" {
				continue
			}
			onRecv := func(in ssa.Instruction) bool {
				ci, ok := in.(ssa.CallInstruction)
				if !ok || !isSite(ci) || len(ci.Common().Args) == 0 {
					return false
				}
				os := core.Origins(ci.Common().Args[0], false)
				return len(os) == 1 && os[0] == ssa.Value(fn.Params[0])
			}
			has := false
			for _, ci := range core.Calls(fn) {
				if onRecv(ci.(ssa.Instruction)) {
					has = true
				}
			}
			if !has || igEscape(fn, fn.Blocks[0], 0, onRecv, nil) != nil {
				continue
			}
			wrapper[fn] = true
			changed = true
			recv := []ssa.Value{fn.Params[0]}
			guaranteed[fn] = igEscape(fn, fn.Blocks[0], 0,
				func(in ssa.Instruction) bool { return igCreatesRecord(in, recv) || calleeTarget(in) },
				func(from, to *ssa.BasicBlock) bool { return igNonEmptyEdge(c, from, to) }) == nil
		}
		if !changed {
			break
		}
	}

	// the sites
	nSites := 0
	for _, fn := range viewFns {
		if fn == grp || direct[fn] {
			continue // the dispatch inside the grouping functions is not an entry site
		}
		n := 0
		for _, ci := range core.Calls(fn) {
			if !isSite(ci) {
				continue
			}
			callee := core.StaticCallee(ci)
			args := ci.Common().Args
			n++
			nSites++
			c.Sites++
			c.Touch(fn)
			in := ci.(ssa.Instruction)
			suffix := ""
			if n > 1 {
				suffix = fmt.Sprintf(" #%d", n)
			}
			// (formed)
			byError := false
			for _, f := range core.FactsAt(in.Block()) {
				if f.Neg {
					continue
				}
				ex, ok := f.Cond.(*ssa.Extract)
				if !ok || ex.Index != 1 {
					continue
				}
				ta, ok := ex.Tuple.(*ssa.TypeAssert)
				if ok && ta.CommaOk && core.NamedOf(ta.AssertedType) == igNotGroup && core.IsErrorType(ta.X.Type()) {
					byError = true
				}
			}
			keyF := c.KeyAt(fn, "implicit group is formed whatever the input"+suffix)
			if byError {
				c.Bad(keyF, c.Pos(in), "the implicit group of a query without GROUP BY is formed only after the evaluation returned a *NotGroupingRecordsError: over an input without records nothing is evaluated and nothing complains, so the group of the empty input is never formed here — the condition is not evaluated on it (SELECT COUNT(*) FROM empty HAVING COUNT(*) > 5 yields the row 0; SELECT 1 FROM empty HAVING COUNT(*) = 0 yields no row). Decide from the expression (HasAggregateFunction), as View.Select does")
			} else {
				c.Ok(keyF, c.Pos(in), "not decided by an evaluation error")
			}
			// (record)
			keyR := c.KeyAt(fn, "implicit group has a record on an empty input"+suffix)
			switch {
			case guaranteed[callee]:
				c.Ok(keyR, c.Pos(in), "the grouping function creates the record of the empty group itself (or runs only under a test that the view has records) on every successful path")
			case byError:
				c.Ok(keyR, c.Pos(in), "reached only after a record was being evaluated (the NotGroupingRecordsError edge): the view has records here; that the empty input gets no group at all is reported by the other obligation")
			default:
				view := core.Origins(args[0], false)
				esc := igEscape(fn, in.Block(), core.InstrIndex(in)+1,
					func(x ssa.Instruction) bool { return igCreatesRecord(x, view) || calleeTarget(x) },
					func(from, to *ssa.BasicBlock) bool { return igNonEmptyEdge(c, from, to) })
				if esc == nil {
					c.Ok(keyR, c.Pos(in), "every path from the grouping to a successful return creates the record of the empty group (a store of an append into view.RecordSet) or leaves by an edge on which the view is known to have records")
				} else {
					c.Bad(keyR, c.Pos(in), fmt.Sprintf("entry %s: the view is grouped as the implicit group, but on an input without records the grouping function sets isGrouped and creates no record, and the path to the return at %s creates none either: the group of the empty input does not exist — its aggregates are never reported (COUNT(*) = 0 is lost) and a later stage that tests isGrouped skips the creation as well", strings.TrimPrefix(c.P.Name(fn), "lib/query."), c.Pos(esc)))
				}
			}
		}
	}
	if nSites == 0 {
		c.Unknown("anchor:sites that form the implicit group", "-", "cannot-analyse: no function of lib/query calls (*View).group with nil items (or the function it dispatches to): the rule does not see where the implicit group is formed")
	}
}
