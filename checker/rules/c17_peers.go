package rules

import (
	"fmt"
	"go/token"
	"go/types"
	"sort"
	"strings"

	"golang.org/x/tools/go/ssa"

	"verif/checker/core"
)

// R-SRT-13 — ties are decided by the comparator.
//
// ORDER BY leaves one SortValues per record (View.sortValuesInEachRecord and
// the local lists of the same type). Whoever decides afterwards whether two
// records are peers under that order — RANK / DENSE_RANK / CUME_DIST /
// PERCENT_RANK, LIMIT … WITH TIES, LISTAGG's DISTINCT — must ask the relation
// the sort itself used: SortValues.EquivalentTo (or Less both ways). A
// serialised key is a different relation (it tags an integer and a float, it is
// what PARTITION BY buckets by), a look at single components is a third one.
//
// Decided as a flow property: a SortValues loaded from an element of a
// []SortValues is followed through φ, local cells, closures, parameters of the
// csvq functions it is handed to and results it is returned as; the only
// things that may consume it are the methods of SortValues that take another
// SortValues (the comparator: found by that role), a nil test, len/cap, and a
// store back into a record list (Swap, the cache).

func init() {
	Register(&Rule{ID: "R-SRT-13", Props: []string{"C17", "C07"}, Floor: 5,
		Doc: "the ORDER BY sort values of a record are compared by the comparator only: in lib/query (outside the methods of SortValues / SortValue) a value of type SortValues loaded from an element of a []SortValues (View.sortValuesInEachRecord, local lists of the same type) — followed through φ, local cells, closures, parameters of csvq functions it is passed to, results it is returned as — is consumed only by a method of SortValues that takes another SortValues (Less / EquivalentTo, recognised by that signature), by a comparison with nil, by len / cap, or by a store into an element of a []SortValues again. " +
			"Reported: a flow into SortValues.Serialize or any other function (a byte key is not the tie relation of the sort: it tells the integer 1 from the float 1.0), and element-wise access (indexing, slicing, ranging over the components) outside the comparator. One obligation per function that loads such an element",
		Controls: []string{"ctlPeersBySerializedKey", "ctlPeersByFirstComponent"},
		Run:      ruleSrt13})
}

type srt13Ctx struct {
	c        *Ctx
	svT      types.Type // lib/query.SortValues
	callers  map[*ssa.Function][]ssa.CallInstruction
	tracked  map[ssa.Value]bool
	problems []string
	compared int
	seenFn   map[*ssa.Function]bool
}

func ruleSrt13(c *Ctx) {
	svT := c.P.Type("lib/query", "SortValues")
	if svT == nil {
		c.Unknown("anchor:lib/query.SortValues", "-", "cannot-analyse: type lib/query.SortValues not found")
		return
	}
	if c.Fn("lib/query.(SortValues).EquivalentTo") == nil {
		return
	}
	fns := c.P.FuncsIn(true, "lib/query")
	// static call sites per callee (to follow a SortValues that is returned)
	callers := map[*ssa.Function][]ssa.CallInstruction{}
	for _, fn := range fns {
		for _, call := range core.Calls(fn) {
			if g := core.StaticCallee(call); g != nil {
				callers[g] = append(callers[g], call)
			}
		}
	}
	for _, fn := range fns {
		if srt13OwnMethod(svT, fn) {
			continue
		}
		var srcs []ssa.Value
		for _, b := range fn.Blocks {
			for _, in := range b.Instrs {
				if u, ok := in.(*ssa.UnOp); ok && u.Op == token.MUL && srt13IsElemAddr(svT, u.X) && types.Identical(u.Type(), svT) {
					srcs = append(srcs, u)
				}
			}
		}
		if len(srcs) == 0 {
			continue
		}
		c.Touch(fn)
		s := &srt13Ctx{c: c, svT: svT, callers: callers, tracked: map[ssa.Value]bool{}, seenFn: map[*ssa.Function]bool{}}
		for _, v := range srcs {
			s.follow(v, 0)
		}
		owner := fn
		for owner.Parent() != nil {
			owner = owner.Parent()
		}
		key := c.KeyAt(fn, "sort values of a record reach only the comparator")
		negative := c.P.IsControl(fn) && strings.HasPrefix(strings.ToLower(owner.Name()), "ok")
		if len(s.problems) > 0 {
			ps := dedup(s.problems)
			sort.Strings(ps)
			why := fmt.Sprintf("%d element(s) of a []SortValues loaded here; %s", len(srcs), strings.Join(ps, "; "))
			c.Bad(key, c.FnPos(fn), why)
			if negative {
				c.Unknown("negative-control:"+key, "-", "the rule reports "+fn.Name()+", a correct spelling: "+why)
			}
			continue
		}
		c.Ok(key, c.FnPos(fn), fmt.Sprintf("%d element(s) of a []SortValues loaded; %d use(s) as an operand of the comparator, every other use is a nil test, len, or a store into a record list", len(srcs), s.compared))
	}
}

// srt13OwnMethod: a method of SortValues / SortValue (the comparator and the serialiser themselves).
func srt13OwnMethod(svT types.Type, fn *ssa.Function) bool {
	for fn.Parent() != nil {
		fn = fn.Parent()
	}
	r := fn.Signature.Recv()
	if r == nil {
		return false
	}
	t := r.Type()
	if p, ok := t.(*types.Pointer); ok {
		t = p.Elem()
	}
	if types.Identical(t, svT) {
		return true
	}
	// the element type of SortValues
	if sl, ok := svT.Underlying().(*types.Slice); ok {
		e := sl.Elem()
		if p, ok := e.(*types.Pointer); ok {
			e = p.Elem()
		}
		return types.Identical(t, e)
	}
	return false
}

// srt13IsElemAddr: the address of an element of a []SortValues (or [n]SortValues).
func srt13IsElemAddr(svT types.Type, v ssa.Value) bool {
	ia, ok := v.(*ssa.IndexAddr)
	if !ok {
		return false
	}
	t := ia.X.Type().Underlying()
	if p, ok := t.(*types.Pointer); ok {
		t = p.Elem().Underlying()
	}
	switch x := t.(type) {
	case *types.Slice:
		return types.Identical(x.Elem(), svT)
	case *types.Array:
		return types.Identical(x.Elem(), svT)
	}
	return false
}

// srt13Comparator: a method of SortValues that takes another SortValues.
func (s *srt13Ctx) comparator(g *ssa.Function) bool {
	if g == nil || g.Signature.Recv() == nil || !types.Identical(g.Signature.Recv().Type(), s.svT) {
		return false
	}
	ps := g.Signature.Params()
	for i := 0; i < ps.Len(); i++ {
		if types.Identical(ps.At(i).Type(), s.svT) {
			return true
		}
	}
	return false
}

func (s *srt13Ctx) problem(in ssa.Instruction, what string) {
	s.problems = append(s.problems, what+" at "+s.c.Pos(in))
}

func (s *srt13Ctx) follow(v ssa.Value, depth int) {
	if v == nil || s.tracked[v] {
		return
	}
	s.tracked[v] = true
	if depth > 8 {
		return
	}
	refs := v.Referrers()
	if refs == nil {
		return
	}
	for _, in := range *refs {
		switch x := in.(type) {
		case *ssa.DebugRef:
		case *ssa.Phi:
			s.follow(x, depth)
		case *ssa.ChangeType:
			s.follow(x, depth)
		case *ssa.MakeInterface:
			s.follow(x, depth)
		case *ssa.Store:
			if x.Val != v {
				continue // v is the address: not a SortValues we track
			}
			switch a := x.Addr.(type) {
			case *ssa.Alloc:
				s.followCell(a, depth)
			case *ssa.FreeVar:
				s.followFreeVar(a, depth)
			case *ssa.IndexAddr:
				if !srt13IsElemAddr(s.svT, a) {
					s.problem(x, "stored into an element of "+a.X.Type().String())
				}
			default:
				s.problem(x, "stored into a location the rule does not follow ("+x.Addr.Type().String()+")")
			}
		case *ssa.BinOp:
			other := x.X
			if other == v {
				other = x.Y
			}
			if k, ok := other.(*ssa.Const); ok && k.Value == nil && (x.Op == token.EQL || x.Op == token.NEQ) {
				continue
			}
			s.problem(x, "operand of "+x.Op.String())
		case *ssa.Index, *ssa.IndexAddr, *ssa.Slice, *ssa.Range, *ssa.Lookup:
			s.problem(in, "its components are accessed one by one outside the comparator ("+strings.TrimPrefix(fmt.Sprintf("%T", in), "*ssa.")+")")
		case *ssa.Return:
			fn := x.Parent()
			idx := -1
			for i, r := range x.Results {
				if r == v {
					idx = i
				}
			}
			for _, call := range s.callers[fn] {
				cv := call.Value()
				if cv == nil {
					continue
				}
				if len(x.Results) == 1 {
					s.follow(cv, depth+1)
					continue
				}
				if rr := cv.Referrers(); rr != nil {
					for _, r := range *rr {
						if e, ok := r.(*ssa.Extract); ok && e.Index == idx {
							s.follow(e, depth+1)
						}
					}
				}
			}
		case *ssa.MakeClosure:
			// bound by value (go/ssa binds cells by address, values only for non-captured-by-reference)
			fn := x.Fn.(*ssa.Function)
			for i, b := range x.Bindings {
				if b == v && i < len(fn.FreeVars) {
					s.follow(fn.FreeVars[i], depth+1)
				}
			}
		case ssa.CallInstruction:
			s.call(x, v, depth)
		default:
			s.problem(in, "used by "+strings.TrimPrefix(fmt.Sprintf("%T", in), "*ssa."))
		}
	}
}

func (s *srt13Ctx) followCell(a *ssa.Alloc, depth int) {
	if s.tracked[a] {
		return
	}
	s.tracked[a] = true
	for _, r := range *a.Referrers() {
		switch y := r.(type) {
		case *ssa.UnOp:
			if y.Op == token.MUL {
				s.follow(y, depth)
			}
		case *ssa.MakeClosure:
			fn := y.Fn.(*ssa.Function)
			for i, b := range y.Bindings {
				if b == ssa.Value(a) && i < len(fn.FreeVars) {
					s.followFreeVar(fn.FreeVars[i], depth+1)
				}
			}
		}
	}
}

// followFreeVar: a captured cell (*SortValues): its loads inside the closure.
func (s *srt13Ctx) followFreeVar(fv *ssa.FreeVar, depth int) {
	if s.tracked[fv] {
		return
	}
	s.tracked[fv] = true
	if _, isPtr := fv.Type().Underlying().(*types.Pointer); !isPtr {
		s.follow(fv, depth)
		return
	}
	for _, r := range *fv.Referrers() {
		switch y := r.(type) {
		case *ssa.UnOp:
			if y.Op == token.MUL {
				s.follow(y, depth)
			}
		case *ssa.MakeClosure:
			fn := y.Fn.(*ssa.Function)
			for i, b := range y.Bindings {
				if b == ssa.Value(fv) && i < len(fn.FreeVars) {
					s.followFreeVar(fn.FreeVars[i], depth+1)
				}
			}
		}
	}
}

func (s *srt13Ctx) call(call ssa.CallInstruction, v ssa.Value, depth int) {
	com := call.Common()
	if b, ok := com.Value.(*ssa.Builtin); ok {
		if b.Name() == "len" || b.Name() == "cap" {
			return
		}
		s.problem(call, "argument of the builtin "+b.Name())
		return
	}
	if com.Value == v {
		s.problem(call, "called as a function")
		return
	}
	g := core.StaticCallee(call)
	if g == nil {
		s.problem(call, "passed to a dynamic call "+s.c.P.CalleeName(call))
		return
	}
	if s.comparator(g) {
		s.compared++
		return
	}
	inCsvq := s.c.P.InPkg(g, "lib/query") || s.c.P.IsControl(g)
	if !inCsvq || g.Blocks == nil || srt13OwnMethod(s.svT, g) {
		s.problem(call, "flows into "+s.c.P.FnRef(g)+", which is not the comparator of the sort (SortValues.EquivalentTo / Less)")
		return
	}
	// a csvq function: follow the parameter(s) / bindings the value arrives as
	args := com.Args
	for i, a := range args {
		if a == v && i < len(g.Params) {
			s.follow(g.Params[i], depth+1)
		}
	}
}
